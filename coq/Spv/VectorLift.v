(* A GENERIC vector-lifting theorem for the SPIR-V operator catalogue (Spv/Catalogue.v).

   The catalogue lemmas (Spv/CatalogueProofs.v) are about the SCALAR form of every template; the vector
   forms naga emits differ from it by splatted constants (OpConstantComposite of n equal components) and
   are compared with the catalogue after [erase_splat].  This file proves that this comparison is sound:

     for EVERY width n >= 1 (not just 2, 3, 4), EVERY component-wise template tv ([cw_shape] / [cw_template]),
     whose splats all have width n ([splats_width]), and EVERY environment of n-vectors, the vector
     evaluation [teval envv tv] is `Done (VVec [r_0; ...; r_{n-1}])` exactly when every component
     evaluation [teval (cenv i envv) (erase_splat tv)] of the SCALAR form is `Done r_i`; and it is not
     `Done` as soon as one component evaluation is not `Done` (so "never undefined behaviour" lifts, and
     so does every `_refuted` witness).

   The class of component-wise templates is syntactic and executable: operands, splats of a scalar
   constant / scalar operand, the core opcodes whose [eval_op] clause is [lift1 f] / [lift2 f] /
   [s_select] with a vector condition, the GLSL.std.450 instructions whose [eval_glsl] clause is
   [lift1 f] / [lift2 f] / [lift3v f], and single-block helper calls whose body is component-wise in its
   parameters.  OpDot, OpAny/OpAll, matrix products, OpCompositeExtract, OpVectorTimesScalar and the
   bit-field instructions (scalar offset/count) are NOT in the class; they keep their own lemmas.

   Definitions first (they are used by the executable obligation Spv/VectorLiftCheck.v over the regenerated
   probe table), then the proofs, then corollaries instantiating the theorem with the scalar lemmas. *)
From Coq Require Import List ZArith String Bool Lia Arith.
Import ListNotations.
Require Import Naga.Base.Bits32 Naga.Base.F32 Naga.IR.Values Naga.Spv.Ops Naga.Spv.Catalogue Naga.Spv.CatalogueProofs.
Open Scope Z_scope.
Local Notation length := List.length.

(* ------------------------------------------------------------------ *)
(* Definitions                                                          *)

Definition scalar (v : value) : bool := match v with VVec _ => false | _ => true end.
Definition is_done {A} (r : result A) : bool := match r with Done _ => true | _ => false end.

Definition zmem (o : Z) (l : list Z) : bool := existsb (Z.eqb o) l.

(* core opcodes whose eval_op clause is `lift1 f` *)
Definition cw1_ops : list Z := [109; 110; 111; 112; 124; 126; 127; 156; 157; 168; 200; 204; 205].
(* core opcodes whose eval_op clause is `lift2 f` (OpVectorTimesScalar 142 is a lift2 but mixes shapes: excluded) *)
Definition cw2_ops : list Z :=
  [128; 129; 130; 131; 132; 133; 134; 135; 136; 137; 138; 139; 140; 141; 164; 165; 166; 167;
   170; 171; 172; 173; 174; 175; 176; 177; 178; 179; 180; 181; 182; 183; 184; 185; 186; 187; 188; 189; 190; 191;
   194; 195; 196; 197; 198; 199].
Definition sel_op : Z := 169.
(* GLSL.std.450 instructions: lift1 / lift2 / lift3v *)
Definition cw1_ext : list Z := [1; 2; 3; 4; 5; 6; 7; 8; 9; 31; 73; 74; 75].
Definition cw2_ext : list Z := [37; 38; 39; 40; 41; 42; 79; 80].
Definition cw3_ext : list Z := [43; 44; 45; 50; 81].

(* what may be splatted: a scalar constant or a scalar operand *)
Definition uniform (isv : nat -> bool) (e : texp) : bool :=
  match e with
  | TConst _ _ | TBoolC _ => true
  | TArg i => negb (isv i)
  | _ => false
  end.

(* [isv i] = operand i is a vector (inside a helper body: every parameter is) *)
Fixpoint cw_shape (isv : nat -> bool) (t : texp) {struct t} : bool :=
  match t with
  | TArg i => isv i
  | TSplat _ e => uniform isv e
  | TOp o k args =>
    match args with
    | [a] => zmem o cw1_ops && cw_shape isv a
    | [a; b] => zmem o cw2_ops && cw_shape isv a && cw_shape isv b
    | [c; a; b] => (o =? sel_op) && cw_shape isv c && cw_shape isv a && cw_shape isv b
    | _ => false
    end
  | TExt o k args =>
    match args with
    | [a] => zmem o cw1_ext && cw_shape isv a
    | [a; b] => zmem o cw2_ext && cw_shape isv a && cw_shape isv b
    | [a; b; c] => zmem o cw3_ext && cw_shape isv a && cw_shape isv b && cw_shape isv c
    | _ => false
    end
  | THelper body args =>
    forallb (cw_shape isv) args && cw_shape (fun i => Nat.ltb i (List.length args)) body
  | _ => false
  end.

(* the class for the probed rows: every operand is a vector *)
Definition cw_template (t : texp) : bool := cw_shape (fun _ => true) t.

(* every splat in the template has width n *)
Fixpoint splats_width (n : nat) (t : texp) {struct t} : bool :=
  match t with
  | TOp _ _ args | TExt _ _ args => forallb (splats_width n) args
  | THelper body args => forallb (splats_width n) args && splats_width n body
  | TExtract _ e => splats_width n e
  | TSplat m e => Nat.eqb m n && splats_width n e
  | _ => true
  end.

(* the vector form of a scalar template: every constant splatted to width n.
   [erase_splat (vectorize n t) = t] for splat-free t (vectorize_erase below). *)
Fixpoint vectorize (n : nat) (t : texp) {struct t} : texp :=
  match t with
  | TConst _ _ | TBoolC _ => TSplat n t
  | TOp o k l => TOp o k (map (vectorize n) l)
  | TExt o k l => TExt o k (map (vectorize n) l)
  | THelper b l => THelper (vectorize n b) (map (vectorize n) l)
  | _ => t
  end.

(* component i of an operand; component environment i of a vector environment *)
Definition comp (i : nat) (v : value) : value :=
  match v with VVec l => nth i l (VBool false) | _ => v end.
Definition cenv (i : nat) (envv : list value) : list value := map (comp i) envv.

Definition nvec (n : nat) (v : value) : Prop :=
  exists l, v = VVec l /\ length l = n /\ forallb scalar l = true.

(* operand i is an n-vector of non-vector values when [isv i], a non-vector value otherwise *)
Definition env_ok (n : nat) (isv : nat -> bool) (envv : list value) : Prop :=
  forall i v, nth_error envv i = Some v -> if isv i then nvec n v else scalar v = true.

(* ------------------------------------------------------------------ *)
(* the result monad                                                     *)

Lemma rbind_done {A B} (r : result A) (f : A -> result B) v :
  rbind r f = Done v -> exists a, r = Done a /\ f a = Done v.
Proof. destruct r; simpl; intro H; try discriminate. eauto. Qed.

Lemma rbind_notdone {A B} (r : result A) (f : A -> result B) :
  is_done r = false -> is_done (rbind r f) = false.
Proof. destruct r; simpl; intro H; try discriminate; reflexivity. Qed.

Lemma not_done_ne {A} (r : result A) : is_done r = false -> forall v, r <> Done v.
Proof. intros H v E. rewrite E in H. discriminate. Qed.

Definition collect {A} (rs : list (result A)) : result (list A) := rmap (fun r => r) rs.

Lemma rmap_collect {A B} (f : A -> result B) l : rmap f l = collect (map f l).
Proof. unfold collect. induction l; simpl; [reflexivity|]. rewrite IHl. reflexivity. Qed.

Lemma collect_done {A} (rs : list (result A)) vs : collect rs = Done vs -> rs = map Done vs.
Proof.
  unfold collect. revert vs. induction rs as [|r rs IH]; simpl; intros vs H.
  - inversion H. reflexivity.
  - apply rbind_done in H. destruct H as (a & Ha & H). apply rbind_done in H. destruct H as (l & Hl & H).
    inversion H. subst. simpl. f_equal. apply IH. exact Hl.
Qed.

Lemma collect_map_Done {A} (vs : list A) : collect (map Done vs) = Done vs.
Proof. unfold collect. induction vs; simpl; [reflexivity|]. rewrite IHvs. reflexivity. Qed.

Lemma collect_notdone_in {A} (rs : list (result A)) r :
  In r rs -> is_done r = false -> is_done (collect rs) = false.
Proof.
  unfold collect. induction rs as [|x rs IH]; simpl; intros Hin Hr; [contradiction|].
  destruct Hin as [<-|Hin].
  - apply rbind_notdone. exact Hr.
  - destruct x; simpl; try reflexivity. apply rbind_notdone. apply IH; assumption.
Qed.

Lemma collect_notdone_ex {A} (rs : list (result A)) :
  is_done (collect rs) = false -> exists r, In r rs /\ is_done r = false.
Proof.
  unfold collect. induction rs as [|x rs IH]; simpl; intro H; [discriminate|].
  destruct x as [a| |m]; simpl in H.
  - destruct (rmap (fun r => r) rs) eqn:E; simpl in H; try discriminate.
    + destruct IH as (r & Hin & Hr); [reflexivity|]. exists r. split; [right; exact Hin | exact Hr].
    + destruct IH as (r & Hin & Hr); [reflexivity|]. exists r. split; [right; exact Hin | exact Hr].
  - exists OutOfFuel. split; [left; reflexivity | reflexivity].
  - exists (Fail m). split; [left; reflexivity | reflexivity].
Qed.

Lemma rmap_notdone_in {A B} (f : A -> result B) l a :
  In a l -> is_done (f a) = false -> is_done (rmap f l) = false.
Proof.
  intros Hin Hf. rewrite rmap_collect. apply collect_notdone_in with (r := f a); [|exact Hf].
  apply in_map. exact Hin.
Qed.

Lemma rmap_done_forall2 {A B} (f : A -> result B) l vs :
  rmap f l = Done vs -> Forall2 (fun a v => f a = Done v) l vs.
Proof.
  revert vs. induction l as [|a l IH]; simpl; intros vs H.
  - inversion H. constructor.
  - apply rbind_done in H. destruct H as (b & Hb & H). apply rbind_done in H. destruct H as (bs & Hbs & H).
    inversion H. subst. constructor; [exact Hb | apply IH; exact Hbs].
Qed.

(* [lifts R rs]: R is the vector of the component results rs (up to the failure message) *)
Definition lifts (R : result value) (rs : list (result value)) : Prop :=
  (forall vs, collect rs = Done vs -> R = Done (VVec vs))
  /\ (is_done (collect rs) = false -> is_done R = false).

Lemma lifts_done R rs vs : lifts R rs -> collect rs = Done vs -> R = Done (VVec vs).
Proof. intros [H _]. apply H. Qed.

Lemma lifts_fail R rs : is_done (collect rs) = false -> is_done R = false -> lifts R rs.
Proof. intros Hc HR. split; [|intros _; exact HR]. intros vs E. rewrite E in Hc. discriminate. Qed.

Lemma lifts_cases R rs : lifts R rs ->
  (exists vs, collect rs = Done vs /\ R = Done (VVec vs)) \/ (is_done (collect rs) = false /\ is_done R = false).
Proof.
  intros [H1 H2]. destruct (collect rs) eqn:E.
  - left. eexists. split; [reflexivity | apply H1; reflexivity].
  - right. split; [reflexivity | apply H2; reflexivity].
  - right. split; [reflexivity | apply H2; reflexivity].
Qed.

(* ------------------------------------------------------------------ *)
(* lists indexed by seq                                                 *)

Lemma map_nth_seq {A} (l : list A) d : map (fun i => nth i l d) (seq 0 (length l)) = l.
Proof.
  induction l as [|a l IH]; simpl; [reflexivity|]. f_equal.
  rewrite <- seq_shift, map_map. exact IH.
Qed.

Lemma map_seq_nth {A} (g : nat -> A) n i d : (i < n)%nat -> nth i (map g (seq 0 n)) d = g i.
Proof.
  intro H. transitivity (nth i (map g (seq 0 n)) (g 0%nat)).
  { apply nth_indep. rewrite map_length, seq_length. exact H. }
  rewrite map_nth with (f := g). rewrite seq_nth by exact H. reflexivity.
Qed.

Lemma collect_seq_done {A} (g : nat -> result A) n vs d :
  collect (map g (seq 0 n)) = Done vs -> length vs = n /\ forall i, (i < n)%nat -> g i = Done (nth i vs d).
Proof.
  intro H. apply collect_done in H.
  assert (L : length vs = n).
  { apply (f_equal (@length _)) in H. rewrite !map_length, seq_length in H. symmetry. exact H. }
  split; [exact L|]. intros i Hi.
  rewrite <- (map_seq_nth g n i (Done d) Hi). rewrite H.
  apply map_nth.
Qed.

(* ------------------------------------------------------------------ *)
(* component-wise operations lift                                       *)

Lemma collect_cons {A} (x : result A) rs :
  collect (x :: rs) = (y <~ x ;; ys <~ collect rs ;; Done (y :: ys)).
Proof. reflexivity. Qed.

Lemma lift1_scalar f v : scalar v = true -> lift1 f v = f v.
Proof. destruct v; simpl; intro H; try reflexivity; discriminate. Qed.
Lemma lift2_scalar f a b : scalar a = true -> scalar b = true -> lift2 f a b = f a b.
Proof. destruct a; simpl; intro H; try discriminate; destruct b; simpl; intro H'; try discriminate; reflexivity. Qed.
Lemma lift3v_scalar f a b c : scalar a = true -> lift3v f a b c = f a b c.
Proof. destruct a; simpl; intro H; try discriminate; reflexivity. Qed.

Definition zip3 (f : value -> value -> value -> result value) : list value -> list value -> list value -> result (list value) :=
  fix go l1 l2 l3 :=
  match l1, l2, l3 with
  | [], [], [] => Done []
  | x :: r1, y :: r2, z :: r3 => v <~ f x y z ;; vs <~ go r1 r2 r3 ;; Done (v :: vs)
  | _, _, _ => Fail "vector length mismatch"
  end.
Lemma lift3v_vec f l1 l2 l3 :
  lift3v f (VVec l1) (VVec l2) (VVec l3) = (vs <~ zip3 f l1 l2 l3 ;; Done (VVec vs)).
Proof.
  unfold lift3v. f_equal. revert l2 l3.
  induction l1 as [|x l1 IH]; intros [|y l2] [|z l3]; simpl; try reflexivity.
  rewrite IH. reflexivity.
Qed.

Fixpoint sel_go (cs la lr : list value) : result (list value) :=
  match cs, la, lr with
  | [], [], [] => Done []
  | VBool b :: cs', x :: la', y :: lr' => vs <~ sel_go cs' la' lr' ;; Done ((if b then x else y) :: vs)
  | _, _, _ => Fail "OpSelect: shapes"
  end.
Lemma s_select_vec cs la lr :
  s_select (VVec cs) (VVec la) (VVec lr) = (vs <~ sel_go cs la lr ;; Done (VVec vs)).
Proof.
  unfold s_select. f_equal. revert la lr.
  induction cs as [|c cs IH]; intros [|x la] [|y lr]; simpl; try reflexivity; destruct c; try reflexivity.
  rewrite IH. reflexivity.
Qed.

Section Lifting.
  Context {E : Type}.

  Definition scalars (idx : list E) (g : E -> result value) : Prop :=
    forall i v, In i idx -> g i = Done v -> scalar v = true.

  Lemma scalars_vs (g : E -> result value) idx vs :
    map g idx = map Done vs -> scalars idx g -> forallb scalar vs = true.
  Proof.
    revert vs. induction idx as [|i idx IH]; intros [|v vs] H S; simpl in *; try discriminate; [reflexivity|].
    injection H as H0 H. apply andb_true_intro. split.
    - apply (S i v); [left; reflexivity | exact H0].
    - apply IH; [exact H|]. intros j w Hj. apply S. right. exact Hj.
  Qed.

  Lemma collect_map_notdone (G : E -> result value) idx i :
    In i idx -> is_done (G i) = false -> is_done (collect (map G idx)) = false.
  Proof. intros Hi HG. eapply collect_notdone_in; [|exact HG]. apply in_map with (f := G). exact Hi. Qed.

  Lemma collect_map_notdone_ex (g : E -> result value) idx :
    is_done (collect (map g idx)) = false -> exists i, In i idx /\ is_done (g i) = false.
  Proof.
    intro H. destruct (collect_notdone_ex _ H) as (r & Hin & Hr).
    apply in_map_iff in Hin. destruct Hin as (i & <- & Hi). eauto.
  Qed.

  (* ---- unary ---- *)
  Lemma lift1_collect f (g : E -> result value) idx vs :
    map g idx = map Done vs -> forallb scalar vs = true ->
    collect (map (fun i => v <~ g i ;; lift1 f v) idx) = rmap f vs.
  Proof.
    revert vs. induction idx as [|i idx IH]; intros [|v vs] H S; simpl in *; try discriminate; [reflexivity|].
    injection H as H0 H. apply andb_prop in S. destruct S as [S0 S].
    rewrite collect_cons, H0. simpl. rewrite (lift1_scalar f v S0), (IH vs H S). reflexivity.
  Qed.

  Lemma lifts_lift1 f (g : E -> result value) R idx :
    lifts R (map g idx) -> scalars idx g ->
    lifts (v <~ R ;; lift1 f v) (map (fun i => v <~ g i ;; lift1 f v) idx).
  Proof.
    intros L S. destruct (lifts_cases _ _ L) as [(vs & Ec & ER) | (Ec & ER)].
    - rewrite ER. cbn [rbind]. apply collect_done in Ec.
      unfold lifts. rewrite (lift1_collect f g idx vs Ec (scalars_vs g idx vs Ec S)), lift1_vec.
      split.
      + intros ws Hw. rewrite Hw. reflexivity.
      + intro Hn. destruct (rmap f vs); simpl in *; try discriminate; reflexivity.
    - apply lifts_fail.
      + destruct (collect_map_notdone_ex g idx Ec) as (i & Hi & Hr).
        apply collect_map_notdone with (i := i); [exact Hi|]. apply rbind_notdone. exact Hr.
      + apply rbind_notdone. exact ER.
  Qed.

  (* ---- binary ---- *)
  Lemma lift2_collect f (ga gb : E -> result value) idx la lb :
    map ga idx = map Done la -> map gb idx = map Done lb ->
    forallb scalar la = true -> forallb scalar lb = true ->
    collect (map (fun i => a <~ ga i ;; b <~ gb i ;; lift2 f a b) idx) = zip_res f la lb.
  Proof.
    revert la lb. induction idx as [|i idx IH]; intros [|a la] [|b lb] Ha Hb Sa Sb; simpl in *; try discriminate; [reflexivity|].
    injection Ha as Ha0 Ha. injection Hb as Hb0 Hb.
    apply andb_prop in Sa. destruct Sa as [Sa0 Sa]. apply andb_prop in Sb. destruct Sb as [Sb0 Sb].
    rewrite collect_cons, Ha0, Hb0. simpl. rewrite (lift2_scalar f a b Sa0 Sb0), (IH la lb Ha Hb Sa Sb). reflexivity.
  Qed.

  Lemma bind2_notdone_r {A B C} (r1 : result A) (r2 : result B) (k : A -> B -> result C) :
    is_done r2 = false -> is_done (a <~ r1 ;; b <~ r2 ;; k a b) = false.
  Proof. intro H. destruct r1; simpl; try reflexivity. apply rbind_notdone. exact H. Qed.

  Lemma lifts_lift2 f (ga gb : E -> result value) Ra Rb idx :
    lifts Ra (map ga idx) -> lifts Rb (map gb idx) -> scalars idx ga -> scalars idx gb ->
    lifts (a <~ Ra ;; b <~ Rb ;; lift2 f a b) (map (fun i => a <~ ga i ;; b <~ gb i ;; lift2 f a b) idx).
  Proof.
    intros La Lb Sa Sb.
    destruct (lifts_cases _ _ La) as [(la & Eca & ERa) | (Eca & ERa)].
    - destruct (lifts_cases _ _ Lb) as [(lb & Ecb & ERb) | (Ecb & ERb)].
      + rewrite ERa, ERb. cbn [rbind]. apply collect_done in Eca. apply collect_done in Ecb.
        unfold lifts. rewrite (lift2_collect f ga gb idx la lb Eca Ecb (scalars_vs ga idx la Eca Sa) (scalars_vs gb idx lb Ecb Sb)), lift2_vec.
        split.
        * intros ws Hw. rewrite Hw. reflexivity.
        * intro Hn. destruct (zip_res f la lb); simpl in *; try discriminate; reflexivity.
      + apply lifts_fail.
        * destruct (collect_map_notdone_ex gb idx Ecb) as (i & Hi & Hr).
          apply collect_map_notdone with (i := i); [exact Hi|]. apply bind2_notdone_r. exact Hr.
        * apply bind2_notdone_r. exact ERb.
    - apply lifts_fail.
      + destruct (collect_map_notdone_ex ga idx Eca) as (i & Hi & Hr).
        apply collect_map_notdone with (i := i); [exact Hi|]. apply rbind_notdone. exact Hr.
      + apply rbind_notdone. exact ERa.
  Qed.

  (* ---- ternary, generic in the operation ---- *)
  Lemma bind3_notdone_3 {A B C D} (r1 : result A) (r2 : result B) (r3 : result C) (k : A -> B -> C -> result D) :
    is_done r3 = false -> is_done (a <~ r1 ;; b <~ r2 ;; c <~ r3 ;; k a b c) = false.
  Proof. intro H. destruct r1; simpl; try reflexivity. apply bind2_notdone_r. exact H. Qed.

  Lemma lifts_op3 (F : value -> value -> value -> result value) (ga gb gc : E -> result value) Ra Rb Rc idx :
    (forall la lb lc, map ga idx = map Done la -> map gb idx = map Done lb -> map gc idx = map Done lc ->
        forallb scalar la = true -> forallb scalar lb = true -> forallb scalar lc = true ->
        lifts (F (VVec la) (VVec lb) (VVec lc)) (map (fun i => a <~ ga i ;; b <~ gb i ;; c <~ gc i ;; F a b c) idx)) ->
    lifts Ra (map ga idx) -> lifts Rb (map gb idx) -> lifts Rc (map gc idx) ->
    scalars idx ga -> scalars idx gb -> scalars idx gc ->
    lifts (a <~ Ra ;; b <~ Rb ;; c <~ Rc ;; F a b c) (map (fun i => a <~ ga i ;; b <~ gb i ;; c <~ gc i ;; F a b c) idx).
  Proof.
    intros HD La Lb Lc Sa Sb Sc.
    destruct (lifts_cases _ _ La) as [(la & Eca & ERa) | (Eca & ERa)].
    - destruct (lifts_cases _ _ Lb) as [(lb & Ecb & ERb) | (Ecb & ERb)].
      + destruct (lifts_cases _ _ Lc) as [(lc & Ecc & ERc) | (Ecc & ERc)].
        * rewrite ERa, ERb, ERc. cbn [rbind]. apply collect_done in Eca. apply collect_done in Ecb. apply collect_done in Ecc.
          apply HD; try assumption; eapply scalars_vs; eassumption.
        * apply lifts_fail.
          -- destruct (collect_map_notdone_ex gc idx Ecc) as (i & Hi & Hr).
             apply collect_map_notdone with (i := i); [exact Hi|]. apply bind3_notdone_3. exact Hr.
          -- apply bind3_notdone_3. exact ERc.
      + apply lifts_fail.
        * destruct (collect_map_notdone_ex gb idx Ecb) as (i & Hi & Hr).
          apply collect_map_notdone with (i := i); [exact Hi|]. apply bind2_notdone_r. exact Hr.
        * apply bind2_notdone_r. exact ERb.
    - apply lifts_fail.
      + destruct (collect_map_notdone_ex ga idx Eca) as (i & Hi & Hr).
        apply collect_map_notdone with (i := i); [exact Hi|]. apply rbind_notdone. exact Hr.
      + apply rbind_notdone. exact ERa.
  Qed.

  Lemma lift3v_collect f (ga gb gc : E -> result value) idx la lb lc :
    map ga idx = map Done la -> map gb idx = map Done lb -> map gc idx = map Done lc ->
    forallb scalar la = true ->
    collect (map (fun i => a <~ ga i ;; b <~ gb i ;; c <~ gc i ;; lift3v f a b c) idx) = zip3 f la lb lc.
  Proof.
    revert la lb lc. induction idx as [|i idx IH]; intros [|a la] [|b lb] [|c lc] Ha Hb Hc Sa; simpl in *; try discriminate; [reflexivity|].
    injection Ha as Ha0 Ha. injection Hb as Hb0 Hb. injection Hc as Hc0 Hc.
    apply andb_prop in Sa. destruct Sa as [Sa0 Sa].
    rewrite collect_cons, Ha0, Hb0, Hc0. simpl. rewrite (lift3v_scalar f a b c Sa0), (IH la lb lc Ha Hb Hc Sa). reflexivity.
  Qed.

  Lemma lift3v_done_case f (ga gb gc : E -> result value) idx la lb lc :
    map ga idx = map Done la -> map gb idx = map Done lb -> map gc idx = map Done lc ->
    forallb scalar la = true -> forallb scalar lb = true -> forallb scalar lc = true ->
    lifts (lift3v f (VVec la) (VVec lb) (VVec lc)) (map (fun i => a <~ ga i ;; b <~ gb i ;; c <~ gc i ;; lift3v f a b c) idx).
  Proof.
    intros Ha Hb Hc Sa _ _. unfold lifts. rewrite lift3v_vec, (lift3v_collect f ga gb gc idx la lb lc Ha Hb Hc Sa).
    split.
    - intros ws Hw. rewrite Hw. reflexivity.
    - intro Hn. destruct (zip3 f la lb lc); simpl in *; try discriminate; reflexivity.
  Qed.

  Lemma sel_go_collect (gc ga gb : E -> result value) idx lc la lb :
    map gc idx = map Done lc -> map ga idx = map Done la -> map gb idx = map Done lb ->
    forallb scalar lc = true ->
    let G := fun i => c <~ gc i ;; a <~ ga i ;; b <~ gb i ;; s_select c a b in
    (forall vs, collect (map G idx) = Done vs -> sel_go lc la lb = Done vs)
    /\ (is_done (collect (map G idx)) = false -> is_done (sel_go lc la lb) = false).
  Proof.
    intros Hc Ha Hb Sc G. subst G.
    revert lc la lb Hc Ha Hb Sc.
    induction idx as [|i idx IH]; intros [|c lc] [|a la] [|b lb] Hc Ha Hb Sc; simpl in *; try discriminate.
    - split; [intros vs H; inversion H; reflexivity | intro H; discriminate].
    - injection Ha as Ha0 Ha. injection Hb as Hb0 Hb. injection Hc as Hc0 Hc.
      apply andb_prop in Sc. destruct Sc as [Sc0 Sc].
      destruct (IH lc la lb Hc Ha Hb Sc) as [IH1 IH2]. clear IH.
      rewrite collect_cons, Hc0, Ha0, Hb0. simpl.
      destruct c; simpl in *; try discriminate Sc0;
        try (split; [intros vs H; discriminate | intros _; reflexivity]).
      (* VBool *)
      match goal with |- context [collect (map ?G idx)] => destruct (collect (map G idx)) eqn:EC end; simpl.
      + rewrite (IH1 _ eq_refl). simpl. split; [intros vs H; exact H | intro H; discriminate].
      + split; [intros vs H; discriminate | intros _; apply rbind_notdone; apply IH2; reflexivity].
      + split; [intros vs H; discriminate | intros _; apply rbind_notdone; apply IH2; reflexivity].
  Qed.
End Lifting.

(* ------------------------------------------------------------------ *)
(* the opcode classes: what eval_op / eval_glsl do for them             *)

Definition sv1 (f : value -> result value) : Prop := forall x v, f x = Done v -> scalar v = true.
Definition sv2 (f : value -> value -> result value) : Prop := forall x y v, f x y = Done v -> scalar v = true.
Definition sv3 (f : value -> value -> value -> result value) : Prop := forall x y z v, f x y z = Done v -> scalar v = true.

Lemma mk_int_scalar k z v : mk_int k z = Done v -> scalar v = true.
Proof. destruct k; simpl; intro H; inversion H; reflexivity. Qed.
Lemma mk_float_scalar k z v : mk_float k z = Done v -> scalar v = true.
Proof. destruct k; simpl; intro H; inversion H; reflexivity. Qed.
Lemma mk_bool_scalar k b v : mk_bool k b = Done v -> scalar v = true.
Proof. destruct k; simpl; intro H; inversion H; reflexivity. Qed.
Lemma retag_scalar k z v : retag k z = Done v -> scalar v = true.
Proof. destruct k; simpl; intro H; inversion H; reflexivity. Qed.

Ltac sv_tac :=
  unfold sv1, sv2, sv3; intros;
  match goal with
  | H : _ = Done _ |- _ =>
    unfold int2t, int2, int1, icmp, flt2t, flt2, flt1t, flt1, fcmp, bool2 in H; cbv beta in H;
    repeat (apply rbind_done in H; let a := fresh "a" in let Ea := fresh "Ea" in destruct H as (a & Ea & H));
    first [ exact (mk_int_scalar _ _ _ H) | exact (mk_float_scalar _ _ _ H)
          | exact (mk_bool_scalar _ _ _ H) | exact (retag_scalar _ _ _ H) ]
  end.

Ltac split_mem H :=
  unfold zmem in H; simpl existsb in H;
  repeat (apply orb_prop in H; destruct H as [H|H]); try discriminate H;
  apply Z.eqb_eq in H.

Lemma cw1_ops_spec o k : zmem o cw1_ops = true ->
  exists f, (forall a, eval_op o k [a] = Some (lift1 f a)) /\ sv1 f.
Proof.
  intro H. unfold cw1_ops in H. split_mem H; subst o;
    (eexists; split; [intro a; reflexivity | sv_tac]).
Qed.

Lemma cw2_ops_spec o k : zmem o cw2_ops = true ->
  exists f, (forall a b, eval_op o k [a; b] = Some (lift2 f a b)) /\ sv2 f.
Proof.
  intro H. unfold cw2_ops in H. split_mem H; subst o;
    (eexists; split; [intros a b; reflexivity | sv_tac]).
Qed.

Lemma sel_op_spec k c a b : eval_op sel_op k [c; a; b] = Some (s_select c a b).
Proof. reflexivity. Qed.

Lemma cw1_ext_spec o k : zmem o cw1_ext = true ->
  exists f, (forall a, eval_glsl o k [a] = lift1 f a) /\ sv1 f.
Proof.
  intro H. unfold cw1_ext in H. split_mem H; subst o;
    (eexists; split; [intro a; reflexivity | sv_tac]).
Qed.

Lemma cw2_ext_spec o k : zmem o cw2_ext = true ->
  exists f, (forall a b, eval_glsl o k [a; b] = lift2 f a b) /\ sv2 f.
Proof.
  intro H. unfold cw2_ext in H. split_mem H; subst o;
    (eexists; split; [intros a b; reflexivity | sv_tac]).
Qed.

Lemma cw3_ext_spec o k : zmem o cw3_ext = true ->
  exists f, (forall a b c, eval_glsl o k [a; b; c] = lift3v f a b c) /\ sv3 f.
Proof.
  intro H. unfold cw3_ext in H. split_mem H; subst o;
    (eexists; split; [intros a b c; reflexivity | sv_tac]).
Qed.

(* ------------------------------------------------------------------ *)
(* teval, one constructor at a time                                     *)

Definition no_sem : result value := Fail "template: opcode without operation semantics".
Definition op_result (o : option (result value)) : result value :=
  match o with Some r => r | None => no_sem end.

Lemma teval_op1 env o k a :
  teval env (TOp o k [a]) = (va <~ teval env a ;; op_result (eval_op o k [va])).
Proof. cbn [teval]. destruct (teval env a); reflexivity. Qed.
Lemma teval_op2 env o k a b :
  teval env (TOp o k [a; b]) = (va <~ teval env a ;; vb <~ teval env b ;; op_result (eval_op o k [va; vb])).
Proof. cbn [teval]. destruct (teval env a); try reflexivity. destruct (teval env b); reflexivity. Qed.
Lemma teval_op3 env o k a b c :
  teval env (TOp o k [a; b; c]) =
  (va <~ teval env a ;; vb <~ teval env b ;; vc <~ teval env c ;; op_result (eval_op o k [va; vb; vc])).
Proof.
  cbn [teval]. destruct (teval env a); try reflexivity. destruct (teval env b); try reflexivity.
  destruct (teval env c); reflexivity.
Qed.
Lemma teval_ext1 env o k a :
  teval env (TExt o k [a]) = (va <~ teval env a ;; eval_glsl o k [va]).
Proof. cbn [teval]. destruct (teval env a); reflexivity. Qed.
Lemma teval_ext2 env o k a b :
  teval env (TExt o k [a; b]) = (va <~ teval env a ;; vb <~ teval env b ;; eval_glsl o k [va; vb]).
Proof. cbn [teval]. destruct (teval env a); try reflexivity. destruct (teval env b); reflexivity. Qed.
Lemma teval_ext3 env o k a b c :
  teval env (TExt o k [a; b; c]) =
  (va <~ teval env a ;; vb <~ teval env b ;; vc <~ teval env c ;; eval_glsl o k [va; vb; vc]).
Proof.
  cbn [teval]. destruct (teval env a); try reflexivity. destruct (teval env b); try reflexivity.
  destruct (teval env c); reflexivity.
Qed.
Lemma teval_helper env body args :
  teval env (THelper body args) = (vs <~ rmap (teval env) args ;; teval vs body).
Proof.
  cbn [teval]. f_equal. induction args as [|a args IH]; [reflexivity|].
  cbn [rmap]. rewrite <- IH. reflexivity.
Qed.
Lemma teval_splat env n e :
  teval env (TSplat n e) = (v <~ teval env e ;; Done (VVec (repeat v n))).
Proof. reflexivity. Qed.

(* ------------------------------------------------------------------ *)
(* induction on templates (nested lists)                                *)
Section TexpInd.
  Variable P : texp -> Prop.
  Hypothesis HArg : forall i, P (TArg i).
  Hypothesis HConst : forall k b, P (TConst k b).
  Hypothesis HBoolC : forall b, P (TBoolC b).
  Hypothesis HOp : forall o k l, Forall P l -> P (TOp o k l).
  Hypothesis HExt : forall o k l, Forall P l -> P (TExt o k l).
  Hypothesis HHelper : forall b l, P b -> Forall P l -> P (THelper b l).
  Hypothesis HExtract : forall i e, P e -> P (TExtract i e).
  Hypothesis HSplat : forall n e, P e -> P (TSplat n e).
  Hypothesis HOpaque : forall w, P (TOpaque w).

  Fixpoint texp_ind2 (t : texp) : P t :=
    let fix go (l : list texp) : Forall P l :=
        match l with
        | [] => Forall_nil P
        | x :: r => Forall_cons x (texp_ind2 x) (go r)
        end in
    match t with
    | TArg i => HArg i
    | TConst k b => HConst k b
    | TBoolC b => HBoolC b
    | TOp o k l => HOp o k l (go l)
    | TExt o k l => HExt o k l (go l)
    | THelper b l => HHelper b l (texp_ind2 b) (go l)
    | TExtract i e => HExtract i e (texp_ind2 e)
    | TSplat n e => HSplat n e (texp_ind2 e)
    | TOpaque w => HOpaque w
    end.
End TexpInd.

(* ------------------------------------------------------------------ *)
(* a component-wise template evaluated on non-vector operands yields a non-vector value *)

Definition senv_ok (env : list value) : Prop :=
  forall i x, nth_error env i = Some x -> scalar x = true.

Lemma forallb_nth_error l i (x : value) : forallb scalar l = true -> nth_error l i = Some x -> scalar x = true.
Proof. intros H E. apply nth_error_In in E. rewrite forallb_forall in H. apply H. exact E. Qed.

Lemma rmap_scalars env (args : list texp) vs :
  Forall (fun a => forall v, teval env (erase_splat a) = Done v -> scalar v = true) args ->
  rmap (teval env) (map erase_splat args) = Done vs -> forallb scalar vs = true.
Proof.
  intro F. revert vs. induction F as [|a args Ha F IH]; intros vs H; simpl in H.
  - inversion H. reflexivity.
  - apply rbind_done in H. destruct H as (v & Hv & H). apply rbind_done in H. destruct H as (ws & Hws & H).
    inversion H. subst. simpl. rewrite (Ha v Hv), (IH ws Hws). reflexivity.
Qed.

Lemma s_select_scalar c a b v :
  scalar c = true -> scalar a = true -> scalar b = true -> s_select c a b = Done v -> scalar v = true.
Proof.
  intros Sc Sa Sb H. destruct c; simpl in *; try discriminate.
  inversion H. destruct b0; assumption.
Qed.

Lemma cw_scalar : forall t isv env v,
  cw_shape isv t = true -> senv_ok env -> teval env (erase_splat t) = Done v -> scalar v = true.
Proof.
  induction t as [i|k b|b|o k l IH|o k l IH|body l IHb IH|i e IH|m e IH|w] using texp_ind2;
    intros isv env v CW SE H; simpl in CW; try discriminate CW.
  - (* TArg *) simpl in H. destruct (nth_error env i) eqn:E; inversion H. subst. eapply SE; eassumption.
  - (* TOp *)
    destruct l as [|a [|b [|c [|d l]]]]; try discriminate CW.
    + apply andb_prop in CW. destruct CW as [Ho Ca].
      inversion IH as [|? ? IHa _]. subst.
      destruct (cw1_ops_spec o k Ho) as (f & Ef & Sf).
      change (erase_splat (TOp o k [a])) with (TOp o k [erase_splat a]) in H.
      rewrite teval_op1 in H. apply rbind_done in H. destruct H as (va & Ea & H).
      rewrite Ef in H. cbn [op_result] in H.
      rewrite (lift1_scalar f va (IHa isv env va Ca SE Ea)) in H. eapply Sf. exact H.
    + apply andb_prop in CW. destruct CW as [CW Cb]. apply andb_prop in CW. destruct CW as [Ho Ca].
      inversion IH as [|? ? IHa IH']. subst. inversion IH' as [|? ? IHb' _]. subst.
      destruct (cw2_ops_spec o k Ho) as (f & Ef & Sf).
      change (erase_splat (TOp o k [a; b])) with (TOp o k [erase_splat a; erase_splat b]) in H.
      rewrite teval_op2 in H. apply rbind_done in H. destruct H as (va & Ea & H).
      apply rbind_done in H. destruct H as (vb & Eb & H).
      rewrite Ef in H. cbn [op_result] in H.
      rewrite (lift2_scalar f va vb (IHa isv env va Ca SE Ea) (IHb' isv env vb Cb SE Eb)) in H. eapply Sf. exact H.
    + apply andb_prop in CW. destruct CW as [CW Cc]. apply andb_prop in CW. destruct CW as [CW Cb].
      apply andb_prop in CW. destruct CW as [Ho Ca]. apply Z.eqb_eq in Ho. subst o.
      inversion IH as [|? ? IHa IH']. subst. inversion IH' as [|? ? IHb' IH'']. subst. inversion IH'' as [|? ? IHc _]. subst.
      change (erase_splat (TOp sel_op k [a; b; c])) with (TOp sel_op k [erase_splat a; erase_splat b; erase_splat c]) in H.
      rewrite teval_op3 in H. apply rbind_done in H. destruct H as (va & Ea & H).
      apply rbind_done in H. destruct H as (vb & Eb & H). apply rbind_done in H. destruct H as (vc & Ec & H).
      rewrite sel_op_spec in H. cbn [op_result] in H.
      eapply s_select_scalar; [| | |exact H]; eauto.
  - (* TExt *)
    destruct l as [|a [|b [|c [|d l]]]]; try discriminate CW.
    + apply andb_prop in CW. destruct CW as [Ho Ca].
      inversion IH as [|? ? IHa _]. subst.
      destruct (cw1_ext_spec o k Ho) as (f & Ef & Sf).
      change (erase_splat (TExt o k [a])) with (TExt o k [erase_splat a]) in H.
      rewrite teval_ext1 in H. apply rbind_done in H. destruct H as (va & Ea & H).
      rewrite Ef in H.
      rewrite (lift1_scalar f va (IHa isv env va Ca SE Ea)) in H. eapply Sf. exact H.
    + apply andb_prop in CW. destruct CW as [CW Cb]. apply andb_prop in CW. destruct CW as [Ho Ca].
      inversion IH as [|? ? IHa IH']. subst. inversion IH' as [|? ? IHb' _]. subst.
      destruct (cw2_ext_spec o k Ho) as (f & Ef & Sf).
      change (erase_splat (TExt o k [a; b])) with (TExt o k [erase_splat a; erase_splat b]) in H.
      rewrite teval_ext2 in H. apply rbind_done in H. destruct H as (va & Ea & H).
      apply rbind_done in H. destruct H as (vb & Eb & H).
      rewrite Ef in H.
      rewrite (lift2_scalar f va vb (IHa isv env va Ca SE Ea) (IHb' isv env vb Cb SE Eb)) in H. eapply Sf. exact H.
    + apply andb_prop in CW. destruct CW as [CW Cc]. apply andb_prop in CW. destruct CW as [CW Cb].
      apply andb_prop in CW. destruct CW as [Ho Ca].
      inversion IH as [|? ? IHa IH']. subst. inversion IH' as [|? ? IHb' IH'']. subst. inversion IH'' as [|? ? IHc _]. subst.
      destruct (cw3_ext_spec o k Ho) as (f & Ef & Sf).
      change (erase_splat (TExt o k [a; b; c])) with (TExt o k [erase_splat a; erase_splat b; erase_splat c]) in H.
      rewrite teval_ext3 in H. apply rbind_done in H. destruct H as (va & Ea & H).
      apply rbind_done in H. destruct H as (vb & Eb & H). apply rbind_done in H. destruct H as (vc & Ec & H).
      rewrite Ef in H.
      rewrite (lift3v_scalar f va vb vc (IHa isv env va Ca SE Ea)) in H. eapply Sf. exact H.
  - (* THelper *)
    apply andb_prop in CW. destruct CW as [Cargs Cbody].
    change (erase_splat (THelper body l)) with (THelper (erase_splat body) (map erase_splat l)) in H.
    rewrite teval_helper in H. apply rbind_done in H. destruct H as (vs & Evs & H).
    assert (SV : forallb scalar vs = true).
    { apply (rmap_scalars env l vs); [|exact Evs].
      rewrite forallb_forall in Cargs. rewrite Forall_forall in IH |- *.
      intros a Ha w Hw. exact (IH a Ha isv env w (Cargs a Ha) SE Hw). }
    apply (IHb _ vs v Cbody); [|exact H].
    intros i x Hx. exact (forallb_nth_error vs i x SV Hx).
  - (* TSplat *)
    destruct e; simpl in CW; try discriminate CW; simpl in H.
    + destruct (nth_error env i) eqn:E; inversion H. subst. eapply SE; eassumption.
    + eapply retag_scalar. exact H.
    + inversion H. reflexivity.
Qed.

(* ------------------------------------------------------------------ *)
(* teval of the component-wise constructors, with the class lemma plugged in *)

Lemma teval_cw1 env o k a f : (forall x, eval_op o k [x] = Some (lift1 f x)) ->
  teval env (TOp o k [a]) = (va <~ teval env a ;; lift1 f va).
Proof. intro Ef. rewrite teval_op1. destruct (teval env a); simpl; try reflexivity. rewrite Ef. reflexivity. Qed.
Lemma teval_cw2 env o k a b f : (forall x y, eval_op o k [x; y] = Some (lift2 f x y)) ->
  teval env (TOp o k [a; b]) = (va <~ teval env a ;; vb <~ teval env b ;; lift2 f va vb).
Proof.
  intro Ef. rewrite teval_op2. destruct (teval env a); simpl; try reflexivity.
  destruct (teval env b); simpl; try reflexivity. rewrite Ef. reflexivity.
Qed.
Lemma teval_sel env k c a b :
  teval env (TOp sel_op k [c; a; b]) = (vc <~ teval env c ;; va <~ teval env a ;; vb <~ teval env b ;; s_select vc va vb).
Proof.
  rewrite teval_op3. destruct (teval env c), (teval env a), (teval env b); reflexivity.
Qed.
Lemma teval_cwe1 env o k a f : (forall x, eval_glsl o k [x] = lift1 f x) ->
  teval env (TExt o k [a]) = (va <~ teval env a ;; lift1 f va).
Proof. intro Ef. rewrite teval_ext1. destruct (teval env a); simpl; try reflexivity. apply Ef. Qed.
Lemma teval_cwe2 env o k a b f : (forall x y, eval_glsl o k [x; y] = lift2 f x y) ->
  teval env (TExt o k [a; b]) = (va <~ teval env a ;; vb <~ teval env b ;; lift2 f va vb).
Proof.
  intro Ef. rewrite teval_ext2. destruct (teval env a); simpl; try reflexivity.
  destruct (teval env b); simpl; try reflexivity. apply Ef.
Qed.
Lemma teval_cwe3 env o k a b c f : (forall x y z, eval_glsl o k [x; y; z] = lift3v f x y z) ->
  teval env (TExt o k [a; b; c]) = (va <~ teval env a ;; vb <~ teval env b ;; vc <~ teval env c ;; lift3v f va vb vc).
Proof.
  intro Ef. rewrite teval_ext3. destruct (teval env a); simpl; try reflexivity.
  destruct (teval env b); simpl; try reflexivity. destruct (teval env c); simpl; try reflexivity. apply Ef.
Qed.

(* ------------------------------------------------------------------ *)
(* component environments                                               *)

Lemma nth_scalar l i : forallb scalar l = true -> scalar (nth i l (VBool false)) = true.
Proof.
  revert i. induction l as [|x l IH]; intros [|i] H; simpl in *; try reflexivity;
    apply andb_prop in H; destruct H as [H0 H]; [exact H0 | apply IH; exact H].
Qed.

Lemma cenv_senv_ok n isv envv i : env_ok n isv envv -> senv_ok (cenv i envv).
Proof.
  intros EO j x H. unfold cenv in H. rewrite nth_error_map in H.
  destruct (nth_error envv j) as [v|] eqn:E; simpl in H; inversion H. subst. clear H.
  specialize (EO j v E). destruct (isv j).
  - destruct EO as (l & -> & _ & S). simpl. apply nth_scalar. exact S.
  - destruct v; simpl in *; try discriminate; reflexivity.
Qed.

Definition cres (n : nat) (envv : list value) (t : texp) : list (result value) :=
  map (fun i => teval (cenv i envv) (erase_splat t)) (seq 0 n).

Lemma cres_scalars n isv envv t : cw_shape isv t = true -> env_ok n isv envv ->
  scalars (seq 0 n) (fun i => teval (cenv i envv) (erase_splat t)).
Proof. intros CW EO i v _ H. eapply cw_scalar; [exact CW | eapply cenv_senv_ok; exact EO | exact H]. Qed.

Lemma collect_const {A} (r : result A) (l : list nat) :
  l <> [] ->
  match r with
  | Done v => collect (map (fun _ => r) l) = Done (repeat v (length l))
  | _ => is_done (collect (map (fun _ => r) l)) = false
  end.
Proof.
  intro Hl. destruct r as [v| |m].
  - clear Hl. induction l as [|x l IH]; [reflexivity|]. simpl map. rewrite collect_cons, IH. reflexivity.
  - destruct l; [congruence|]. reflexivity.
  - destruct l; [congruence|]. reflexivity.
Qed.

Lemma seq_nonempty n : (1 <= n)%nat -> seq 0 n <> [].
Proof. destruct n; simpl; [lia | discriminate]. Qed.

Lemma uniform_eval n isv envv e i :
  uniform isv e = true -> env_ok n isv envv -> teval (cenv i envv) (erase_splat e) = teval envv e.
Proof.
  intros U EO. destruct e; simpl in U; try discriminate U; try reflexivity.
  simpl. unfold cenv. rewrite nth_error_map. destruct (nth_error envv i0) as [v|] eqn:E; simpl; [|reflexivity].
  specialize (EO i0 v E). destruct (isv i0); [discriminate U|].
  destruct v; simpl in *; try discriminate; reflexivity.
Qed.

(* the arguments of a helper call *)
Lemma args_lift n envv (args : list texp) :
  Forall (fun a => lifts (teval envv a) (cres n envv a)
                   /\ scalars (seq 0 n) (fun i => teval (cenv i envv) (erase_splat a))) args ->
  (exists Ls, rmap (teval envv) args = Done (map VVec Ls) /\ length Ls = length args
      /\ Forall (fun l => length l = n /\ forallb scalar l = true) Ls
      /\ forall i, (i < n)%nat ->
           rmap (teval (cenv i envv)) (map erase_splat args) = Done (map (fun l => nth i l (VBool false)) Ls))
  \/ (is_done (rmap (teval envv) args) = false
      /\ exists i, (i < n)%nat /\ is_done (rmap (teval (cenv i envv)) (map erase_splat args)) = false).
Proof.
  induction 1 as [|a args [La Sa] F IH].
  - left. exists []. repeat split; try reflexivity. constructor.
  - destruct (lifts_cases _ _ La) as [(vs & Ec & ER) | (Ec & ER)].
    + destruct (collect_seq_done _ n vs (VBool false) Ec) as [Ln Hi].
      pose proof (scalars_vs _ _ _ (collect_done _ _ Ec) Sa) as Svs.
      destruct IH as [(Ls & EL & LL & FL & HL) | (NL & i & Hin & HL)].
      * left. exists (vs :: Ls). split; [|split; [|split]].
        -- simpl. rewrite ER, EL. reflexivity.
        -- simpl. rewrite LL. reflexivity.
        -- constructor; [split; assumption | exact FL].
        -- intros i Hlt. simpl. rewrite (Hi i Hlt), (HL i Hlt). reflexivity.
      * right. split.
        -- simpl. rewrite ER. simpl. apply rbind_notdone. exact NL.
        -- exists i. split; [exact Hin|]. simpl. apply bind2_notdone_r. exact HL.
    + right. split.
      * simpl. apply rbind_notdone. exact ER.
      * unfold cres in Ec. destruct (collect_map_notdone_ex _ _ Ec) as (i & Hi & Hr).
        exists i. split; [apply in_seq in Hi; lia|]. simpl. apply rbind_notdone. exact Hr.
Qed.

(* ------------------------------------------------------------------ *)
(* THE LIFTING LEMMA                                                    *)

Lemma lift_main n : (1 <= n)%nat -> forall t isv envv,
  cw_shape isv t = true -> splats_width n t = true -> env_ok n isv envv ->
  lifts (teval envv t) (cres n envv t).
Proof.
  intro Hn.
  induction t as [i|k b|b|o k l IH|o k l IH|body l IHb IH|i e IH|m e IH|w] using texp_ind2;
    intros isv envv CW SW EO; simpl in CW; try discriminate CW.
  - (* TArg: a vector operand *)
    destruct (nth_error envv i) as [v|] eqn:E.
    + pose proof (EO i v E) as NV. rewrite CW in NV. destruct NV as (l & -> & Ln & Sl).
      assert (EC : cres n envv (TArg i) = map Done l).
      { unfold cres. transitivity (map Done (map (fun j => nth j l (VBool false)) (seq 0 n)));
          [|rewrite <- Ln, map_nth_seq; reflexivity].
        rewrite map_map. apply map_ext. intro j. simpl. unfold cenv. rewrite nth_error_map, E. reflexivity. }
      rewrite EC. simpl. rewrite E. split.
      * intros vs H. rewrite collect_map_Done in H. inversion H. reflexivity.
      * intro H. rewrite collect_map_Done in H. discriminate H.
    + apply lifts_fail.
      * apply collect_map_notdone with (i := 0%nat); [apply in_seq; lia|].
        simpl. unfold cenv. rewrite nth_error_map, E. reflexivity.
      * simpl. rewrite E. reflexivity.
  - (* TOp *)
    destruct l as [|a [|b [|c [|d l]]]]; try discriminate CW.
    + apply andb_prop in CW. destruct CW as [Ho Ca].
      simpl in SW. apply andb_prop in SW. destruct SW as [Wa _].
      inversion IH as [|? ? IHa _]. subst.
      destruct (cw1_ops_spec o k Ho) as (f & Ef & Sf).
      rewrite (teval_cw1 envv o k a f Ef). unfold cres.
      erewrite map_ext; [|intro i; change (erase_splat (TOp o k [a])) with (TOp o k [erase_splat a]); apply (teval_cw1 _ o k _ f Ef)].
      apply lifts_lift1; [apply (IHa isv envv Ca Wa EO) | apply (cres_scalars n isv envv a Ca EO)].
    + apply andb_prop in CW. destruct CW as [CW Cb]. apply andb_prop in CW. destruct CW as [Ho Ca].
      simpl in SW. apply andb_prop in SW. destruct SW as [Wa SW]. apply andb_prop in SW. destruct SW as [Wb _].
      inversion IH as [|? ? IHa IH']. subst. inversion IH' as [|? ? IHb' _]. subst.
      destruct (cw2_ops_spec o k Ho) as (f & Ef & Sf).
      rewrite (teval_cw2 envv o k a b f Ef). unfold cres.
      erewrite map_ext; [|intro i; change (erase_splat (TOp o k [a; b])) with (TOp o k [erase_splat a; erase_splat b]); apply (teval_cw2 _ o k _ _ f Ef)].
      apply lifts_lift2; [apply (IHa isv envv Ca Wa EO) | apply (IHb' isv envv Cb Wb EO)
                          | apply (cres_scalars n isv envv a Ca EO) | apply (cres_scalars n isv envv b Cb EO)].
    + apply andb_prop in CW. destruct CW as [CW Cc]. apply andb_prop in CW. destruct CW as [CW Cb].
      apply andb_prop in CW. destruct CW as [Ho Ca]. apply Z.eqb_eq in Ho. subst o.
      simpl in SW. apply andb_prop in SW. destruct SW as [Wa SW]. apply andb_prop in SW. destruct SW as [Wb SW].
      apply andb_prop in SW. destruct SW as [Wc _].
      inversion IH as [|? ? IHa IH']. subst. inversion IH' as [|? ? IHb' IH'']. subst. inversion IH'' as [|? ? IHc _]. subst.
      rewrite teval_sel. unfold cres.
      erewrite map_ext; [|intro i; change (erase_splat (TOp sel_op k [a; b; c])) with (TOp sel_op k [erase_splat a; erase_splat b; erase_splat c]); apply teval_sel].
      apply lifts_op3; [ | apply (IHa isv envv Ca Wa EO) | apply (IHb' isv envv Cb Wb EO) | apply (IHc isv envv Cc Wc EO)
                         | apply (cres_scalars n isv envv a Ca EO) | apply (cres_scalars n isv envv b Cb EO)
                         | apply (cres_scalars n isv envv c Cc EO)].
      intros la lb lc Ha Hb Hc Sa _ _. rewrite s_select_vec.
      destruct (sel_go_collect _ _ _ (seq 0 n) la lb lc Ha Hb Hc Sa) as [H1 H2].
      split.
      * intros vs Hvs. rewrite (H1 vs Hvs). reflexivity.
      * intro Hnd. apply rbind_notdone. apply H2. exact Hnd.
  - (* TExt *)
    destruct l as [|a [|b [|c [|d l]]]]; try discriminate CW.
    + apply andb_prop in CW. destruct CW as [Ho Ca].
      simpl in SW. apply andb_prop in SW. destruct SW as [Wa _].
      inversion IH as [|? ? IHa _]. subst.
      destruct (cw1_ext_spec o k Ho) as (f & Ef & Sf).
      rewrite (teval_cwe1 envv o k a f Ef). unfold cres.
      erewrite map_ext; [|intro i; change (erase_splat (TExt o k [a])) with (TExt o k [erase_splat a]); apply (teval_cwe1 _ o k _ f Ef)].
      apply lifts_lift1; [apply (IHa isv envv Ca Wa EO) | apply (cres_scalars n isv envv a Ca EO)].
    + apply andb_prop in CW. destruct CW as [CW Cb]. apply andb_prop in CW. destruct CW as [Ho Ca].
      simpl in SW. apply andb_prop in SW. destruct SW as [Wa SW]. apply andb_prop in SW. destruct SW as [Wb _].
      inversion IH as [|? ? IHa IH']. subst. inversion IH' as [|? ? IHb' _]. subst.
      destruct (cw2_ext_spec o k Ho) as (f & Ef & Sf).
      rewrite (teval_cwe2 envv o k a b f Ef). unfold cres.
      erewrite map_ext; [|intro i; change (erase_splat (TExt o k [a; b])) with (TExt o k [erase_splat a; erase_splat b]); apply (teval_cwe2 _ o k _ _ f Ef)].
      apply lifts_lift2; [apply (IHa isv envv Ca Wa EO) | apply (IHb' isv envv Cb Wb EO)
                          | apply (cres_scalars n isv envv a Ca EO) | apply (cres_scalars n isv envv b Cb EO)].
    + apply andb_prop in CW. destruct CW as [CW Cc]. apply andb_prop in CW. destruct CW as [CW Cb].
      apply andb_prop in CW. destruct CW as [Ho Ca].
      simpl in SW. apply andb_prop in SW. destruct SW as [Wa SW]. apply andb_prop in SW. destruct SW as [Wb SW].
      apply andb_prop in SW. destruct SW as [Wc _].
      inversion IH as [|? ? IHa IH']. subst. inversion IH' as [|? ? IHb' IH'']. subst. inversion IH'' as [|? ? IHc _]. subst.
      destruct (cw3_ext_spec o k Ho) as (f & Ef & Sf).
      rewrite (teval_cwe3 envv o k a b c f Ef). unfold cres.
      erewrite map_ext; [|intro i; change (erase_splat (TExt o k [a; b; c])) with (TExt o k [erase_splat a; erase_splat b; erase_splat c]); apply (teval_cwe3 _ o k _ _ _ f Ef)].
      apply lifts_op3; [ | apply (IHa isv envv Ca Wa EO) | apply (IHb' isv envv Cb Wb EO) | apply (IHc isv envv Cc Wc EO)
                         | apply (cres_scalars n isv envv a Ca EO) | apply (cres_scalars n isv envv b Cb EO)
                         | apply (cres_scalars n isv envv c Cc EO)].
      intros la lb lc. apply lift3v_done_case.
  - (* THelper *)
    apply andb_prop in CW. destruct CW as [Cargs Cbody].
    simpl in SW. apply andb_prop in SW. destruct SW as [Wargs Wbody].
    assert (FA : Forall (fun a => lifts (teval envv a) (cres n envv a)
                   /\ scalars (seq 0 n) (fun i => teval (cenv i envv) (erase_splat a))) l).
    { rewrite forallb_forall in Cargs, Wargs. rewrite Forall_forall in IH |- *. intros a Ha. split.
      - apply (IH a Ha isv envv (Cargs a Ha) (Wargs a Ha) EO).
      - apply (cres_scalars n isv envv a (Cargs a Ha) EO). }
    rewrite teval_helper. unfold cres.
    erewrite map_ext; [|intro i; change (erase_splat (THelper body l)) with (THelper (erase_splat body) (map erase_splat l)); apply teval_helper].
    destruct (args_lift n envv l FA) as [(Ls & EL & LL & FL & HL) | (NL & i & Hin & HL)].
    + rewrite EL. cbn [rbind].
      assert (EO' : env_ok n (fun i => Nat.ltb i (length l)) (map VVec Ls)).
      { intros j v Hj. rewrite nth_error_map in Hj. destruct (nth_error Ls j) as [lj|] eqn:Ej; simpl in Hj; inversion Hj. subst.
        assert (Hlt : (j < length l)%nat). { rewrite <- LL. apply nth_error_Some. congruence. }
        apply Nat.ltb_lt in Hlt. rewrite Hlt.
        apply nth_error_In in Ej. rewrite Forall_forall in FL. destruct (FL lj Ej) as [L1 L2].
        exists lj. repeat split; assumption. }
      pose proof (IHb _ (map VVec Ls) Cbody Wbody EO') as LB. unfold cres in LB.
      replace (map (fun i => vs <~ rmap (teval (cenv i envv)) (map erase_splat l) ;; teval vs (erase_splat body)) (seq 0 n))
        with (map (fun i => teval (cenv i (map VVec Ls)) (erase_splat body)) (seq 0 n)); [exact LB|].
      apply map_ext_in.
      intros i Hi. apply in_seq in Hi. rewrite (HL i) by lia. cbn [rbind].
      unfold cenv. rewrite map_map. reflexivity.
    + apply lifts_fail.
      * apply collect_map_notdone with (i := i); [apply in_seq; lia|]. apply rbind_notdone. exact HL.
      * apply rbind_notdone. exact NL.
  - (* TSplat *)
    simpl in SW. apply andb_prop in SW. destruct SW as [Wm _]. apply Nat.eqb_eq in Wm. subst m.
    rewrite teval_splat. unfold cres.
    erewrite map_ext; [|intro i; change (erase_splat (TSplat n e)) with (erase_splat e); apply (uniform_eval n isv envv e i CW EO)].
    pose proof (collect_const (teval envv e) (seq 0 n) (seq_nonempty n Hn)) as HC.
    destruct (teval envv e) as [v| |msg]; simpl.
    + rewrite seq_length in HC. split.
      * intros vs H. rewrite HC in H. inversion H. reflexivity.
      * intro H. rewrite HC in H. discriminate H.
    + apply lifts_fail; [exact HC | reflexivity].
    + apply lifts_fail; [exact HC | reflexivity].
Qed.

(* ------------------------------------------------------------------ *)
(* THE THEOREMS                                                         *)

(* (1) every component of the scalar form is defined  ==>  the vector form is the vector of the component results *)
Theorem teval_vector_lift : forall n isv tv envv rs,
  (1 <= n)%nat -> cw_shape isv tv = true -> splats_width n tv = true -> env_ok n isv envv ->
  length rs = n ->
  (forall i, (i < n)%nat -> teval (cenv i envv) (erase_splat tv) = Done (nth i rs (VBool false))) ->
  teval envv tv = Done (VVec rs).
Proof.
  intros n isv tv envv rs Hn CW SW EO Lr Hc.
  apply (lifts_done _ _ rs (lift_main n Hn tv isv envv CW SW EO)).
  unfold cres. rewrite <- (collect_map_Done rs). f_equal.
  transitivity (map Done (map (fun i => nth i rs (VBool false)) (seq 0 n))).
  - rewrite map_map. apply map_ext_in. intros i Hi. apply in_seq in Hi. apply Hc. lia.
  - rewrite <- Lr, map_nth_seq. reflexivity.
Qed.

(* (2) one component of the scalar form is undefined / fails  ==>  so does the vector form *)
Theorem teval_vector_lift_undefined : forall n isv tv envv,
  (1 <= n)%nat -> cw_shape isv tv = true -> splats_width n tv = true -> env_ok n isv envv ->
  (exists i, (i < n)%nat /\ is_done (teval (cenv i envv) (erase_splat tv)) = false) ->
  is_done (teval envv tv) = false.
Proof.
  intros n isv tv envv Hn CW SW EO (i & Hi & Hf).
  destruct (lift_main n Hn tv isv envv CW SW EO) as [_ H]. apply H.
  unfold cres. apply collect_map_notdone with (i := i); [apply in_seq; lia | exact Hf].
Qed.

(* (3) conversely, a defined vector result is a vector of exactly n defined component results *)
Theorem teval_vector_lift_inv : forall n isv tv envv v,
  (1 <= n)%nat -> cw_shape isv tv = true -> splats_width n tv = true -> env_ok n isv envv ->
  teval envv tv = Done v ->
  exists rs, v = VVec rs /\ length rs = n /\ forallb scalar rs = true
    /\ forall i, (i < n)%nat -> teval (cenv i envv) (erase_splat tv) = Done (nth i rs (VBool false)).
Proof.
  intros n isv tv envv v Hn CW SW EO H.
  destruct (lifts_cases _ _ (lift_main n Hn tv isv envv CW SW EO)) as [(vs & Ec & ER) | (_ & ER)].
  - rewrite ER in H. inversion H. subst v. exists vs.
    destruct (collect_seq_done _ n vs (VBool false) Ec) as [L Hi].
    repeat split; try assumption.
    apply (scalars_vs _ _ _ (collect_done _ _ Ec) (cres_scalars n isv envv tv CW EO)).
  - rewrite H in ER. discriminate ER.
Qed.

(* the instance used for the probed rows: every operand is a vector *)
Definition vec_env (n : nat) (envv : list value) : Prop := Forall (nvec n) envv.

Lemma vec_env_ok n envv : vec_env n envv -> env_ok n (fun _ => true) envv.
Proof. intros F i v H. apply nth_error_In in H. unfold vec_env in F. rewrite Forall_forall in F. apply F. exact H. Qed.

Corollary teval_vector_lift_rows : forall n tv envv rs,
  (1 <= n)%nat -> cw_template tv = true -> splats_width n tv = true -> vec_env n envv ->
  length rs = n ->
  (forall i, (i < n)%nat -> teval (cenv i envv) (erase_splat tv) = Done (nth i rs (VBool false))) ->
  teval envv tv = Done (VVec rs).
Proof. intros n tv envv rs Hn CW SW VE. apply (teval_vector_lift n _ tv envv rs Hn CW SW (vec_env_ok n envv VE)). Qed.

(* ------------------------------------------------------------------ *)
(* schemas for instantiating the theorem with a scalar lemma            *)

Lemma nth_map_lt {A B} (f : A -> B) l i d d' : (i < length l)%nat -> nth i (map f l) d = f (nth i l d').
Proof.
  intro H. transitivity (nth i (map f l) (f d')).
  - apply nth_indep. rewrite map_length. exact H.
  - apply map_nth.
Qed.

Lemma nvec_map {A} n (mk : A -> value) l : length l = n -> (forall a, scalar (mk a) = true) -> nvec n (VVec (map mk l)).
Proof.
  intros L S. exists (map mk l). repeat split; [rewrite map_length; exact L|].
  apply forallb_forall. intros x Hx. apply in_map_iff in Hx. destruct Hx as (a & <- & _). apply S.
Qed.

Lemma lift_unary {A} (da : A) (mk : A -> value) (P : A -> Prop) (F : A -> value) n tv :
  (1 <= n)%nat -> cw_template tv = true -> splats_width n tv = true ->
  (forall a, scalar (mk a) = true) ->
  (forall a, P a -> teval [mk a] (erase_splat tv) = Done (F a)) ->
  forall la, length la = n -> Forall P la ->
  teval [VVec (map mk la)] tv = Done (VVec (map F la)).
Proof.
  intros Hn CW SW S H la L FP.
  apply (teval_vector_lift_rows n tv _ _ Hn CW SW).
  - repeat constructor. apply nvec_map; assumption.
  - rewrite map_length. exact L.
  - intros i Hi. unfold cenv. simpl map. simpl comp.
    rewrite (nth_map_lt mk la i _ da) by lia. rewrite (nth_map_lt F la i _ da) by lia.
    apply H. rewrite Forall_forall in FP. apply FP. apply nth_In. lia.
Qed.

Lemma lift_binary {A B} (da : A) (db : B) (mk1 : A -> value) (mk2 : B -> value)
      (P : A -> B -> Prop) (F : A -> B -> value) n tv :
  (1 <= n)%nat -> cw_template tv = true -> splats_width n tv = true ->
  (forall a, scalar (mk1 a) = true) -> (forall b, scalar (mk2 b) = true) ->
  (forall a b, P a b -> teval [mk1 a; mk2 b] (erase_splat tv) = Done (F a b)) ->
  forall la lb, length la = n -> length lb = n ->
  Forall (fun p => P (fst p) (snd p)) (combine la lb) ->
  teval [VVec (map mk1 la); VVec (map mk2 lb)] tv
  = Done (VVec (map (fun p => F (fst p) (snd p)) (combine la lb))).
Proof.
  intros Hn CW SW S1 S2 H la lb L1 L2 FP.
  assert (LC : length (combine la lb) = n) by (rewrite combine_length; lia).
  apply (teval_vector_lift_rows n tv _ _ Hn CW SW).
  - repeat constructor; apply nvec_map; assumption.
  - rewrite map_length. exact LC.
  - intros i Hi. unfold cenv. simpl map. simpl comp.
    rewrite (nth_map_lt mk1 la i _ da) by lia. rewrite (nth_map_lt mk2 lb i _ db) by lia.
    rewrite (nth_map_lt _ (combine la lb) i _ (da, db)) by lia.
    rewrite combine_nth by lia. simpl fst. simpl snd.
    apply H. rewrite Forall_forall in FP.
    specialize (FP (nth i (combine la lb) (da, db))). rewrite combine_nth in FP by lia. apply FP.
    rewrite <- combine_nth by lia. apply nth_In. lia.
Qed.

Lemma lift_ternary {A B C} (da : A) (db : B) (dc : C) (mk1 : A -> value) (mk2 : B -> value) (mk3 : C -> value)
      (P : A -> B -> C -> Prop) (F : A -> B -> C -> value) n tv :
  (1 <= n)%nat -> cw_template tv = true -> splats_width n tv = true ->
  (forall a, scalar (mk1 a) = true) -> (forall b, scalar (mk2 b) = true) -> (forall c, scalar (mk3 c) = true) ->
  (forall a b c, P a b c -> teval [mk1 a; mk2 b; mk3 c] (erase_splat tv) = Done (F a b c)) ->
  forall la lb lc, length la = n -> length lb = n -> length lc = n ->
  Forall (fun p => P (fst p) (fst (snd p)) (snd (snd p))) (combine la (combine lb lc)) ->
  teval [VVec (map mk1 la); VVec (map mk2 lb); VVec (map mk3 lc)] tv
  = Done (VVec (map (fun p => F (fst p) (fst (snd p)) (snd (snd p))) (combine la (combine lb lc)))).
Proof.
  intros Hn CW SW S1 S2 S3 H la lb lc L1 L2 L3 FP.
  assert (LC' : length (combine lb lc) = n) by (rewrite combine_length; lia).
  assert (LC : length (combine la (combine lb lc)) = n) by (rewrite combine_length; lia).
  apply (teval_vector_lift_rows n tv _ _ Hn CW SW).
  - repeat constructor; apply nvec_map; assumption.
  - rewrite map_length. exact LC.
  - intros i Hi. unfold cenv. simpl map. simpl comp.
    rewrite (nth_map_lt mk1 la i _ da) by lia. rewrite (nth_map_lt mk2 lb i _ db) by lia.
    rewrite (nth_map_lt mk3 lc i _ dc) by lia.
    rewrite (nth_map_lt _ (combine la (combine lb lc)) i _ (da, (db, dc))) by lia.
    rewrite combine_nth by lia. rewrite combine_nth by lia. simpl fst. simpl snd.
    apply H. rewrite Forall_forall in FP.
    specialize (FP (nth i (combine la (combine lb lc)) (da, (db, dc)))).
    rewrite combine_nth in FP by lia. rewrite combine_nth in FP by lia. apply FP.
    rewrite <- (combine_nth lb lc) by lia. rewrite <- combine_nth by lia. apply nth_In. lia.
Qed.

(* ------------------------------------------------------------------ *)
(* Corollaries: the scalar lemmas of Spv/CatalogueProofs.v at EVERY width n >= 1.
   [vectorize n t] is the vector form naga emits (every constant splatted to width n); the obligation
   gen_vector_rows_are_vectorized (Spv/VectorLiftCheck.v) checks that the probed rows have this form.  *)

Lemma Forall_combine2 {A B} (P : A -> Prop) (Q : B -> Prop) la lb :
  Forall P la -> Forall Q lb -> Forall (fun p => P (fst p) /\ Q (snd p)) (combine la lb).
Proof.
  intros F1 F2. rewrite Forall_forall in *. intros [a b] H. simpl. split.
  - apply F1. eapply in_combine_l. exact H.
  - apply F2. eapply in_combine_r. exact H.
Qed.

Ltac width_side := simpl; rewrite ?Nat.eqb_refl; reflexivity.

Definition zipw {A B} (F : A -> B -> value) (la : list A) (lb : list B) : list value :=
  map (fun p => F (fst p) (snd p)) (combine la lb).
Definition zipw3 {A B C} (F : A -> B -> C -> value) (la : list A) (lb : list B) (lc : list C) : list value :=
  map (fun p => F (fst p) (fst (snd p)) (snd (snd p))) (combine la (combine lb lc)).

(* naga_div / naga_mod on vecN<i32>, vecN<u32> *)
Corollary spv_div_i32_vecn : forall n la lb, (1 <= n)%nat -> length la = n -> length lb = n ->
  Forall in32 la -> Forall in32 lb ->
  teval [VVec (map VI32 la); VVec (map VI32 lb)] (vectorize n t_div_i32)
  = Done (VVec (zipw (fun a b => VI32 (div_i32 a b)) la lb)).
Proof.
  intros n la lb Hn L1 L2 F1 F2.
  apply (lift_binary 0 0 VI32 VI32 (fun a b => in32 a /\ in32 b) (fun a b => VI32 (div_i32 a b)) n);
    try reflexivity; try assumption; [width_side | | apply Forall_combine2; assumption].
  intros a b [Ha Hb]. exact (spv_div_i32_correct a b Ha Hb).
Qed.
Corollary spv_mod_i32_vecn : forall n la lb, (1 <= n)%nat -> length la = n -> length lb = n ->
  Forall in32 la -> Forall in32 lb ->
  teval [VVec (map VI32 la); VVec (map VI32 lb)] (vectorize n t_mod_i32)
  = Done (VVec (zipw (fun a b => VI32 (rem_i32 a b)) la lb)).
Proof.
  intros n la lb Hn L1 L2 F1 F2.
  apply (lift_binary 0 0 VI32 VI32 (fun a b => in32 a /\ in32 b) (fun a b => VI32 (rem_i32 a b)) n);
    try reflexivity; try assumption; [width_side | | apply Forall_combine2; assumption].
  intros a b [Ha Hb]. exact (spv_mod_i32_correct a b Ha Hb).
Qed.
Corollary spv_div_u32_vecn : forall n la lb, (1 <= n)%nat -> length la = n -> length lb = n ->
  Forall in32 la -> Forall in32 lb ->
  teval [VVec (map VU32 la); VVec (map VU32 lb)] (vectorize n t_div_u32)
  = Done (VVec (zipw (fun a b => VU32 (div_u32 a b)) la lb)).
Proof.
  intros n la lb Hn L1 L2 F1 F2.
  apply (lift_binary 0 0 VU32 VU32 (fun a b => in32 a /\ in32 b) (fun a b => VU32 (div_u32 a b)) n);
    try reflexivity; try assumption; [width_side | | apply Forall_combine2; assumption].
  intros a b [Ha Hb]. exact (spv_div_u32_correct a b Ha Hb).
Qed.
Corollary spv_mod_u32_vecn : forall n la lb, (1 <= n)%nat -> length la = n -> length lb = n ->
  Forall in32 la -> Forall in32 lb ->
  teval [VVec (map VU32 la); VVec (map VU32 lb)] (vectorize n t_mod_u32)
  = Done (VVec (zipw (fun a b => VU32 (rem_u32 a b)) la lb)).
Proof.
  intros n la lb Hn L1 L2 F1 F2.
  apply (lift_binary 0 0 VU32 VU32 (fun a b => in32 a /\ in32 b) (fun a b => VU32 (rem_u32 a b)) n);
    try reflexivity; try assumption; [width_side | | apply Forall_combine2; assumption].
  intros a b [Ha Hb]. exact (spv_mod_u32_correct a b Ha Hb).
Qed.

(* shifts: correct on every component whose amount is < 32 ... *)
Definition shamt_ok (b : Z) : Prop := 0 <= b < 32.
Corollary spv_shl_i32_vecn_partial : forall n la lb, (1 <= n)%nat -> length la = n -> length lb = n ->
  Forall in32 la -> Forall shamt_ok lb ->
  teval [VVec (map VI32 la); VVec (map VU32 lb)] t_shl_i32 = Done (VVec (zipw (fun a b => VI32 (shl32 a b)) la lb)).
Proof.
  intros n la lb Hn L1 L2 F1 F2.
  apply (lift_binary 0 0 VI32 VU32 (fun a b => in32 a /\ shamt_ok b) (fun a b => VI32 (shl32 a b)) n);
    try reflexivity; try assumption; [ | apply Forall_combine2; assumption].
  intros a b [Ha Hb]. exact (spv_shl_i32_correct_partial a b Ha Hb).
Qed.
Corollary spv_shr_i32_vecn_partial : forall n la lb, (1 <= n)%nat -> length la = n -> length lb = n ->
  Forall in32 la -> Forall shamt_ok lb ->
  teval [VVec (map VI32 la); VVec (map VU32 lb)] t_shr_i32 = Done (VVec (zipw (fun a b => VI32 (shr_i32 a b)) la lb)).
Proof.
  intros n la lb Hn L1 L2 F1 F2.
  apply (lift_binary 0 0 VI32 VU32 (fun a b => in32 a /\ shamt_ok b) (fun a b => VI32 (shr_i32 a b)) n);
    try reflexivity; try assumption; [ | apply Forall_combine2; assumption].
  intros a b [Ha Hb]. exact (spv_shr_i32_correct_partial a b Ha Hb).
Qed.
Corollary spv_shl_u32_vecn_partial : forall n la lb, (1 <= n)%nat -> length la = n -> length lb = n ->
  Forall in32 la -> Forall shamt_ok lb ->
  teval [VVec (map VU32 la); VVec (map VU32 lb)] t_shl_u32 = Done (VVec (zipw (fun a b => VU32 (shl32 a b)) la lb)).
Proof.
  intros n la lb Hn L1 L2 F1 F2.
  apply (lift_binary 0 0 VU32 VU32 (fun a b => in32 a /\ shamt_ok b) (fun a b => VU32 (shl32 a b)) n);
    try reflexivity; try assumption; [ | apply Forall_combine2; assumption].
  intros a b [Ha Hb]. exact (spv_shl_u32_correct_partial a b Ha Hb).
Qed.
Corollary spv_shr_u32_vecn_partial : forall n la lb, (1 <= n)%nat -> length la = n -> length lb = n ->
  Forall in32 la -> Forall shamt_ok lb ->
  teval [VVec (map VU32 la); VVec (map VU32 lb)] t_shr_u32 = Done (VVec (zipw (fun a b => VU32 (shr_u32 a b)) la lb)).
Proof.
  intros n la lb Hn L1 L2 F1 F2.
  apply (lift_binary 0 0 VU32 VU32 (fun a b => in32 a /\ shamt_ok b) (fun a b => VU32 (shr_u32 a b)) n);
    try reflexivity; try assumption; [ | apply Forall_combine2; assumption].
  intros a b [Ha Hb]. exact (spv_shr_u32_correct_partial a b Ha Hb).
Qed.

(* ... and undefined as a whole as soon as ONE component's amount is >= 32 (the finding lifts to every width) *)
Lemma shl_i32_scalar_undefined a b : 32 <= b -> is_done (teval [VI32 a; VU32 b] t_shl_i32) = false.
Proof. intro H. unfold t_shl_i32. spv_eval. unfold s_shl. destruct (Z.ltb_spec b 32); [lia | reflexivity]. Qed.

Corollary spv_shl_i32_vecn_undefined : forall n la lb i, (1 <= n)%nat -> length la = n -> length lb = n ->
  (i < n)%nat -> 32 <= nth i lb 0 ->
  is_done (teval [VVec (map VI32 la); VVec (map VU32 lb)] t_shl_i32) = false.
Proof.
  intros n la lb i Hn L1 L2 Hi Hb.
  apply (teval_vector_lift_undefined n (fun _ => true)); try reflexivity; try assumption.
  - apply vec_env_ok. repeat constructor; apply nvec_map; auto.
  - exists i. split; [exact Hi|]. unfold cenv. simpl map. simpl comp.
    rewrite (nth_map_lt VI32 la i _ 0) by lia. rewrite (nth_map_lt VU32 lb i _ 0) by lia.
    apply shl_i32_scalar_undefined. exact Hb.
Qed.

(* the guard of naga_div matters at every width: the bare OpSDiv on vectors is undefined when one divisor is 0 *)
Corollary bare_sdiv_vecn_undefined : forall n la lb i, (1 <= n)%nat -> length la = n -> length lb = n ->
  (i < n)%nat -> nth i lb 0 = 0 ->
  is_done (teval [VVec (map VI32 la); VVec (map VI32 lb)] (TOp 135 KSint [TArg 0; TArg 1])) = false.
Proof.
  intros n la lb i Hn L1 L2 Hi Hb.
  apply (teval_vector_lift_undefined n (fun _ => true)); try reflexivity; try assumption.
  - apply vec_env_ok. repeat constructor; apply nvec_map; auto.
  - exists i. split; [exact Hi|]. unfold cenv. simpl map. simpl comp.
    rewrite (nth_map_lt VI32 la i _ 0) by lia. rewrite (nth_map_lt VI32 lb i _ 0) by lia.
    rewrite Hb. reflexivity.
Qed.

(* clamp on integers (SClamp / UClamp): correct on the components with low <= high *)
Corollary spv_clamp_i32_vecn_partial : forall n lx llo lhi, (1 <= n)%nat -> length lx = n -> length llo = n -> length lhi = n ->
  Forall (fun p => lt_i32 (snd (snd p)) (fst (snd p)) = false) (combine lx (combine llo lhi)) ->
  teval [VVec (map VI32 lx); VVec (map VI32 llo); VVec (map VI32 lhi)] t_clamp_i32
  = Done (VVec (zipw3 (fun x lo hi => VI32 (clamp_i32 x lo hi)) lx llo lhi)).
Proof.
  intros n lx llo lhi Hn L1 L2 L3 FP.
  apply (lift_ternary 0 0 0 VI32 VI32 VI32 (fun x lo hi => lt_i32 hi lo = false) (fun x lo hi => VI32 (clamp_i32 x lo hi)) n);
    try reflexivity; try assumption.
  intros x lo hi H. exact (spv_clamp_i32_correct_partial x lo hi H).
Qed.
Corollary spv_clamp_u32_vecn_partial : forall n lx llo lhi, (1 <= n)%nat -> length lx = n -> length llo = n -> length lhi = n ->
  Forall (fun p => lt_u32 (snd (snd p)) (fst (snd p)) = false) (combine lx (combine llo lhi)) ->
  teval [VVec (map VU32 lx); VVec (map VU32 llo); VVec (map VU32 lhi)] t_clamp_u32
  = Done (VVec (zipw3 (fun x lo hi => VU32 (clamp_u32 x lo hi)) lx llo lhi)).
Proof.
  intros n lx llo lhi Hn L1 L2 L3 FP.
  apply (lift_ternary 0 0 0 VU32 VU32 VU32 (fun x lo hi => lt_u32 hi lo = false) (fun x lo hi => VU32 (clamp_u32 x lo hi)) n);
    try reflexivity; try assumption.
  intros x lo hi H. exact (spv_clamp_u32_correct_partial x lo hi H).
Qed.

(* select with a VECTOR condition: per-component choice (operands: false-value, true-value, condition) *)
Corollary spv_select_i32_vecn : forall n lf lt lc, (1 <= n)%nat -> length lf = n -> length lt = n -> length lc = n ->
  teval [VVec (map VI32 lf); VVec (map VI32 lt); VVec (map VBool lc)] t_select_i32
  = Done (VVec (zipw3 (fun f t (c : bool) => if c then VI32 t else VI32 f) lf lt lc)).
Proof.
  intros n lf lt lc Hn L1 L2 L3.
  apply (lift_ternary 0 0 false VI32 VI32 VBool (fun _ _ _ => True) (fun f t (c : bool) => if c then VI32 t else VI32 f) n);
    try reflexivity; try assumption.
  all: try (intros f t c _; exact (spv_select_i32_correct f t c)).
  apply Forall_forall. intros; exact I.
Qed.
Corollary spv_select_f32_vecn : forall n lf lt lc, (1 <= n)%nat -> length lf = n -> length lt = n -> length lc = n ->
  teval [VVec (map VF32 lf); VVec (map VF32 lt); VVec (map VBool lc)] t_select_f32
  = Done (VVec (zipw3 (fun f t (c : bool) => if c then VF32 t else VF32 f) lf lt lc)).
Proof.
  intros n lf lt lc Hn L1 L2 L3.
  apply (lift_ternary 0 0 false VF32 VF32 VBool (fun _ _ _ => True) (fun f t (c : bool) => if c then VF32 t else VF32 f) n);
    try reflexivity; try assumption.
  all: try (intros f t c _; exact (spv_select_f32_correct f t c)).
  apply Forall_forall. intros; exact I.
Qed.

(* f32 -> i32 / u32 (bare OpConvertFToS / OpConvertFToU): correct on the components that are in range *)
Definition ftos_ok (a : Z) : Prop := exists z, z_of_f32_trunc a = Some z /\ -2147483648 <= z <= 2147483647.
Definition ftou_ok (a : Z) : Prop := exists z, z_of_f32_trunc a = Some z /\ 0 <= z <= 4294967295.
Corollary spv_as_i32_f32_vecn_partial : forall n la, (1 <= n)%nat -> length la = n -> Forall ftos_ok la ->
  teval [VVec (map VF32 la)] t_as_i32_f32 = Done (VVec (map (fun a => VI32 (i32_of_f32 a)) la)).
Proof.
  intros n la Hn L FP.
  apply (lift_unary 0 VF32 ftos_ok (fun a => VI32 (i32_of_f32 a)) n); try reflexivity; try assumption.
  intros a (z & Hz & Hr). exact (spv_as_i32_f32_correct_partial a z Hz Hr).
Qed.
Corollary spv_as_u32_f32_vecn_partial : forall n la, (1 <= n)%nat -> length la = n -> Forall ftou_ok la ->
  teval [VVec (map VF32 la)] t_as_u32_f32 = Done (VVec (map (fun a => VU32 (u32_of_f32 a)) la)).
Proof.
  intros n la Hn L FP.
  apply (lift_unary 0 VF32 ftou_ok (fun a => VU32 (u32_of_f32 a)) n); try reflexivity; try assumption.
  intros a (z & Hz & Hr). exact (spv_as_u32_f32_correct_partial a z Hz Hr).
Qed.

(* conversions that use splatted constants: i32(vecN<bool>), vecN<i32> -> vecN<bool> *)
Corollary spv_as_i32_bool_vecn : forall n lb, (1 <= n)%nat -> length lb = n ->
  teval [VVec (map VBool lb)] (vectorize n t_as_i32_bool) = Done (VVec (map (fun b => VI32 (u32_of_bool b)) lb)).
Proof.
  intros n lb Hn L.
  apply (lift_unary false VBool (fun _ => True) (fun b => VI32 (u32_of_bool b)) n); try reflexivity; try assumption.
  all: try (intros b _; exact (spv_as_i32_bool_correct b)).
  all: try (apply Forall_forall; intros; exact I).
  width_side.
Qed.
Corollary spv_as_bool_i32_vecn : forall n la, (1 <= n)%nat -> length la = n -> Forall in32 la ->
  teval [VVec (map VI32 la)] (vectorize n t_as_bool_i32) = Done (VVec (map (fun a => VBool (bool_of_32 a)) la)).
Proof.
  intros n la Hn L FP.
  apply (lift_unary 0 VI32 in32 (fun a => VBool (bool_of_32 a)) n); try reflexivity; try assumption.
  all: try (intros a Ha; exact (spv_as_bool_i32_correct a Ha)).
  width_side.
Qed.

(* the theorem applies to a width naga never emits *)
Example div_i32_vec5 :
  teval [VVec (map VI32 [7; 4294967289; 2147483648; 5; 0]); VVec (map VI32 [2; 2; 4294967295; 0; 0])] (vectorize 5 t_div_i32)
  = Done (VVec (map VI32 [3; 4294967293; 2147483648; 5; 0])).
Proof.
  rewrite (spv_div_i32_vecn 5) by (try reflexivity; try lia; repeat constructor; unfold in32, M32; lia).
  vm_compute. reflexivity.
Qed.

(* ------------------------------------------------------------------ *)
(* The executable obligation over a probed table (definitions; the lemmas over the regenerated table are in
   Spv/VectorLiftCheck.v, and checks/c01.py evaluates [rows_not_lifted] to name the offending rows).        *)

(* operations on vectors that are not component-wise: OpAll / OpAny, the integer dot product (extracts +
   multiply-add chain) and OpDot.  Short on purpose; gen_non_cw_keys_tight checks that none of them would pass. *)
Definition non_cw_keys : list string := ["all:bool"; "any:bool"; "dot:i32"; "dot:u32"; "dot:f32"]%string.

Definition interpreted (k : string) (t : texp) : bool :=
  match find_entry k t catalogue with
  | Some Proved | Some Partial | Some Refuted => true
  | _ => false
  end.

Definition is_vector_row (r : probe_row) : bool := match r with (_, n, _) => 1 <? n end.
Definition row_in_scope (r : probe_row) : bool :=
  match r with (k, n, t) => (1 <? n) && interpreted k t && negb (existsb (String.eqb k) non_cw_keys) end.
Definition row_lifts (r : probe_row) : bool :=
  match r with (_, n, t) => cw_template t && splats_width (Z.to_nat n) t end.
(* stronger shape fact: the vector template is exactly the scalar form with every constant splatted to width n *)
Definition row_is_vectorized (r : probe_row) : bool :=
  match r with (_, n, t) => texp_eqb t (vectorize (Z.to_nat n) (erase_splat t)) end.

Definition key_of (r : probe_row) : string * Z := match r with (k, n, _) => (k, n) end.
Definition rows_not_lifted (tb : list probe_row) : list (string * Z) :=
  map key_of (filter (fun r => row_in_scope r && negb (row_lifts r)) tb).
Definition rows_not_vectorized (tb : list probe_row) : list (string * Z) :=
  map key_of (filter (fun r => row_in_scope r && negb (row_is_vectorized r)) tb).
Definition rows_lifted (tb : list probe_row) : list (string * Z) :=
  map key_of (filter (fun r => row_in_scope r && row_lifts r) tb).

