(* C02 model, capability / extension / version requirements: for every instruction, type,
   storage class, decoration, builtin, execution model and mode that naga can emit, the
   capabilities (any one of a list) the SPIR-V 1.6 specification names as enabling it, the
   extension needed below the version that made it core, and the minimum SPIR-V version.
   Transcribed from the "Enabling Capabilities" / "Missing before version" columns of the
   specification's tables.  DEFINITIONS ONLY. *)
From Coq Require Import List ZArith String Bool Ascii FMapPositive MSets.MSetPositive.
Require Import Naga.Spv.Binary Naga.Spv.Opcodes Naga.Spv.Graph Naga.Spv.Validate Naga.Spv.Vulkan.
Import ListNotations.
Open Scope string_scope.
Open Scope list_scope.
Open Scope Z_scope.

(* capability -> capabilities it implicitly declares (3.31, column "Implicitly Declares") *)
Definition implies (c : Z) : list Z :=
  match c with
  | 1 => [0]            (* Shader -> Matrix *)
  | 2 => [1] | 3 => [1]  (* Geometry, Tessellation -> Shader *)
  | 7 => [6] | 8 => [6]  (* Vector16, Float16Buffer -> Kernel *)
  | 12 => [11]           (* Int64Atomics -> Int64 *)
  | 13 => [6] | 14 => [13] | 15 => [13] | 17 => [6] | 19 => [6] | 20 => [6]
  | 21 => [1]
  | 23 => [3] | 24 => [2]
  | 25 => [1] | 27 => [1] | 28 => [1] | 29 => [1] | 30 => [1] | 31 => [1] | 32 => [1] | 33 => [1]
  | 34 => [45]           (* ImageCubeArray -> SampledCubeArray *)
  | 35 => [1]
  | 36 => [37] | 37 => [1]
  | 38 => [4]
  | 40 => [1] | 41 => [1] | 42 => [1]
  | 44 => [43]           (* Image1D -> Sampled1D *)
  | 45 => [1]
  | 47 => [46]           (* ImageBuffer -> SampledBuffer *)
  | 48 => [1] | 49 => [1] | 50 => [1] | 51 => [1] | 52 => [1] | 53 => [1]
  | 54 => [2]
  | 55 => [1] | 56 => [1]
  | 57 => [2]
  | 58 => [19] | 59 => [6] | 60 => [17]
  | 62 => [61] | 63 => [61] | 64 => [61] | 65 => [61] | 66 => [61] | 67 => [61] | 68 => [61]
  | 69 => [1] | 70 => [1]
  | 4427 => [1]
  | 4434 => [4433]
  | 4435 => [] | 4436 => []
  | 4439 => [1]
  | 4441 => [1] | 4442 => [4441]
  | 4445 => []
  | 4449 => [4448]
  | 4472 => [1] | 4479 => [1]
  | 5016 => [1]
  | 5284 => []
  | 5301 => [1] | 5302 => [1]
  | 5379 => [1]
  | 6017 => [39]
  | 6033 => [1] | 6034 => [1]
  | _ => []
  end.

Fixpoint cap_closure (fuel : nat) (work : list Z) (seen : list Z) : list Z :=
  match fuel with
  | O => seen
  | S f =>
    match work with
    | [] => seen
    | c :: w => if memz c seen then cap_closure f w seen else cap_closure f (implies c ++ w) (c :: seen)
    end
  end.

(* a requirement: at instruction idx, one of [caps] must be declared ([] = nothing);
   [ext] must be declared when the module version is below [ext_core] (0 = always needed,
   "" = no extension); the module version must be at least [minver] unless [ext] is declared *)
Record req := { rq_caps : list Z; rq_ext : string; rq_ext_core : Z; rq_minver : Z }.
Definition RC (caps : list Z) : req := {| rq_caps := caps; rq_ext := ""; rq_ext_core := 0; rq_minver := 0 |}.
Definition RCE (caps : list Z) (ext : string) (core : Z) : req :=
  {| rq_caps := caps; rq_ext := ext; rq_ext_core := core; rq_minver := 0 |}.
Definition RV (caps : list Z) (minver : Z) : req := {| rq_caps := caps; rq_ext := ""; rq_ext_core := 0; rq_minver := minver |}.

Definition extended_format (f : Z) : bool :=
  ((6 <=? f) && (f <=? 20)) || ((25 <=? f) && (f <=? 29)) || ((34 <=? f) && (f <=? 39)).

Definition req_storage_class (sc : Z) : list req :=
  match sc with
  | 0 => [] | 1 => [] | 4 => [] | 5 => [] | 7 => [] | 11 => []
  | 2 => [RC [1]] | 3 => [RC [1]] | 6 => [RC [1]]
  | 8 => [RC [38]]
  | 9 => [RC [1]]
  | 10 => [RC [21]]
  | 12 => [RCE [1] "SPV_KHR_storage_buffer_storage_class" 259]      (* core in 1.3 *)
  | 5349 => [RCE [5347] "SPV_KHR_physical_storage_buffer" 261]
  | _ => []
  end.

Definition req_builtin (b : Z) : list req :=
  match b with
  | 0 => [RC [1]] | 1 => [RC [1]]
  | 3 => [RC [32]] | 4 => [RC [33]]
  | 5 => [RC [1]] | 6 => [RC [1]]
  | 7 => [RC [2; 3; 4479; 5283; 5266]]
  | 8 => [RC [2; 3]]
  | 9 => [RC [2; 69; 5254; 5283; 5266]]
  | 10 => [RC [57; 70; 5254; 5283; 5266]]
  | 11 => [RC [3]] | 12 => [RC [3]] | 13 => [RC [3]] | 14 => [RC [3]]
  | 15 => [RC [1]] | 16 => [RC [1]] | 17 => [RC [1]]
  | 18 => [RC [35]] | 19 => [RC [35]]
  | 20 => [RC [1]] | 22 => [RC [1]] | 23 => [RC [1]]
  | 36 => [RC [6; 61; 4423]] | 41 => [RC [6; 61; 4423]]
  | 38 => [RC [6; 61]] | 40 => [RC [6; 61]]
  | 42 => [RC [1]] | 43 => [RC [1]]
  | 4416 => [RC [4423; 64]] | 4417 => [RC [4423; 64]] | 4418 => [RC [4423; 64]] | 4419 => [RC [4423; 64]] | 4420 => [RC [4423; 64]]
  | 4424 => [RCE [4427] "SPV_KHR_shader_draw_parameters" 259]
  | 4425 => [RCE [4427] "SPV_KHR_shader_draw_parameters" 259]
  | 4426 => [RCE [4427] "SPV_KHR_shader_draw_parameters" 259]
  | 4438 => [RCE [4437] "SPV_KHR_device_group" 259]
  | 4440 => [RCE [4439] "SPV_KHR_multiview" 259]
  | 5286 => [RCE [5284] "SPV_KHR_fragment_shader_barycentric" 0]
  | 5287 => [RCE [5284] "SPV_KHR_fragment_shader_barycentric" 0]
  | _ => []
  end.

Definition req_decoration (d : Z) (lits : list Z) : list req :=
  match d with
  | 0 => [RC [1]] | 1 => [RC [1; 6]]
  | 2 => [RC [1]] | 3 => [RC [1]] | 4 => [RC [0]] | 5 => [RC [0]] | 6 => [RC [1]] | 7 => [RC [0]]
  | 8 => [RC [1]] | 9 => [RC [1]]
  | 11 => req_builtin (nthz 0 lits)
  | 13 => [RC [1]] | 14 => [RC [1]] | 15 => [RC [3]] | 16 => [RC [1]]
  | 17 => [RC [35]]
  | 18 => [RC [1]]
  | 26 => [RC [1]]
  | 29 => [RC [54]]
  | 30 => [RC [1]] | 31 => [RC [1]] | 32 => [RC [1]] | 33 => [RC [1]] | 34 => [RC [1]] | 35 => [RC [1]]
  | 36 => [RC [53]] | 37 => [RC [53]]
  | 43 => [RC [40]]
  | 4469 => [RCE [] "SPV_KHR_no_integer_wrap_decoration" 260]
  | 4470 => [RCE [] "SPV_KHR_no_integer_wrap_decoration" 260]
  | 5285 => [RCE [5284] "SPV_KHR_fragment_shader_barycentric" 0]
  | 5300 => [RCE [5301] "SPV_EXT_descriptor_indexing" 261]
  | _ => []
  end.

Definition req_execution_model (m : Z) : list req :=
  match m with
  | 0 => [RC [1]] | 4 => [RC [1]] | 5 => [RC [1]]
  | 1 => [RC [3]] | 2 => [RC [3]] | 3 => [RC [2]] | 6 => [RC [6]]
  | 5364 => [RCE [5283] "SPV_EXT_mesh_shader" 0] | 5365 => [RCE [5283] "SPV_EXT_mesh_shader" 0]
  | _ => []
  end.

Definition req_execution_mode (m : Z) : list req :=
  match m with
  | 0 => [RC [2]]
  | 1 => [RC [3]] | 2 => [RC [3]] | 3 => [RC [3]] | 4 => [RC [3]] | 5 => [RC [3]]
  | 6 => [RC [1]] | 7 => [RC [1]] | 8 => [RC [1]] | 9 => [RC [1]]
  | 10 => [RC [3]] | 11 => [RC [53]]
  | 12 => [RC [1]] | 14 => [RC [1]] | 15 => [RC [1]] | 16 => [RC [1]]
  | 18 => [RC [6]]
  | 19 => [RC [2]] | 20 => [RC [2]] | 21 => [RC [2]] | 22 => [RC [2; 3]] | 23 => [RC [2]]
  | 24 => [RC [3]] | 25 => [RC [3]]
  | 26 => [RC [2; 3; 5283; 5266]] | 27 => [RC [2; 5283; 5266]] | 28 => [RC [2]] | 29 => [RC [2]]
  | 30 => [RC [6]] | 31 => [RC [6]] | 33 => [RC [6]] | 34 => [RC [6]]
  | 35 => [RC [58]] | 36 => [RC [58]] | 37 => [RC [58]]
  | 38 => [RV [] 258] | 39 => [RV [6] 258]
  | 4446 => [RCE [4447] "SPV_KHR_post_depth_coverage" 0]
  | 4459 => [RCE [4464] "SPV_KHR_float_controls" 260]
  | 4460 => [RCE [4465] "SPV_KHR_float_controls" 260]
  | 4461 => [RCE [4466] "SPV_KHR_float_controls" 260]
  | 4462 => [RCE [4467] "SPV_KHR_float_controls" 260]
  | 4463 => [RCE [4468] "SPV_KHR_float_controls" 260]
  | _ => []
  end.

Definition int_width (defs : PM.t dinfo) (t : Z) : Z :=
  match tview defs t with
  | TInt w _ => w
  | TVec c _ => match tview defs c with TInt w _ => w | _ => 0 end
  | _ => 0
  end.
Definition float_width (defs : PM.t dinfo) (t : Z) : Z :=
  match tview defs t with
  | TFloat w => w
  | TVec c _ => match tview defs c with TFloat w => w | _ => 0 end
  | _ => 0
  end.

(* position of the image-operands mask within pi_args, per opcode *)
Definition imgops_pos (op : Z) : option nat :=
  if (op =? 87) || (op =? 88) || (op =? 91) || (op =? 92) || (op =? 95) || (op =? 98) then Some 2%nat
  else if (op =? 89) || (op =? 90) || (op =? 93) || (op =? 94) || (op =? 96) || (op =? 97) || (op =? 99) then Some 3%nat
  else None.

Definition image_format_of (defs : PM.t dinfo) (img_value : Z) : Z :=
  match tview defs (def_ty defs img_value) with
  | TImage _ _ _ _ _ _ f => f
  | _ => -1
  end.

Definition reqs_of (defs : PM.t dinfo) (p : pinstr) : list req :=
  if negb (pi_ok p) then [] else
  let op := pi_op p in
  let a := pi_args p in
  if op =? 22 then (if nthz 0 a =? 16 then [RC [9; 8]] else if nthz 0 a =? 64 then [RC [10]] else [])
  else if op =? 21 then (if nthz 0 a =? 8 then [RC [39]] else if nthz 0 a =? 16 then [RC [22]] else if nthz 0 a =? 64 then [RC [11]] else [])
  else if op =? 24 then [RC [0]]
  else if op =? 29 then [RC [1]]
  else if op =? 25 then
    let dim := nthz 1 a in let arrayed := nthz 3 a in let ms := nthz 4 a in let sampled := nthz 5 a in let f := nthz 6 a in
    (if dim =? 0 then (if sampled =? 2 then [RC [44]] else [RC [43; 44]])
     else if dim =? 3 then (if arrayed =? 1 then (if sampled =? 2 then [RC [34]] else [RC [45; 34]]) else [RC [1]])
     else if dim =? 4 then (if sampled =? 2 then [RC [36]] else [RC [37; 36]])
     else if dim =? 5 then (if sampled =? 2 then [RC [47]] else [RC [46; 47]])
     else if dim =? 6 then [RC [40]]
     else []) ++
    (if (ms =? 1) && (sampled =? 2) then [RC [27]] else []) ++
    (if (ms =? 1) && (arrayed =? 1) && (sampled =? 2) then [RC [48]] else []) ++
    (if extended_format f then [RC [49]] else if (f =? 40) || (f =? 41) then [RCE [5016] "SPV_EXT_shader_image_int64" 0] else []) ++
    (if int_width defs (nthz 0 a) =? 64 then [RCE [5016] "SPV_EXT_shader_image_int64" 0] else [])
  else if op =? 26 then []
  else if (op =? 32) then req_storage_class (nthz 0 a)
  else if (op =? 59) then req_storage_class (nthz 0 a)
  else if (103 <=? op) && (op <=? 107) then [RC [50; 6]]
  else if (op =? 101) || (op =? 102) then [RC [6]]
  else if (207 <=? op) && (op <=? 209) then [RC [1]]
  else if (210 <=? op) && (op <=? 215) then [RC [51]]
  else if op =? 68 then [RC [1]]
  else if op =? 252 then [RC [1]]
  else if op =? 116 then [RC [1]]
  else if (op =? 77) || (op =? 78) then []
  else if op =? 60 then []
  else if ((227 <=? op) && (op <=? 242)) then
    (if (int_width defs (pi_ty p) =? 64) ||
        ((op =? 228) && (int_width defs (def_ty defs (nthz 3 a)) =? 64)) then [RC [12]] else [])
  else if op =? 6035 then
    (if float_width defs (pi_ty p) =? 64 then [RCE [6034] "SPV_EXT_shader_atomic_float_add" 0]
     else [RCE [6033] "SPV_EXT_shader_atomic_float_add" 0])
  else if op =? 333 then [RV [61] 259]
  else if (334 <=? op) && (op <=? 336) then [RV [62] 259]
  else if (337 <=? op) && (op <=? 344) then [RV [64] 259]
  else if (op =? 345) || (op =? 346) then [RV [65] 259]
  else if (op =? 347) || (op =? 348) then [RV [66] 259]
  else if (349 <=? op) && (op <=? 364) then
    (if nthz 1 a =? 3 then [RV [67] 259] else [RV [63; 67] 259])
  else if (op =? 365) || (op =? 366) then [RV [68] 259]
  else if (400 <=? op) && (op <=? 403) then [RV [] 260]
  else if (op =? 331) then [RV [] 258]
  else if (op =? 332) then [RV [] 258]
  else if (op =? 330) then [RV [] 257]
  else if (op =? 4421) || (op =? 4422) then [RCE [4423] "SPV_KHR_shader_ballot" 0]
  else if (4450 <=? op) && (op <=? 4455) then
    [RCE [6019] "SPV_KHR_integer_dot_product" 262] ++
    (let has_fmt := if (4453 <=? op) then 3 <? lenz a else 2 <? lenz a in
     if has_fmt then [RC [6018]]
     else match tview defs (def_ty defs (nthz 0 a)) with
          | TVec c n => if (int_width defs c =? 8) && (n =? 4) then [RC [6017; 6016]] else [RC [6016]]
          | _ => []
          end)
  else if op =? 4416 then [RCE [1] "SPV_KHR_terminate_invocation" 262]
  else if ((4472 <=? op) && (op <=? 4479)) || ((6016 <=? op) && (op <=? 6032)) then [RCE [4472] "SPV_KHR_ray_query" 0]
  else if op =? 5341 then [RC [4472; 4479; 5340]]
  else if op =? 71 then req_decoration (nthz 1 a) (skipn 2 a)
  else if op =? 72 then req_decoration (nthz 2 a) (skipn 3 a)
  else if op =? 15 then req_execution_model (nthz 0 a)
  else if (op =? 16) || (op =? 331) then req_execution_mode (nthz 1 a)
  else if op =? 14 then
    (if nthz 0 a =? 0 then [] else if nthz 0 a =? 5348 then [RC [5347]] else [RC [4]]) ++
    (if (nthz 1 a =? 0) || (nthz 1 a =? 1) then [RC [1]] else if nthz 1 a =? 2 then [RC [6]]
     else if nthz 1 a =? 3 then [RCE [5345] "SPV_KHR_vulkan_memory_model" 261] else [])
  else if op =? 12 then
    (* GLSL.std.450 InterpolateAt* need InterpolationFunction *)
    (if (76 <=? nthz 1 a) && (nthz 1 a <=? 78) then [RC [52]] else [])
  else
    match imgops_pos op with
    | Some k =>
      let m := nth k a 0 in
      (if hasbit m 16 || hasbit m 32 then [RC [25]] else []) ++
      (if hasbit m 128 then [RC [42]] else []) ++
      (if (op =? 98) && (image_format_of defs (nthz 0 a) =? 0) then [RC [55]] else []) ++
      (if (op =? 99) && (image_format_of defs (nthz 0 a) =? 0) then [RC [56]] else []) ++
      (if ((op =? 87) || (op =? 89) || (op =? 91) || (op =? 93)) then [RC [1]] else [])
    | None => []
    end.

(* ---- extension names ---- *)

Fixpoint bytes_of_words (ws : list Z) : list Z :=
  match ws with
  | [] => []
  | w :: r => Z.land w 255 :: Z.land (Z.shiftr w 8) 255 :: Z.land (Z.shiftr w 16) 255 :: Z.land (Z.shiftr w 24) 255
              :: bytes_of_words r
  end.
Fixpoint string_of_bytes (bs : list Z) : string :=
  match bs with
  | [] => ""
  | b :: r => if b =? 0 then "" else String (ascii_of_N (Z.to_N b)) (string_of_bytes r)
  end.
Definition literal_string (ws : list Z) : string := string_of_bytes (bytes_of_words ws).

Definition declared_extensions (ps : list pinstr) : list string :=
  flat (fun p => if pi_op p =? 10 then [literal_string (pi_args p)] else []) ps.

Definition has_ext (exts : list string) (e : string) : bool := existsb (String.eqb e) exts.

(* capability declarations themselves: minimum version / extension of the capability *)
Definition req_capability_decl (c : Z) : list req :=
  if (61 <=? c) && (c <=? 68) then [RV [] 259]
  else if (c =? 69) || (c =? 70) then [RV [] 261]
  else if c =? 4423 then [RCE [] "SPV_KHR_shader_ballot" 0]
  else if c =? 4427 then [RCE [] "SPV_KHR_shader_draw_parameters" 259]
  else if (4433 <=? c) && (c <=? 4436) then [RCE [] "SPV_KHR_16bit_storage" 259]
  else if c =? 4439 then [RCE [] "SPV_KHR_multiview" 259]
  else if (4448 <=? c) && (c <=? 4450) then [RCE [] "SPV_KHR_8bit_storage" 261]
  else if c =? 4472 then [RCE [] "SPV_KHR_ray_query" 0]
  else if c =? 4479 then [RCE [] "SPV_KHR_ray_tracing" 0]
  else if c =? 5016 then [RCE [] "SPV_EXT_shader_image_int64" 0]
  else if c =? 5284 then [RCE [] "SPV_KHR_fragment_shader_barycentric" 0]
  else if (c =? 5301) || (c =? 5302) then [RCE [] "SPV_EXT_descriptor_indexing" 261]
  else if (6016 <=? c) && (c <=? 6019) then [RCE [] "SPV_KHR_integer_dot_product" 262]
  else if (c =? 6033) || (c =? 6034) then [RCE [] "SPV_EXT_shader_atomic_float_add" 0]
  else [].

Definition check_req (h : header) (caps : list Z) (exts : list string) (p : pinstr) (r : req) : list violation :=
  let idx := pi_idx p in
  (match rq_caps r with
   | [] => []
   | c :: _ => if existsb (fun x => memz x caps) (rq_caps r) then [] else [V "missing_capability" idx c (pi_op p)]
   end) ++
  (if String.eqb (rq_ext r) "" then []
   else if has_ext exts (rq_ext r) then []
   else if (0 <? rq_ext_core r) && (rq_ext_core r <=? vmm h) then []
   else [V ("missing_extension:" ++ rq_ext r)%string idx (pi_op p) (vmm h)]) ++
  (if (0 <? rq_minver r) && (vmm h <? rq_minver r) then [V "version_too_low" idx (pi_op p) (rq_minver r)] else []).

Definition rule_caps (h : header) (defs : PM.t dinfo) (ps : list pinstr) : list violation :=
  let decl := declared_caps ps in
  let caps := cap_closure 400 decl [] in
  let exts := declared_extensions ps in
  flat (fun p => flat (check_req h caps exts p)
                      (reqs_of defs p ++ (if pi_op p =? 17 then req_capability_decl (nthz 0 (pi_args p)) else []))) ps.

(* ---- literal operands are enumerants / masks of the specification ---- *)

Definition known_storage_class (sc : Z) : bool :=
  ((0 <=? sc) && (sc <=? 12)) || (sc =? 5328) || (sc =? 5329) || (sc =? 5338) || (sc =? 5339) || (sc =? 5342) ||
  (sc =? 5343) || (sc =? 5349) || (sc =? 5402).
Definition in_table (v : Z) (t : list (string * Z)) : bool := existsb (fun x => snd x =? v) t.

Definition rule_enumerants_one (p : pinstr) : list violation :=
  if negb (pi_ok p) then [] else
  let op := pi_op p in
  let a := pi_args p in
  let idx := pi_idx p in
  let bad (what : string) (v : Z) := [V ("invalid_enumerant:" ++ what)%string idx v op] in
  if (op =? 32) || (op =? 59) then (if known_storage_class (nthz 0 a) then [] else bad "storage_class" (nthz 0 a))
  else if op =? 15 then (if in_table (nthz 0 a) execution_models || (nthz 0 a =? 5267) || (nthz 0 a =? 5268) ||
                             ((5313 <=? nthz 0 a) && (nthz 0 a <=? 5318)) then [] else bad "execution_model" (nthz 0 a))
  else if op =? 14 then
    (if in_table (nthz 0 a) addressing_models then [] else bad "addressing_model" (nthz 0 a)) ++
    (if in_table (nthz 1 a) memory_models then [] else bad "memory_model" (nthz 1 a))
  else if op =? 25 then
    (if (0 <=? nthz 1 a) && (nthz 1 a <=? 6) then [] else bad "dim" (nthz 1 a)) ++
    (if (0 <=? nthz 2 a) && (nthz 2 a <=? 2) then [] else bad "image_depth" (nthz 2 a)) ++
    (if (0 <=? nthz 3 a) && (nthz 3 a <=? 1) then [] else bad "image_arrayed" (nthz 3 a)) ++
    (if (0 <=? nthz 4 a) && (nthz 4 a <=? 1) then [] else bad "image_ms" (nthz 4 a)) ++
    (if (0 <=? nthz 5 a) && (nthz 5 a <=? 2) then [] else bad "image_sampled" (nthz 5 a)) ++
    (if in_table (nthz 6 a) image_formats then [] else bad "image_format" (nthz 6 a))
  else if op =? 54 then (if Z.land (nthz 0 a) (Z.lnot 15) =? 0 then [] else bad "function_control" (nthz 0 a))
  else if op =? 247 then (if Z.land (nthz 1 a) (Z.lnot 3) =? 0 then [] else bad "selection_control" (nthz 1 a))
  else if op =? 246 then (if Z.land (nthz 2 a) (Z.lnot 33489407) =? 0 then [] else bad "loop_control" (nthz 2 a))
  else if op =? 21 then
    (if memz (nthz 0 a) [8; 16; 32; 64] then [] else bad "int_width" (nthz 0 a)) ++
    (if (nthz 1 a =? 0) || (nthz 1 a =? 1) then [] else bad "int_signedness" (nthz 1 a))
  else if op =? 22 then (if memz (nthz 0 a) [16; 32; 64] then [] else bad "float_width" (nthz 0 a))
  else if (op =? 23) then (if (2 <=? nthz 1 a) && (nthz 1 a <=? 4) then [] else bad "vector_size" (nthz 1 a))
  else if (op =? 24) then (if (2 <=? nthz 1 a) && (nthz 1 a <=? 4) then [] else bad "matrix_columns" (nthz 1 a))
  else if op =? 71 then
    (if nthz 1 a =? 11 then (if in_table (nthz 2 a) builtins || (5000 <? nthz 2 a) then [] else bad "builtin" (nthz 2 a)) else [])
  else if (349 <=? op) && (op <=? 364) then (if (0 <=? nthz 1 a) && (nthz 1 a <=? 3) then [] else bad "group_operation" (nthz 1 a))
  else [].

Definition rule_enumerants (ps : list pinstr) : list violation := flat rule_enumerants_one ps.
