(* Operation semantics of the SPIR-V value-producing instructions naga emits
   (arithmetic, logic, conversion, bitwise, relational, GLSL.std.450), on the
   run-time values of IR/Values.v.  Opcode / extended-instruction numbers and the
   meaning of every instruction are transcribed from the SPIR-V 1.6 specification
   (section 3.49) and the "GLSL.std.450" extended instruction set specification,
   NOT from naga's spirv.go.

   Trapping reading (C15): wherever the specification says the result (or the
   behaviour) is undefined the operation is a failed execution
       Fail "UB: ..."      undefined by the SPIR-V specification for these operands
       Fail "IMPL: ..."    the specification leaves the choice of the result to the implementation
       Fail "NAN: ..."     NaN operand of an operation whose NaN behaviour is unspecified
   so "computes what WGSL means" includes "never depends on undefined behaviour".

   Signedness is a property of the *instruction* (OpSDiv / OpUDiv), not of the operand
   type, so integer operands are read as 32-bit patterns whatever their tag, and the
   result is tagged from the component kind of the Result Type.                      *)
From Coq Require Import List ZArith String Bool.
Import ListNotations.
From Flocq Require Import Core.Zaux IEEE754.BinarySingleNaN.
Require Import Naga.Base.Bits32 Naga.Base.F32 Naga.IR.Values.
Open Scope string_scope.
Open Scope Z_scope.

(* component kind of a Result Type *)
Inductive skind := KBool | KSint | KUint | KFloat.

Definition skind_eqb (a b : skind) : bool :=
  match a, b with KBool, KBool | KSint, KSint | KUint, KUint | KFloat, KFloat => true | _, _ => false end.

Definition ub {A} (what : string) : result A := Fail ("UB: " ++ what).
Definition impl_choice {A} (what : string) : result A := Fail ("IMPL: " ++ what).
Definition nan_unspec {A} (what : string) : result A := Fail ("NAN: " ++ what).
Definition unmodelled {A} (what : string) : result A := Fail ("not modelled: " ++ what).

(* ------------------------------------------------------------------ *)
(* Integer instructions on 32-bit patterns (operands in [0, 2^32))     *)

(* OpSDiv: "Signed-integer division of Operand 1 divided by Operand 2. ... Behavior is undefined
   if Operand 2 is 0. Behavior is undefined if Operand 2 is -1 and Operand 1 is the minimum
   representable value for the operands' type, causing signed overflow."  (rounds toward zero) *)
Definition s_sdiv (a b : Z) : result Z :=
  if b =? 0 then ub "OpSDiv by zero"
  else if (a =? H32) && (b =? ALL_ONES) then ub "OpSDiv overflow (MIN / -1)"
  else Done (wrap (Z.quot (sgn a) (sgn b))).
(* OpUDiv: "Behavior is undefined if Operand 2 is 0." *)
Definition s_udiv (a b : Z) : result Z :=
  if b =? 0 then ub "OpUDiv by zero" else Done (a / b).
(* OpSRem: remainder whose sign matches the sign of Operand 1; undefined for 0 and MIN/-1 *)
Definition s_srem (a b : Z) : result Z :=
  if b =? 0 then ub "OpSRem by zero"
  else if (a =? H32) && (b =? ALL_ONES) then ub "OpSRem overflow (MIN rem -1)"
  else Done (wrap (Z.rem (sgn a) (sgn b))).
(* OpSMod: remainder whose sign matches the sign of Operand 2; same undefined cases *)
Definition s_smod (a b : Z) : result Z :=
  if b =? 0 then ub "OpSMod by zero"
  else if (a =? H32) && (b =? ALL_ONES) then ub "OpSMod overflow (MIN mod -1)"
  else Done (wrap (Z.modulo (sgn a) (sgn b))).
(* OpUMod: "Behavior is undefined if Operand 2 is 0." *)
Definition s_umod (a b : Z) : result Z :=
  if b =? 0 then ub "OpUMod by zero" else Done (a mod b).

(* Shifts: "Shift is treated as unsigned. The resulting value is undefined if Shift is greater than
   or equal to the bit width of the components of Base." *)
Definition s_shl (a n : Z) : result Z :=
  if n <? 32 then Done (wrap (Z.shiftl a n)) else ub "OpShiftLeftLogical by >= 32".
Definition s_shr_logical (a n : Z) : result Z :=
  if n <? 32 then Done (Z.shiftr a n) else ub "OpShiftRightLogical by >= 32".
Definition s_shr_arith (a n : Z) : result Z :=
  if n <? 32 then Done (wrap (Z.shiftr (sgn a) n)) else ub "OpShiftRightArithmetic by >= 32".

(* OpBitFieldInsert / OpBitFieldSExtract / OpBitFieldUExtract: "The resulting value is undefined if
   Count or Offset or their sum is greater than the number of bits in the result." *)
Definition s_bf_uextract (base off cnt : Z) : result Z :=
  if off + cnt >? 32 then ub "OpBitFieldUExtract: offset + count > 32"
  else Done (Z.land (Z.shiftr base off) (Z.ones cnt)).
Definition s_bf_sextract (base off cnt : Z) : result Z :=
  if off + cnt >? 32 then ub "OpBitFieldSExtract: offset + count > 32"
  else if cnt =? 0 then Done 0
  else let v := Z.land (Z.shiftr base off) (Z.ones cnt) in
       Done (if Z.testbit v (cnt - 1) then wrap (v - Z.shiftl 1 cnt) else v).
Definition s_bf_insert (base ins off cnt : Z) : result Z :=
  if off + cnt >? 32 then ub "OpBitFieldInsert: offset + count > 32"
  else if cnt =? 0 then Done base
  else let mask := wrap (Z.shiftl (Z.ones cnt) off) in         (* bits off .. off+cnt-1 *)
       Done (Z.lor (Z.land base (ALL_ONES - mask)) (Z.land (wrap (Z.shiftl ins off)) mask)).

(* ------------------------------------------------------------------ *)
(* Conversions                                                          *)

(* OpConvertFToS / OpConvertFToU: "Convert value numerically from floating point to (un)signed
   integer, with round toward 0.0.  Behavior is undefined if Result Type is not wide enough to
   hold the converted value." (NaN and infinities have no converted value) *)
Definition s_ftos (a : Z) : result Z :=
  match z_of_f32_trunc a with
  | None => ub "OpConvertFToS of NaN or infinity"
  | Some z => if (-2147483648 <=? z) && (z <=? 2147483647) then Done (z mod M32)
              else ub "OpConvertFToS out of range"
  end.
Definition s_ftou (a : Z) : result Z :=
  match z_of_f32_trunc a with
  | None => ub "OpConvertFToU of NaN or infinity"
  | Some z => if (0 <=? z) && (z <=? 4294967295) then Done z
              else ub "OpConvertFToU out of range"
  end.

(* ------------------------------------------------------------------ *)
(* Floating point                                                       *)

(* OpFRem / OpFMod: the remainder of Operand 1 / Operand 2 whose sign matches Operand 1 (FRem) or
   Operand 2 (FMod).  For finite operands and a non-zero divisor the truncated remainder is exactly
   representable; the floored one is rounded once.  Other operand classes: unspecified (NAN:). *)
Definition f_parts (a : Z) : option (bool * Z * Z) :=
  match of_bits a with
  | B754_zero s => Some (s, 0, 0)
  | B754_finite s m e _ => Some (s, Z.pos m, e)
  | _ => None
  end.
Definition f_remainder (floored : bool) (a b : Z) : result Z :=
  match f_parts a, f_parts b with
  | Some (sa, ma, ea), Some (sb, mb, eb) =>
    if mb =? 0 then nan_unspec "float remainder by zero"
    else
      let e := Z.min ea eb in
      let X := cond_Zopp sa (ma * 2 ^ (ea - e)) in
      let Y := cond_Zopp sb (mb * 2 ^ (eb - e)) in
      let R := if floored then Z.modulo X Y else Z.rem X Y in
      Done (to_bits (binary_normalize 24 128 _ _ mode_NE R e (if floored then sb else sa)))
  | _, _ => nan_unspec "float remainder of a NaN or infinity"
  end.
Definition s_frem := f_remainder false.
Definition s_fmod := f_remainder true.

(* comparisons: FOrd* is false, FUnord* is true when either operand is a NaN *)
Definition unordered (a b : Z) : bool := is_nan_bits a || is_nan_bits b.
Definition s_ford_eq a b := feq a b.
Definition s_funord_eq a b := unordered a b || feq a b.
Definition s_ford_ne a b := negb (unordered a b) && negb (feq a b).
Definition s_funord_ne a b := unordered a b || negb (feq a b).
Definition s_ford_lt a b := flt a b.
Definition s_funord_lt a b := unordered a b || flt a b.
Definition s_ford_gt a b := flt b a.
Definition s_funord_gt a b := unordered a b || flt b a.
Definition s_ford_le a b := fle a b.
Definition s_funord_le a b := unordered a b || fle a b.
Definition s_ford_ge a b := fle b a.
Definition s_funord_ge a b := unordered a b || fle b a.

(* GLSL.std.450 FMin/FMax: "Result is y if y < x; otherwise result is x. Which operand is the result
   is undefined if one of the operands is a NaN." *)
Definition g_fmin (a b : Z) : result Z :=
  if unordered a b then nan_unspec "FMin with a NaN operand" else Done (if flt b a then b else a).
Definition g_fmax (a b : Z) : result Z :=
  if unordered a b then nan_unspec "FMax with a NaN operand" else Done (if flt a b then b else a).
(* NMin/NMax: "If one operand is a NaN, the other operand is the result." *)
Definition g_nmin (a b : Z) : Z := if is_nan_bits a then b else if is_nan_bits b then a else if flt b a then b else a.
Definition g_nmax (a b : Z) : Z := if is_nan_bits a then b else if is_nan_bits b then a else if flt a b then b else a.
(* FClamp: "Result is min(max(x, minVal), maxVal). Result is undefined if minVal > maxVal." *)
Definition g_fclamp (x lo hi : Z) : result Z :=
  if is_nan_bits x || is_nan_bits lo || is_nan_bits hi then nan_unspec "FClamp with a NaN operand"
  else if flt hi lo then ub "FClamp with minVal > maxVal"
  else Done (let m := if flt x lo then lo else x in if flt hi m then hi else m).
Definition g_nclamp (x lo hi : Z) : result Z :=
  if flt hi lo then ub "NClamp with minVal > maxVal" else Done (g_nmin (g_nmax x lo) hi).
(* UClamp / SClamp: same, on integers *)
Definition g_uclamp (x lo hi : Z) : result Z :=
  if lt_u32 hi lo then ub "UClamp with minVal > maxVal" else Done (min_u32 (max_u32 x lo) hi).
Definition g_sclamp (x lo hi : Z) : result Z :=
  if lt_i32 hi lo then ub "SClamp with minVal > maxVal" else Done (min_i32 (max_i32 x lo) hi).

(* Round: "Result is the value equal to the nearest whole number to x. The fraction 0.5 will round in a
   direction chosen by the implementation, presumably the direction that is fastest." *)
Definition HALF_BITS : Z := 1056964608.   (* 0.5 *)
Definition is_half_tie (a : Z) : bool := fsub a (ffloor a) =? HALF_BITS.
Definition g_round (a : Z) : result Z :=
  if is_half_tie a then impl_choice "GLSL.std.450 Round of a value with fraction 0.5" else Done (fround a).
(* FSign: "Result is 1.0 if x > 0, 0.0 if x = 0, or -1.0 if x < 0." *)
Definition ONE_BITS : Z := 1065353216.
Definition MINUS_ONE_BITS : Z := 3212836864.
Definition g_fsign (a : Z) : result Z :=
  if is_nan_bits a then nan_unspec "FSign of a NaN"
  else Done (if flt 0 a then ONE_BITS else if flt a 0 then MINUS_ONE_BITS else a).   (* x = 0: a zero; its sign is kept *)

(* ------------------------------------------------------------------ *)
(* Lifting to tagged values                                             *)

Definition int_bits (v : value) : result Z :=
  match v with VI32 x | VU32 x => Done x | _ => Fail "spv: integer operand expected" end.
Definition float_bits (v : value) : result Z :=
  match v with VF32 x => Done x | _ => Fail "spv: float operand expected" end.
Definition bool_of (v : value) : result bool :=
  match v with VBool b => Done b | _ => Fail "spv: bool operand expected" end.

Definition mk_int (k : skind) (z : Z) : result value :=
  match k with
  | KSint => Done (VI32 z) | KUint => Done (VU32 z)
  | _ => Fail "spv: integer result but Result Type is not an integer type"
  end.
Definition mk_float (k : skind) (z : Z) : result value :=
  match k with KFloat => Done (VF32 z) | _ => Fail "spv: float result but Result Type is not a float type" end.
Definition mk_bool (k : skind) (b : bool) : result value :=
  match k with KBool => Done (VBool b) | _ => Fail "spv: bool result but Result Type is not bool" end.

Definition int2 (k : skind) (f : Z -> Z -> result Z) (a b : value) : result value :=
  x <~ int_bits a ;; y <~ int_bits b ;; z <~ f x y ;; mk_int k z.
Definition int2t (k : skind) (f : Z -> Z -> Z) := int2 k (fun x y => Done (f x y)).
Definition int1 (k : skind) (f : Z -> Z) (a : value) : result value :=
  x <~ int_bits a ;; mk_int k (f x).
Definition icmp (k : skind) (f : Z -> Z -> bool) (a b : value) : result value :=
  x <~ int_bits a ;; y <~ int_bits b ;; mk_bool k (f x y).
Definition flt2 (k : skind) (f : Z -> Z -> result Z) (a b : value) : result value :=
  x <~ float_bits a ;; y <~ float_bits b ;; z <~ f x y ;; mk_float k z.
Definition flt2t (k : skind) (f : Z -> Z -> Z) := flt2 k (fun x y => Done (f x y)).
Definition flt1 (k : skind) (f : Z -> result Z) (a : value) : result value :=
  x <~ float_bits a ;; z <~ f x ;; mk_float k z.
Definition flt1t (k : skind) (f : Z -> Z) := flt1 k (fun x => Done (f x)).
Definition fcmp (k : skind) (f : Z -> Z -> bool) (a b : value) : result value :=
  x <~ float_bits a ;; y <~ float_bits b ;; mk_bool k (f x y).
Definition bool2 (k : skind) (f : bool -> bool -> bool) (a b : value) : result value :=
  x <~ bool_of a ;; y <~ bool_of b ;; mk_bool k (f x y).

Definition lift3v (f : value -> value -> value -> result value) (a b c : value) : result value :=
  match a, b, c with
  | VVec l1, VVec l2, VVec l3 =>
    rbind ((fix go l1 l2 l3 := match l1, l2, l3 with
       | [], [], [] => Done []
       | x :: r1, y :: r2, z :: r3 => v <~ f x y z ;; vs <~ go r1 r2 r3 ;; Done (v :: vs)
       | _, _, _ => Fail "vector length mismatch" end) l1 l2 l3) (fun vs => Done (VVec vs))
  | _, _, _ => f a b c
  end.

Definition bits_any (v : value) : result Z :=
  match v with VI32 x | VU32 x | VF32 x => Done x | _ => Fail "OpBitcast: operand is not a 32-bit numeric scalar" end.
Definition retag (k : skind) (z : Z) : result value :=
  match k with KSint => Done (VI32 z) | KUint => Done (VU32 z) | KFloat => Done (VF32 z)
          | KBool => Fail "OpBitcast to bool" end.

(* OpSelect: scalar condition selects whole objects; a vector condition selects per component *)
Definition s_select (c a r : value) : result value :=
  match c with
  | VBool b => Done (if b then a else r)
  | VVec cs =>
    match a, r with
    | VVec la, VVec lr =>
      rbind ((fix go cs la lr := match cs, la, lr with
         | [], [], [] => Done []
         | VBool b :: cs', x :: la', y :: lr' => vs <~ go cs' la' lr' ;; Done ((if b then x else y) :: vs)
         | _, _, _ => Fail "OpSelect: shapes" end) cs la lr) (fun vs => Done (VVec vs))
    | _, _ => Fail "OpSelect: shapes"
    end
  | _ => Fail "OpSelect: condition"
  end.

Definition bools_of_vec (v : value) : result (list bool) :=
  match v with
  | VVec l => rmap bool_of l
  | _ => Fail "OpAny/OpAll: operand is not a vector of bool"
  end.

Definition mat_times_scalar (m s : value) : result value :=
  match m with
  | VMat cs => r <~ rmap (fun c => lift2 (arith_scalar OMul) c s) cs ;; Done (VMat r)
  | _ => Fail "OpMatrixTimesScalar: operand"
  end.

Definition transpose_value (m : value) : result value :=
  cols <~ mat_cols m ;;
  Done (VMat (map VVec (transpose_lists 5 cols))).

(* ------------------------------------------------------------------ *)
(* Core instructions with a Result Type whose meaning depends only on the component kind [k] of
   the Result Type and on the operand values.  [None] = not one of these instructions.          *)
Definition eval_op (opc : Z) (k : skind) (args : list value) : option (result value) :=
  match opc, args with
  (* conversion *)
  | 109, [a] => Some (lift1 (fun x => z <~ float_bits x ;; r <~ s_ftou z ;; mk_int k r) a)       (* OpConvertFToU *)
  | 110, [a] => Some (lift1 (fun x => z <~ float_bits x ;; r <~ s_ftos z ;; mk_int k r) a)       (* OpConvertFToS *)
  | 111, [a] => Some (lift1 (fun x => z <~ int_bits x ;; mk_float k (f32_of_i32 z)) a)            (* OpConvertSToF *)
  | 112, [a] => Some (lift1 (fun x => z <~ int_bits x ;; mk_float k (f32_of_u32 z)) a)            (* OpConvertUToF *)
  | 124, [a] => Some (lift1 (fun x => z <~ bits_any x ;; retag k z) a)                            (* OpBitcast (same shape) *)
  (* arithmetic *)
  | 126, [a] => Some (lift1 (int1 k neg32) a)                                                     (* OpSNegate *)
  | 127, [a] => Some (lift1 (flt1t k fneg) a)                                                     (* OpFNegate *)
  | 128, [a; b] => Some (lift2 (int2t k add32) a b)                                               (* OpIAdd *)
  | 129, [a; b] => Some (lift2 (flt2t k fadd) a b)                                                (* OpFAdd *)
  | 130, [a; b] => Some (lift2 (int2t k sub32) a b)                                               (* OpISub *)
  | 131, [a; b] => Some (lift2 (flt2t k fsub) a b)                                                (* OpFSub *)
  | 132, [a; b] => Some (lift2 (int2t k mul32) a b)                                               (* OpIMul *)
  | 133, [a; b] => Some (lift2 (flt2t k fmul) a b)                                                (* OpFMul *)
  | 134, [a; b] => Some (lift2 (int2 k s_udiv) a b)                                               (* OpUDiv *)
  | 135, [a; b] => Some (lift2 (int2 k s_sdiv) a b)                                               (* OpSDiv *)
  | 136, [a; b] => Some (lift2 (flt2t k fdiv) a b)                                                (* OpFDiv *)
  | 137, [a; b] => Some (lift2 (int2 k s_umod) a b)                                               (* OpUMod *)
  | 138, [a; b] => Some (lift2 (int2 k s_srem) a b)                                               (* OpSRem *)
  | 139, [a; b] => Some (lift2 (int2 k s_smod) a b)                                               (* OpSMod *)
  | 140, [a; b] => Some (lift2 (flt2 k s_frem) a b)                                               (* OpFRem *)
  | 141, [a; b] => Some (lift2 (flt2 k s_fmod) a b)                                               (* OpFMod *)
  | 142, [v; s] => Some (lift2 (flt2t k fmul) v s)                                                (* OpVectorTimesScalar *)
  | 143, [m; s] => Some (mat_times_scalar m s)                                                    (* OpMatrixTimesScalar *)
  | 144, [v; m] => Some (vec_mul_mat v m)                                                         (* OpVectorTimesMatrix *)
  | 145, [m; v] => Some (mat_mul_vec m v)                                                         (* OpMatrixTimesVector *)
  | 146, [a; b] => Some (mat_mul_mat a b)                                                         (* OpMatrixTimesMatrix *)
  | 148, [a; b] => Some (x <~ vec_elems a ;; y <~ vec_elems b ;; dot_vals x y)                    (* OpDot *)
  | 84, [m] => Some (transpose_value m)                                                           (* OpTranspose *)
  (* relational / logical *)
  | 154, [v] => Some (bs <~ bools_of_vec v ;; mk_bool k (existsb (fun b => b) bs))                (* OpAny *)
  | 155, [v] => Some (bs <~ bools_of_vec v ;; mk_bool k (forallb (fun b => b) bs))                (* OpAll *)
  | 156, [a] => Some (lift1 (fun x => z <~ float_bits x ;; mk_bool k (is_nan_bits z)) a)          (* OpIsNan *)
  | 157, [a] => Some (lift1 (fun x => z <~ float_bits x ;; mk_bool k (is_inf_bits z)) a)          (* OpIsInf *)
  | 164, [a; b] => Some (lift2 (bool2 k Bool.eqb) a b)                                            (* OpLogicalEqual *)
  | 165, [a; b] => Some (lift2 (bool2 k xorb) a b)                                                (* OpLogicalNotEqual *)
  | 166, [a; b] => Some (lift2 (bool2 k orb) a b)                                                 (* OpLogicalOr *)
  | 167, [a; b] => Some (lift2 (bool2 k andb) a b)                                                (* OpLogicalAnd *)
  | 168, [a] => Some (lift1 (fun x => b <~ bool_of x ;; mk_bool k (negb b)) a)                    (* OpLogicalNot *)
  | 169, [c; a; b] => Some (s_select c a b)                                                       (* OpSelect *)
  | 170, [a; b] => Some (lift2 (icmp k Z.eqb) a b)                                                (* OpIEqual *)
  | 171, [a; b] => Some (lift2 (icmp k (fun x y => negb (x =? y))) a b)                           (* OpINotEqual *)
  | 172, [a; b] => Some (lift2 (icmp k (fun x y => lt_u32 y x)) a b)                              (* OpUGreaterThan *)
  | 173, [a; b] => Some (lift2 (icmp k (fun x y => lt_i32 y x)) a b)                              (* OpSGreaterThan *)
  | 174, [a; b] => Some (lift2 (icmp k (fun x y => le_u32 y x)) a b)                              (* OpUGreaterThanEqual *)
  | 175, [a; b] => Some (lift2 (icmp k (fun x y => le_i32 y x)) a b)                              (* OpSGreaterThanEqual *)
  | 176, [a; b] => Some (lift2 (icmp k lt_u32) a b)                                               (* OpULessThan *)
  | 177, [a; b] => Some (lift2 (icmp k lt_i32) a b)                                               (* OpSLessThan *)
  | 178, [a; b] => Some (lift2 (icmp k le_u32) a b)                                               (* OpULessThanEqual *)
  | 179, [a; b] => Some (lift2 (icmp k le_i32) a b)                                               (* OpSLessThanEqual *)
  | 180, [a; b] => Some (lift2 (fcmp k s_ford_eq) a b)                                            (* OpFOrdEqual *)
  | 181, [a; b] => Some (lift2 (fcmp k s_funord_eq) a b)                                          (* OpFUnordEqual *)
  | 182, [a; b] => Some (lift2 (fcmp k s_ford_ne) a b)                                            (* OpFOrdNotEqual *)
  | 183, [a; b] => Some (lift2 (fcmp k s_funord_ne) a b)                                          (* OpFUnordNotEqual *)
  | 184, [a; b] => Some (lift2 (fcmp k s_ford_lt) a b)                                            (* OpFOrdLessThan *)
  | 185, [a; b] => Some (lift2 (fcmp k s_funord_lt) a b)                                          (* OpFUnordLessThan *)
  | 186, [a; b] => Some (lift2 (fcmp k s_ford_gt) a b)                                            (* OpFOrdGreaterThan *)
  | 187, [a; b] => Some (lift2 (fcmp k s_funord_gt) a b)                                          (* OpFUnordGreaterThan *)
  | 188, [a; b] => Some (lift2 (fcmp k s_ford_le) a b)                                            (* OpFOrdLessThanEqual *)
  | 189, [a; b] => Some (lift2 (fcmp k s_funord_le) a b)                                          (* OpFUnordLessThanEqual *)
  | 190, [a; b] => Some (lift2 (fcmp k s_ford_ge) a b)                                            (* OpFOrdGreaterThanEqual *)
  | 191, [a; b] => Some (lift2 (fcmp k s_funord_ge) a b)                                          (* OpFUnordGreaterThanEqual *)
  (* bit *)
  | 194, [a; n] => Some (lift2 (int2 k s_shr_logical) a n)                                        (* OpShiftRightLogical *)
  | 195, [a; n] => Some (lift2 (int2 k s_shr_arith) a n)                                          (* OpShiftRightArithmetic *)
  | 196, [a; n] => Some (lift2 (int2 k s_shl) a n)                                                (* OpShiftLeftLogical *)
  | 197, [a; b] => Some (lift2 (int2t k or32) a b)                                                (* OpBitwiseOr *)
  | 198, [a; b] => Some (lift2 (int2t k xor32) a b)                                               (* OpBitwiseXor *)
  | 199, [a; b] => Some (lift2 (int2t k and32) a b)                                               (* OpBitwiseAnd *)
  | 200, [a] => Some (lift1 (int1 k not32) a)                                                     (* OpNot *)
  | 201, [base; ins; off; cnt] =>                                                                 (* OpBitFieldInsert *)
    Some (o <~ int_bits off ;; c <~ int_bits cnt ;;
          lift2 (int2 k (fun x y => s_bf_insert x y o c)) base ins)
  | 202, [base; off; cnt] =>                                                                      (* OpBitFieldSExtract *)
    Some (o <~ int_bits off ;; c <~ int_bits cnt ;;
          lift1 (fun x => z <~ int_bits x ;; r <~ s_bf_sextract z o c ;; mk_int k r) base)
  | 203, [base; off; cnt] =>                                                                      (* OpBitFieldUExtract *)
    Some (o <~ int_bits off ;; c <~ int_bits cnt ;;
          lift1 (fun x => z <~ int_bits x ;; r <~ s_bf_uextract z o c ;; mk_int k r) base)
  | 204, [a] => Some (lift1 (int1 k reverse_bits) a)                                              (* OpBitReverse *)
  | 205, [a] => Some (lift1 (int1 k count_one_bits) a)                                            (* OpBitCount *)
  | 83, [a] => Some (Done a)                                                                      (* OpCopyObject *)
  | 400, [a] => Some (Done a)                                                                     (* OpCopyLogical *)
  | _, _ => None
  end.

(* GLSL.std.450 extended instructions *)
Definition eval_glsl (inst : Z) (k : skind) (args : list value) : result value :=
  match inst, args with
  | 1, [a] => lift1 (flt1 k g_round) a                                                            (* Round *)
  | 2, [a] => lift1 (flt1t k fround) a                                                            (* RoundEven *)
  | 3, [a] => lift1 (flt1t k ftrunc) a                                                            (* Trunc *)
  | 4, [a] => lift1 (flt1t k fabs) a                                                              (* FAbs *)
  | 5, [a] => lift1 (int1 k abs_i32) a                                                            (* SAbs *)
  | 6, [a] => lift1 (flt1 k g_fsign) a                                                            (* FSign *)
  | 7, [a] => lift1 (int1 k sign_i32) a                                                           (* SSign *)
  | 8, [a] => lift1 (flt1t k ffloor) a                                                            (* Floor *)
  | 9, [a] => lift1 (flt1t k fceil) a                                                             (* Ceil *)
  | 31, [a] => lift1 (flt1t k fsqrt) a                                                            (* Sqrt *)
  | 37, [a; b] => lift2 (flt2 k g_fmin) a b                                                       (* FMin *)
  | 38, [a; b] => lift2 (int2t k min_u32) a b                                                     (* UMin *)
  | 39, [a; b] => lift2 (int2t k min_i32) a b                                                     (* SMin *)
  | 40, [a; b] => lift2 (flt2 k g_fmax) a b                                                       (* FMax *)
  | 41, [a; b] => lift2 (int2t k max_u32) a b                                                     (* UMax *)
  | 42, [a; b] => lift2 (int2t k max_i32) a b                                                     (* SMax *)
  | 43, [x; lo; hi] =>                                                                            (* FClamp *)
    lift3v (fun p q r => a <~ float_bits p ;; b <~ float_bits q ;; c <~ float_bits r ;; z <~ g_fclamp a b c ;; mk_float k z) x lo hi
  | 44, [x; lo; hi] =>                                                                            (* UClamp *)
    lift3v (fun p q r => a <~ int_bits p ;; b <~ int_bits q ;; c <~ int_bits r ;; z <~ g_uclamp a b c ;; mk_int k z) x lo hi
  | 45, [x; lo; hi] =>                                                                            (* SClamp *)
    lift3v (fun p q r => a <~ int_bits p ;; b <~ int_bits q ;; c <~ int_bits r ;; z <~ g_sclamp a b c ;; mk_int k z) x lo hi
  | 50, [x; y; z] =>                                                                              (* Fma *)
    lift3v (fun p q r => a <~ float_bits p ;; b <~ float_bits q ;; c <~ float_bits r ;; mk_float k (ffma a b c)) x y z
  | 73, [a] => lift1 (int1 k first_trailing_bit) a                                                (* FindILsb *)
  | 74, [a] => lift1 (int1 k first_leading_bit_i32) a                                             (* FindSMsb *)
  | 75, [a] => lift1 (int1 k first_leading_bit_u32) a                                             (* FindUMsb *)
  | 79, [a; b] => lift2 (flt2t k g_nmin) a b                                                      (* NMin *)
  | 80, [a; b] => lift2 (flt2t k g_nmax) a b                                                      (* NMax *)
  | 81, [x; lo; hi] =>                                                                            (* NClamp *)
    lift3v (fun p q r => a <~ float_bits p ;; b <~ float_bits q ;; c <~ float_bits r ;; z <~ g_nclamp a b c ;; mk_float k z) x lo hi
  | _, _ => unmodelled "GLSL.std.450 instruction (transcendental / packing / geometric) or operand count"
  end.

(* the opcodes covered by eval_op (for the coverage report and the probe's sanity check) *)
Definition pure_opcodes : list Z :=
  [83; 84; 109; 110; 111; 112; 124; 126; 127; 128; 129; 130; 131; 132; 133; 134; 135; 136; 137; 138; 139; 140; 141;
   142; 143; 144; 145; 146; 148; 154; 155; 156; 157; 164; 165; 166; 167; 168; 169; 170; 171; 172; 173; 174; 175;
   176; 177; 178; 179; 180; 181; 182; 183; 184; 185; 186; 187; 188; 189; 190; 191; 194; 195; 196; 197; 198; 199;
   200; 201; 202; 203; 204; 205; 400].
Definition glsl_insts : list Z := [1; 2; 3; 4; 5; 6; 7; 8; 9; 31; 37; 38; 39; 40; 41; 42; 43; 44; 45; 50; 73; 74; 75; 79; 80; 81].
