(* The operator catalogue (DESIGN section 4): for each (WGSL/IR operator or math builtin,
   operand type in {i32,u32,f32,bool}) the SPIR-V instruction template naga emits, as an
   expression tree over the operands, evaluated with the SAME operation semantics as the
   interpreter (Spv/Ops.v eval_op / eval_glsl).  Definitions only; the lemmas, one per
   entry and for ALL 32-bit operands, are in Spv/CatalogueProofs.v.  The regenerated probe
   table (coq/Gen/SpvOpTable.v) must be contained in [catalogue] (obligation
   gen_table_in_catalogue in Spv/OpTableCheck.v, re-checked on every run).                 *)
From Coq Require Import List ZArith String Bool.
Import ListNotations.
Require Import Naga.Base.Bits32 Naga.Base.F32 Naga.Base.Json Naga.IR.Values Naga.Spv.Ops.
Open Scope string_scope.
Open Scope Z_scope.

Inductive texp :=
| TArg (i : nat)                               (* operand i of the operator (or parameter i inside a helper body) *)
| TConst (k : skind) (bits : Z)                (* OpConstant / OpConstantNull of a 32-bit numeric type (vector splats erased) *)
| TBoolC (b : bool)                            (* OpConstantTrue / OpConstantFalse *)
| TOp (opc : Z) (k : skind) (args : list texp) (* core instruction; k = component kind of its Result Type *)
| TExt (inst : Z) (k : skind) (args : list texp)  (* OpExtInst GLSL.std.450 *)
| THelper (body : texp) (args : list texp)     (* OpFunctionCall of a single-block helper whose returned value is [body] *)
| TExtract (i : nat) (e : texp)                (* OpCompositeExtract e i *)
| TOpaque (why : string).                      (* something the probe could not abstract *)

Fixpoint teval (env : list value) (t : texp) {struct t} : result value :=
  let fix tevals (l : list texp) : result (list value) :=
      match l with
      | [] => Done []
      | x :: r => v <~ teval env x ;; vs <~ tevals r ;; Done (v :: vs)
      end in
  match t with
  | TArg i => match nth_error env i with Some v => Done v | None => Fail "template: operand index" end
  | TConst k bits => retag k bits
  | TBoolC b => Done (VBool b)
  | TOp opc k args =>
    vs <~ tevals args ;;
    match eval_op opc k vs with Some r => r | None => Fail "template: opcode without operation semantics" end
  | TExt inst k args => vs <~ tevals args ;; eval_glsl inst k vs
  | THelper body args => vs <~ tevals args ;; teval vs body
  | TExtract i e =>
    v <~ teval env e ;;
    match v with
    | VVec l | VMat l | VArr l | VStruct l =>
      match nth_error l i with Some x => Done x | None => ub "OpCompositeExtract: index out of bounds" end
    | _ => Fail "OpCompositeExtract of a non-composite"
    end
  | TOpaque why => Fail ("template: " ++ why)
  end.

(* ---- structural equality ---- *)
Fixpoint texp_eqb (a b : texp) {struct a} : bool :=
  let fix list_eqb (l1 l2 : list texp) {struct l1} : bool :=
      match l1, l2 with
      | [], [] => true
      | x :: r1, y :: r2 => texp_eqb x y && list_eqb r1 r2
      | _, _ => false
      end in
  match a, b with
  | TArg i, TArg j => Nat.eqb i j
  | TConst k x, TConst k' y => skind_eqb k k' && (x =? y)
  | TBoolC x, TBoolC y => Bool.eqb x y
  | TOp o k l, TOp o' k' l' => (o =? o') && skind_eqb k k' && list_eqb l l'
  | TExt o k l, TExt o' k' l' => (o =? o') && skind_eqb k k' && list_eqb l l'
  | THelper x l, THelper y l' => texp_eqb x y && list_eqb l l'
  | TExtract i x, TExtract j y => Nat.eqb i j && texp_eqb x y
  | _, _ => false
  end.

(* ---- JSON codec (tool spvrun, template mode) ----
   {"arg":i} {"c":[kind,bits]} {"cb":bool} {"op":[opc,kind,[args]]} {"ext":[inst,kind,[args]]}
   {"helper":[body,[args]]} {"extract":[i,e]} {"opaque":why};  kind = "b" | "i" | "u" | "f" *)
Definition skind_of_string (s : string) : option skind :=
  if String.eqb s "b" then Some KBool else if String.eqb s "i" then Some KSint
  else if String.eqb s "u" then Some KUint else if String.eqb s "f" then Some KFloat else None.

Fixpoint texp_of_json (fuel : nat) (j : json) : option texp :=
  match fuel with
  | O => None
  | S f =>
    let many (l : list json) := map_opt (texp_of_json f) l in
    match j with
    | JObj [(key, v)] =>
      if String.eqb key "arg" then match v with JNum i => Some (TArg (Z.to_nat i)) | _ => None end
      else if String.eqb key "c" then
        match v with
        | JArr [JStr k; JNum b] => option_map (fun k' => TConst k' b) (skind_of_string k)
        | _ => None end
      else if String.eqb key "cb" then match v with JBool b => Some (TBoolC b) | _ => None end
      else if String.eqb key "op" then
        match v with
        | JArr [JNum o; JStr k; JArr l] =>
          match skind_of_string k, many l with Some k', Some l' => Some (TOp o k' l') | _, _ => None end
        | _ => None end
      else if String.eqb key "ext" then
        match v with
        | JArr [JNum o; JStr k; JArr l] =>
          match skind_of_string k, many l with Some k', Some l' => Some (TExt o k' l') | _, _ => None end
        | _ => None end
      else if String.eqb key "helper" then
        match v with
        | JArr [b; JArr l] =>
          match texp_of_json f b, many l with Some b', Some l' => Some (THelper b' l') | _, _ => None end
        | _ => None end
      else if String.eqb key "extract" then
        match v with
        | JArr [JNum i; e] => option_map (TExtract (Z.to_nat i)) (texp_of_json f e)
        | _ => None end
      else if String.eqb key "opaque" then match v with JStr s => Some (TOpaque s) | _ => None end
      else None
    | _ => None
    end
  end.
