(* The operator catalogue (DESIGN section 4): for each (WGSL/IR operator or math builtin,
   operand type in {i32,u32,f32,bool}) the SPIR-V instruction template naga emits, as an
   expression tree over the operands, evaluated with the SAME operation semantics as the
   interpreter (Spv/Ops.v eval_op / eval_glsl).  Definitions only; the lemmas, one per
   entry and for ALL 32-bit operands, are in Spv/CatalogueProofs.v.  The regenerated probe
   table (coq/Gen/SpvOpTable.v) must be contained in [catalogue] (obligation
   gen_table_in_catalogue in Spv/OpTableCheck.v, re-checked on every run).                 *)
From Coq Require Import List ZArith String Bool.
Import ListNotations.
Require Import Naga.Base.Bits32 Naga.Base.F32 Naga.Base.Json Naga.IR.Values Naga.Spv.Ops.
Open Scope string_scope.
Open Scope Z_scope.

Inductive texp :=
| TArg (i : nat)                               (* operand i of the operator (or parameter i inside a helper body) *)
| TConst (k : skind) (bits : Z)                (* OpConstant / OpConstantNull of a 32-bit numeric type (vector splats erased) *)
| TBoolC (b : bool)                            (* OpConstantTrue / OpConstantFalse *)
| TOp (opc : Z) (k : skind) (args : list texp) (* core instruction; k = component kind of its Result Type *)
| TExt (inst : Z) (k : skind) (args : list texp)  (* OpExtInst GLSL.std.450 *)
| THelper (body : texp) (args : list texp)     (* OpFunctionCall of a single-block helper whose returned value is [body] *)
| TExtract (i : nat) (e : texp)                (* OpCompositeExtract e i *)
| TSplat (n : nat) (e : texp)                  (* OpConstantComposite / OpCompositeConstruct of n copies of e (vector shapes) *)
| TOpaque (why : string).                      (* something the probe could not abstract *)

Fixpoint teval (env : list value) (t : texp) {struct t} : result value :=
  let fix tevals (l : list texp) : result (list value) :=
      match l with
      | [] => Done []
      | x :: r => v <~ teval env x ;; vs <~ tevals r ;; Done (v :: vs)
      end in
  match t with
  | TArg i => match nth_error env i with Some v => Done v | None => Fail "template: operand index" end
  | TConst k bits => retag k bits
  | TBoolC b => Done (VBool b)
  | TOp opc k args =>
    vs <~ tevals args ;;
    match eval_op opc k vs with Some r => r | None => Fail "template: opcode without operation semantics" end
  | TExt inst k args => vs <~ tevals args ;; eval_glsl inst k vs
  | THelper body args => vs <~ tevals args ;; teval vs body
  | TExtract i e =>
    v <~ teval env e ;;
    match v with
    | VVec l | VMat l | VArr l | VStruct l =>
      match nth_error l i with Some x => Done x | None => ub "OpCompositeExtract: index out of bounds" end
    | _ => Fail "OpCompositeExtract of a non-composite"
    end
  | TSplat n e => v <~ teval env e ;; Done (VVec (repeat v n))
  | TOpaque why => Fail ("template: " ++ why)
  end.

(* the catalogue holds the scalar form of a template: the vector forms naga emits differ from it only by
   splatted constants / splatted scalar operands, which are erased before the lookup *)
Fixpoint erase_splat (t : texp) : texp :=
  match t with
  | TOp o k l => TOp o k (map erase_splat l)
  | TExt o k l => TExt o k (map erase_splat l)
  | THelper b l => THelper (erase_splat b) (map erase_splat l)
  | TExtract i e => TExtract i (erase_splat e)
  | TSplat _ e => erase_splat e
  | _ => t
  end.

(* ---- structural equality ---- *)
Fixpoint texp_eqb (a b : texp) {struct a} : bool :=
  let fix list_eqb (l1 l2 : list texp) {struct l1} : bool :=
      match l1, l2 with
      | [], [] => true
      | x :: r1, y :: r2 => texp_eqb x y && list_eqb r1 r2
      | _, _ => false
      end in
  match a, b with
  | TArg i, TArg j => Nat.eqb i j
  | TConst k x, TConst k' y => skind_eqb k k' && (x =? y)
  | TBoolC x, TBoolC y => Bool.eqb x y
  | TOp o k l, TOp o' k' l' => (o =? o') && skind_eqb k k' && list_eqb l l'
  | TExt o k l, TExt o' k' l' => (o =? o') && skind_eqb k k' && list_eqb l l'
  | THelper x l, THelper y l' => texp_eqb x y && list_eqb l l'
  | TExtract i x, TExtract j y => Nat.eqb i j && texp_eqb x y
  | TSplat i x, TSplat j y => Nat.eqb i j && texp_eqb x y
  | _, _ => false
  end.

(* ---- JSON codec (tool spvrun, template mode) ----
   {"arg":i} {"c":[kind,bits]} {"cb":bool} {"op":[opc,kind,[args]]} {"ext":[inst,kind,[args]]}
   {"helper":[body,[args]]} {"extract":[i,e]} {"splat":[n,e]} {"opaque":why};  kind = "b" | "i" | "u" | "f" *)
Definition skind_of_string (s : string) : option skind :=
  if String.eqb s "b" then Some KBool else if String.eqb s "i" then Some KSint
  else if String.eqb s "u" then Some KUint else if String.eqb s "f" then Some KFloat else None.

Definition tiny_nat (z : Z) : option nat := if (0 <=? z) && (z <? 64) then Some (Z.to_nat z) else None.

Fixpoint texp_of_json (fuel : nat) (j : json) : option texp :=
  match fuel with
  | O => None
  | S f =>
    let many (l : list json) := map_opt (texp_of_json f) l in
    match j with
    | JObj [(key, v)] =>
      if String.eqb key "arg" then match v with JNum i => option_map TArg (tiny_nat i) | _ => None end
      else if String.eqb key "c" then
        match v with
        | JArr [JStr k; JNum b] => option_map (fun k' => TConst k' b) (skind_of_string k)
        | _ => None end
      else if String.eqb key "cb" then match v with JBool b => Some (TBoolC b) | _ => None end
      else if String.eqb key "op" then
        match v with
        | JArr [JNum o; JStr k; JArr l] =>
          match skind_of_string k, many l with Some k', Some l' => Some (TOp o k' l') | _, _ => None end
        | _ => None end
      else if String.eqb key "ext" then
        match v with
        | JArr [JNum o; JStr k; JArr l] =>
          match skind_of_string k, many l with Some k', Some l' => Some (TExt o k' l') | _, _ => None end
        | _ => None end
      else if String.eqb key "helper" then
        match v with
        | JArr [b; JArr l] =>
          match texp_of_json f b, many l with Some b', Some l' => Some (THelper b' l') | _, _ => None end
        | _ => None end
      else if String.eqb key "extract" then
        match v with
        | JArr [JNum i; e] => match tiny_nat i, texp_of_json f e with Some n, Some t => Some (TExtract n t) | _, _ => None end
        | _ => None end
      else if String.eqb key "splat" then
        match v with
        | JArr [JNum i; e] => match tiny_nat i, texp_of_json f e with Some n, Some t => Some (TSplat n t) | _, _ => None end
        | _ => None end
      else if String.eqb key "opaque" then match v with JStr s => Some (TOpaque s) | _ => None end
      else None
    | _ => None
    end
  end.

(* ------------------------------------------------------------------ *)
(* The catalogue.  Status of an entry (the lemma is in Spv/CatalogueProofs.v under the name given there):
     Proved         spv_<op>_<ty>_correct : for ALL 32-bit operands the template evaluates to Done (WGSL meaning)
     Partial        correct on the operands for which WGSL itself pins the result down (no NaN operand),
                    outside of them the template is a failed execution "NAN: ..." (lemma ..._correct_partial)
     Refuted        ..._refuted : exists operands for which the template is undefined or differs from WGSL
                    (a finding); where useful also ..._correct_partial on the remaining operands
     Uninterpreted  the instruction is recorded (so that a changed opcode breaks the tie) but the operation has
                    no modelled meaning (transcendental functions, mix/step/smoothstep/fract)                      *)
Inductive status := Proved | Partial | Refuted | Uninterpreted.
Definition entry := (string * texp * status)%type.

Definition t_add_i32 : texp := TOp 128 KSint [TArg 0; TArg 1].
Definition t_sub_i32 : texp := TOp 130 KSint [TArg 0; TArg 1].
Definition t_mul_i32 : texp := TOp 132 KSint [TArg 0; TArg 1].
Definition t_div_i32 : texp := THelper (TOp 135 KSint [TArg 0; TOp 169 KSint [TOp 166 KBool [TOp 170 KBool [TArg 1; TConst KSint 0]; TOp 167 KBool [TOp 170 KBool [TArg 0; TConst KSint 2147483648]; TOp 170 KBool [TArg 1; TConst KSint 4294967295]]]; TConst KSint 1; TArg 1]]) [TArg 0; TArg 1].
Definition t_mod_i32 : texp := THelper (TOp 138 KSint [TArg 0; TOp 169 KSint [TOp 166 KBool [TOp 170 KBool [TArg 1; TConst KSint 0]; TOp 167 KBool [TOp 170 KBool [TArg 0; TConst KSint 2147483648]; TOp 170 KBool [TArg 1; TConst KSint 4294967295]]]; TConst KSint 1; TArg 1]]) [TArg 0; TArg 1].
Definition t_eq_i32 : texp := TOp 170 KBool [TArg 0; TArg 1].
Definition t_ne_i32 : texp := TOp 171 KBool [TArg 0; TArg 1].
Definition t_lt_i32 : texp := TOp 177 KBool [TArg 0; TArg 1].
Definition t_le_i32 : texp := TOp 179 KBool [TArg 0; TArg 1].
Definition t_gt_i32 : texp := TOp 173 KBool [TArg 0; TArg 1].
Definition t_ge_i32 : texp := TOp 175 KBool [TArg 0; TArg 1].
Definition t_add_u32 : texp := TOp 128 KUint [TArg 0; TArg 1].
Definition t_sub_u32 : texp := TOp 130 KUint [TArg 0; TArg 1].
Definition t_mul_u32 : texp := TOp 132 KUint [TArg 0; TArg 1].
Definition t_div_u32 : texp := THelper (TOp 134 KUint [TArg 0; TOp 169 KUint [TOp 170 KBool [TArg 1; TConst KUint 0]; TConst KUint 1; TArg 1]]) [TArg 0; TArg 1].
Definition t_mod_u32 : texp := THelper (TOp 137 KUint [TArg 0; TOp 169 KUint [TOp 170 KBool [TArg 1; TConst KUint 0]; TConst KUint 1; TArg 1]]) [TArg 0; TArg 1].
Definition t_eq_u32 : texp := TOp 170 KBool [TArg 0; TArg 1].
Definition t_ne_u32 : texp := TOp 171 KBool [TArg 0; TArg 1].
Definition t_lt_u32 : texp := TOp 176 KBool [TArg 0; TArg 1].
Definition t_le_u32 : texp := TOp 178 KBool [TArg 0; TArg 1].
Definition t_gt_u32 : texp := TOp 172 KBool [TArg 0; TArg 1].
Definition t_ge_u32 : texp := TOp 174 KBool [TArg 0; TArg 1].
Definition t_add_f32 : texp := TOp 129 KFloat [TArg 0; TArg 1].
Definition t_sub_f32 : texp := TOp 131 KFloat [TArg 0; TArg 1].
Definition t_mul_f32 : texp := TOp 133 KFloat [TArg 0; TArg 1].
Definition t_div_f32 : texp := TOp 136 KFloat [TArg 0; TArg 1].
Definition t_mod_f32 : texp := TOp 141 KFloat [TArg 0; TArg 1].
Definition t_eq_f32 : texp := TOp 180 KBool [TArg 0; TArg 1].
Definition t_ne_f32 : texp := TOp 182 KBool [TArg 0; TArg 1].
Definition t_lt_f32 : texp := TOp 184 KBool [TArg 0; TArg 1].
Definition t_le_f32 : texp := TOp 188 KBool [TArg 0; TArg 1].
Definition t_gt_f32 : texp := TOp 186 KBool [TArg 0; TArg 1].
Definition t_ge_f32 : texp := TOp 190 KBool [TArg 0; TArg 1].
Definition t_and_i32 : texp := TOp 199 KSint [TArg 0; TArg 1].
Definition t_or_i32 : texp := TOp 197 KSint [TArg 0; TArg 1].
Definition t_xor_i32 : texp := TOp 198 KSint [TArg 0; TArg 1].
Definition t_shl_i32 : texp := TOp 196 KSint [TArg 0; TArg 1].
Definition t_shr_i32 : texp := TOp 195 KSint [TArg 0; TArg 1].
Definition t_not_i32 : texp := TOp 200 KSint [TArg 0].
Definition t_and_u32 : texp := TOp 199 KUint [TArg 0; TArg 1].
Definition t_or_u32 : texp := TOp 197 KUint [TArg 0; TArg 1].
Definition t_xor_u32 : texp := TOp 198 KUint [TArg 0; TArg 1].
Definition t_shl_u32 : texp := TOp 196 KUint [TArg 0; TArg 1].
Definition t_shr_u32 : texp := TOp 194 KUint [TArg 0; TArg 1].
Definition t_not_u32 : texp := TOp 200 KUint [TArg 0].
Definition t_eq_bool : texp := TOp 164 KBool [TArg 0; TArg 1].
Definition t_ne_bool : texp := TOp 165 KBool [TArg 0; TArg 1].
Definition t_and_bool : texp := TOp 167 KBool [TArg 0; TArg 1].
Definition t_or_bool : texp := TOp 166 KBool [TArg 0; TArg 1].
Definition t_lnot_bool : texp := TOp 168 KBool [TArg 0].
Definition t_neg_i32 : texp := TOp 126 KSint [TArg 0].
Definition t_neg_f32 : texp := TOp 127 KFloat [TArg 0].
Definition t_as_u32_i32 : texp := TOp 124 KUint [TArg 0].
Definition t_as_f32_i32 : texp := TOp 111 KFloat [TArg 0].
Definition t_as_bool_i32 : texp := TOp 171 KBool [TArg 0; TConst KSint 0].
Definition t_as_i32_u32 : texp := TOp 124 KSint [TArg 0].
Definition t_as_f32_u32 : texp := TOp 112 KFloat [TArg 0].
Definition t_as_bool_u32 : texp := TOp 171 KBool [TArg 0; TConst KUint 0].
Definition t_as_i32_f32 : texp := TOp 110 KSint [TArg 0].
Definition t_as_u32_f32 : texp := TOp 109 KUint [TArg 0].
Definition t_as_bool_f32 : texp := TOp 182 KBool [TArg 0; TConst KFloat 0].
Definition t_as_i32_bool : texp := TOp 169 KSint [TArg 0; TConst KSint 1; TConst KSint 0].
Definition t_as_u32_bool : texp := TOp 169 KUint [TArg 0; TConst KUint 1; TConst KUint 0].
Definition t_as_f32_bool : texp := TOp 169 KFloat [TArg 0; TConst KFloat 1065353216; TConst KFloat 0].
Definition t_bitcast_u32_i32 : texp := TOp 124 KUint [TArg 0].
Definition t_bitcast_f32_i32 : texp := TOp 124 KFloat [TArg 0].
Definition t_bitcast_i32_u32 : texp := TOp 124 KSint [TArg 0].
Definition t_bitcast_f32_u32 : texp := TOp 124 KFloat [TArg 0].
Definition t_bitcast_i32_f32 : texp := TOp 124 KSint [TArg 0].
Definition t_bitcast_u32_f32 : texp := TOp 124 KUint [TArg 0].
Definition t_select_i32 : texp := TOp 169 KSint [TArg 2; TArg 1; TArg 0].
Definition t_select_u32 : texp := TOp 169 KUint [TArg 2; TArg 1; TArg 0].
Definition t_select_f32 : texp := TOp 169 KFloat [TArg 2; TArg 1; TArg 0].
Definition t_select_bool : texp := TOp 169 KBool [TArg 2; TArg 1; TArg 0].
Definition t_abs_i32 : texp := TExt 5 KSint [TArg 0].
Definition t_min_i32 : texp := TExt 39 KSint [TArg 0; TArg 1].
Definition t_max_i32 : texp := TExt 42 KSint [TArg 0; TArg 1].
Definition t_clamp_i32 : texp := TExt 45 KSint [TArg 0; TArg 1; TArg 2].
Definition t_abs_u32 : texp := TExt 5 KUint [TArg 0].
Definition t_min_u32 : texp := TExt 38 KUint [TArg 0; TArg 1].
Definition t_max_u32 : texp := TExt 41 KUint [TArg 0; TArg 1].
Definition t_clamp_u32 : texp := TExt 44 KUint [TArg 0; TArg 1; TArg 2].
Definition t_abs_f32 : texp := TExt 4 KFloat [TArg 0].
Definition t_min_f32 : texp := TExt 37 KFloat [TArg 0; TArg 1].
Definition t_max_f32 : texp := TExt 40 KFloat [TArg 0; TArg 1].
Definition t_clamp_f32 : texp := TExt 43 KFloat [TArg 0; TArg 1; TArg 2].
Definition t_sign_i32 : texp := TExt 7 KSint [TArg 0].
Definition t_sign_f32 : texp := TExt 6 KFloat [TArg 0].
Definition t_floor_f32 : texp := TExt 8 KFloat [TArg 0].
Definition t_ceil_f32 : texp := TExt 9 KFloat [TArg 0].
Definition t_trunc_f32 : texp := TExt 3 KFloat [TArg 0].
Definition t_round_f32 : texp := TExt 1 KFloat [TArg 0].
Definition t_sqrt_f32 : texp := TExt 31 KFloat [TArg 0].
Definition t_saturate_f32 : texp := TExt 43 KFloat [TArg 0; TConst KFloat 0; TConst KFloat 1065353216].
Definition t_fract_f32 : texp := TExt 10 KFloat [TArg 0].
Definition t_exp_f32 : texp := TExt 27 KFloat [TArg 0].
Definition t_exp2_f32 : texp := TExt 29 KFloat [TArg 0].
Definition t_log_f32 : texp := TExt 28 KFloat [TArg 0].
Definition t_log2_f32 : texp := TExt 30 KFloat [TArg 0].
Definition t_sin_f32 : texp := TExt 13 KFloat [TArg 0].
Definition t_cos_f32 : texp := TExt 14 KFloat [TArg 0].
Definition t_tan_f32 : texp := TExt 15 KFloat [TArg 0].
Definition t_asin_f32 : texp := TExt 16 KFloat [TArg 0].
Definition t_acos_f32 : texp := TExt 17 KFloat [TArg 0].
Definition t_atan_f32 : texp := TExt 18 KFloat [TArg 0].
Definition t_sinh_f32 : texp := TExt 19 KFloat [TArg 0].
Definition t_cosh_f32 : texp := TExt 20 KFloat [TArg 0].
Definition t_tanh_f32 : texp := TExt 21 KFloat [TArg 0].
Definition t_asinh_f32 : texp := TExt 22 KFloat [TArg 0].
Definition t_acosh_f32 : texp := TExt 23 KFloat [TArg 0].
Definition t_atanh_f32 : texp := TExt 24 KFloat [TArg 0].
Definition t_inverseSqrt_f32 : texp := TExt 32 KFloat [TArg 0].
Definition t_radians_f32 : texp := TExt 11 KFloat [TArg 0].
Definition t_degrees_f32 : texp := TExt 12 KFloat [TArg 0].
Definition t_pow_f32 : texp := TExt 26 KFloat [TArg 0; TArg 1].
Definition t_atan2_f32 : texp := TExt 25 KFloat [TArg 0; TArg 1].
Definition t_step_f32 : texp := TExt 48 KFloat [TArg 0; TArg 1].
Definition t_fma_f32 : texp := TExt 50 KFloat [TArg 0; TArg 1; TArg 2].
Definition t_mix_f32 : texp := TExt 46 KFloat [TArg 0; TArg 1; TArg 2].
Definition t_smoothstep_f32 : texp := TExt 49 KFloat [TArg 0; TArg 1; TArg 2].
Definition t_countOneBits_i32 : texp := TOp 205 KSint [TArg 0].
Definition t_countLeadingZeros_i32 : texp := TExt 74 KSint [TArg 0].
Definition t_countTrailingZeros_i32 : texp := TExt 73 KSint [TArg 0].
Definition t_reverseBits_i32 : texp := TOp 204 KSint [TArg 0].
Definition t_firstLeadingBit_i32 : texp := TExt 74 KSint [TArg 0].
Definition t_firstTrailingBit_i32 : texp := TExt 73 KSint [TArg 0].
Definition t_extractBits_i32 : texp := TOp 202 KSint [TArg 0; TArg 1; TArg 2].
Definition t_insertBits_i32 : texp := TOp 201 KSint [TArg 0; TArg 1; TArg 2; TArg 3].
Definition t_countOneBits_u32 : texp := TOp 205 KUint [TArg 0].
Definition t_countLeadingZeros_u32 : texp := TExt 75 KUint [TArg 0].
Definition t_countTrailingZeros_u32 : texp := TExt 73 KUint [TArg 0].
Definition t_reverseBits_u32 : texp := TOp 204 KUint [TArg 0].
Definition t_firstLeadingBit_u32 : texp := TExt 75 KUint [TArg 0].
Definition t_firstTrailingBit_u32 : texp := TExt 73 KUint [TArg 0].
Definition t_extractBits_u32 : texp := TOp 203 KUint [TArg 0; TArg 1; TArg 2].
Definition t_insertBits_u32 : texp := TOp 201 KUint [TArg 0; TArg 1; TArg 2; TArg 3].
Definition t_all_bool : texp := TOp 155 KBool [TArg 0].
Definition t_any_bool : texp := TOp 154 KBool [TArg 0].
Definition t_dot_i32_v2 : texp := TOp 128 KSint [TOp 128 KSint [TConst KSint 0; TOp 132 KSint [TExtract 0 (TArg 0); TExtract 0 (TArg 1)]]; TOp 132 KSint [TExtract 1 (TArg 0); TExtract 1 (TArg 1)]].
Definition t_dot_i32_v3 : texp := TOp 128 KSint [TOp 128 KSint [TOp 128 KSint [TConst KSint 0; TOp 132 KSint [TExtract 0 (TArg 0); TExtract 0 (TArg 1)]]; TOp 132 KSint [TExtract 1 (TArg 0); TExtract 1 (TArg 1)]]; TOp 132 KSint [TExtract 2 (TArg 0); TExtract 2 (TArg 1)]].
Definition t_dot_i32_v4 : texp := TOp 128 KSint [TOp 128 KSint [TOp 128 KSint [TOp 128 KSint [TConst KSint 0; TOp 132 KSint [TExtract 0 (TArg 0); TExtract 0 (TArg 1)]]; TOp 132 KSint [TExtract 1 (TArg 0); TExtract 1 (TArg 1)]]; TOp 132 KSint [TExtract 2 (TArg 0); TExtract 2 (TArg 1)]]; TOp 132 KSint [TExtract 3 (TArg 0); TExtract 3 (TArg 1)]].
Definition t_dot_u32_v2 : texp := TOp 128 KUint [TOp 128 KUint [TConst KUint 0; TOp 132 KUint [TExtract 0 (TArg 0); TExtract 0 (TArg 1)]]; TOp 132 KUint [TExtract 1 (TArg 0); TExtract 1 (TArg 1)]].
Definition t_dot_u32_v3 : texp := TOp 128 KUint [TOp 128 KUint [TOp 128 KUint [TConst KUint 0; TOp 132 KUint [TExtract 0 (TArg 0); TExtract 0 (TArg 1)]]; TOp 132 KUint [TExtract 1 (TArg 0); TExtract 1 (TArg 1)]]; TOp 132 KUint [TExtract 2 (TArg 0); TExtract 2 (TArg 1)]].
Definition t_dot_u32_v4 : texp := TOp 128 KUint [TOp 128 KUint [TOp 128 KUint [TOp 128 KUint [TConst KUint 0; TOp 132 KUint [TExtract 0 (TArg 0); TExtract 0 (TArg 1)]]; TOp 132 KUint [TExtract 1 (TArg 0); TExtract 1 (TArg 1)]]; TOp 132 KUint [TExtract 2 (TArg 0); TExtract 2 (TArg 1)]]; TOp 132 KUint [TExtract 3 (TArg 0); TExtract 3 (TArg 1)]].
Definition t_dot_f32 : texp := TOp 148 KFloat [TArg 0; TArg 1].

Definition catalogue : list entry := [
  ("add:i32", t_add_i32, Proved);
  ("sub:i32", t_sub_i32, Proved);
  ("mul:i32", t_mul_i32, Proved);
  ("div:i32", t_div_i32, Proved);
  ("mod:i32", t_mod_i32, Proved);
  ("eq:i32", t_eq_i32, Proved);
  ("ne:i32", t_ne_i32, Proved);
  ("lt:i32", t_lt_i32, Proved);
  ("le:i32", t_le_i32, Proved);
  ("gt:i32", t_gt_i32, Proved);
  ("ge:i32", t_ge_i32, Proved);
  ("add:u32", t_add_u32, Proved);
  ("sub:u32", t_sub_u32, Proved);
  ("mul:u32", t_mul_u32, Proved);
  ("div:u32", t_div_u32, Proved);
  ("mod:u32", t_mod_u32, Proved);
  ("eq:u32", t_eq_u32, Proved);
  ("ne:u32", t_ne_u32, Proved);
  ("lt:u32", t_lt_u32, Proved);
  ("le:u32", t_le_u32, Proved);
  ("gt:u32", t_gt_u32, Proved);
  ("ge:u32", t_ge_u32, Proved);
  ("add:f32", t_add_f32, Proved);
  ("sub:f32", t_sub_f32, Proved);
  ("mul:f32", t_mul_f32, Proved);
  ("div:f32", t_div_f32, Proved);
  ("mod:f32", t_mod_f32, Refuted);
  ("eq:f32", t_eq_f32, Proved);
  ("ne:f32", t_ne_f32, Partial);
  ("lt:f32", t_lt_f32, Proved);
  ("le:f32", t_le_f32, Proved);
  ("gt:f32", t_gt_f32, Proved);
  ("ge:f32", t_ge_f32, Proved);
  ("and:i32", t_and_i32, Proved);
  ("or:i32", t_or_i32, Proved);
  ("xor:i32", t_xor_i32, Proved);
  ("shl:i32", t_shl_i32, Refuted);
  ("shr:i32", t_shr_i32, Refuted);
  ("not:i32", t_not_i32, Proved);
  ("and:u32", t_and_u32, Proved);
  ("or:u32", t_or_u32, Proved);
  ("xor:u32", t_xor_u32, Proved);
  ("shl:u32", t_shl_u32, Refuted);
  ("shr:u32", t_shr_u32, Refuted);
  ("not:u32", t_not_u32, Proved);
  ("eq:bool", t_eq_bool, Proved);
  ("ne:bool", t_ne_bool, Proved);
  ("and:bool", t_and_bool, Proved);
  ("or:bool", t_or_bool, Proved);
  ("lnot:bool", t_lnot_bool, Proved);
  ("neg:i32", t_neg_i32, Proved);
  ("neg:f32", t_neg_f32, Proved);
  ("as_u32:i32", t_as_u32_i32, Proved);
  ("as_f32:i32", t_as_f32_i32, Proved);
  ("as_bool:i32", t_as_bool_i32, Proved);
  ("as_i32:u32", t_as_i32_u32, Proved);
  ("as_f32:u32", t_as_f32_u32, Proved);
  ("as_bool:u32", t_as_bool_u32, Proved);
  ("as_i32:f32", t_as_i32_f32, Refuted);
  ("as_u32:f32", t_as_u32_f32, Refuted);
  ("as_bool:f32", t_as_bool_f32, Partial);
  ("as_i32:bool", t_as_i32_bool, Proved);
  ("as_u32:bool", t_as_u32_bool, Proved);
  ("as_f32:bool", t_as_f32_bool, Proved);
  ("bitcast_u32:i32", t_bitcast_u32_i32, Proved);
  ("bitcast_f32:i32", t_bitcast_f32_i32, Proved);
  ("bitcast_i32:u32", t_bitcast_i32_u32, Proved);
  ("bitcast_f32:u32", t_bitcast_f32_u32, Proved);
  ("bitcast_i32:f32", t_bitcast_i32_f32, Proved);
  ("bitcast_u32:f32", t_bitcast_u32_f32, Proved);
  ("select:i32", t_select_i32, Proved);
  ("select:u32", t_select_u32, Proved);
  ("select:f32", t_select_f32, Proved);
  ("select:bool", t_select_bool, Proved);
  ("abs:i32", t_abs_i32, Proved);
  ("min:i32", t_min_i32, Proved);
  ("max:i32", t_max_i32, Proved);
  ("clamp:i32", t_clamp_i32, Refuted);
  ("abs:u32", t_abs_u32, Refuted);
  ("min:u32", t_min_u32, Proved);
  ("max:u32", t_max_u32, Proved);
  ("clamp:u32", t_clamp_u32, Refuted);
  ("abs:f32", t_abs_f32, Proved);
  ("min:f32", t_min_f32, Partial);
  ("max:f32", t_max_f32, Partial);
  ("clamp:f32", t_clamp_f32, Partial);
  ("sign:i32", t_sign_i32, Proved);
  ("sign:f32", t_sign_f32, Partial);
  ("floor:f32", t_floor_f32, Proved);
  ("ceil:f32", t_ceil_f32, Proved);
  ("trunc:f32", t_trunc_f32, Proved);
  ("round:f32", t_round_f32, Refuted);
  ("sqrt:f32", t_sqrt_f32, Proved);
  ("saturate:f32", t_saturate_f32, Partial);
  ("fract:f32", t_fract_f32, Uninterpreted);
  ("exp:f32", t_exp_f32, Uninterpreted);
  ("exp2:f32", t_exp2_f32, Uninterpreted);
  ("log:f32", t_log_f32, Uninterpreted);
  ("log2:f32", t_log2_f32, Uninterpreted);
  ("sin:f32", t_sin_f32, Uninterpreted);
  ("cos:f32", t_cos_f32, Uninterpreted);
  ("tan:f32", t_tan_f32, Uninterpreted);
  ("asin:f32", t_asin_f32, Uninterpreted);
  ("acos:f32", t_acos_f32, Uninterpreted);
  ("atan:f32", t_atan_f32, Uninterpreted);
  ("sinh:f32", t_sinh_f32, Uninterpreted);
  ("cosh:f32", t_cosh_f32, Uninterpreted);
  ("tanh:f32", t_tanh_f32, Uninterpreted);
  ("asinh:f32", t_asinh_f32, Uninterpreted);
  ("acosh:f32", t_acosh_f32, Uninterpreted);
  ("atanh:f32", t_atanh_f32, Uninterpreted);
  ("inverseSqrt:f32", t_inverseSqrt_f32, Uninterpreted);
  ("radians:f32", t_radians_f32, Uninterpreted);
  ("degrees:f32", t_degrees_f32, Uninterpreted);
  ("pow:f32", t_pow_f32, Uninterpreted);
  ("atan2:f32", t_atan2_f32, Uninterpreted);
  ("step:f32", t_step_f32, Uninterpreted);
  ("fma:f32", t_fma_f32, Proved);
  ("mix:f32", t_mix_f32, Uninterpreted);
  ("smoothstep:f32", t_smoothstep_f32, Uninterpreted);
  ("countOneBits:i32", t_countOneBits_i32, Proved);
  ("countLeadingZeros:i32", t_countLeadingZeros_i32, Refuted);
  ("countTrailingZeros:i32", t_countTrailingZeros_i32, Refuted);
  ("reverseBits:i32", t_reverseBits_i32, Proved);
  ("firstLeadingBit:i32", t_firstLeadingBit_i32, Proved);
  ("firstTrailingBit:i32", t_firstTrailingBit_i32, Proved);
  ("extractBits:i32", t_extractBits_i32, Refuted);
  ("insertBits:i32", t_insertBits_i32, Refuted);
  ("countOneBits:u32", t_countOneBits_u32, Proved);
  ("countLeadingZeros:u32", t_countLeadingZeros_u32, Refuted);
  ("countTrailingZeros:u32", t_countTrailingZeros_u32, Refuted);
  ("reverseBits:u32", t_reverseBits_u32, Proved);
  ("firstLeadingBit:u32", t_firstLeadingBit_u32, Proved);
  ("firstTrailingBit:u32", t_firstTrailingBit_u32, Proved);
  ("extractBits:u32", t_extractBits_u32, Refuted);
  ("insertBits:u32", t_insertBits_u32, Refuted);
  ("all:bool", t_all_bool, Proved);
  ("any:bool", t_any_bool, Proved);
  ("dot:i32", t_dot_i32_v2, Proved);
  ("dot:i32", t_dot_i32_v3, Proved);
  ("dot:i32", t_dot_i32_v4, Proved);
  ("dot:u32", t_dot_u32_v2, Proved);
  ("dot:u32", t_dot_u32_v3, Proved);
  ("dot:u32", t_dot_u32_v4, Proved);
  ("dot:f32", t_dot_f32, Proved)
].

Definition status_eqb (a b : status) : bool :=
  match a, b with Proved, Proved | Partial, Partial | Refuted, Refuted | Uninterpreted, Uninterpreted => true | _, _ => false end.

(* is template t one of the catalogue's templates for key k? with which status? *)
Fixpoint find_entry (k : string) (t : texp) (l : list entry) : option status :=
  match l with
  | [] => None
  | (k', t', s) :: r => if String.eqb k k' && texp_eqb (erase_splat t) t' then Some s else find_entry k t r
  end.

(* a probed table row: (key, shape, template) *)
Definition probe_row := (string * Z * texp)%type.
Definition row_known (r : probe_row) : bool :=
  match r with (k, _, t) => match find_entry k t catalogue with Some _ => true | None => false end end.
Definition missing_rows (table : list probe_row) : list (string * Z) :=
  map (fun r => match r with (k, n, _) => (k, n) end) (filter (fun r => negb (row_known r)) table).
Definition rows_with_status (s : status) (table : list probe_row) : list (string * Z) :=
  map (fun r => match r with (k, n, _) => (k, n) end)
      (filter (fun r => match r with (k, _, t) => match find_entry k t catalogue with Some s' => status_eqb s s' | None => false end end) table).
