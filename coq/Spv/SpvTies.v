(* R tie of C02: facts regenerated from /repo on every run (Gen/SpvBuild.v: what
   ModuleBuilder.Build() writes and in which order, which opcode each Add* method appends
   to which section slice, the source text of the small state machines modelled in
   Spv/Builder.v; Gen/SpvEnums.v: the constants of spirv.go) compared with the
   specification tables of Spv/Opcodes.v and Spv/Validate.v by vm_compute. *)
From Coq Require Import List ZArith String Bool Ascii.
Require Import Naga.Spv.Binary Naga.Spv.Opcodes Naga.Spv.Validate Naga.Spv.Builder.
Require Import Naga.Gen.SpvBuild Naga.Gen.SpvEnums.
Import ListNotations.
Open Scope string_scope.
Open Scope list_scope.
Open Scope Z_scope.

(* ---- the section (2.4) each slice of ModuleBuilder holds ---- *)
Definition field_section (f : string) : option Z :=
  if String.eqb f "capabilities" then Some 0
  else if String.eqb f "extensions" then Some 1
  else if String.eqb f "extInstImports" then Some 2
  else if String.eqb f "memoryModel" then Some 3
  else if String.eqb f "entryPoints" then Some 4
  else if String.eqb f "executionModes" then Some 5
  else if String.eqb f "debugStrings" then Some 6
  else if String.eqb f "debugNames" then Some 7
  else if String.eqb f "annotations" then Some 9
  else if String.eqb f "types" then Some 10
  else if String.eqb f "globalVars" then Some 10
  else if String.eqb f "functions" then Some 11
  else None.

Definition opt_sections (l : list string) : option (list Z) :=
  fold_right (fun f acc => match field_section f, acc with Some s, Some r => Some (s :: r) | _, _ => None end) (Some []) l.

(* Build() writes known slices, in non-decreasing section order, and every slice that
   receives instructions is written *)
Definition build_order_ok : bool :=
  match opt_sections build_order with
  | Some ss => sorted_b ss
  | None => false
  end &&
  forallb (fun a => existsb (String.eqb (snd (fst a))) build_order) appends &&
  existsb (String.eqb "functions") build_order.

Lemma gen_build_order : build_order_ok = true.
Proof. vm_compute. reflexivity. Qed.

(* names used by naga that differ from the specification's *)
Definition alias (n : string) : string :=
  if String.eqb n "OpAtomicCompareExch" then "OpAtomicCompareExchange"
  else if String.eqb n "OpSDotKHR" then "OpSDot"
  else if String.eqb n "OpUDotKHR" then "OpUDot"
  else if String.eqb n "GroupNonUniformShuffleRel" then "GroupNonUniformShuffleRelative"
  else if String.eqb n "SubgroupLocalInvID" then "SubgroupLocalInvocationId"
  else n.

Definition lower_ascii (c : ascii) : ascii :=
  let n := nat_of_ascii c in
  if (Nat.leb 65 n && Nat.leb n 90)%bool then ascii_of_nat (n + 32) else c.
Fixpoint lower (s : string) : string :=
  match s with EmptyString => EmptyString | String c r => String (lower_ascii c) (lower r) end.
Fixpoint lookup_ci (n : string) (l : list (string * Z)) : option Z :=
  match l with
  | [] => None
  | (k, v) :: r => if String.eqb (lower n) (lower k) then Some v else lookup_ci n r
  end.

(* section of the instruction a method appends, by opcode name *)
Definition opname_section (global_var : bool) (n : string) : option (option Z) :=
  match lookup_ci (alias n) opcode_names with
  | None => None
  | Some code =>
    if code =? 59 then Some (Some (if global_var then 10 else 11))
    else Some (section_static {| opcode := code; operands := [] |})
  end.

(* every instruction appended to a section slice belongs to that slice's section *)
Definition appends_ok : bool :=
  forallb (fun a =>
    match a with
    | (_, f, opn) =>
      if String.eqb f "functions" then true         (* funcAppend's own append: covered by func_appends *)
      else match opname_section true opn, field_section f with
           | Some (Some s), Some fs => s =? fs
           | _, _ => false
           end
    end) appends.

Lemma gen_appends_sections : appends_ok = true.
Proof. vm_compute. reflexivity. Qed.

(* everything sent to the function section by name is a function-section instruction
   (or one allowed both at module scope and in functions); opcodes passed as parameters
   are not resolved here *)
Definition is_ident_op (n : string) : bool := String.eqb (substring 0 2 n) "Op".
Definition func_appends_ok : bool :=
  forallb (fun a =>
    if is_ident_op (snd a) then
      match opname_section false (snd a) with
      | Some (Some 11) => true
      | Some None => true
      | _ => false
      end
    else true) func_appends.

Lemma gen_func_appends_sections : func_appends_ok = true.
Proof. vm_compute. reflexivity. Qed.

(* header: magic, version, generator, bound, schema, in this order; bound := nextID *)
Lemma gen_header_order :
  header_order = ["MagicNumber"; "versionToWord(b.version)"; "b.generator"; "b.bound"; "b.schema"] /\
  bound_rhs = "b.nextID".
Proof. vm_compute. split; reflexivity. Qed.

(* the code modelled in Spv/Builder.v and Spv/Binary.v is the code that is there *)
Lemma gen_alloc_id_source : src_ModuleBuilder_AllocID = "{ id := b.nextID b.nextID++ return id }".
Proof. vm_compute. reflexivity. Qed.
Lemma gen_push_source : src_Block_Push = "{ b.Body = append(b.Body, inst) }".
Proof. vm_compute. reflexivity. Qed.
Lemma gen_consume_source : src_FunctionBuilder_Consume =
  "{ block.Body = append(block.Body, terminator) f.Blocks = append(f.Blocks, TerminatedBlock(block)) }".
Proof. vm_compute. reflexivity. Qed.
Lemma gen_to_instructions_source : src_FunctionBuilder_ToInstructions =
  ("{ capacity := 1 + len(f.Par" ++ "ameters) + len(f.Variables) + 1 for _, block := range f.Blocks { capacity += 1 + len(block.Body) } result := make([]Instruction, 0, capacity) result = append(result, f.Signature) result = append(result, f.Par" ++ "ameters...) for i, block := range f.Blocks { result = append(result, makeLabelInstruction(block.LabelID)) if i == 0 { result = append(result, f.Variables...) } result = append(result, block.Body...) } result = append(result, makeFunctionEndInstruction()) return result }")%string.
Proof. vm_compute. reflexivity. Qed.
Lemma gen_write_to_source : src_Instruction_WriteTo =
  "{ wordCount := uint32(len(i.Words) + 1) binary.LittleEndian.PutUint32(buffer[offset:], (wordCount<<16)|uint32(i.Opcode)) offset += 4 for _, word := range i.Words { binary.LittleEndian.PutUint32(buffer[offset:], word) offset += 4 } return offset }".
Proof. vm_compute. reflexivity. Qed.
Lemma gen_version_word_source : src_versionToWord = "{ return (uint32(v.Major) << 16) | (uint32(v.Minor) << 8) }".
Proof. vm_compute. reflexivity. Qed.
Lemma gen_label_source : src_makeLabelInstruction = "{ return Instruction{ Opcode: OpLabel, Words: []uint32{labelID}, } }".
Proof. vm_compute. reflexivity. Qed.

(* ---- constants of spirv.go against the specification tables ---- *)

Definition strip (prefix n : string) : string :=
  if String.eqb (substring 0 (String.length prefix) n) prefix
  then substring (String.length prefix) (String.length n - String.length prefix) n else n.

Definition starts (prefix n : string) : bool := String.eqb (substring 0 (String.length prefix) n) prefix.

(* the specification's value for a Go constant; None = name not in the tables *)
Definition spec_value (ty name : string) : option Z :=
  let look pre tbl := lookup_ci (alias (strip pre name)) tbl in
  if String.eqb ty "OpCode" then lookup_ci (alias name) opcode_names
  else if String.eqb ty "Capability" then look "Capability" capabilities
  else if String.eqb ty "Decoration" then look "Decoration" decorations
  else if String.eqb ty "BuiltIn" then look "BuiltIn" builtins
  else if String.eqb ty "ExecutionModel" then look "ExecutionModel" execution_models
  else if String.eqb ty "ExecutionMode" then look "ExecutionMode" execution_modes
  else if String.eqb ty "StorageClass" then look "StorageClass" storage_classes
  else if String.eqb ty "AddressingModel" then look "AddressingModel" addressing_models
  else if String.eqb ty "MemoryModel" then look "MemoryModel" memory_models
  else if String.eqb ty "FunctionControl" then look "FunctionControl" function_controls
  else if String.eqb ty "SelectionControl" then look "SelectionControl" selection_controls
  else if String.eqb ty "LoopControl" then look "LoopControl" loop_controls
  else if String.eqb ty "ImageFormat" then look "ImageFormat" image_formats
  else if starts "Scope" name then look "Scope" scopes
  else if starts "MemorySemantics" name then look "MemorySemantics" memory_semantics
  else if starts "GroupOperation" name then look "GroupOperation" group_operations
  else if starts "GLSLstd450" name then look "GLSLstd450" glsl_std_450
  else if String.eqb name "PackedVectorFormat4x8Bit" then Some 0
  else if String.eqb name "MagicNumber" then Some 119734787
  else None.

(* every constant of spirv.go is a name of the specification *)
Definition consts_known : bool :=
  forallb (fun c => match c with (ty, n, _) => match spec_value ty n with Some _ => true | None => false end end) go_consts.

Lemma gen_consts_known : consts_known = true.
Proof. vm_compute. reflexivity. Qed.

(* constants whose value differs from the specification's: (type, name, naga value, spec value).
   Computed, not asserted empty: each entry is reported by the check as a violation with its
   own key (a wrong constant is a defect of naga, not of the proof). *)
Definition const_mismatches (cs : list (string * string * Z)) : list (string * string * Z * Z) :=
  flat_map (fun c => match c with
                     | (ty, n, v) => match spec_value ty n with
                                     | Some s => if s =? v then [] else [(ty, n, v, s)]
                                     | None => []
                                     end
                     end) cs.

(* all opcode, capability, decoration, builtin, execution model/mode, control and format
   constants agree; the only tolerated disagreements are storage classes (reported) *)
Definition agree_outside_storage_classes : bool :=
  forallb (fun m => match m with (ty, _, _, _) => String.eqb ty "StorageClass" end) (const_mismatches go_consts).

Lemma gen_consts_agree : agree_outside_storage_classes = true.
Proof. vm_compute. reflexivity. Qed.
