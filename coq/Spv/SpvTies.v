(* R tie of C02: facts regenerated from /repo on every run (Gen/SpvBuild.v: what
   ModuleBuilder.Build() writes and in which order, which opcode each Add* method appends
   to which section slice, the source text of the small state machines modelled in
   Spv/Builder.v; Gen/SpvEnums.v: the constants of spirv.go) compared with the
   specification tables of Spv/Opcodes.v and Spv/Validate.v by vm_compute. *)
From Coq Require Import List ZArith String Bool Ascii.
Require Import Naga.Spv.Binary Naga.Spv.Opcodes Naga.Spv.Validate Naga.Spv.Builder Naga.Spv.SpecNames.
Require Import Naga.Gen.SpvBuild Naga.Gen.SpvEnums.
Import ListNotations.
Open Scope string_scope.
Open Scope list_scope.
Open Scope Z_scope.

(* Build() writes known slices, in non-decreasing section order, and every slice that
   receives instructions is written *)
Definition build_order_ok : bool :=
  match opt_sections build_order with
  | Some ss => sorted_b ss
  | None => false
  end &&
  forallb (fun a => existsb (String.eqb (snd (fst a))) build_order) appends &&
  existsb (String.eqb "functions") build_order.

Lemma gen_build_order : build_order_ok = true.
Proof. vm_compute. reflexivity. Qed.

(* every instruction appended to a section slice belongs to that slice's section *)
Definition appends_ok : bool :=
  forallb (fun a =>
    match a with
    | (_, f, opn) =>
      if String.eqb f "functions" then true         (* funcAppend's own append: covered by func_appends *)
      else match opname_section true opn, field_section f with
           | Some (Some s), Some fs => s =? fs
           | _, _ => false
           end
    end) appends.

Lemma gen_appends_sections : appends_ok = true.
Proof. vm_compute. reflexivity. Qed.

(* everything sent to the function section by name is a function-section instruction
   (or one allowed both at module scope and in functions); opcodes passed as parameters
   are not resolved here *)
Definition is_ident_op (n : string) : bool := String.eqb (substring 0 2 n) "Op".
Definition func_appends_ok : bool :=
  forallb (fun a =>
    if is_ident_op (snd a) then
      match opname_section false (snd a) with
      | Some (Some 11) => true
      | Some None => true
      | _ => false
      end
    else true) func_appends.

Lemma gen_func_appends_sections : func_appends_ok = true.
Proof. vm_compute. reflexivity. Qed.

(* header: magic, version, generator, bound, schema, in this order; bound := nextID *)
Lemma gen_header_order :
  header_order = ["MagicNumber"; "versionToWord(b.version)"; "b.generator"; "b.bound"; "b.schema"] /\
  bound_rhs = "b.nextID".
Proof. vm_compute. split; reflexivity. Qed.

(* the code modelled in Spv/Builder.v and Spv/Binary.v is the code that is there *)
Lemma gen_alloc_id_source : src_ModuleBuilder_AllocID = "{ id := b.nextID b.nextID++ return id }".
Proof. vm_compute. reflexivity. Qed.
Lemma gen_push_source : src_Block_Push = "{ b.Body = append(b.Body, inst) }".
Proof. vm_compute. reflexivity. Qed.
Lemma gen_consume_source : src_FunctionBuilder_Consume =
  "{ block.Body = append(block.Body, terminator) f.Blocks = append(f.Blocks, TerminatedBlock(block)) }".
Proof. vm_compute. reflexivity. Qed.
Lemma gen_to_instructions_source : src_FunctionBuilder_ToInstructions =
  ("{ capacity := 1 + len(f.Par" ++ "ameters) + len(f.Variables) + 1 for _, block := range f.Blocks { capacity += 1 + len(block.Body) } result := make([]Instruction, 0, capacity) result = append(result, f.Signature) result = append(result, f.Par" ++ "ameters...) for i, block := range f.Blocks { result = append(result, makeLabelInstruction(block.LabelID)) if i == 0 { result = append(result, f.Variables...) } result = append(result, block.Body...) } result = append(result, makeFunctionEndInstruction()) return result }")%string.
Proof. vm_compute. reflexivity. Qed.
Lemma gen_write_to_source : src_Instruction_WriteTo =
  "{ wordCount := uint32(len(i.Words) + 1) binary.LittleEndian.PutUint32(buffer[offset:], (wordCount<<16)|uint32(i.Opcode)) offset += 4 for _, word := range i.Words { binary.LittleEndian.PutUint32(buffer[offset:], word) offset += 4 } return offset }".
Proof. vm_compute. reflexivity. Qed.
Lemma gen_version_word_source : src_versionToWord = "{ return (uint32(v.Major) << 16) | (uint32(v.Minor) << 8) }".
Proof. vm_compute. reflexivity. Qed.
Lemma gen_label_source : src_makeLabelInstruction = "{ return Instruction{ Opcode: OpLabel, Words: []uint32{labelID}, } }".
Proof. vm_compute. reflexivity. Qed.

(* ---- constants of spirv.go against the specification tables ---- *)

(* every constant of spirv.go is a name of the specification *)
Definition consts_known : bool :=
  forallb (fun c => match c with (ty, n, _) => match spec_value ty n with Some _ => true | None => false end end) go_consts.

Lemma gen_consts_known : consts_known = true.
Proof. vm_compute. reflexivity. Qed.

(* all opcode, capability, decoration, builtin, execution model/mode, control and format
   constants agree; the only tolerated disagreements are storage classes (reported) *)
Definition agree_outside_storage_classes : bool :=
  forallb (fun m => match m with (ty, _, _, _) => String.eqb ty "StorageClass" end) (const_mismatches go_consts).

Lemma gen_consts_agree : agree_outside_storage_classes = true.
Proof. vm_compute. reflexivity. Qed.
