(* Verified graph search on finite directed graphs given by a successor
   function, and dominance *defined* through it (DESIGN C02):
     dominates entry d u  :=  u is not reachable from entry in the graph without d.
   reachable_correct : the search result is exactly the inductive reachability relation.
   dominates_spec    : the executable test is the textbook definition
                       "every walk from the entry to u passes through d". *)
From Coq Require Import List PArith Bool MSets.MSetPositive Lia.
Import ListNotations.

Module PS := PositiveSet.

Section Search.
Variable succ : positive -> list positive.

(* reachable from one of the start vertices *)
Inductive reach (S0 : list positive) : positive -> Prop :=
| reach_start : forall x, In x S0 -> reach S0 x
| reach_step : forall x y, reach S0 x -> In y (succ x) -> reach S0 y.

(* worklist depth-first search; None = out of fuel *)
Fixpoint dfs (fuel : nat) (work : list positive) (seen : PS.t) : option PS.t :=
  match fuel with
  | O => None
  | S f =>
    match work with
    | [] => Some seen
    | x :: w => if PS.mem x seen then dfs f w seen
                else dfs f (succ x ++ w) (PS.add x seen)
    end
  end.

Definition reachable_set (fuel : nat) (starts : list positive) : option PS.t :=
  dfs fuel starts PS.empty.

Definition sound_inv (S0 : list positive) (work : list positive) (seen : PS.t) : Prop :=
  (forall x, In x work -> reach S0 x) /\ (forall x, PS.In x seen -> reach S0 x).

Definition complete_inv (S0 : list positive) (work : list positive) (seen : PS.t) : Prop :=
  (forall x, In x S0 -> PS.In x seen \/ In x work) /\
  (forall x y, PS.In x seen -> In y (succ x) -> PS.In y seen \/ In y work).

Lemma dfs_sound : forall S0 fuel work seen R,
  dfs fuel work seen = Some R -> sound_inv S0 work seen -> forall x, PS.In x R -> reach S0 x.
Proof.
  intros S0. induction fuel as [|f IH]; intros work seen R Hd [Hw Hs]; cbn [dfs] in Hd; [discriminate|].
  destruct work as [|x w].
  - inversion Hd; subst. exact Hs.
  - destruct (PS.mem x seen) eqn:Hm.
    + apply (IH _ _ _ Hd). split; [intros y Hy; apply Hw; now right | exact Hs].
    + apply (IH _ _ _ Hd). split.
      * intros y Hy. apply in_app_or in Hy. destruct Hy as [Hy|Hy].
        -- apply reach_step with x; [apply Hw; now left | exact Hy].
        -- apply Hw. now right.
      * intros y Hy. apply PS.add_spec in Hy. destruct Hy as [->|Hy]; [apply Hw; now left | now apply Hs].
Qed.

Lemma dfs_complete_inv : forall S0 fuel work seen R,
  dfs fuel work seen = Some R -> complete_inv S0 work seen -> complete_inv S0 [] R.
Proof.
  intros S0. induction fuel as [|f IH]; intros work seen R Hd [H0 Hc]; cbn [dfs] in Hd; [discriminate|].
  destruct work as [|x w].
  - inversion Hd; subst. split; assumption.
  - destruct (PS.mem x seen) eqn:Hm.
    + apply (IH _ _ _ Hd). apply PS.mem_spec in Hm. split.
      * intros y Hy. destruct (H0 y Hy) as [?|[<-|?]]; auto.
      * intros a b Ha Hb. destruct (Hc a b Ha Hb) as [?|[<-|?]]; auto.
    + apply (IH _ _ _ Hd). split.
      * intros y Hy. destruct (H0 y Hy) as [?|[<-|?]].
        -- left. apply PS.add_spec. now right.
        -- left. apply PS.add_spec. now left.
        -- right. apply in_or_app. now right.
      * intros a b Ha Hb. apply PS.add_spec in Ha. destruct Ha as [->|Ha].
        -- right. apply in_or_app. now left.
        -- destruct (Hc a b Ha Hb) as [?|[<-|?]].
           ++ left. apply PS.add_spec. now right.
           ++ left. apply PS.add_spec. now left.
           ++ right. apply in_or_app. now right.
Qed.

Lemma closed_contains_reach : forall S0 R, complete_inv S0 [] R -> forall x, reach S0 x -> PS.In x R.
Proof.
  intros S0 R [H0 Hc] x Hr. induction Hr as [x Hx | x y _ IH Hy].
  - destruct (H0 x Hx) as [?|[]]; assumption.
  - destruct (Hc x y IH Hy) as [?|[]]; assumption.
Qed.

(* The search is sound and complete w.r.t. the inductive reachability relation. *)
Theorem reachable_correct : forall fuel starts R,
  reachable_set fuel starts = Some R -> forall x, PS.In x R <-> reach starts x.
Proof.
  intros fuel starts R H x. unfold reachable_set in H. split.
  - apply (dfs_sound starts _ _ _ _ H). split; [intros y Hy; now apply reach_start|].
    intros y Hy. exfalso. revert Hy. apply PS.empty_spec.
  - apply closed_contains_reach. apply (dfs_complete_inv starts _ _ _ _ H).
    split; [intros y Hy; now right|]. intros a b Ha. exfalso. revert Ha. apply PS.empty_spec.
Qed.

(* Enough fuel always exists is not needed: the validator reports fuel exhaustion as a
   violation of its own (never observed: fuel = 1 + #vertices + #edges bounds the steps). *)
End Search.

(* ---- walks and dominance ---- *)

(* [walk succ e l y]: l lists the vertices of a walk from e to y, most recent first *)
Inductive walk (succ : positive -> list positive) (e : positive) : list positive -> positive -> Prop :=
| walk_nil : walk succ e [e] e
| walk_snoc : forall l x y, walk succ e l x -> In y (succ x) -> walk succ e (y :: l) y.

Definition succ_without (succ : positive -> list positive) (d : positive) (x : positive) : list positive :=
  if Pos.eqb x d then [] else filter (fun y => negb (Pos.eqb y d)) (succ x).

Definition dominates (succ : positive -> list positive) (fuel : nat) (entry d u : positive) : option bool :=
  if Pos.eqb entry d then Some true
  else match reachable_set (succ_without succ d) fuel [entry] with
       | Some R => Some (negb (PS.mem u R))
       | None => None
       end.

Lemma walk_head_in : forall succ e l y, walk succ e l y -> In e l.
Proof. induction 1; [now left | now right]. Qed.

Lemma reach_without_walk : forall succ d e u, e <> d ->
  reach (succ_without succ d) [e] u -> exists l, walk succ e l u /\ ~ In d l.
Proof.
  intros succ d e u Hed Hr. induction Hr as [x Hx | x y _ IH Hy].
  - destruct Hx as [<-|[]]. exists [e]. split; [constructor|]. intros [H|[]]; congruence.
  - destruct IH as (l & Hw & Hn). unfold succ_without in Hy.
    destruct (Pos.eqb x d); [destruct Hy|].
    apply filter_In in Hy. destruct Hy as [Hy Hyd].
    exists (y :: l). split; [econstructor; eassumption|].
    intros [H|H]; [|contradiction]. subst y. rewrite Pos.eqb_refl in Hyd. discriminate.
Qed.

Lemma walk_reach_without : forall succ d e l u,
  walk succ e l u -> ~ In d l -> reach (succ_without succ d) [e] u.
Proof.
  intros succ d e l u Hw. induction Hw as [|l x y Hw IH Hy]; intros Hn.
  - apply reach_start. now left.
  - apply reach_step with x.
    + apply IH. intros H. apply Hn. now right.
    + unfold succ_without.
      assert (Hxd : x <> d).
      { intros ->. apply Hn. right. clear -Hw. inversion Hw; now left. }
      apply Pos.eqb_neq in Hxd. rewrite Hxd. apply filter_In. split; [assumption|].
      apply negb_true_iff. apply Pos.eqb_neq. intros ->. apply Hn. now left.
Qed.

(* d dominates u  iff  every walk from the entry to u passes through d
   (in particular every vertex dominates an unreachable u, as in the SPIR-V rules). *)
Theorem dominates_spec : forall succ fuel entry d u b,
  dominates succ fuel entry d u = Some b ->
  (b = true <-> forall l, walk succ entry l u -> In d l).
Proof.
  intros succ fuel entry d u b H. unfold dominates in H.
  destruct (Pos.eqb entry d) eqn:Hed.
  - inversion H; subst. apply Pos.eqb_eq in Hed. subst d. split; [|reflexivity].
    intros _ l Hw. eapply walk_head_in; eassumption.
  - apply Pos.eqb_neq in Hed.
    destruct (reachable_set (succ_without succ d) fuel [entry]) as [R|] eqn:HR; [|discriminate].
    inversion H; subst. clear H.
    pose proof (reachable_correct _ _ _ _ HR u) as Hc.
    rewrite negb_true_iff. split.
    + intros Hm l Hw. destruct (in_dec Pos.eq_dec d l) as [|Hn]; [assumption|].
      exfalso. assert (PS.In u R) by (apply Hc; eapply walk_reach_without; eassumption).
      apply PS.mem_spec in H. congruence.
    + intros Hall. destruct (PS.mem u R) eqn:Hm; [|reflexivity].
      exfalso. apply PS.mem_spec in Hm. apply Hc in Hm.
      destruct (reach_without_walk _ _ _ _ Hed Hm) as (l & Hw & Hn). apply Hn. now apply Hall.
Qed.

(* The set form used by the validator: all vertices reachable while avoiding d. *)
Definition avoid_set (succ : positive -> list positive) (fuel : nat) (entry d : positive) : option PS.t :=
  if Pos.eqb entry d then Some PS.empty else reachable_set (succ_without succ d) fuel [entry].

Lemma avoid_set_dominates : forall succ fuel entry d u R,
  avoid_set succ fuel entry d = Some R -> dominates succ fuel entry d u = Some (negb (PS.mem u R)).
Proof.
  intros succ fuel entry d u R H. unfold avoid_set in H. unfold dominates.
  destruct (Pos.eqb entry d).
  - inversion H; subst. reflexivity.
  - rewrite H. reflexivity.
Qed.
