(* C02 model: an executable transcription of the universal validation rules of the
   SPIR-V specification (sections 2.3 physical layout, 2.4 logical layout, 2.8 types,
   2.11 structured control flow, 2.16 validation rules) and of the Vulkan environment
   rules for decorations/interfaces, plus the capability/extension requirements.

   DEFINITIONS ONLY (proofs: Spv/ValidateProofs.v).  Every rule returns a list of
   violations (rule name, instruction index, two detail numbers).  Rules are written to be
   conservative: a valid module never raises a violation. *)
From Coq Require Import List ZArith String Bool FMapPositive MSets.MSetPositive.
Require Import Naga.Spv.Binary Naga.Spv.Opcodes Naga.Spv.Graph.
Import ListNotations.
Open Scope string_scope.
Open Scope list_scope.
Open Scope Z_scope.

Module PM := PositiveMap.

Record violation := { v_rule : string; v_idx : Z; v_a : Z; v_b : Z }.
Definition V (r : string) (i a b : Z) : violation := {| v_rule := r; v_idx := i; v_a := a; v_b := b |}.

Definition pm_find {A} (id : Z) (m : PM.t A) : option A :=
  if id <=? 0 then None else PM.find (Z.to_pos id) m.
Definition pm_add {A} (id : Z) (v : A) (m : PM.t A) : PM.t A :=
  if id <=? 0 then m else PM.add (Z.to_pos id) v m.
Definition ps_mem (id : Z) (s : PS.t) : bool := if id <=? 0 then false else PS.mem (Z.to_pos id) s.
Definition ps_add (id : Z) (s : PS.t) : PS.t := if id <=? 0 then s else PS.add (Z.to_pos id) s.

Definition nthz (n : nat) (l : list Z) : Z := nth n l 0.
Definition memz (x : Z) (l : list Z) : bool := existsb (Z.eqb x) l.
Definition lenz {A} (l : list A) : Z := Z.of_nat (List.length l).
Fixpoint eq_list (a b : list Z) : bool :=
  match a, b with
  | [], [] => true
  | x :: a', y :: b' => (x =? y) && eq_list a' b'
  | _, _ => false
  end.
Definition flat {A B} (f : A -> list B) (l : list A) : list B := flat_map f l.
Definition bit (mask b : Z) : Z := if Z.land mask b =? 0 then 0 else 1.
Definition hasbit (mask b : Z) : bool := negb (Z.land mask b =? 0).

(* ------------------------------------------------------------------ *)
(* 1. operand parsing: which words are ids                              *)

Definition has_zero_byte (w : Z) : bool :=
  (Z.land w 255 =? 0) || (Z.land (Z.shiftr w 8) 255 =? 0) ||
  (Z.land (Z.shiftr w 16) 255 =? 0) || (Z.land (Z.shiftr w 24) 255 =? 0).

Fixpoint skip_string (ws : list Z) : option (list Z) :=
  match ws with
  | [] => None
  | w :: r => if has_zero_byte w then Some r else skip_string r
  end.

(* image operands (3.14): number of <id>s that follow the mask *)
Definition imgops_ids (m : Z) : Z :=
  bit m 1 + bit m 2 + 2 * bit m 4 + bit m 8 + bit m 16 + bit m 32 + bit m 64 + bit m 128 +
  bit m 256 + bit m 512 + bit m 65536.

Fixpoint pairs_snd (ws : list Z) : option (list Z) :=
  match ws with
  | [] => Some []
  | _ :: b :: r => match pairs_snd r with Some l => Some (b :: l) | None => None end
  | _ => None
  end.
Fixpoint pairs_fst (ws : list Z) : option (list Z) :=
  match ws with
  | [] => Some []
  | a :: _ :: r => match pairs_fst r with Some l => Some (a :: l) | None => None end
  | _ => None
  end.

Definition cons_opt (x : Z) (o : option (list Z)) : option (list Z) :=
  match o with Some l => Some (x :: l) | None => None end.

Fixpoint parse_ops (ks : list okind) (ws : list Z) : option (list Z) :=
  match ks with
  | [] => match ws with [] => Some [] | _ => None end
  | k :: ks' =>
    match k with
    | Id => match ws with w :: r => cons_opt w (parse_ops ks' r) | [] => None end
    | Lit => match ws with _ :: r => parse_ops ks' r | [] => None end
    | Str => match skip_string ws with Some r => parse_ops ks' r | None => None end
    | OptId => match ws with [] => Some [] | w :: r => cons_opt w (parse_ops ks' r) end
    | OptLit => match ws with [] => Some [] | _ :: r => parse_ops ks' r end
    | OptStr => match ws with [] => Some [] | _ => match skip_string ws with Some r => parse_ops ks' r | None => None end end
    | Ids => Some ws
    | Lits => Some []
    | PairsLitId => pairs_snd ws
    | PairsIdId => if Nat.even (List.length ws) then Some ws else None
    | PairsIdLit => pairs_fst ws
    | ImgOps => match ws with
                | [] => Some []
                | m :: ids => if lenz ids =? imgops_ids m then Some ids else None
                end
    | MemAcc => match ws with
                | [] => Some []
                | m :: r =>
                  let r' := if hasbit m 2 then tl r else r in
                  if hasbit m 2 && (match r with [] => true | _ => false end) then None
                  else if lenz r' =? bit m 8 + bit m 16 then Some r' else None
                end
    | Unchecked => Some []
    end
  end.

Record pinstr := {
  pi_idx : Z;            (* position in the module, 0-based *)
  pi_i : instr;
  pi_ty : Z;             (* result type id, 0 if none *)
  pi_res : Z;            (* result id, 0 if none *)
  pi_args : list Z;      (* operand words after result type / result id *)
  pi_uses : list Z;      (* the <id> operands among pi_args *)
  pi_known : bool;       (* opcode is in the table *)
  pi_ok : bool;          (* operand words have the shape the opcode requires *)
  pi_unchecked : bool    (* some operands are not interpreted *)
}.
Definition pi_op (p : pinstr) : Z := opcode (pi_i p).

Definition mkpi idx i t r a u k ok un :=
  {| pi_idx := idx; pi_i := i; pi_ty := t; pi_res := r; pi_args := a; pi_uses := u;
     pi_known := k; pi_ok := ok; pi_unchecked := un |}.

Definition is_unchecked (k : okind) : bool := match k with Unchecked => true | _ => false end.

Definition parse_instr (idx : Z) (i : instr) : pinstr :=
  match lookup_op (opcode i) with
  | None => mkpi idx i 0 0 (operands i) [] false true true
  | Some oi =>
    let ws := operands i in
    let st := if oi_ty oi then match ws with t :: r => Some (t, r) | [] => None end else Some (0, ws) in
    match st with
    | None => mkpi idx i 0 0 ws [] true false false
    | Some (t, ws1) =>
      let sr := if oi_res oi then match ws1 with r :: rest => Some (r, rest) | [] => None end else Some (0, ws1) in
      match sr with
      | None => mkpi idx i t 0 ws1 [] true false false
      | Some (r, args) =>
        match parse_ops (oi_ops oi) args with
        | None => mkpi idx i t r args [] true false false
        | Some uses => mkpi idx i t r args uses true true (existsb is_unchecked (oi_ops oi))
        end
      end
    end
  end.

Fixpoint parse_all (idx : Z) (is : list instr) : list pinstr :=
  match is with
  | [] => []
  | i :: r => parse_instr idx i :: parse_all (idx + 1) r
  end.

(* ------------------------------------------------------------------ *)
(* 2. header (2.3)                                                      *)

Definition all_ids (p : pinstr) : list Z :=
  (if pi_ty p =? 0 then [] else [pi_ty p]) ++ (if pi_res p =? 0 then [] else [pi_res p]) ++ pi_uses p.

Definition version_major (h : header) : Z := Z.land (Z.shiftr (version h) 16) 255.
Definition version_minor (h : header) : Z := Z.land (Z.shiftr (version h) 8) 255.
Definition vmm (h : header) : Z := version_major h * 256 + version_minor h.   (* 0x0103 = 1.3 *)

Definition rule_header (h : header) (ps : list pinstr) : list violation :=
  (if magic h =? 119734787 then [] else [V "header_magic" (-1) (magic h) 0]) ++
  (if (version h =? version_major h * 65536 + version_minor h * 256) &&
      (version_major h =? 1) && (version_minor h <=? 6)
   then [] else [V "header_version" (-1) (version h) 0]) ++
  (if schema h =? 0 then [] else [V "header_schema" (-1) (schema h) 0]) ++
  (if 0 <? bound h then [] else [V "header_bound" (-1) (bound h) 0]) ++
  flat (fun p => flat (fun id => if (0 <? id) && (id <? bound h) then []
                                 else [V "id_out_of_bound" (pi_idx p) id (bound h)]) (all_ids p)) ps.

(* ------------------------------------------------------------------ *)
(* 3. logical layout (2.4)                                              *)

Definition is_type_op (op : Z) : bool :=
  ((19 <=? op) && (op <=? 39)) || (op =? 322) || (op =? 327) || (op =? 4472) || (op =? 5341) ||
  (op =? 4456) || (op =? 5358).
Definition is_const_op (op : Z) : bool := (41 <=? op) && (op <=? 52).
Definition is_annotation_op (op : Z) : bool :=
  (op =? 71) || (op =? 72) || (op =? 73) || (op =? 74) || (op =? 75) || (op =? 332) || (op =? 5632) || (op =? 5633).

(* section number of an instruction; None = may appear both among the global
   declarations and inside functions (OpUndef, OpLine, OpNoLine, OpExtInst, OpNop) *)
Definition section_static (i : instr) : option Z :=
  let op := opcode i in
  if op =? 17 then Some 0                                  (* OpCapability *)
  else if op =? 10 then Some 1                             (* OpExtension *)
  else if op =? 11 then Some 2                             (* OpExtInstImport *)
  else if op =? 14 then Some 3                             (* OpMemoryModel *)
  else if op =? 15 then Some 4                             (* OpEntryPoint *)
  else if (op =? 16) || (op =? 331) then Some 5            (* OpExecutionMode(Id) *)
  else if (op =? 7) || (op =? 4) || (op =? 3) || (op =? 2) then Some 6   (* OpString, OpSourceExtension, OpSource, OpSourceContinued *)
  else if (op =? 5) || (op =? 6) then Some 7               (* OpName, OpMemberName *)
  else if op =? 330 then Some 8                            (* OpModuleProcessed *)
  else if is_annotation_op op then Some 9
  else if is_type_op op || is_const_op op then Some 10
  else if op =? 59 then (if nthz 2 (operands i) =? 7 then Some 11 else Some 10)  (* OpVariable: Function storage only in functions *)
  else if (op =? 1) || (op =? 8) || (op =? 317) || (op =? 12) || (op =? 0) then None
  else Some 11.

Fixpoint sections_from (seen_fn : bool) (is : list instr) : list Z :=
  match is with
  | [] => []
  | i :: r =>
    (match section_static i with Some s => s | None => if seen_fn then 11 else 10 end)
      :: sections_from (seen_fn || (opcode i =? 54)) r
  end.
Definition sections (is : list instr) : list Z := sections_from false is.

Fixpoint sorted_b (l : list Z) : bool :=
  match l with
  | [] => true
  | x :: r => match r with [] => true | y :: _ => (x <=? y) && sorted_b r end
  end.
Definition check_layout (is : list instr) : bool := sorted_b (sections is).

Fixpoint layout_violations (idx : Z) (prev : Z) (ss : list Z) : list violation :=
  match ss with
  | [] => []
  | s :: r => (if prev <=? s then [] else [V "layout_order" idx s prev]) ++ layout_violations (idx + 1) (Z.max prev s) r
  end.

Definition count_op (op : Z) (ps : list pinstr) : Z := lenz (filter (fun p => pi_op p =? op) ps).
Definition declared_caps (ps : list pinstr) : list Z :=
  flat (fun p => if pi_op p =? 17 then [nthz 0 (pi_args p)] else []) ps.

Definition rule_layout (is : list instr) (ps : list pinstr) : list violation :=
  layout_violations 0 0 (sections is) ++
  (if check_layout is then [] else [V "layout_not_sorted" (-1) 0 0]) ++
  (if count_op 14 ps =? 1 then [] else [V "memory_model_count" (-1) (count_op 14 ps) 0]) ++
  (if (0 <? count_op 15 ps) || memz 5 (declared_caps ps) then [] else [V "no_entry_point" (-1) 0 0]).

(* ------------------------------------------------------------------ *)
(* 4. one definition per id (2.16.1)                                    *)

Definition defined_ids_p (ps : list pinstr) : list Z :=
  flat (fun p => if pi_res p =? 0 then [] else [pi_res p]) ps.

(* on the raw instruction list, for the theorem: result ids of known opcodes *)
Definition result_id (i : instr) : option Z :=
  match lookup_op (opcode i) with
  | Some oi => if oi_res oi then
                 (if oi_ty oi then nth_error (operands i) 1 else nth_error (operands i) 0)
               else None
  | None => None
  end.
Definition defined_ids (is : list instr) : list Z :=
  flat (fun i => match result_id i with Some r => [r] | None => [] end) is.

Fixpoint nodup_from (seen : PS.t) (l : list Z) : bool :=
  match l with
  | [] => true
  | x :: r => if x <=? 0 then false
              else if PS.mem (Z.to_pos x) seen then false
              else nodup_from (PS.add (Z.to_pos x) seen) r
  end.
Definition check_ids (is : list instr) : bool := nodup_from PS.empty (defined_ids is).

Fixpoint dup_violations (seen : PS.t) (ps : list pinstr) : list violation :=
  match ps with
  | [] => []
  | p :: r =>
    if pi_res p <=? 0 then dup_violations seen r
    else if PS.mem (Z.to_pos (pi_res p)) seen then V "id_defined_twice" (pi_idx p) (pi_res p) (pi_op p) :: dup_violations seen r
    else dup_violations (PS.add (Z.to_pos (pi_res p)) seen) r
  end.

(* ------------------------------------------------------------------ *)
(* 5. definition table                                                  *)

Record dinfo := { d_pi : pinstr; d_fn : Z; d_blk : Z }.   (* d_fn = 0: module scope; d_blk = 0: not in a block *)

Fixpoint build_defs (ps : list pinstr) (nfn : Z) (cur_fn cur_blk : Z) (m : PM.t dinfo) : PM.t dinfo :=
  match ps with
  | [] => m
  | p :: r =>
    let op := pi_op p in
    if op =? 54 then build_defs r (nfn + 1) (nfn + 1) 0 (pm_add (pi_res p) {| d_pi := p; d_fn := 0; d_blk := 0 |} m)
    else if op =? 56 then build_defs r nfn 0 0 m
    else if op =? 248 then build_defs r nfn cur_fn (pi_res p) (pm_add (pi_res p) {| d_pi := p; d_fn := cur_fn; d_blk := pi_res p |} m)
    else build_defs r nfn cur_fn cur_blk
           (if pi_res p =? 0 then m else pm_add (pi_res p) {| d_pi := p; d_fn := cur_fn; d_blk := cur_blk |} m)
  end.

Definition def_op (defs : PM.t dinfo) (id : Z) : Z :=
  match pm_find id defs with Some d => pi_op (d_pi d) | None => -1 end.
Definition def_ty (defs : PM.t dinfo) (id : Z) : Z :=
  match pm_find id defs with Some d => pi_ty (d_pi d) | None => 0 end.
Definition def_args (defs : PM.t dinfo) (id : Z) : list Z :=
  match pm_find id defs with Some d => pi_args (d_pi d) | None => [] end.

(* classes of ids *)
Definition is_type_id (defs : PM.t dinfo) (id : Z) : bool := is_type_op (def_op defs id).
Definition is_value_id (defs : PM.t dinfo) (id : Z) : bool :=
  match pm_find id defs with
  | Some d => negb (pi_ty (d_pi d) =? 0) && negb (pi_op (d_pi d) =? 54)
  | None => false
  end.
Definition is_const_id (defs : PM.t dinfo) (id : Z) : bool := is_const_op (def_op defs id).

(* ------------------------------------------------------------------ *)
(* 6. every id operand is defined, of the right class, defined before use at module scope *)

(* operand positions (within pi_uses) that are not values *)
Definition rule_uses_one (defs : PM.t dinfo) (p : pinstr) : list violation :=
  let op := pi_op p in
  let idx := pi_idx p in
  let undefined := flat (fun id => match pm_find id defs with Some _ => [] | None => [V "id_undefined" idx id op] end) (pi_uses p) in
  let tyv :=
    if pi_ty p =? 0 then []
    else match pm_find (pi_ty p) defs with
         | None => [V "id_undefined" idx (pi_ty p) op]
         | Some d => if is_type_op (pi_op (d_pi d)) then [] else [V "result_type_not_a_type" idx (pi_ty p) op]
         end in
  (* module-scope declarations (types, constants, global variables): operands defined earlier *)
  let order :=
    if is_type_op op || is_const_op op || ((op =? 59) && negb (nthz 0 (pi_args p) =? 7)) then
      flat (fun id => match pm_find id defs with
                      | Some d => if pi_idx (d_pi d) <? idx then []
                                  else if (op =? 32) && (def_op defs id =? 30) then []   (* pointer to a forward-declared struct *)
                                  else [V "global_use_before_def" idx id op]
                      | None => [] end) ((if pi_ty p =? 0 then [] else [pi_ty p]) ++ pi_uses p)
    else [] in
  (* classes *)
  let want_type (id : Z) := match pm_find id defs with
                            | Some _ => if is_type_id defs id then [] else [V "operand_not_a_type" idx id op]
                            | None => [] end in
  let want_value (id : Z) := match pm_find id defs with
                             | Some _ => if is_value_id defs id then [] else [V "operand_not_a_value" idx id op]
                             | None => [] end in
  let want_const (id : Z) := match pm_find id defs with
                             | Some _ => if is_const_id defs id then [] else [V "operand_not_a_constant" idx id op]
                             | None => [] end in
  let cls :=
    if negb (pi_ok p) then []
    else if (op =? 23) || (op =? 24) || (op =? 25) || (op =? 27) || (op =? 29) || (op =? 30) || (op =? 33) then flat want_type (pi_uses p)
    else if op =? 32 then flat want_type (pi_uses p)
    else if op =? 28 then want_type (nthz 0 (pi_uses p)) ++ want_const (nthz 1 (pi_uses p))
    else if (op =? 44) || (op =? 51) then
      flat (fun id => match pm_find id defs with
                      | Some _ => if is_const_id defs id || (def_op defs id =? 1) then [] else [V "operand_not_a_constant" idx id op]
                      | None => [] end) (pi_uses p)
    else if op =? 54 then want_type (nthz 0 (pi_uses p))
    else if op =? 59 then
      flat (fun id => match pm_find id defs with
                      | Some _ => if is_const_id defs id || (def_op defs id =? 59) then [] else [V "operand_not_a_constant" idx id op]
                      | None => [] end) (pi_uses p)
    else if op =? 12 then
      (if def_op defs (nthz 0 (pi_uses p)) =? 11 then [] else [V "extinst_set_not_import" idx (nthz 0 (pi_uses p)) op]) ++
      flat want_value (tl (pi_uses p))
    else if op =? 57 then
      (if def_op defs (nthz 0 (pi_uses p)) =? 54 then [] else [V "call_target_not_function" idx (nthz 0 (pi_uses p)) op]) ++
      flat want_value (tl (pi_uses p))
    else if (op =? 245) || (op =? 246) || (op =? 247) || (op =? 249) || (op =? 250) || (op =? 251) then []   (* labels: control-flow rules *)
    else if (op =? 5) || (op =? 6) || is_annotation_op op || (op =? 15) || (op =? 16) || (op =? 331) || (op =? 8) || (op =? 3) then []
    else if pi_known p && negb (pi_unchecked p) && (match section_static (pi_i p) with Some 11 => true | _ => false end) then flat want_value (pi_uses p)
    else [] in
  undefined ++ tyv ++ order ++ cls.

(* ------------------------------------------------------------------ *)
(* 7. functions and blocks (2.2.5, 2.4, 2.16.1)                         *)

Definition is_terminator (op : Z) : bool :=
  (op =? 249) || (op =? 250) || (op =? 251) || (op =? 252) || (op =? 253) || (op =? 254) || (op =? 255) ||
  (op =? 4416) || (op =? 4448) || (op =? 4449) || (op =? 5294).

Section Blocks.
Context {A : Type} (opc : A -> Z).

(* the instructions up to and including the first terminator *)
Fixpoint take_body (l : list A) : option (list A * A * list A) :=
  match l with
  | [] => None                                         (* end of function inside a block *)
  | x :: l' =>
    if is_terminator (opc x) then Some ([], x, l')
    else if opc x =? 248 then None                       (* a new OpLabel before the terminator *)
    else match take_body l' with
         | Some (b, t, r) => Some (x :: b, t, r)
         | None => None
         end
  end.

Fixpoint split_blocks (fuel : nat) (l : list A) : option (list (A * list A * A)) :=
  match l with
  | [] => Some []
  | x :: l' =>
    match fuel with
    | O => None
    | S f =>
      if opc x =? 248 then
        match take_body l' with
        | Some (b, t, r) => match split_blocks f r with
                            | Some bs => Some ((x, b, t) :: bs)
                            | None => None
                            end
        | None => None
        end
      else None                                           (* a block must start with OpLabel *)
    end
  end.
End Blocks.

Definition check_blocks (body : list instr) : bool :=
  match split_blocks opcode (S (List.length body)) body with Some _ => true | None => false end.

Record fn := { fn_num : Z; fn_def : pinstr; fn_params : list pinstr; fn_body : list pinstr }.

Fixpoint collect_fns (ps : list pinstr) (n : Z)
         (cur : option (pinstr * list pinstr * list pinstr * bool)) : list fn :=
  match ps with
  | [] => match cur with
          | Some (d, pr, bd, _) => [{| fn_num := n; fn_def := d; fn_params := rev pr; fn_body := rev bd |}]
          | None => []
          end
  | p :: r =>
    let op := pi_op p in
    match cur with
    | None => if op =? 54 then collect_fns r (n + 1) (Some (p, [], [], false)) else collect_fns r n None
    | Some (d, pr, bd, seen) =>
      if op =? 56 then {| fn_num := n; fn_def := d; fn_params := rev pr; fn_body := rev bd |} :: collect_fns r n None
      else if op =? 54 then {| fn_num := n; fn_def := d; fn_params := rev pr; fn_body := rev bd |} :: collect_fns r (n + 1) (Some (p, [], [], false))
      else if (op =? 55) && negb seen then collect_fns r n (Some (d, p :: pr, bd, seen))
      else collect_fns r n (Some (d, pr, p :: bd, seen || (op =? 248)))
    end
  end.

Inductive fstate := FOut | FHead | FBlock | FBetween.

Definition is_flexible (p : pinstr) : bool :=
  match section_static (pi_i p) with None => true | Some _ => false end.
Definition in_fn_section (p : pinstr) : bool :=
  match section_static (pi_i p) with Some 11 => true | _ => false end.

Fixpoint fn_structure (linkage : bool) (st : fstate) (ps : list pinstr) : list violation :=
  match ps with
  | [] => match st with FOut => [] | _ => [V "function_unterminated" (-1) 0 0] end
  | p :: r =>
    let op := pi_op p in
    let idx := pi_idx p in
    match st with
    | FOut =>
      if op =? 54 then fn_structure linkage FHead r
      else if in_fn_section p then V "outside_function" idx op 0 :: fn_structure linkage FOut r
      else fn_structure linkage FOut r
    | FHead =>
      if op =? 55 then fn_structure linkage FHead r
      else if op =? 248 then fn_structure linkage FBlock r
      else if op =? 56 then (if linkage then [] else [V "function_without_body" idx 0 0]) ++ fn_structure linkage FOut r
      else if op =? 54 then V "nested_function" idx 0 0 :: fn_structure linkage FHead r
      else if (op =? 8) || (op =? 317) then fn_structure linkage FHead r
      else V "function_header_instr" idx op 0 :: fn_structure linkage FHead r
    | FBlock =>
      if is_terminator op then fn_structure linkage FBetween r
      else if op =? 248 then V "block_unterminated" idx op 0 :: fn_structure linkage FBlock r
      else if op =? 56 then V "block_unterminated" idx op 0 :: fn_structure linkage FOut r
      else if op =? 54 then V "nested_function" idx 0 0 :: fn_structure linkage FHead r
      else if op =? 55 then V "param_after_label" idx 0 0 :: fn_structure linkage FBlock r
      else fn_structure linkage FBlock r
    | FBetween =>
      if op =? 248 then fn_structure linkage FBlock r
      else if op =? 56 then fn_structure linkage FOut r
      else if op =? 54 then V "nested_function" idx 0 0 :: fn_structure linkage FHead r
      else V "instr_after_terminator" idx op 0 :: fn_structure linkage FBetween r
    end
  end.

(* ------------------------------------------------------------------ *)
(* 8. control-flow graph, dominance (2.16.1), structured control flow (2.11) *)

Definition blockT := (pinstr * list pinstr * pinstr)%type.
Definition b_label (b : blockT) : Z := pi_res (fst (fst b)).
Definition b_body (b : blockT) : list pinstr := snd (fst b).
Definition b_term (b : blockT) : pinstr := snd b.

Definition term_targets (t : pinstr) : list Z :=
  let op := pi_op t in
  if op =? 249 then [nthz 0 (pi_uses t)]
  else if op =? 250 then [nthz 1 (pi_uses t); nthz 2 (pi_uses t)]
  else if op =? 251 then tl (pi_uses t)
  else [].

Definition to_pos_list (l : list Z) : list positive :=
  flat (fun z => if z <=? 0 then [] else [Z.to_pos z]) l.

Definition build_cfg (labels : PS.t) (bs : list blockT) : PM.t (list positive) :=
  fold_left (fun m b => pm_add (b_label b)
                          (filter (fun x => PS.mem x labels) (to_pos_list (term_targets (b_term b)))) m)
            bs (PM.empty _).

Definition succ_of (cfg : PM.t (list positive)) (x : positive) : list positive :=
  match PM.find x cfg with Some l => l | None => [] end.

Definition add_pred (m : PM.t (list Z)) (from : Z) (to : Z) : PM.t (list Z) :=
  pm_add to (from :: match pm_find to m with Some l => l | None => [] end) m.
Definition build_preds (bs : list blockT) : PM.t (list Z) :=
  fold_left (fun m b => fold_left (fun m' t => add_pred m' (b_label b) t) (term_targets (b_term b)) m) bs (PM.empty _).

Definition edge_count (bs : list blockT) : nat :=
  fold_left (fun n b => (n + List.length (term_targets (b_term b)))%nat) bs O.

Record fninfo := {
  fi_fn : fn;
  fi_blocks : list blockT;
  fi_labels : PS.t;
  fi_entry : Z;
  fi_cfg : PM.t (list positive);
  fi_preds : PM.t (list Z);
  fi_reach : PS.t;                 (* blocks reachable from the entry block *)
  fi_avoid : PM.t PS.t;            (* d -> blocks reachable from the entry without passing through d *)
  fi_fuel_ok : bool
}.

Definition analyse_fn (f : fn) (bs : list blockT) : fninfo :=
  let labels := fold_left (fun s b => ps_add (b_label b) s) bs PS.empty in
  let entry := match bs with b :: _ => b_label b | [] => 0 end in
  let cfg := build_cfg labels bs in
  let fuel := (4 + List.length bs + edge_count bs)%nat in
  let ep := Z.to_pos entry in
  let reach := reachable_set (succ_of cfg) fuel (if entry <=? 0 then [] else [ep]) in
  let avoid := fold_left (fun acc b =>
                   match acc with
                   | (m, ok) =>
                     if b_label b <=? 0 then (m, ok) else
                     match avoid_set (succ_of cfg) fuel ep (Z.to_pos (b_label b)) with
                     | Some R => (PM.add (Z.to_pos (b_label b)) R m, ok)
                     | None => (m, false)
                     end
                   end) bs (PM.empty _, true) in
  {| fi_fn := f; fi_blocks := bs; fi_labels := labels; fi_entry := entry; fi_cfg := cfg;
     fi_preds := build_preds bs;
     fi_reach := match reach with Some R => R | None => PS.empty end;
     fi_avoid := fst avoid;
     fi_fuel_ok := snd avoid && match reach with Some _ => true | None => false end |}.

(* d dominates u (both labels of this function).  This is Graph.dominates, read off the
   precomputed avoid sets (lemma avoid_set_dominates). *)
Definition dom (fi : fninfo) (d u : Z) : bool :=
  match pm_find d (fi_avoid fi) with
  | Some R => negb (ps_mem u R)
  | None => true
  end.
Definition reachable_blk (fi : fninfo) (b : Z) : bool := ps_mem b (fi_reach fi).
Definition is_label_of (fi : fninfo) (l : Z) : bool := ps_mem l (fi_labels fi).

(* --- placement rules inside blocks --- *)

Definition is_merge_op (op : Z) : bool := (op =? 246) || (op =? 247).
Definition is_line_op (op : Z) : bool := (op =? 8) || (op =? 317).

(* OpVariable only at the start of the entry block; OpPhi only at the start of a block *)
Fixpoint placement_scan (entry : bool) (vars_ok phis_ok : bool) (body : list pinstr) : list violation :=
  match body with
  | [] => []
  | p :: r =>
    let op := pi_op p in
    if op =? 59 then
      (if entry && vars_ok then [] else [V "variable_not_at_function_entry" (pi_idx p) (pi_res p) 0]) ++
      (if nthz 0 (pi_args p) =? 7 then [] else [V "local_variable_storage_class" (pi_idx p) (nthz 0 (pi_args p)) 0]) ++
      placement_scan entry vars_ok false r
    else if op =? 245 then
      (if phis_ok && negb entry then [] else [V "phi_placement" (pi_idx p) (pi_res p) 0]) ++
      placement_scan entry false phis_ok r
    else if is_line_op op then placement_scan entry vars_ok phis_ok r
    else placement_scan entry false false r
  end.

Definition merge_of (b : blockT) : option pinstr :=
  match rev (b_body b) with
  | m :: _ => if is_merge_op (pi_op m) then Some m else None
  | [] => None
  end.

Definition rule_merge_placement (b : blockT) : list violation :=
  let body := b_body b in
  let t := b_term b in
  flat (fun p => if is_merge_op (pi_op p) then [V "merge_not_before_terminator" (pi_idx p) (pi_op p) 0] else [])
       (removelast body) ++
  match merge_of b with
  | Some m =>
    if pi_op m =? 246 then
      (if (pi_op t =? 249) || (pi_op t =? 250) then [] else [V "loop_merge_terminator" (pi_idx m) (pi_op t) 0])
    else
      (if (pi_op t =? 250) || (pi_op t =? 251) then [] else [V "selection_merge_terminator" (pi_idx m) (pi_op t) 0])
  | None => []
  end.

Definition rule_branch_targets (fi : fninfo) (b : blockT) : list violation :=
  let t := b_term b in
  flat (fun l => (if is_label_of fi l then [] else [V "branch_target_not_a_label_of_function" (pi_idx t) l (pi_op t)]) ++
                 (if l =? fi_entry fi then [V "branch_to_entry_block" (pi_idx t) l 0] else []))
       (term_targets t) ++
  match merge_of b with
  | Some m => flat (fun l => if is_label_of fi l then [] else [V "merge_target_not_a_label_of_function" (pi_idx m) l (pi_op m)])
                   (firstn (if pi_op m =? 246 then 2 else 1) (pi_uses m))
  | None => []
  end.

(* --- definitions dominate uses --- *)

Definition rule_use_dominated (defs : PM.t dinfo) (fi : fninfo) (blk : Z) (p : pinstr) (id : Z) : list violation :=
  match pm_find id defs with
  | None => []
  | Some d =>
    if d_fn d =? 0 then []
    else if negb (d_fn d =? fn_num (fi_fn fi)) then [V "use_of_id_from_other_function" (pi_idx p) id (pi_op p)]
    else if pi_op (d_pi d) =? 248 then []
    else if d_blk d =? 0 then []                                         (* function parameter *)
    else if d_blk d =? blk then
      (if pi_idx (d_pi d) <? pi_idx p then [] else [V "use_before_definition_in_block" (pi_idx p) id (pi_op p)])
    else if negb (reachable_blk fi blk) then []
    else if dom fi (d_blk d) blk then [] else [V "definition_does_not_dominate_use" (pi_idx p) id (pi_op p)]
  end.

Fixpoint phi_pairs (ws : list Z) : list (Z * Z) :=
  match ws with
  | v :: l :: r => (v, l) :: phi_pairs r
  | _ => []
  end.

Definition rule_phi (defs : PM.t dinfo) (fi : fninfo) (blk : Z) (p : pinstr) : list violation :=
  let pairs := phi_pairs (pi_uses p) in
  let parents := map snd pairs in
  let preds := match pm_find blk (fi_preds fi) with Some l => l | None => [] end in
  flat (fun l => if memz l preds then [] else [V "phi_parent_not_a_predecessor" (pi_idx p) l blk]) parents ++
  flat (fun l => if memz l parents then [] else [V "phi_missing_predecessor" (pi_idx p) l blk]) preds ++
  flat (fun vl => let '(v, l) := vl in
          match pm_find v defs with
          | None => []
          | Some d =>
            if d_fn d =? 0 then []
            else if negb (d_fn d =? fn_num (fi_fn fi)) then [V "use_of_id_from_other_function" (pi_idx p) v 245]
            else if (pi_op (d_pi d) =? 248) then [V "operand_not_a_value" (pi_idx p) v 245]
            else if d_blk d =? 0 then []
            else if d_blk d =? l then []
            else if negb (reachable_blk fi l) then []
            else if dom fi (d_blk d) l then [] else [V "phi_definition_does_not_dominate_parent" (pi_idx p) v l]
          end) pairs.

Definition rule_block_uses (defs : PM.t dinfo) (fi : fninfo) (b : blockT) : list violation :=
  flat (fun p => if pi_op p =? 245 then rule_phi defs fi (b_label b) p
                 else flat (rule_use_dominated defs fi (b_label b) p) (pi_uses p))
       (b_body b ++ [b_term b]).

(* --- structured control flow --- *)

Record hdr := { h_blk : Z; h_idx : Z; h_loop : bool; h_merge : Z; h_cont : Z }.

Definition headers (bs : list blockT) : list hdr :=
  flat (fun b => match merge_of b with
                 | Some m => [{| h_blk := b_label b; h_idx := pi_idx m; h_loop := pi_op m =? 246;
                                 h_merge := nthz 0 (pi_uses m);
                                 h_cont := if pi_op m =? 246 then nthz 1 (pi_uses m) else 0 |}]
                 | None => []
                 end) bs.

Fixpoint dup_merges (seen : list Z) (hs : list hdr) : list violation :=
  match hs with
  | [] => []
  | h :: r => (if memz (h_merge h) seen then [V "merge_block_shared_by_two_headers" (h_idx h) (h_merge h) 0] else []) ++
              dup_merges (h_merge h :: seen) r
  end.

Definition exit_targets (hs : list hdr) : list Z :=
  flat (fun h => h_merge h :: (if h_loop h then [h_cont h; h_blk h] else [])) hs.

(* the blocks a branch in block [u] may legally leave its constructs to: the merge block,
   continue target or loop header of a construct that contains u (u is dominated by the
   header and not by the merge block, 2.11) *)
Definition exits_for (fi : fninfo) (hs : list hdr) (u : Z) : list Z :=
  flat (fun h => if reachable_blk fi (h_blk h) && dom fi (h_blk h) u && negb (dom fi (h_merge h) u)
                 then h_merge h :: (if h_loop h then [h_cont h; h_blk h] else []) else []) hs.

Definition rule_structured (fi : fninfo) : list violation :=
  let bs := fi_blocks fi in
  let hs := headers bs in
  let loop_headers := flat (fun h => if h_loop h then [h_blk h] else []) hs in
  dup_merges [] hs ++
  flat (fun h =>
    (if h_merge h =? h_blk h then [V "merge_block_is_its_own_header" (h_idx h) (h_merge h) 0] else []) ++
    (if reachable_blk fi (h_blk h) && reachable_blk fi (h_merge h) && negb (dom fi (h_blk h) (h_merge h))
     then [V "header_does_not_dominate_merge_block" (h_idx h) (h_blk h) (h_merge h)] else []) ++
    (if h_loop h && reachable_blk fi (h_blk h) && reachable_blk fi (h_cont h) && negb (dom fi (h_blk h) (h_cont h))
     then [V "loop_header_does_not_dominate_continue_target" (h_idx h) (h_blk h) (h_cont h)] else []) ++
    (if h_loop h && (h_merge h =? h_cont h) then [V "loop_merge_equals_continue_target" (h_idx h) (h_merge h) 0] else [])) hs ++
  (* back edges *)
  flat (fun b =>
    let u := b_label b in
    if negb (reachable_blk fi u) then [] else
    flat (fun v =>
      if is_label_of fi v && dom fi v u then
        (if memz v loop_headers then [] else [V "back_edge_to_non_loop_header" (pi_idx (b_term b)) u v]) ++
        flat (fun h => if (h_blk h =? v) && h_loop h && reachable_blk fi (h_cont h) && negb (dom fi (h_cont h) u)
                       then [V "continue_target_does_not_dominate_back_edge" (pi_idx (b_term b)) (h_cont h) u] else []) hs
      else []) (term_targets (b_term b))) bs ++
  flat (fun h =>
    if h_loop h then
      let n := lenz (filter (fun b => reachable_blk fi (b_label b) && dom fi (h_blk h) (b_label b) &&
                                      memz (h_blk h) (term_targets (b_term b))) bs) in
      if n <=? 1 then [] else [V "loop_header_with_several_back_edges" (h_idx h) (h_blk h) n]
    else []) hs ++
  (* selections need a merge *)
  flat (fun b =>
    let t := b_term b in
    match merge_of b with
    | Some _ => []
    | None =>
      if pi_op t =? 251 then [V "switch_without_selection_merge" (pi_idx t) (b_label b) 0]
      else if pi_op t =? 250 then
        let t1 := nthz 1 (pi_uses t) in
        let t2 := nthz 2 (pi_uses t) in
        let ex := exits_for fi hs (b_label b) in
        if (t1 =? t2) || negb (reachable_blk fi (b_label b)) || memz t1 ex || memz t2 ex then []
        else [V "conditional_branch_without_merge" (pi_idx t) (b_label b) 0]
      else []
    end) bs ++
  (* leaving a construct: only to its merge block or to an exit of an enclosing construct *)
  flat (fun h =>
    if negb (reachable_blk fi (h_blk h)) then [] else
    flat (fun b =>
      let u := b_label b in
      if reachable_blk fi u && dom fi (h_blk h) u && negb (dom fi (h_merge h) u) then
        flat (fun t =>
          if negb (is_label_of fi t) then []
          else if dom fi (h_blk h) t then []
          else if memz t (exits_for fi hs u) then []
          else [V "branch_out_of_construct" (pi_idx (b_term b)) (h_blk h) t]) (term_targets (b_term b))
      else []) bs) hs.

Definition rule_function (defs : PM.t dinfo) (f : fn) : list violation :=
  match split_blocks pi_op (S (List.length (fn_body f))) (fn_body f) with
  | None => [V "blocks_malformed" (pi_idx (fn_def f)) 0 0]
  | Some bs =>
    let fi := analyse_fn f bs in
    (if fi_fuel_ok fi then [] else [V "search_out_of_fuel" (pi_idx (fn_def f)) 0 0]) ++
    flat (fun p => flat (rule_use_dominated defs fi 0 p) (pi_uses p)) (fn_params f) ++
    match bs with
    | [] => []
    | b0 :: rest =>
      placement_scan true true false (b_body b0) ++
      flat (fun b => placement_scan false false true (b_body b)) rest
    end ++
    flat rule_merge_placement bs ++
    flat (rule_branch_targets fi) bs ++
    flat (rule_block_uses defs fi) bs ++
    rule_structured fi
  end.

(* ------------------------------------------------------------------ *)
(* 9. non-aggregate types are declared once (2.8)                        *)

(* OpTypeArray, OpTypeRuntimeArray, OpTypeStruct (aggregates) and OpTypePointer may repeat *)
Definition unique_type_op (op : Z) : bool :=
  is_type_op op && negb ((op =? 28) || (op =? 29) || (op =? 30) || (op =? 32) || (op =? 39)).

Fixpoint dup_types (seen : list (Z * list Z)) (ps : list pinstr) : list violation :=
  match ps with
  | [] => []
  | p :: r =>
    if unique_type_op (pi_op p) then
      if existsb (fun k => (fst k =? pi_op p) && eq_list (snd k) (pi_args p)) seen
      then V "duplicate_type_declaration" (pi_idx p) (pi_res p) (pi_op p) :: dup_types seen r
      else dup_types ((pi_op p, pi_args p) :: seen) r
    else dup_types seen r
  end.
