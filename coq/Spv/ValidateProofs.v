(* C02 proofs: soundness of the executable rules of Spv/Validate.v against declarative
   statements, and their consequences for a module accepted by spv_validate. *)
From Coq Require Import List ZArith String Bool FMapPositive MSets.MSetPositive Sorted Lia.
Require Import Naga.Spv.Binary Naga.Spv.Opcodes Naga.Spv.Graph Naga.Spv.Validate Naga.Spv.Vulkan
        Naga.Spv.Caps Naga.Spv.Typecheck Naga.Spv.ValidateMain.
Import ListNotations.
Open Scope list_scope.
Open Scope Z_scope.

(* ------------------------------------------------------------------ *)
(* ids are defined once *)

Lemma nodup_from_sound : forall l seen, nodup_from seen l = true ->
  NoDup l /\ (forall x, In x l -> 0 < x /\ ~ PS.In (Z.to_pos x) seen).
Proof.
  induction l as [|x l IH]; intros seen H.
  - split; [constructor | intros x []].
  - cbn [nodup_from] in H.
    destruct (x <=? 0) eqn:Hx; [discriminate|].
    destruct (PS.mem (Z.to_pos x) seen) eqn:Hm; [discriminate|].
    apply Z.leb_gt in Hx.
    destruct (IH _ H) as [Hnd Hall]. split.
    + constructor; [|assumption]. intros Hin. destruct (Hall x Hin) as [_ Hn].
      apply Hn. apply PS.add_spec. now left.
    + intros y [<-|Hy].
      * split; [assumption|]. intros Hi. apply PS.mem_spec in Hi. congruence.
      * destruct (Hall y Hy) as [Hy0 Hn]. split; [assumption|].
        intros Hi. apply Hn. apply PS.add_spec. now right.
Qed.

Theorem ids_unique_sound : forall is, check_ids is = true -> NoDup (defined_ids is).
Proof. intros is H. exact (proj1 (nodup_from_sound _ _ H)). Qed.

Lemma ids_positive : forall is, check_ids is = true -> forall x, In x (defined_ids is) -> 0 < x.
Proof. intros is H x Hx. exact (proj1 (proj2 (nodup_from_sound _ _ H) x Hx)). Qed.

(* ------------------------------------------------------------------ *)
(* logical layout: the section numbers never decrease *)

Definition sections_in_order (is : list instr) : Prop := StronglySorted Z.le (sections is).

Lemma sorted_b_sound : forall l, sorted_b l = true -> Sorted Z.le l.
Proof.
  induction l as [|x l IH]; intros H; [constructor|].
  cbn [sorted_b] in H. destruct l as [|y l'].
  - constructor; constructor.
  - apply andb_prop in H. destruct H as [Hxy Hr]. apply Z.leb_le in Hxy.
    constructor; [apply IH; exact Hr | constructor; exact Hxy].
Qed.

Theorem layout_sound : forall is, check_layout is = true -> sections_in_order is.
Proof.
  intros is H. unfold sections_in_order. apply Sorted_StronglySorted.
  - intros a b c; apply Z.le_trans.
  - apply sorted_b_sound. exact H.
Qed.

(* what that means: an instruction of a later section never precedes one of an earlier section *)
Corollary layout_no_inversion : forall is i j si sj, check_layout is = true ->
  (i < j)%nat -> nth_error (sections is) i = Some si -> nth_error (sections is) j = Some sj -> si <= sj.
Proof.
  intros is i j si sj H. pose proof (layout_sound _ H) as Hs. unfold sections_in_order in Hs.
  revert i j si sj. induction Hs as [|a l Hs IH Hall]; intros i j si sj Hij Hi Hj.
  - destruct i; discriminate.
  - destruct j as [|j]; [lia|]. cbn [nth_error] in Hj. destruct i as [|i].
    + cbn [nth_error] in Hi. inversion Hi; subst. rewrite Forall_forall in Hall. apply Hall.
      eapply nth_error_In; eassumption.
    + cbn [nth_error] in Hi. eapply IH; [|eassumption|eassumption]. lia.
Qed.

(* ------------------------------------------------------------------ *)
(* blocks: label :: body ++ [terminator], no terminator and no label inside the body *)

Section BlocksProofs.
Context {A : Type} (opc : A -> Z).

Definition plain (x : A) : Prop := is_terminator (opc x) = false /\ opc x <> 248.
Definition block_ok (b : A * list A * A) : Prop :=
  let '(l, body, t) := b in opc l = 248 /\ Forall plain body /\ is_terminator (opc t) = true.
Definition flatten_block (b : A * list A * A) : list A := let '(l, body, t) := b in l :: body ++ [t].

Lemma take_body_sound : forall l b t r, take_body opc l = Some (b, t, r) ->
  l = b ++ t :: r /\ Forall plain b /\ is_terminator (opc t) = true.
Proof.
  induction l as [|x l IH]; intros b t r H; cbn [take_body] in H; [discriminate|].
  destruct (is_terminator (opc x)) eqn:Ht.
  - inversion H; subst. repeat split; [constructor | assumption].
  - destruct (opc x =? 248) eqn:Hl; [discriminate|].
    destruct (take_body opc l) as [[[b' t'] r']|] eqn:E; [|discriminate].
    inversion H; subst. destruct (IH _ _ _ eq_refl) as (-> & Hb & Htt).
    repeat split; [|assumption]. constructor; [|assumption].
    split; [assumption | now apply Z.eqb_neq].
Qed.

Lemma split_blocks_sound : forall fuel l bs, split_blocks opc fuel l = Some bs ->
  l = flat_map flatten_block bs /\ Forall block_ok bs.
Proof.
  induction fuel as [|f IH]; intros l bs H.
  - destruct l; cbn [split_blocks] in H; [|discriminate]. inversion H; subst. split; [reflexivity|constructor].
  - destruct l as [|x l]; cbn [split_blocks] in H.
    + inversion H; subst. split; [reflexivity|constructor].
    + destruct (opc x =? 248) eqn:Hx; [|discriminate].
      destruct (take_body opc l) as [[[b t] r]|] eqn:E; [|discriminate].
      destruct (split_blocks opc f r) as [bs'|] eqn:E2; [|discriminate].
      inversion H; subst. destruct (take_body_sound _ _ _ _ E) as (-> & Hb & Ht).
      destruct (IH _ _ E2) as (-> & Hbs). split.
      * cbn [flat_map flatten_block app]. rewrite <- app_assoc. reflexivity.
      * constructor; [|assumption]. cbn [block_ok]. repeat split; try assumption. now apply Z.eqb_eq.
Qed.

(* completeness: a well-formed list of blocks is accepted (with enough fuel) *)
Lemma take_body_complete : forall b t r, Forall plain b -> is_terminator (opc t) = true ->
  take_body opc (b ++ t :: r) = Some (b, t, r).
Proof.
  induction b as [|x b IH]; intros t r Hb Ht; cbn [app take_body].
  - now rewrite Ht.
  - inversion Hb as [|? ? [Hx1 Hx2] Hb']; subst. rewrite Hx1.
    apply Z.eqb_neq in Hx2. rewrite Hx2. now rewrite IH.
Qed.

Lemma split_blocks_complete : forall bs fuel, Forall block_ok bs ->
  (List.length (flat_map flatten_block bs) < fuel)%nat ->
  split_blocks opc fuel (flat_map flatten_block bs) = Some bs.
Proof.
  induction bs as [|[[l b] t] bs IH]; intros fuel Hok Hf.
  - destruct fuel; reflexivity.
  - inversion Hok as [|? ? Hb0 Hok']; subst. cbn [block_ok] in Hb0. destruct Hb0 as (Hl & Hb & Ht).
    cbn [flat_map flatten_block] in *. destruct fuel as [|fuel]; [cbn in Hf; lia|].
    cbn [app split_blocks]. apply Z.eqb_eq in Hl. rewrite Hl.
    rewrite <- app_assoc. cbn [app]. rewrite take_body_complete by assumption.
    rewrite IH; [reflexivity | assumption |].
    cbn [List.length] in Hf. rewrite !app_length in Hf. cbn [List.length] in Hf. lia.
Qed.
End BlocksProofs.

(* every block of a function body accepted by check_blocks is
   OpLabel :: body ++ [terminator] with neither terminator nor label in the body *)
Theorem terminated_sound : forall body, check_blocks body = true ->
  exists bs, body = flat_map (flatten_block (A := instr)) bs /\ Forall (block_ok opcode) bs.
Proof.
  intros body H. unfold check_blocks in H.
  destruct (split_blocks opcode (S (List.length body)) body) as [bs|] eqn:E; [|discriminate].
  exists bs. eapply split_blocks_sound; eassumption.
Qed.

Theorem terminated_complete : forall bs, Forall (block_ok opcode) bs ->
  check_blocks (flat_map (flatten_block (A := instr)) bs) = true.
Proof.
  intros bs H. unfold check_blocks. rewrite split_blocks_complete; [reflexivity | assumption | lia].
Qed.

(* ------------------------------------------------------------------ *)
(* the validator's dominance test is Graph.dominates *)

Lemma fold_avoid_inv : forall succ fuel ep (bs : list blockT) m ok m' ok',
  (forall d R, PM.find d m = Some R -> avoid_set succ fuel ep d = Some R) ->
  fold_left (fun acc b =>
               match acc with
               | (m, ok) =>
                 if b_label b <=? 0 then (m, ok) else
                 match avoid_set succ fuel ep (Z.to_pos (b_label b)) with
                 | Some R => (PM.add (Z.to_pos (b_label b)) R m, ok)
                 | None => (m, false)
                 end
               end) bs (m, ok) = (m', ok') ->
  forall d R, PM.find d m' = Some R -> avoid_set succ fuel ep d = Some R.
Proof.
  intros succ fuel ep. induction bs as [|b bs IH]; intros m ok m' ok' Hinv H d R Hf.
  - cbn [fold_left] in H. inversion H; subst. now apply Hinv.
  - cbn [fold_left] in H. destruct (b_label b <=? 0).
    + eapply IH; eassumption.
    + destruct (avoid_set succ fuel ep (Z.to_pos (b_label b))) as [R0|] eqn:E.
      * eapply (IH (PM.add (Z.to_pos (b_label b)) R0 m)); [|eassumption|eassumption].
        intros d' R' Hd'. destruct (Pos.eq_dec d' (Z.to_pos (b_label b))) as [->|Hne].
        -- rewrite PM.gss in Hd'. inversion Hd'; subst. exact E.
        -- rewrite PM.gso in Hd' by assumption. now apply Hinv.
      * eapply IH; eassumption.
Qed.

Definition fn_succ (fi : fninfo) : positive -> list positive := succ_of (fi_cfg fi).
Definition fn_fuel (fi : fninfo) : nat := (4 + List.length (fi_blocks fi) + edge_count (fi_blocks fi))%nat.

(* For an analysed function: whenever the table has an entry for d (it has one for every
   block label when fi_fuel_ok), [dom fi d u] is exactly "every walk of the CFG from the
   entry block to u passes through d". *)
Theorem dom_spec : forall f bs d u R,
  let fi := analyse_fn f bs in
  0 < d -> 0 < u -> 0 < fi_entry fi ->
  PM.find (Z.to_pos d) (fi_avoid fi) = Some R ->
  (dom fi d u = true <->
   forall l, walk (fn_succ fi) (Z.to_pos (fi_entry fi)) l (Z.to_pos u) -> In (Z.to_pos d) l).
Proof.
  intros f bs d u R fi Hd Hu He Hfind.
  assert (Hav : avoid_set (fn_succ fi) (fn_fuel fi) (Z.to_pos (fi_entry fi)) (Z.to_pos d) = Some R).
  { subst fi. unfold analyse_fn in Hfind |- *. cbn [fi_avoid fi_entry fi_cfg fi_blocks fn_succ fn_fuel] in *.
    match type of Hfind with
    | PM.find _ (fst (fold_left ?F ?L (?M0, ?B0))) = _ =>
      destruct (fold_left F L (M0, B0)) as [m' ok'] eqn:Efold
    end.
    cbn [fst] in Hfind.
    eapply fold_avoid_inv; [|exact Efold|exact Hfind].
    intros d0 R0 H0. rewrite PM.gempty in H0. discriminate. }
  pose proof (avoid_set_dominates _ _ _ _ (Z.to_pos u) _ Hav) as Hdom.
  pose proof (dominates_spec _ _ _ _ _ _ Hdom) as Hspec.
  assert (Heq : dom fi d u = negb (PS.mem (Z.to_pos u) R)).
  { unfold dom, pm_find, ps_mem.
    assert (d <=? 0 = false) as -> by (apply Z.leb_gt; lia).
    assert (u <=? 0 = false) as -> by (apply Z.leb_gt; lia).
    rewrite Hfind. reflexivity. }
  rewrite Heq. exact Hspec.
Qed.

(* ------------------------------------------------------------------ *)
(* consequences for an accepted module *)

Lemma flat_nil : forall {A B} (f : A -> list B) l, flat f l = [] -> forall x, In x l -> f x = [].
Proof.
  intros A B f l. unfold flat. induction l as [|y l IH]; intros H x Hx; [destruct Hx|].
  cbn [flat_map] in H. apply app_eq_nil in H. destruct H as [H1 H2].
  destruct Hx as [<-|Hx]; [assumption | now apply IH].
Qed.

Ltac split_nil H :=
  repeat match type of H with
         | _ ++ _ = [] => let H1 := fresh "Hnil" in apply app_eq_nil in H; destruct H as [H1 H]
         end.

Theorem accepted_ids_unique : forall h is, spv_validate (h, is) = [] -> NoDup (defined_ids is).
Proof.
  intros h is H. unfold spv_validate in H. split_nil H.
  apply ids_unique_sound. destruct (check_ids is); [reflexivity | discriminate].
Qed.

Theorem accepted_layout : forall h is, spv_validate (h, is) = [] -> sections_in_order is.
Proof.
  intros h is H. unfold spv_validate in H. split_nil H.
  apply layout_sound. unfold rule_layout in Hnil1. split_nil Hnil1.
  destruct (check_layout is); [reflexivity | discriminate].
Qed.

Theorem accepted_blocks : forall h is f, spv_validate (h, is) = [] ->
  In f (collect_fns (parse_all 0 is) 0 None) ->
  exists bs, fn_body f = flat_map (flatten_block (A := pinstr)) bs /\ Forall (block_ok pi_op) bs.
Proof.
  intros h is f H Hin. unfold spv_validate in H. split_nil H.
  pose proof (flat_nil _ _ Hnil6 f Hin) as Hf. unfold rule_function in Hf.
  destruct (split_blocks pi_op (S (List.length (fn_body f))) (fn_body f)) as [bs|] eqn:E; [|discriminate].
  exists bs. eapply split_blocks_sound; eassumption.
Qed.

Theorem accepted_header : forall h is, spv_validate (h, is) = [] ->
  magic h = 119734787 /\ schema h = 0 /\ version_major h = 1 /\ version_minor h <= 6 /\
  forall p id, In p (parse_all 0 is) -> In id (all_ids p) -> 0 < id < bound h.
Proof.
  intros h is H. unfold spv_validate in H. split_nil H. unfold rule_header in Hnil. split_nil Hnil.
  destruct (magic h =? 119734787) eqn:E1; [|discriminate].
  destruct ((version h =? version_major h * 65536 + version_minor h * 256) && (version_major h =? 1) && (version_minor h <=? 6)) eqn:E2; [|discriminate].
  destruct (schema h =? 0) eqn:E3; [|discriminate].
  apply andb_prop in E2. destruct E2 as [E2 E2c]. apply andb_prop in E2. destruct E2 as [E2a E2b].
  repeat split; try (apply Z.eqb_eq; assumption); try (apply Z.leb_le; assumption).
  - pose proof (flat_nil _ _ Hnil p H0) as Hp. cbv beta in Hp.
    pose proof (flat_nil _ _ Hp id H1) as Hid. cbv beta in Hid.
    destruct ((0 <? id) && (id <? bound h)) eqn:E; [|discriminate].
    apply andb_prop in E. destruct E as [Ea _]. now apply Z.ltb_lt.
  - pose proof (flat_nil _ _ Hnil p H0) as Hp. cbv beta in Hp.
    pose proof (flat_nil _ _ Hp id H1) as Hid. cbv beta in Hid.
    destruct ((0 <? id) && (id <? bound h)) eqn:E; [|discriminate].
    apply andb_prop in E. destruct E as [_ Eb]. now apply Z.ltb_lt.
Qed.
