(* C02 model, operand TYPE rules of the instructions naga emits (SPIR-V 3.49: the
   "Result Type must be ...", "Operand types must ..." sentences of each instruction).
   Types are compared by <id>: non-aggregate types are unique (rule duplicate_type_declaration).
   Every rule only fires when all the types it talks about are known, so an
   instruction outside the modelled set can never raise an alarm.  DEFINITIONS ONLY. *)
From Coq Require Import List ZArith String Bool FMapPositive MSets.MSetPositive.
Require Import Naga.Spv.Binary Naga.Spv.Opcodes Naga.Spv.Graph Naga.Spv.Validate Naga.Spv.Vulkan.
Import ListNotations.
Open Scope string_scope.
Open Scope list_scope.
Open Scope Z_scope.

Section TC.
Variable defs : PM.t dinfo.

Definition tv := tview defs.
Definition tyof (v : Z) : Z := def_ty defs v.

Inductive cls := CFloat | CInt | CBool | COther.
(* (class, component count, component width, component type id) of a scalar or vector type *)
Definition shape (t : Z) : option (cls * Z * Z * Z) :=
  match tv t with
  | TFloat w => Some (CFloat, 1, w, t)
  | TInt w _ => Some (CInt, 1, w, t)
  | TBool => Some (CBool, 1, 1, t)
  | TVec c n => match tv c with
                | TFloat w => Some (CFloat, n, w, c)
                | TInt w _ => Some (CInt, n, w, c)
                | TBool => Some (CBool, n, 1, c)
                | _ => None
                end
  | _ => None
  end.
Definition cls_eqb (a b : cls) : bool :=
  match a, b with CFloat, CFloat | CInt, CInt | CBool, CBool | COther, COther => true | _, _ => false end.
Definition is_cls (c : cls) (t : Z) : bool := match shape t with Some (c', _, _, _) => cls_eqb c c' | None => false end.
Definition count_of (t : Z) : Z := match shape t with Some (_, n, _, _) => n | None => 0 end.
Definition width_of (t : Z) : Z := match shape t with Some (_, _, w, _) => w | None => 0 end.
Definition comp_of (t : Z) : Z := match shape t with Some (_, _, _, c) => c | None => 0 end.
Definition is_scalar (t : Z) : bool := match tv t with TFloat _ | TInt _ _ | TBool => true | _ => false end.
Definition known (t : Z) : bool := match tv t with TNone => false | _ => true end.

Definition bad (p : pinstr) (r : string) (a : Z) : list violation := [V ("type:" ++ r)%string (pi_idx p) a (pi_op p)].
Definition need (c : bool) (p : pinstr) (r : string) (a : Z) : list violation := if c then [] else bad p r a.

(* all operand value types known? (otherwise stay silent) *)
Definition all_known (vs : list Z) : bool := forallb (fun v => known (tyof v)) vs.

Definition same_count_width (a b : Z) : bool := (count_of a =? count_of b) && (width_of a =? width_of b).

(* bits of a numeric scalar/vector/pointer-free type, 0 unknown *)
Definition bits_of (t : Z) : Z :=
  match shape t with Some (CBool, _, _, _) => 0 | Some (_, n, w, _) => n * w | None => 0 end.

(* member / element type reached by one index step; index value if constant *)
Definition step_type (t : Z) (idx_const : Z) : option Z :=
  match tv t with
  | TStruct ms => if (0 <=? idx_const) && (idx_const <? lenz ms) then Some (nthz (Z.to_nat idx_const) ms) else None
  | TArray e _ => Some e
  | TRtArray e => Some e
  | TVec c _ => Some c
  | TMat c _ => Some c
  | _ => None
  end.

Definition is_struct (t : Z) : bool := match tv t with TStruct _ => true | _ => false end.

(* OpAccessChain: indexes are ids of integer values; into a struct they must be constants *)
Fixpoint walk_ids (t : Z) (idxs : list Z) : option Z :=
  match idxs with
  | [] => Some t
  | i :: r =>
    if is_struct t then
      (if def_op defs i =? 43 then
         match step_type t (const_value defs i) with Some t' => walk_ids t' r | None => None end
       else None)
    else match step_type t 0 with Some t' => walk_ids t' r | None => None end
  end.

(* OpCompositeExtract/Insert: literal indexes, bounds known for everything but runtime arrays *)
Definition bound_of (t : Z) : Z :=
  match tv t with
  | TStruct ms => lenz ms
  | TArray _ len => let n := const_value defs len in if n <=? 0 then 4294967296 else n
  | TVec _ n => n
  | TMat _ n => n
  | _ => 0
  end.
Fixpoint walk_lits (t : Z) (idxs : list Z) : option Z :=
  match idxs with
  | [] => Some t
  | i :: r =>
    if i <? bound_of t then
      match step_type t i with Some t' => walk_lits t' r | None => None end
    else None
  end.

Definition fn_ret_of (fn_type : Z) : Z := match tv fn_type with TFn r _ => r | _ => 0 end.

Definition glsl_float_same (n : Z) : bool :=
  ((1 <=? n) && (n <=? 4)) || (n =? 6) || ((8 <=? n) && (n <=? 32)) || (n =? 37) || (n =? 40) || (n =? 43) ||
  (n =? 46) || (n =? 48) || (n =? 49) || (n =? 50) || (n =? 69) || (n =? 70) || (n =? 71) || (n =? 79) || (n =? 80) || (n =? 81).
Definition glsl_int_same (n : Z) : bool :=
  (n =? 5) || (n =? 7) || (n =? 38) || (n =? 39) || (n =? 41) || (n =? 42) || (n =? 44) || (n =? 45) ||
  (n =? 73) || (n =? 74) || (n =? 75).

Definition check_instr (ret_ty : Z) (p : pinstr) : list violation :=
  if negb (pi_ok p) then [] else
  let op := pi_op p in
  let R := pi_ty p in
  let u := pi_uses p in
  let a := pi_args p in
  let u0 := nthz 0 u in let u1 := nthz 1 u in let u2 := nthz 2 u in
  let t0 := tyof u0 in let t1 := tyof u1 in let t2 := tyof u2 in
  if negb (all_known u || (op =? 245) || (op =? 249) || (op =? 250) || (op =? 251) || (op =? 246) || (op =? 247) || (op =? 57) || (op =? 12)) then []
  else if op =? 61 then
    match tv t0 with TPtr _ t => need (t =? R) p "load_result_is_not_pointee" u0 | _ => bad p "load_from_non_pointer" u0 end
  else if op =? 62 then
    match tv t0 with TPtr _ t => need (t =? t1) p "store_object_is_not_pointee_type" u0 | _ => bad p "store_to_non_pointer" u0 end
  else if (op =? 65) || (op =? 66) then
    match tv t0, tv R with
    | TPtr sc t, TPtr sc' t' =>
      need (sc =? sc') p "access_chain_storage_class" u0 ++
      need (forallb (fun i => is_cls CInt (tyof i) && (count_of (tyof i) =? 1)) (tl u)) p "access_chain_index_not_integer" u0 ++
      match walk_ids t (tl u) with
      | Some t'' => need (t'' =? t') p "access_chain_result_pointee" u0
      | None => bad p "access_chain_walk" u0
      end
    | _, _ => bad p "access_chain_non_pointer" u0
    end
  else if op =? 59 then
    match tv R with
    | TPtr sc t => need (sc =? nthz 0 a) p "variable_storage_class" (pi_res p) ++
                   (match u with [i] => need (tyof i =? t) p "variable_initializer_type" i | _ => [] end)
    | _ => bad p "variable_type_not_pointer" (pi_res p)
    end
  else if op =? 57 then
    match tv (nthz 1 (def_args defs u0)) with
    | TFn r ps =>
      need (r =? R) p "call_result_type" u0 ++
      need (lenz ps =? lenz (tl u)) p "call_argument_count" u0 ++
      (if lenz ps =? lenz (tl u) then
         flat (fun x => need (tyof (fst x) =? snd x) p "call_argument_type" (fst x)) (combine (tl u) ps)
       else [])
    | _ => []
    end
  else if op =? 254 then need ((ret_ty =? 0) || (t0 =? ret_ty)) p "return_value_type" u0
  else if op =? 253 then need ((ret_ty =? 0) || (match tv ret_ty with TVoid => true | TNone => true | _ => false end)) p "return_in_non_void_function" 0
  else if op =? 250 then
    if known t0 then need (match tv t0 with TBool => true | _ => false end) p "branch_condition_not_bool" u0 else []
  else if op =? 251 then
    if known t0 then need (is_cls CInt t0 && (count_of t0 =? 1)) p "switch_selector_not_integer" u0 else []
  else if op =? 169 then
    need ((t1 =? R) && (t2 =? R)) p "select_operand_types" u1 ++
    need (is_cls CBool t0 && ((count_of t0 =? 1) || (count_of t0 =? count_of R))) p "select_condition" u0
  else if op =? 245 then
    flat (fun vl => if known (tyof (fst vl)) then need (tyof (fst vl) =? R) p "phi_operand_type" (fst vl) else []) (phi_pairs u)
  else if (op =? 129) || (op =? 131) || (op =? 133) || (op =? 136) || (op =? 140) || (op =? 141) then
    need (is_cls CFloat R && (t0 =? R) && (t1 =? R)) p "float_binary" u0
  else if op =? 127 then need (is_cls CFloat R && (t0 =? R)) p "float_unary" u0
  else if (op =? 128) || (op =? 130) || (op =? 132) || (op =? 134) || (op =? 135) || (op =? 137) || (op =? 138) || (op =? 139) ||
          (op =? 197) || (op =? 198) || (op =? 199) then
    need (is_cls CInt R && is_cls CInt t0 && is_cls CInt t1 && same_count_width R t0 && same_count_width R t1) p "integer_binary" u0
  else if (op =? 126) || (op =? 200) || (op =? 204) then
    need (is_cls CInt R && is_cls CInt t0 && same_count_width R t0) p "integer_unary" u0
  else if op =? 205 then need (is_cls CInt R && is_cls CInt t0 && (count_of R =? count_of t0)) p "bit_count" u0
  else if (op =? 194) || (op =? 195) || (op =? 196) then
    need (is_cls CInt R && is_cls CInt t0 && is_cls CInt t1 && same_count_width R t0 && (count_of R =? count_of t1)) p "shift" u0
  else if (170 <=? op) && (op <=? 179) then
    need (is_cls CBool R && is_cls CInt t0 && is_cls CInt t1 && same_count_width t0 t1 && (count_of R =? count_of t0)) p "integer_comparison" u0
  else if (180 <=? op) && (op <=? 191) then
    need (is_cls CBool R && is_cls CFloat t0 && (t0 =? t1) && (count_of R =? count_of t0)) p "float_comparison" u0
  else if (164 <=? op) && (op <=? 167) then need (is_cls CBool R && (t0 =? R) && (t1 =? R)) p "logical_binary" u0
  else if op =? 168 then need (is_cls CBool R && (t0 =? R)) p "logical_not" u0
  else if (op =? 154) || (op =? 155) then
    need (match tv R with TBool => true | _ => false end && is_cls CBool t0 && (1 <? count_of t0)) p "any_all" u0
  else if (op =? 156) || (op =? 157) then
    need (is_cls CBool R && is_cls CFloat t0 && (count_of R =? count_of t0)) p "isnan_isinf" u0
  else if op =? 148 then
    need (is_cls CFloat t0 && (1 <? count_of t0) && (t0 =? t1) && (comp_of t0 =? R)) p "dot" u0
  else if op =? 142 then need (is_cls CFloat R && (1 <? count_of R) && (t0 =? R) && (t1 =? comp_of R)) p "vector_times_scalar" u0
  else if op =? 143 then
    match tv R with TMat c _ => need ((t0 =? R) && (t1 =? comp_of c)) p "matrix_times_scalar" u0 | _ => bad p "matrix_times_scalar" u0 end
  else if op =? 144 then
    match tv t1 with
    | TMat c n => need (is_cls CFloat R && (count_of R =? n) && (t0 =? c) && (comp_of R =? comp_of c)) p "vector_times_matrix" u0
    | _ => bad p "vector_times_matrix" u1 end
  else if op =? 145 then
    match tv t0 with
    | TMat c n => need ((R =? c) && is_cls CFloat t1 && (count_of t1 =? n) && (comp_of t1 =? comp_of c)) p "matrix_times_vector" u0
    | _ => bad p "matrix_times_vector" u0 end
  else if op =? 146 then
    match tv t0, tv t1, tv R with
    | TMat lc ln, TMat rc rn, TMat oc on =>
      need ((oc =? lc) && (on =? rn) && (count_of rc =? ln) && (comp_of rc =? comp_of lc)) p "matrix_times_matrix" u0
    | _, _, _ => bad p "matrix_times_matrix" u0 end
  else if op =? 84 then
    match tv t0, tv R with
    | TMat c n, TMat c' n' => need ((count_of c =? n') && (count_of c' =? n) && (comp_of c =? comp_of c')) p "transpose" u0
    | _, _ => bad p "transpose" u0 end
  else if (op =? 109) || (op =? 110) then need (is_cls CInt R && is_cls CFloat t0 && (count_of R =? count_of t0)) p "convert_f_to_int" u0
  else if (op =? 111) || (op =? 112) then need (is_cls CFloat R && is_cls CInt t0 && (count_of R =? count_of t0)) p "convert_int_to_f" u0
  else if (op =? 113) || (op =? 114) then need (is_cls CInt R && is_cls CInt t0 && (count_of R =? count_of t0)) p "int_convert" u0
  else if op =? 115 then need (is_cls CFloat R && is_cls CFloat t0 && (count_of R =? count_of t0) && negb (width_of R =? width_of t0)) p "float_convert" u0
  else if op =? 116 then need (is_cls CFloat R && (t0 =? R) && (width_of R =? 32)) p "quantize_to_f16" u0
  else if op =? 124 then
    (if (0 <? bits_of R) && (0 <? bits_of t0) then need (bits_of R =? bits_of t0) p "bitcast_size" u0 else [])
  else if op =? 80 then
    match tv R with
    | TVec c n =>
      need (forallb (fun v => comp_of (tyof v) =? c) u && (fold_left (fun s v => s + count_of (tyof v)) u 0 =? n) && (1 <? lenz u)) p "construct_vector" (pi_res p)
    | TMat c n => need (forallb (fun v => tyof v =? c) u && (lenz u =? n)) p "construct_matrix" (pi_res p)
    | TArray e len => need (forallb (fun v => tyof v =? e) u && (lenz u =? const_value defs len)) p "construct_array" (pi_res p)
    | TStruct ms => need (eq_list (map tyof u) ms) p "construct_struct" (pi_res p)
    | _ => bad p "construct_non_composite" (pi_res p)
    end
  else if op =? 44 then
    match tv R with
    | TVec c n => need (forallb (fun v => tyof v =? c) u && (lenz u =? n)) p "constant_vector" (pi_res p)
    | TMat c n => need (forallb (fun v => tyof v =? c) u && (lenz u =? n)) p "constant_matrix" (pi_res p)
    | TArray e len => need (forallb (fun v => tyof v =? e) u && (lenz u =? const_value defs len)) p "constant_array" (pi_res p)
    | TStruct ms => need (eq_list (map tyof u) ms) p "constant_struct" (pi_res p)
    | _ => bad p "constant_composite_non_composite" (pi_res p)
    end
  else if op =? 43 then
    match tv R with
    | TInt w _ => need (lenz a =? (w + 31) / 32) p "constant_word_count" (pi_res p)
    | TFloat w => need (lenz a =? (w + 31) / 32) p "constant_word_count" (pi_res p)
    | _ => bad p "constant_type_not_numeric_scalar" (pi_res p)
    end
  else if (op =? 41) || (op =? 42) then need (match tv R with TBool => true | _ => false end) p "bool_constant_type" (pi_res p)
  else if op =? 81 then
    match walk_lits t0 (tl a) with
    | Some t => need ((t =? R) && (0 <? lenz (tl a))) p "composite_extract_result" u0
    | None => bad p "composite_extract_index" u0
    end
  else if op =? 82 then
    need (t1 =? R) p "composite_insert_result" u1 ++
    match walk_lits t1 (skipn 2 a) with
    | Some t => need (t =? t0) p "composite_insert_object" u0
    | None => bad p "composite_insert_index" u1
    end
  else if op =? 79 then
    let lits := skipn 2 a in
    need (match tv R with TVec c n => (n =? lenz lits) && (comp_of t0 =? c) && (comp_of t1 =? c) | _ => false end) p "vector_shuffle_result" u0 ++
    need (forallb (fun l => (l <? count_of t0 + count_of t1) || (l =? 4294967295)) lits) p "vector_shuffle_component" u0 ++
    need ((1 <? count_of t0) && (1 <? count_of t1)) p "vector_shuffle_operands" u0
  else if op =? 77 then
    need ((1 <? count_of t0) && (comp_of t0 =? R) && is_cls CInt t1 && (count_of t1 =? 1)) p "vector_extract_dynamic" u0
  else if op =? 83 then need (t0 =? R) p "copy_object" u0
  else if op =? 12 then
    (* GLSL.std.450 *)
    let n := nthz 1 a in
    let ops := tl u in
    if negb (all_known ops) || negb (eq_list (def_args defs u0) [1280527431; 1685353262; 808793134; 0]) then []
    else if glsl_float_same n then need (is_cls CFloat R && forallb (fun v => tyof v =? R) ops) p "glsl_float_operands" n
    else if glsl_int_same n then need (is_cls CInt R && forallb (fun v => is_cls CInt (tyof v) && same_count_width R (tyof v)) ops) p "glsl_int_operands" n
    else if n =? 66 then need (is_cls CFloat (tyof (nthz 0 ops)) && (comp_of (tyof (nthz 0 ops)) =? R)) p "glsl_length" n
    else if n =? 67 then need (is_cls CFloat (tyof (nthz 0 ops)) && (comp_of (tyof (nthz 0 ops)) =? R) && (tyof (nthz 0 ops) =? tyof (nthz 1 ops))) p "glsl_distance" n
    else if n =? 68 then need (is_cls CFloat R && (count_of R =? 3) && forallb (fun v => tyof v =? R) ops) p "glsl_cross" n
    else if n =? 33 then need (match tv (tyof (nthz 0 ops)) with TMat c _ => comp_of c =? R | _ => false end) p "glsl_determinant" n
    else if n =? 34 then need (tyof (nthz 0 ops) =? R) p "glsl_matrix_inverse" n
    else if n =? 53 then need (is_cls CFloat R && (tyof (nthz 0 ops) =? R) && is_cls CInt (tyof (nthz 1 ops)) && (count_of (tyof (nthz 1 ops)) =? count_of R)) p "glsl_ldexp" n
    else []
  else if ((227 <=? op) && (op <=? 242)) || (op =? 6035) then
    let scalar_num := (is_cls CInt R || is_cls CFloat R) && (count_of R =? 1) in
    if op =? 228 then
      match tv t0 with TPtr _ t => need (t =? tyof (nthz 3 u)) p "atomic_store_value" u0 | _ => bad p "atomic_non_pointer" u0 end
    else
      match tv t0 with
      | TPtr _ t =>
        need ((t =? R) && scalar_num) p "atomic_result_is_not_pointee" u0 ++
        (if (op =? 229) || ((234 <=? op) && (op <=? 242)) || (op =? 6035) then need (tyof (nthz 3 u) =? R) p "atomic_value_type" u0
         else if (op =? 230) || (op =? 231) then need ((tyof (nthz 4 u) =? R) && (tyof (nthz 5 u) =? R)) p "atomic_value_type" u0
         else []) ++
        need (is_cls CInt t1 && (count_of t1 =? 1) && is_cls CInt t2 && (count_of t2 =? 1)) p "atomic_scope_semantics" u0
      | _ => bad p "atomic_non_pointer" u0
      end
  else if op =? 224 then need (forallb (fun v => is_cls CInt (tyof v) && (count_of (tyof v) =? 1)) u) p "barrier_operands" 0
  else if op =? 225 then need (forallb (fun v => is_cls CInt (tyof v) && (count_of (tyof v) =? 1)) u) p "barrier_operands" 0
  else if op =? 86 then
    match tv R with
    | TSampledImage img => need ((t0 =? img) && match tv t1 with TSampler => true | _ => false end) p "sampled_image_operands" u0
    | _ => bad p "sampled_image_result" (pi_res p)
    end
  else if (op =? 87) || (op =? 88) || (op =? 96) then
    match tv t0 with
    | TSampledImage img =>
      match tv img with
      | TImage st _ _ _ _ _ _ => need ((count_of R =? 4) && (comp_of R =? st)) p "image_sample_result" u0
      | _ => []
      end
    | _ => bad p "image_sample_operand_not_sampled_image" u0
    end
  else if (op =? 89) || (op =? 90) then
    match tv t0 with
    | TSampledImage img =>
      match tv img with
      | TImage st _ _ _ _ _ _ => need ((R =? st) && is_cls CFloat t2 && (count_of t2 =? 1)) p "image_sample_dref_result" u0
      | _ => []
      end
    | _ => bad p "image_sample_operand_not_sampled_image" u0
    end
  else if op =? 97 then
    match tv t0 with
    | TSampledImage img =>
      match tv img with
      | TImage st _ _ _ _ _ _ => need ((count_of R =? 4) && (comp_of R =? st)) p "image_gather_result" u0
      | _ => []
      end
    | _ => bad p "image_sample_operand_not_sampled_image" u0
    end
  else if (op =? 95) || (op =? 98) then
    match tv t0 with
    | TImage st _ _ _ _ _ _ => need ((comp_of R =? st) && ((op =? 98) || (count_of R =? 4))) p "image_fetch_read_result" u0
    | _ => bad p "image_operand_not_image" u0
    end
  else if op =? 99 then
    match tv t0 with
    | TImage st _ _ _ _ _ _ => need (comp_of t2 =? st) p "image_write_texel" u0
    | _ => bad p "image_operand_not_image" u0
    end
  else if op =? 100 then
    match tv t0 with TSampledImage img => need (img =? R) p "image_of_sampled_image" u0 | _ => bad p "image_of_sampled_image" u0 end
  else if (103 <=? op) && (op <=? 107) then
    need (is_cls CInt R && match tv t0 with TImage _ _ _ _ _ _ _ => true | _ => false end) p "image_query" u0
  else if op =? 68 then
    match tv t0 with
    | TPtr _ s =>
      match tv s with
      | TStruct ms => need ((nthz 1 a =? lenz ms - 1) && match tv (nthz (Z.to_nat (nthz 1 a)) ms) with TRtArray _ => true | _ => false end &&
                            is_cls CInt R && (width_of R =? 32) && (count_of R =? 1)) p "array_length" u0
      | _ => bad p "array_length_not_struct" u0
      end
    | _ => bad p "array_length_not_pointer" u0
    end
  else if (207 <=? op) && (op <=? 215) then need (is_cls CFloat R && (t0 =? R)) p "derivative" u0
  else if (op =? 201) then need (is_cls CInt R && (t0 =? R) && (t1 =? R) && is_cls CInt t2 && is_cls CInt (tyof (nthz 3 u))) p "bit_field_insert" u0
  else if (op =? 202) || (op =? 203) then need (is_cls CInt R && (t0 =? R) && is_cls CInt t1 && is_cls CInt t2) p "bit_field_extract" u0
  else if (349 <=? op) && (op <=? 364) then need (tyof (nthz 1 u) =? R) p "group_arithmetic" u1
  else if (op =? 337) || (op =? 338) || ((345 <=? op) && (op <=? 348)) || (op =? 365) || (op =? 366) then need (tyof (nthz 1 u) =? R) p "group_value" u1
  else if (op =? 334) || (op =? 335) then need (match tv R with TBool => true | _ => false end && (tyof (nthz 1 u) =? R)) p "group_vote" u1
  else if op =? 339 then need ((count_of R =? 4) && is_cls CInt R && match tv (tyof (nthz 1 u)) with TBool => true | _ => false end) p "group_ballot" u1
  else [].

Definition check_fn (f : fn) : list violation :=
  let fty := nthz 1 (pi_args (fn_def f)) in
  let ret := fn_ret_of fty in
  (match tv fty with
   | TFn r ps =>
     need (r =? pi_ty (fn_def f)) (fn_def f) "function_result_type" fty ++
     need (eq_list (map pi_ty (fn_params f)) ps) (fn_def f) "function_parameter_types" fty
   | TNone => []
   | _ => bad (fn_def f) "function_type_operand" fty
   end) ++
  flat (check_instr ret) (fn_body f).

End TC.

Definition rule_types (defs : PM.t dinfo) (ps : list pinstr) (fns : list fn) : list violation :=
  (* module-scope constants and variables *)
  flat (fun p => if is_const_op (pi_op p) || is_global_var p then check_instr defs 0 p else []) ps ++
  flat (check_fn defs) fns.
