(* Names and numbers of the specification tables, looked up by the (aliased, case-insensitive)
   names naga uses; the section each slice of ModuleBuilder holds.  DEFINITIONS ONLY, no
   dependency on regenerated files (so the extracted validator still builds when an
   obligation of Spv/SpvTies.v fails). *)
From Coq Require Import List ZArith String Bool Ascii.
Require Import Naga.Spv.Binary Naga.Spv.Opcodes Naga.Spv.Validate.
Import ListNotations.
Open Scope string_scope.
Open Scope list_scope.
Open Scope Z_scope.

(* ---- the section (2.4) each slice of ModuleBuilder holds ---- *)
Definition field_section (f : string) : option Z :=
  if String.eqb f "capabilities" then Some 0
  else if String.eqb f "extensions" then Some 1
  else if String.eqb f "extInstImports" then Some 2
  else if String.eqb f "memoryModel" then Some 3
  else if String.eqb f "entryPoints" then Some 4
  else if String.eqb f "executionModes" then Some 5
  else if String.eqb f "debugStrings" then Some 6
  else if String.eqb f "debugNames" then Some 7
  else if String.eqb f "annotations" then Some 9
  else if String.eqb f "types" then Some 10
  else if String.eqb f "globalVars" then Some 10
  else if String.eqb f "functions" then Some 11
  else None.

Definition opt_sections (l : list string) : option (list Z) :=
  fold_right (fun f acc => match field_section f, acc with Some s, Some r => Some (s :: r) | _, _ => None end) (Some []) l.

(* names used by naga that differ from the specification's *)
Definition alias (n : string) : string :=
  if String.eqb n "OpAtomicCompareExch" then "OpAtomicCompareExchange"
  else if String.eqb n "OpSDotKHR" then "OpSDot"
  else if String.eqb n "OpUDotKHR" then "OpUDot"
  else if String.eqb n "GroupNonUniformShuffleRel" then "GroupNonUniformShuffleRelative"
  else if String.eqb n "SubgroupLocalInvID" then "SubgroupLocalInvocationId"
  else n.

Definition lower_ascii (c : ascii) : ascii :=
  let n := nat_of_ascii c in
  if (Nat.leb 65 n && Nat.leb n 90)%bool then ascii_of_nat (n + 32) else c.
Fixpoint lower (s : string) : string :=
  match s with EmptyString => EmptyString | String c r => String (lower_ascii c) (lower r) end.
Fixpoint lookup_ci (n : string) (l : list (string * Z)) : option Z :=
  match l with
  | [] => None
  | (k, v) :: r => if String.eqb (lower n) (lower k) then Some v else lookup_ci n r
  end.

(* section of the instruction a method appends, by opcode name *)
Definition opname_section (global_var : bool) (n : string) : option (option Z) :=
  match lookup_ci (alias n) opcode_names with
  | None => None
  | Some code =>
    if code =? 59 then Some (Some (if global_var then 10 else 11))
    else Some (section_static {| opcode := code; operands := [] |})
  end.

Definition strip (prefix n : string) : string :=
  if String.eqb (substring 0 (String.length prefix) n) prefix
  then substring (String.length prefix) (String.length n - String.length prefix) n else n.

Definition starts (prefix n : string) : bool := String.eqb (substring 0 (String.length prefix) n) prefix.

(* the specification's value for a Go constant; None = name not in the tables *)
Definition spec_value (ty name : string) : option Z :=
  let look pre tbl := lookup_ci (alias (strip pre name)) tbl in
  if String.eqb ty "OpCode" then lookup_ci (alias name) opcode_names
  else if String.eqb ty "Capability" then look "Capability" capabilities
  else if String.eqb ty "Decoration" then look "Decoration" decorations
  else if String.eqb ty "BuiltIn" then look "BuiltIn" builtins
  else if String.eqb ty "ExecutionModel" then look "ExecutionModel" execution_models
  else if String.eqb ty "ExecutionMode" then look "ExecutionMode" execution_modes
  else if String.eqb ty "StorageClass" then look "StorageClass" storage_classes
  else if String.eqb ty "AddressingModel" then look "AddressingModel" addressing_models
  else if String.eqb ty "MemoryModel" then look "MemoryModel" memory_models
  else if String.eqb ty "FunctionControl" then look "FunctionControl" function_controls
  else if String.eqb ty "SelectionControl" then look "SelectionControl" selection_controls
  else if String.eqb ty "LoopControl" then look "LoopControl" loop_controls
  else if String.eqb ty "ImageFormat" then look "ImageFormat" image_formats
  else if starts "Scope" name then look "Scope" scopes
  else if starts "MemorySemantics" name then look "MemorySemantics" memory_semantics
  else if starts "GroupOperation" name then look "GroupOperation" group_operations
  else if starts "GLSLstd450" name then look "GLSLstd450" glsl_std_450
  else if String.eqb name "PackedVectorFormat4x8Bit" then Some 0
  else if String.eqb name "MagicNumber" then Some 119734787
  else None.

(* constants whose value differs from the specification's: (type, name, naga value, spec value).
   Computed, not asserted empty: each entry is reported by the check as a violation with its
   own key (a wrong constant is a defect of naga, not of the proof). *)
Definition const_mismatches (cs : list (string * string * Z)) : list (string * string * Z * Z) :=
  flat_map (fun c => match c with
                     | (ty, n, v) => match spec_value ty n with
                                     | Some s => if s =? v then [] else [(ty, n, v, s)]
                                     | None => []
                                     end
                     end) cs.

