(* Obligations tying the vector-lifting theorem (Spv/VectorLift.v: teval_vector_lift, teval_vector_lift_undefined)
   to the code naga emits TODAY.  coq/Gen/SpvOpTable.v is regenerated on every run (gen.py `spvoptable`); for
   every VECTOR-shaped row (shape n = 2, 3, 4) whose scalar form is an interpreted catalogue entry
   (Proved / Partial / Refuted) the template must be in the class the theorem quantifies over:
       cw_template t = true   and   splats_width n t = true
   -- or its key is in the explicit list [non_cw_keys] of operations that are NOT component-wise (they reduce
   or combine components; each keeps its own lemma in Spv/CatalogueProofs.v).  A scalar constant emitted
   where a splat is needed, a splat of the wrong width, an OpVectorTimesScalar-style mixed shape or a new
   non-component-wise instruction in a vector template makes gen_vector_rows_lift fail.
   Re-checked by coqc on every run (checks/c01.py, extra_obligation_files). *)
From Coq Require Import List ZArith String Bool.
Import ListNotations.
Require Import Naga.Spv.Ops Naga.Spv.Catalogue Naga.Spv.VectorLift Naga.Gen.SpvOpTable.
Open Scope Z_scope.

(* THE TIE: the lifting theorem applies to every in-scope vector row naga emits now *)
Lemma gen_vector_rows_lift : rows_not_lifted table = [].
Proof. vm_compute. reflexivity. Qed.

(* and every such row is literally [vectorize n] of its catalogue (scalar) template, the form of the corollaries *)
Lemma gen_vector_rows_are_vectorized : rows_not_vectorized table = [].
Proof. vm_compute. reflexivity. Qed.

(* the exception list is tight: no listed key would be accepted by the class, and each is still probed *)
Lemma gen_non_cw_keys_tight :
  forallb (fun k =>
     existsb (fun r => match r with (k', n, _) => String.eqb k k' && (1 <? n) end) table
     && forallb (fun r => match r with (k', n, t) =>
                   negb (String.eqb k k' && (1 <? n)) || negb (cw_template t) end) table) non_cw_keys = true.
Proof. vm_compute. reflexivity. Qed.

(* the obligation is not vacuous: vector rows exist for every width 2, 3, 4 and most of them are in scope *)
Lemma gen_vector_rows_present :
  forallb (fun n => existsb (fun r => row_in_scope r && match r with (_, m, _) => m =? n end) table) [2; 3; 4] = true.
Proof. vm_compute. reflexivity. Qed.
