(* Obligations tying the catalogue (Spv/Catalogue.v, lemmas in Spv/CatalogueProofs.v) to the code naga
   emits TODAY: coq/Gen/SpvOpTable.v is regenerated on every run by gen.py `spvoptable` (one compiled
   micro-program per (operator, scalar kind, shape), its instruction sequence abstracted into a template).
   Re-checked by coqc on every run.  A changed opcode, swapped operands, a signed/unsigned mix-up or a
   dropped guard in a helper yields a row that is in no catalogue entry: gen_table_in_catalogue fails. *)
From Coq Require Import List ZArith String Bool.
Import ListNotations.
Require Import Naga.Spv.Ops Naga.Spv.Catalogue Naga.Gen.SpvOpTable.
Open Scope Z_scope.

(* every probed template is one the catalogue has a lemma for (proved, partial, refuted or recorded as uninterpreted) *)
Lemma gen_table_in_catalogue : missing_rows table = [].
Proof. vm_compute. reflexivity. Qed.

(* the probe really ran: every catalogue entry was observed in at least one shape *)
Lemma gen_table_covers_catalogue :
  forallb (fun e => match e with (k, t, _) =>
     existsb (fun r => match r with (k', _, t') => String.eqb k k' && texp_eqb (erase_splat t') t end) table end) catalogue = true.
Proof. vm_compute. reflexivity. Qed.

(* the templates that are known to be wrong for some operands (each has a `_refuted` lemma and is a recorded finding) *)
Definition refuted_rows : list (string * Z) := rows_with_status Refuted table.
