(* SPIR-V instruction table, transcribed from the SPIR-V 1.6 specification
   (section 3.49 "Instructions" and the KHR/EXT extension specifications), NOT from
   naga's spirv.go.  For every opcode: number, whether it has a result type / a result
   id, and the kinds of its remaining operands (which words are ids, which literals).
   Also: enumerant tables (capabilities, decorations, builtins, storage classes, ...) with
   the spec's numbers; they are compared by name with naga's constants in Spv/SpvTies.v. *)
From Coq Require Import List ZArith String Bool FMapPositive.
Import ListNotations.
Open Scope string_scope.
Open Scope Z_scope.

Inductive okind :=
| Id        (* one <id> *)
| Lit       (* one literal word *)
| Str       (* nul-terminated literal string, padded to a word boundary *)
| OptId     (* optional <id> *)
| OptLit    (* optional literal word *)
| OptStr    (* optional literal string *)
| Ids       (* zero or more <id>, to the end *)
| Lits      (* zero or more literal words, to the end *)
| PairsLitId  (* (literal, <id>)*   OpSwitch with a selector of at most 32 bits *)
| PairsIdId   (* (<id>, <id>)*      OpPhi *)
| PairsIdLit  (* (<id>, literal)*   OpGroupMemberDecorate *)
| ImgOps    (* optional image-operands mask followed by one <id> per set value bit (two for Grad) *)
| MemAcc    (* optional memory-access mask (+ alignment literal, + scope ids) *)
| Unchecked. (* rest not interpreted (opaque operands) *)

Record opinfo := { oi_name : string; oi_code : Z; oi_ty : bool; oi_res : bool; oi_ops : list okind }.

Definition mk n c t r o := {| oi_name := n; oi_code := c; oi_ty := t; oi_res := r; oi_ops := o |}.
(* shapes *)
Definition TR n c o := mk n c true true o.     (* result type + result id *)
Definition R_ n c o := mk n c false true o.    (* result id only *)
Definition N_ n c o := mk n c false false o.   (* neither *)
Definition un n c := TR n c [Id].
Definition bin n c := TR n c [Id; Id].
Definition tri n c := TR n c [Id; Id; Id].

Definition optable : list opinfo := [
  N_ "OpNop" 0 [];
  TR "OpUndef" 1 [];
  N_ "OpSourceContinued" 2 [Str];
  N_ "OpSource" 3 [Lit; Lit; OptId; OptStr];
  N_ "OpSourceExtension" 4 [Str];
  N_ "OpName" 5 [Id; Str];
  N_ "OpMemberName" 6 [Id; Lit; Str];
  R_ "OpString" 7 [Str];
  N_ "OpLine" 8 [Id; Lit; Lit];
  N_ "OpExtension" 10 [Str];
  R_ "OpExtInstImport" 11 [Str];
  TR "OpExtInst" 12 [Id; Lit; Ids];
  N_ "OpMemoryModel" 14 [Lit; Lit];
  N_ "OpEntryPoint" 15 [Lit; Id; Str; Ids];
  N_ "OpExecutionMode" 16 [Id; Lit; Lits];
  N_ "OpCapability" 17 [Lit];
  R_ "OpTypeVoid" 19 [];
  R_ "OpTypeBool" 20 [];
  R_ "OpTypeInt" 21 [Lit; Lit];
  R_ "OpTypeFloat" 22 [Lit; OptLit];
  R_ "OpTypeVector" 23 [Id; Lit];
  R_ "OpTypeMatrix" 24 [Id; Lit];
  R_ "OpTypeImage" 25 [Id; Lit; Lit; Lit; Lit; Lit; Lit; OptLit];
  R_ "OpTypeSampler" 26 [];
  R_ "OpTypeSampledImage" 27 [Id];
  R_ "OpTypeArray" 28 [Id; Id];
  R_ "OpTypeRuntimeArray" 29 [Id];
  R_ "OpTypeStruct" 30 [Ids];
  R_ "OpTypeOpaque" 31 [Str];
  R_ "OpTypePointer" 32 [Lit; Id];
  R_ "OpTypeFunction" 33 [Id; Ids];
  N_ "OpTypeForwardPointer" 39 [Id; Lit];
  TR "OpConstantTrue" 41 [];
  TR "OpConstantFalse" 42 [];
  TR "OpConstant" 43 [Lits];
  TR "OpConstantComposite" 44 [Ids];
  TR "OpConstantSampler" 45 [Lit; Lit; Lit];
  TR "OpConstantNull" 46 [];
  TR "OpSpecConstantTrue" 48 [];
  TR "OpSpecConstantFalse" 49 [];
  TR "OpSpecConstant" 50 [Lits];
  TR "OpSpecConstantComposite" 51 [Ids];
  TR "OpSpecConstantOp" 52 [Lit; Unchecked];
  TR "OpFunction" 54 [Lit; Id];
  TR "OpFunctionParameter" 55 [];
  N_ "OpFunctionEnd" 56 [];
  TR "OpFunctionCall" 57 [Id; Ids];
  TR "OpVariable" 59 [Lit; OptId];
  TR "OpImageTexelPointer" 60 [Id; Id; Id];
  TR "OpLoad" 61 [Id; MemAcc];
  N_ "OpStore" 62 [Id; Id; MemAcc];
  N_ "OpCopyMemory" 63 [Id; Id; Unchecked];
  TR "OpAccessChain" 65 [Id; Ids];
  TR "OpInBoundsAccessChain" 66 [Id; Ids];
  TR "OpPtrAccessChain" 67 [Id; Id; Ids];
  TR "OpArrayLength" 68 [Id; Lit];
  TR "OpInBoundsPtrAccessChain" 70 [Id; Id; Ids];
  N_ "OpDecorate" 71 [Id; Lit; Lits];
  N_ "OpMemberDecorate" 72 [Id; Lit; Lit; Lits];
  R_ "OpDecorationGroup" 73 [];
  N_ "OpGroupDecorate" 74 [Id; Ids];
  N_ "OpGroupMemberDecorate" 75 [Id; PairsIdLit];
  bin "OpVectorExtractDynamic" 77;
  tri "OpVectorInsertDynamic" 78;
  TR "OpVectorShuffle" 79 [Id; Id; Lits];
  TR "OpCompositeConstruct" 80 [Ids];
  TR "OpCompositeExtract" 81 [Id; Lits];
  TR "OpCompositeInsert" 82 [Id; Id; Lits];
  un "OpCopyObject" 83;
  un "OpTranspose" 84;
  bin "OpSampledImage" 86;
  TR "OpImageSampleImplicitLod" 87 [Id; Id; ImgOps];
  TR "OpImageSampleExplicitLod" 88 [Id; Id; ImgOps];
  TR "OpImageSampleDrefImplicitLod" 89 [Id; Id; Id; ImgOps];
  TR "OpImageSampleDrefExplicitLod" 90 [Id; Id; Id; ImgOps];
  TR "OpImageSampleProjImplicitLod" 91 [Id; Id; ImgOps];
  TR "OpImageSampleProjExplicitLod" 92 [Id; Id; ImgOps];
  TR "OpImageSampleProjDrefImplicitLod" 93 [Id; Id; Id; ImgOps];
  TR "OpImageSampleProjDrefExplicitLod" 94 [Id; Id; Id; ImgOps];
  TR "OpImageFetch" 95 [Id; Id; ImgOps];
  TR "OpImageGather" 96 [Id; Id; Id; ImgOps];
  TR "OpImageDrefGather" 97 [Id; Id; Id; ImgOps];
  TR "OpImageRead" 98 [Id; Id; ImgOps];
  N_ "OpImageWrite" 99 [Id; Id; Id; ImgOps];
  un "OpImage" 100;
  un "OpImageQueryFormat" 101;
  un "OpImageQueryOrder" 102;
  bin "OpImageQuerySizeLod" 103;
  un "OpImageQuerySize" 104;
  bin "OpImageQueryLod" 105;
  un "OpImageQueryLevels" 106;
  un "OpImageQuerySamples" 107;
  un "OpConvertFToU" 109;
  un "OpConvertFToS" 110;
  un "OpConvertSToF" 111;
  un "OpConvertUToF" 112;
  un "OpUConvert" 113;
  un "OpSConvert" 114;
  un "OpFConvert" 115;
  un "OpQuantizeToF16" 116;
  un "OpConvertPtrToU" 117;
  un "OpSatConvertSToU" 118;
  un "OpSatConvertUToS" 119;
  un "OpConvertUToPtr" 120;
  un "OpBitcast" 124;
  un "OpSNegate" 126;
  un "OpFNegate" 127;
  bin "OpIAdd" 128;
  bin "OpFAdd" 129;
  bin "OpISub" 130;
  bin "OpFSub" 131;
  bin "OpIMul" 132;
  bin "OpFMul" 133;
  bin "OpUDiv" 134;
  bin "OpSDiv" 135;
  bin "OpFDiv" 136;
  bin "OpUMod" 137;
  bin "OpSRem" 138;
  bin "OpSMod" 139;
  bin "OpFRem" 140;
  bin "OpFMod" 141;
  bin "OpVectorTimesScalar" 142;
  bin "OpMatrixTimesScalar" 143;
  bin "OpVectorTimesMatrix" 144;
  bin "OpMatrixTimesVector" 145;
  bin "OpMatrixTimesMatrix" 146;
  bin "OpOuterProduct" 147;
  bin "OpDot" 148;
  bin "OpIAddCarry" 149;
  bin "OpISubBorrow" 150;
  bin "OpUMulExtended" 151;
  bin "OpSMulExtended" 152;
  un "OpAny" 154;
  un "OpAll" 155;
  un "OpIsNan" 156;
  un "OpIsInf" 157;
  un "OpIsFinite" 158;
  un "OpIsNormal" 159;
  un "OpSignBitSet" 160;
  bin "OpLessOrGreater" 161;
  bin "OpOrdered" 162;
  bin "OpUnordered" 163;
  bin "OpLogicalEqual" 164;
  bin "OpLogicalNotEqual" 165;
  bin "OpLogicalOr" 166;
  bin "OpLogicalAnd" 167;
  un "OpLogicalNot" 168;
  tri "OpSelect" 169;
  bin "OpIEqual" 170;
  bin "OpINotEqual" 171;
  bin "OpUGreaterThan" 172;
  bin "OpSGreaterThan" 173;
  bin "OpUGreaterThanEqual" 174;
  bin "OpSGreaterThanEqual" 175;
  bin "OpULessThan" 176;
  bin "OpSLessThan" 177;
  bin "OpULessThanEqual" 178;
  bin "OpSLessThanEqual" 179;
  bin "OpFOrdEqual" 180;
  bin "OpFUnordEqual" 181;
  bin "OpFOrdNotEqual" 182;
  bin "OpFUnordNotEqual" 183;
  bin "OpFOrdLessThan" 184;
  bin "OpFUnordLessThan" 185;
  bin "OpFOrdGreaterThan" 186;
  bin "OpFUnordGreaterThan" 187;
  bin "OpFOrdLessThanEqual" 188;
  bin "OpFUnordLessThanEqual" 189;
  bin "OpFOrdGreaterThanEqual" 190;
  bin "OpFUnordGreaterThanEqual" 191;
  bin "OpShiftRightLogical" 194;
  bin "OpShiftRightArithmetic" 195;
  bin "OpShiftLeftLogical" 196;
  bin "OpBitwiseOr" 197;
  bin "OpBitwiseXor" 198;
  bin "OpBitwiseAnd" 199;
  un "OpNot" 200;
  TR "OpBitFieldInsert" 201 [Id; Id; Id; Id];
  tri "OpBitFieldSExtract" 202;
  tri "OpBitFieldUExtract" 203;
  un "OpBitReverse" 204;
  un "OpBitCount" 205;
  un "OpDPdx" 207;
  un "OpDPdy" 208;
  un "OpFwidth" 209;
  un "OpDPdxFine" 210;
  un "OpDPdyFine" 211;
  un "OpFwidthFine" 212;
  un "OpDPdxCoarse" 213;
  un "OpDPdyCoarse" 214;
  un "OpFwidthCoarse" 215;
  N_ "OpEmitVertex" 218 [];
  N_ "OpEndPrimitive" 219 [];
  N_ "OpControlBarrier" 224 [Id; Id; Id];
  N_ "OpMemoryBarrier" 225 [Id; Id];
  tri "OpAtomicLoad" 227;
  N_ "OpAtomicStore" 228 [Id; Id; Id; Id];
  TR "OpAtomicExchange" 229 [Id; Id; Id; Id];
  TR "OpAtomicCompareExchange" 230 [Id; Id; Id; Id; Id; Id];
  TR "OpAtomicCompareExchangeWeak" 231 [Id; Id; Id; Id; Id; Id];
  tri "OpAtomicIIncrement" 232;
  tri "OpAtomicIDecrement" 233;
  TR "OpAtomicIAdd" 234 [Id; Id; Id; Id];
  TR "OpAtomicISub" 235 [Id; Id; Id; Id];
  TR "OpAtomicSMin" 236 [Id; Id; Id; Id];
  TR "OpAtomicUMin" 237 [Id; Id; Id; Id];
  TR "OpAtomicSMax" 238 [Id; Id; Id; Id];
  TR "OpAtomicUMax" 239 [Id; Id; Id; Id];
  TR "OpAtomicAnd" 240 [Id; Id; Id; Id];
  TR "OpAtomicOr" 241 [Id; Id; Id; Id];
  TR "OpAtomicXor" 242 [Id; Id; Id; Id];
  TR "OpPhi" 245 [PairsIdId];
  N_ "OpLoopMerge" 246 [Id; Id; Lit; Lits];
  N_ "OpSelectionMerge" 247 [Id; Lit];
  R_ "OpLabel" 248 [];
  N_ "OpBranch" 249 [Id];
  N_ "OpBranchConditional" 250 [Id; Id; Id; Lits];
  N_ "OpSwitch" 251 [Id; Id; PairsLitId];
  N_ "OpKill" 252 [];
  N_ "OpReturn" 253 [];
  N_ "OpReturnValue" 254 [Id];
  N_ "OpUnreachable" 255 [];
  N_ "OpLifetimeStart" 256 [Id; Lit];
  N_ "OpLifetimeStop" 257 [Id; Lit];
  N_ "OpNoLine" 317 [];
  N_ "OpModuleProcessed" 330 [Str];
  N_ "OpExecutionModeId" 331 [Id; Lit; Ids];
  N_ "OpDecorateId" 332 [Id; Lit; Ids];
  un "OpGroupNonUniformElect" 333;
  bin "OpGroupNonUniformAll" 334;
  bin "OpGroupNonUniformAny" 335;
  bin "OpGroupNonUniformAllEqual" 336;
  tri "OpGroupNonUniformBroadcast" 337;
  bin "OpGroupNonUniformBroadcastFirst" 338;
  bin "OpGroupNonUniformBallot" 339;
  bin "OpGroupNonUniformInverseBallot" 340;
  tri "OpGroupNonUniformBallotBitExtract" 341;
  TR "OpGroupNonUniformBallotBitCount" 342 [Id; Lit; Id];
  bin "OpGroupNonUniformBallotFindLSB" 343;
  bin "OpGroupNonUniformBallotFindMSB" 344;
  tri "OpGroupNonUniformShuffle" 345;
  tri "OpGroupNonUniformShuffleXor" 346;
  tri "OpGroupNonUniformShuffleUp" 347;
  tri "OpGroupNonUniformShuffleDown" 348;
  TR "OpGroupNonUniformIAdd" 349 [Id; Lit; Id; OptId];
  TR "OpGroupNonUniformFAdd" 350 [Id; Lit; Id; OptId];
  TR "OpGroupNonUniformIMul" 351 [Id; Lit; Id; OptId];
  TR "OpGroupNonUniformFMul" 352 [Id; Lit; Id; OptId];
  TR "OpGroupNonUniformSMin" 353 [Id; Lit; Id; OptId];
  TR "OpGroupNonUniformUMin" 354 [Id; Lit; Id; OptId];
  TR "OpGroupNonUniformFMin" 355 [Id; Lit; Id; OptId];
  TR "OpGroupNonUniformSMax" 356 [Id; Lit; Id; OptId];
  TR "OpGroupNonUniformUMax" 357 [Id; Lit; Id; OptId];
  TR "OpGroupNonUniformFMax" 358 [Id; Lit; Id; OptId];
  TR "OpGroupNonUniformBitwiseAnd" 359 [Id; Lit; Id; OptId];
  TR "OpGroupNonUniformBitwiseOr" 360 [Id; Lit; Id; OptId];
  TR "OpGroupNonUniformBitwiseXor" 361 [Id; Lit; Id; OptId];
  TR "OpGroupNonUniformLogicalAnd" 362 [Id; Lit; Id; OptId];
  TR "OpGroupNonUniformLogicalOr" 363 [Id; Lit; Id; OptId];
  TR "OpGroupNonUniformLogicalXor" 364 [Id; Lit; Id; OptId];
  tri "OpGroupNonUniformQuadBroadcast" 365;
  tri "OpGroupNonUniformQuadSwap" 366;
  un "OpCopyLogical" 400;
  bin "OpPtrEqual" 401;
  bin "OpPtrNotEqual" 402;
  bin "OpPtrDiff" 403;
  N_ "OpTerminateInvocation" 4416 [];
  un "OpSubgroupBallotKHR" 4421;
  un "OpSubgroupFirstInvocationKHR" 4422;
  TR "OpSDot" 4450 [Id; Id; OptLit];
  TR "OpUDot" 4451 [Id; Id; OptLit];
  TR "OpSUDot" 4452 [Id; Id; OptLit];
  TR "OpSDotAccSat" 4453 [Id; Id; Id; OptLit];
  TR "OpUDotAccSat" 4454 [Id; Id; Id; OptLit];
  TR "OpSUDotAccSat" 4455 [Id; Id; Id; OptLit];
  R_ "OpTypeRayQueryKHR" 4472 [];
  N_ "OpRayQueryInitializeKHR" 4473 [Id; Id; Id; Id; Id; Id; Id; Id];
  N_ "OpRayQueryTerminateKHR" 4474 [Id];
  N_ "OpRayQueryGenerateIntersectionKHR" 4475 [Id; Id];
  N_ "OpRayQueryConfirmIntersectionKHR" 4476 [Id];
  un "OpRayQueryProceedKHR" 4477;
  bin "OpRayQueryGetIntersectionTypeKHR" 4479;
  R_ "OpTypeAccelerationStructureKHR" 5341 [];
  N_ "OpDecorateString" 5632 [Id; Lit; Str];
  N_ "OpMemberDecorateString" 5633 [Id; Lit; Lit; Str];
  un "OpRayQueryGetRayTMinKHR" 6016;
  un "OpRayQueryGetRayFlagsKHR" 6017;
  bin "OpRayQueryGetIntersectionTKHR" 6018;
  bin "OpRayQueryGetIntersectionInstanceCustomIndexKHR" 6019;
  bin "OpRayQueryGetIntersectionInstanceIdKHR" 6020;
  bin "OpRayQueryGetIntersectionInstanceShaderBindingTableRecordOffsetKHR" 6021;
  bin "OpRayQueryGetIntersectionGeometryIndexKHR" 6022;
  bin "OpRayQueryGetIntersectionPrimitiveIndexKHR" 6023;
  bin "OpRayQueryGetIntersectionBarycentricsKHR" 6024;
  bin "OpRayQueryGetIntersectionFrontFaceKHR" 6025;
  un "OpRayQueryGetIntersectionCandidateAABBOpaqueKHR" 6026;
  bin "OpRayQueryGetIntersectionObjectRayDirectionKHR" 6027;
  bin "OpRayQueryGetIntersectionObjectRayOriginKHR" 6028;
  un "OpRayQueryGetWorldRayDirectionKHR" 6029;
  un "OpRayQueryGetWorldRayOriginKHR" 6030;
  bin "OpRayQueryGetIntersectionObjectToWorldKHR" 6031;
  bin "OpRayQueryGetIntersectionWorldToObjectKHR" 6032;
  TR "OpAtomicFAddEXT" 6035 [Id; Id; Id; Id]
].

Definition optable_map : PositiveMap.t opinfo :=
  fold_left (fun m oi => PositiveMap.add (Z.to_pos (oi_code oi + 1)) oi m) optable (PositiveMap.empty _).

Definition lookup_op (code : Z) : option opinfo :=
  if code <? 0 then None else PositiveMap.find (Z.to_pos (code + 1)) optable_map.

(* ---- enumerants (spec numbers), by spec name ---- *)

Definition capabilities : list (string * Z) := [
  ("Matrix", 0); ("Shader", 1); ("Geometry", 2); ("Tessellation", 3); ("Addresses", 4); ("Linkage", 5);
  ("Kernel", 6); ("Vector16", 7); ("Float16Buffer", 8); ("Float16", 9); ("Float64", 10); ("Int64", 11);
  ("Int64Atomics", 12); ("ImageBasic", 13); ("ImageReadWrite", 14); ("ImageMipmap", 15); ("Pipes", 17);
  ("Groups", 18); ("DeviceEnqueue", 19); ("LiteralSampler", 20); ("AtomicStorage", 21); ("Int16", 22);
  ("TessellationPointSize", 23); ("GeometryPointSize", 24); ("ImageGatherExtended", 25);
  ("StorageImageMultisample", 27); ("UniformBufferArrayDynamicIndexing", 28);
  ("SampledImageArrayDynamicIndexing", 29); ("StorageBufferArrayDynamicIndexing", 30);
  ("StorageImageArrayDynamicIndexing", 31); ("ClipDistance", 32); ("CullDistance", 33);
  ("ImageCubeArray", 34); ("SampleRateShading", 35); ("ImageRect", 36); ("SampledRect", 37);
  ("GenericPointer", 38); ("Int8", 39); ("InputAttachment", 40); ("SparseResidency", 41); ("MinLod", 42);
  ("Sampled1D", 43); ("Image1D", 44); ("SampledCubeArray", 45); ("SampledBuffer", 46); ("ImageBuffer", 47);
  ("ImageMSArray", 48); ("StorageImageExtendedFormats", 49); ("ImageQuery", 50); ("DerivativeControl", 51);
  ("InterpolationFunction", 52); ("TransformFeedback", 53); ("GeometryStreams", 54);
  ("StorageImageReadWithoutFormat", 55); ("StorageImageWriteWithoutFormat", 56); ("MultiViewport", 57);
  ("SubgroupDispatch", 58); ("NamedBarrier", 59); ("PipeStorage", 60); ("GroupNonUniform", 61);
  ("GroupNonUniformVote", 62); ("GroupNonUniformArithmetic", 63); ("GroupNonUniformBallot", 64);
  ("GroupNonUniformShuffle", 65); ("GroupNonUniformShuffleRelative", 66); ("GroupNonUniformClustered", 67);
  ("GroupNonUniformQuad", 68); ("ShaderLayer", 69); ("ShaderViewportIndex", 70);
  ("SubgroupBallotKHR", 4423); ("DrawParameters", 4427); ("StorageBuffer16BitAccess", 4433);
  ("UniformAndStorageBuffer16BitAccess", 4434); ("StoragePushConstant16", 4435); ("StorageInputOutput16", 4436);
  ("DeviceGroup", 4437); ("MultiView", 4439); ("VariablePointersStorageBuffer", 4441); ("VariablePointers", 4442);
  ("AtomicStorageOps", 4445); ("StorageBuffer8BitAccess", 4448); ("UniformAndStorageBuffer8BitAccess", 4449);
  ("StoragePushConstant8", 4450); ("RayQueryKHR", 4472); ("RayTracingKHR", 4479);
  ("Int64ImageEXT", 5016); ("FragmentBarycentricKHR", 5284); ("ShaderNonUniform", 5301);
  ("RuntimeDescriptorArray", 5302); ("VulkanMemoryModel", 5345); ("PhysicalStorageBufferAddresses", 5347);
  ("DemoteToHelperInvocation", 5379); ("DotProductInputAll", 6016); ("DotProductInput4x8Bit", 6017);
  ("DotProductInput4x8BitPacked", 6018); ("DotProduct", 6019); ("AtomicFloat32AddEXT", 6033);
  ("AtomicFloat64AddEXT", 6034)].

Definition decorations : list (string * Z) := [
  ("RelaxedPrecision", 0); ("SpecId", 1); ("Block", 2); ("BufferBlock", 3); ("RowMajor", 4); ("ColMajor", 5);
  ("ArrayStride", 6); ("MatrixStride", 7); ("GLSLShared", 8); ("GLSLPacked", 9); ("CPacked", 10);
  ("BuiltIn", 11); ("NoPerspective", 13); ("Flat", 14); ("Patch", 15); ("Centroid", 16); ("Sample", 17);
  ("Invariant", 18); ("Restrict", 19); ("Aliased", 20); ("Volatile", 21); ("Constant", 22); ("Coherent", 23);
  ("NonWritable", 24); ("NonReadable", 25); ("Uniform", 26); ("UniformId", 27); ("SaturatedConversion", 28);
  ("Stream", 29); ("Location", 30); ("Component", 31); ("Index", 32); ("Binding", 33); ("DescriptorSet", 34);
  ("Offset", 35); ("XfbBuffer", 36); ("XfbStride", 37); ("FuncParamAttr", 38); ("FPRoundingMode", 39);
  ("FPFastMathMode", 40); ("LinkageAttributes", 41); ("NoContraction", 42); ("InputAttachmentIndex", 43);
  ("Alignment", 44); ("MaxByteOffset", 45); ("NoSignedWrap", 4469); ("NoUnsignedWrap", 4470);
  ("PerVertexKHR", 5285); ("NonUniform", 5300)].

Definition builtins : list (string * Z) := [
  ("Position", 0); ("PointSize", 1); ("ClipDistance", 3); ("CullDistance", 4); ("VertexId", 5); ("InstanceId", 6);
  ("PrimitiveId", 7); ("InvocationId", 8); ("Layer", 9); ("ViewportIndex", 10); ("TessLevelOuter", 11);
  ("TessLevelInner", 12); ("TessCoord", 13); ("PatchVertices", 14); ("FragCoord", 15); ("PointCoord", 16);
  ("FrontFacing", 17); ("SampleId", 18); ("SamplePosition", 19); ("SampleMask", 20); ("FragDepth", 22);
  ("HelperInvocation", 23); ("NumWorkgroups", 24); ("WorkgroupSize", 25); ("WorkgroupId", 26);
  ("LocalInvocationId", 27); ("GlobalInvocationId", 28); ("LocalInvocationIndex", 29); ("WorkDim", 30);
  ("GlobalSize", 31); ("EnqueuedWorkgroupSize", 32); ("GlobalOffset", 33); ("GlobalLinearId", 34);
  ("SubgroupSize", 36); ("SubgroupMaxSize", 37); ("NumSubgroups", 38); ("NumEnqueuedSubgroups", 39);
  ("SubgroupId", 40); ("SubgroupLocalInvocationId", 41); ("VertexIndex", 42); ("InstanceIndex", 43);
  ("SubgroupEqMask", 4416); ("SubgroupGeMask", 4417); ("SubgroupGtMask", 4418); ("SubgroupLeMask", 4419);
  ("SubgroupLtMask", 4420); ("BaseVertex", 4424); ("BaseInstance", 4425); ("DrawIndex", 4426);
  ("DeviceIndex", 4438); ("ViewIndex", 4440); ("BaryCoordKHR", 5286); ("BaryCoordNoPerspKHR", 5287)].

Definition storage_classes : list (string * Z) := [
  ("UniformConstant", 0); ("Input", 1); ("Uniform", 2); ("Output", 3); ("Workgroup", 4); ("CrossWorkgroup", 5);
  ("Private", 6); ("Function", 7); ("Generic", 8); ("PushConstant", 9); ("AtomicCounter", 10); ("Image", 11);
  ("StorageBuffer", 12); ("PhysicalStorageBuffer", 5349); ("TaskPayloadWorkgroupEXT", 5402)].

Definition execution_models : list (string * Z) := [
  ("Vertex", 0); ("TessellationControl", 1); ("TessellationEvaluation", 2); ("Geometry", 3); ("Fragment", 4);
  ("GLCompute", 5); ("Kernel", 6); ("TaskEXT", 5364); ("MeshEXT", 5365)].

Definition execution_modes : list (string * Z) := [
  ("Invocations", 0); ("SpacingEqual", 1); ("SpacingFractionalEven", 2); ("SpacingFractionalOdd", 3);
  ("VertexOrderCw", 4); ("VertexOrderCcw", 5); ("PixelCenterInteger", 6); ("OriginUpperLeft", 7);
  ("OriginLowerLeft", 8); ("EarlyFragmentTests", 9); ("PointMode", 10); ("Xfb", 11); ("DepthReplacing", 12);
  ("DepthGreater", 14); ("DepthLess", 15); ("DepthUnchanged", 16); ("LocalSize", 17); ("LocalSizeHint", 18);
  ("InputPoints", 19); ("InputLines", 20); ("InputLinesAdjacency", 21); ("Triangles", 22);
  ("InputTrianglesAdjacency", 23); ("Quads", 24); ("Isolines", 25); ("OutputVertices", 26); ("OutputPoints", 27);
  ("OutputLineStrip", 28); ("OutputTriangleStrip", 29); ("VecTypeHint", 30); ("ContractionOff", 31);
  ("Initializer", 33); ("Finalizer", 34); ("SubgroupSize", 35); ("SubgroupsPerWorkgroup", 36);
  ("SubgroupsPerWorkgroupId", 37); ("LocalSizeId", 38); ("LocalSizeHintId", 39); ("PostDepthCoverage", 4446);
  ("DenormPreserve", 4459); ("DenormFlushToZero", 4460); ("SignedZeroInfNanPreserve", 4461);
  ("RoundingModeRTE", 4462); ("RoundingModeRTZ", 4463)].

Definition addressing_models : list (string * Z) :=
  [("Logical", 0); ("Physical32", 1); ("Physical64", 2); ("PhysicalStorageBuffer64", 5348)].
Definition memory_models : list (string * Z) := [("Simple", 0); ("GLSL450", 1); ("OpenCL", 2); ("Vulkan", 3)].
Definition function_controls : list (string * Z) :=
  [("None", 0); ("Inline", 1); ("DontInline", 2); ("Pure", 4); ("Const", 8)].
Definition selection_controls : list (string * Z) := [("None", 0); ("Flatten", 1); ("DontFlatten", 2)].
Definition loop_controls : list (string * Z) := [
  ("None", 0); ("Unroll", 1); ("DontUnroll", 2); ("DependencyInfinite", 4); ("DependencyLength", 8);
  ("MinIterations", 16); ("MaxIterations", 32); ("IterationMultiple", 64); ("PeelCount", 128); ("PartialCount", 256)].
Definition scopes : list (string * Z) :=
  [("CrossDevice", 0); ("Device", 1); ("Workgroup", 2); ("Subgroup", 3); ("Invocation", 4); ("QueueFamily", 5)].
Definition memory_semantics : list (string * Z) := [
  ("None", 0); ("Acquire", 2); ("Release", 4); ("AcquireRelease", 8); ("SequentiallyConsistent", 16);
  ("UniformMemory", 64); ("SubgroupMemory", 128); ("WorkgroupMemory", 256); ("CrossWorkgroupMemory", 512);
  ("AtomicCounterMemory", 1024); ("ImageMemory", 2048)].
Definition group_operations : list (string * Z) :=
  [("Reduce", 0); ("InclusiveScan", 1); ("ExclusiveScan", 2); ("ClusteredReduce", 3)].
Definition image_formats : list (string * Z) := [
  ("Unknown", 0); ("Rgba32f", 1); ("Rgba16f", 2); ("R32f", 3); ("Rgba8", 4); ("Rgba8Snorm", 5); ("Rg32f", 6);
  ("Rg16f", 7); ("R11fG11fB10f", 8); ("R16f", 9); ("Rgba16", 10); ("Rgb10A2", 11); ("Rg16", 12); ("Rg8", 13);
  ("R16", 14); ("R8", 15); ("Rgba16Snorm", 16); ("Rg16Snorm", 17); ("Rg8Snorm", 18); ("R16Snorm", 19);
  ("R8Snorm", 20); ("Rgba32i", 21); ("Rgba16i", 22); ("Rgba8i", 23); ("R32i", 24); ("Rg32i", 25); ("Rg16i", 26);
  ("Rg8i", 27); ("R16i", 28); ("R8i", 29); ("Rgba32ui", 30); ("Rgba16ui", 31); ("Rgba8ui", 32); ("R32ui", 33);
  ("Rgb10a2ui", 34); ("Rg32ui", 35); ("Rg16ui", 36); ("Rg8ui", 37); ("R16ui", 38); ("R8ui", 39); ("R64ui", 40);
  ("R64i", 41)].
(* GLSL.std.450 extended instruction numbers *)
Definition glsl_std_450 : list (string * Z) := [
  ("Round", 1); ("RoundEven", 2); ("Trunc", 3); ("FAbs", 4); ("SAbs", 5); ("FSign", 6); ("SSign", 7); ("Floor", 8);
  ("Ceil", 9); ("Fract", 10); ("Radians", 11); ("Degrees", 12); ("Sin", 13); ("Cos", 14); ("Tan", 15); ("Asin", 16);
  ("Acos", 17); ("Atan", 18); ("Sinh", 19); ("Cosh", 20); ("Tanh", 21); ("Asinh", 22); ("Acosh", 23); ("Atanh", 24);
  ("Atan2", 25); ("Pow", 26); ("Exp", 27); ("Log", 28); ("Exp2", 29); ("Log2", 30); ("Sqrt", 31);
  ("InverseSqrt", 32); ("Determinant", 33); ("MatrixInverse", 34); ("Modf", 35); ("ModfStruct", 36); ("FMin", 37);
  ("UMin", 38); ("SMin", 39); ("FMax", 40); ("UMax", 41); ("SMax", 42); ("FClamp", 43); ("UClamp", 44);
  ("SClamp", 45); ("FMix", 46); ("IMix", 47); ("Step", 48); ("SmoothStep", 49); ("Fma", 50); ("Frexp", 51);
  ("FrexpStruct", 52); ("Ldexp", 53); ("PackSnorm4x8", 54); ("PackUnorm4x8", 55); ("PackSnorm2x16", 56);
  ("PackUnorm2x16", 57); ("PackHalf2x16", 58); ("PackDouble2x32", 59); ("UnpackSnorm2x16", 60);
  ("UnpackUnorm2x16", 61); ("UnpackHalf2x16", 62); ("UnpackSnorm4x8", 63); ("UnpackUnorm4x8", 64);
  ("UnpackDouble2x32", 65); ("Length", 66); ("Distance", 67); ("Cross", 68); ("Normalize", 69);
  ("FaceForward", 70); ("Reflect", 71); ("Refract", 72); ("FindILsb", 73); ("FindSMsb", 74); ("FindUMsb", 75);
  ("InterpolateAtCentroid", 76); ("InterpolateAtSample", 77); ("InterpolateAtOffset", 78); ("NMin", 79);
  ("NMax", 80); ("NClamp", 81)].

Fixpoint lookup_name (n : string) (l : list (string * Z)) : option Z :=
  match l with
  | [] => None
  | (k, v) :: l' => if String.eqb n k then Some v else lookup_name n l'
  end.

Definition opcode_names : list (string * Z) := map (fun oi => (oi_name oi, oi_code oi)) optable.
