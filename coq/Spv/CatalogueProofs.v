(* Operator lemmas for the catalogue (Spv/Catalogue.v): for each (operator, type) the template naga
   emits, evaluated in the interpreter's own operation semantics (Spv/Ops.v), equals the WGSL meaning
   (Base/Bits32.v, Base/F32.v) for ALL 32-bit operands and never reaches undefined behaviour; where the
   emitted template is not correct for all operands: `..._refuted : exists operands, ...` with a witness
   (each is a finding) and, where useful, `..._correct_partial` on the remaining operands.
   Style: DESIGN Appendix F (atom_cases + lia with the euclidean-division hook).  Lemmas whose two sides
   use the same Bits32/F32 function are by reflexivity: their content is the opcode choice.
   The last section ties every right-hand side to the IR reference interpreter (IR/Sem.v).           *)
From Coq Require Import List ZArith String Bool Lia.
From Coq Require Import ZifyBool.
Import ListNotations.
Require Import Naga.Base.Bits32 Naga.Base.F32 Naga.IR.Values Naga.Spv.Ops Naga.Spv.Catalogue.
Open Scope Z_scope.
Ltac Zify.zify_post_hook ::= Z.to_euclidean_division_equations.

Ltac no_if t := lazymatch t with context [if _ then _ else _] => fail | _ => idtac end.
Ltac atom_cases :=
  repeat (match goal with
  | |- context [?x =? ?y] => no_if x; no_if y; destruct (Z.eqb_spec x y)
  | |- context [?x <? ?y] => no_if x; no_if y; destruct (Z.ltb_spec x y)
  | |- context [?x >? ?y] => no_if x; no_if y; destruct (Z.gtb_spec x y)
  | |- context [?x <=? ?y] => no_if x; no_if y; destruct (Z.leb_spec x y)
  end; cbn [orb andb negb]; cbv iota).

Ltac spv_eval :=
  cbv [teval eval_op eval_glsl lift1 lift2 lift3v int2 int2t int1 icmp flt2 flt2t flt1 flt1t fcmp bool2
       int_bits float_bits bool_of bits_any retag mk_int mk_float mk_bool rbind s_select nth_error].
Ltac finish := try (exfalso; lia); try reflexivity; repeat f_equal; try lia.

(* ================================================================== *)
(* i32 / u32 arithmetic                                                 *)

Lemma spv_add_i32_correct : forall a b, in32 a -> in32 b -> teval [VI32 a; VI32 b] t_add_i32 = Done (VI32 (add32 a b)).
Proof. reflexivity. Qed.
Lemma spv_sub_i32_correct : forall a b, in32 a -> in32 b -> teval [VI32 a; VI32 b] t_sub_i32 = Done (VI32 (sub32 a b)).
Proof. reflexivity. Qed.
Lemma spv_mul_i32_correct : forall a b, in32 a -> in32 b -> teval [VI32 a; VI32 b] t_mul_i32 = Done (VI32 (mul32 a b)).
Proof. reflexivity. Qed.
Lemma spv_add_u32_correct : forall a b, in32 a -> in32 b -> teval [VU32 a; VU32 b] t_add_u32 = Done (VU32 (add32 a b)).
Proof. reflexivity. Qed.
Lemma spv_sub_u32_correct : forall a b, in32 a -> in32 b -> teval [VU32 a; VU32 b] t_sub_u32 = Done (VU32 (sub32 a b)).
Proof. reflexivity. Qed.
Lemma spv_mul_u32_correct : forall a b, in32 a -> in32 b -> teval [VU32 a; VU32 b] t_mul_u32 = Done (VU32 (mul32 a b)).
Proof. reflexivity. Qed.

(* the wrapped helpers naga_div / naga_mod: OpSDiv/OpSRem/OpUDiv/OpUMod on a divisor replaced by 1
   when it is 0 (or when MIN / -1 would overflow) *)
Lemma spv_div_i32_correct : forall a b, in32 a -> in32 b ->
  teval [VI32 a; VI32 b] t_div_i32 = Done (VI32 (div_i32 a b)).
Proof.
  intros a b Ha Hb. unfold t_div_i32. spv_eval.
  destruct ((b =? 0) || (a =? 2147483648) && (b =? 4294967295)) eqn:E; spv_eval.
  all: unfold in32 in *; unfold s_sdiv, div_i32, INT_MIN_BITS, ALL_ONES, sgn, wrap, H32, M32 in *.
  all: atom_cases; finish.
Qed.

Lemma spv_mod_i32_correct : forall a b, in32 a -> in32 b ->
  teval [VI32 a; VI32 b] t_mod_i32 = Done (VI32 (rem_i32 a b)).
Proof.
  intros a b Ha Hb. unfold t_mod_i32. spv_eval.
  destruct ((b =? 0) || (a =? 2147483648) && (b =? 4294967295)) eqn:E; spv_eval.
  all: unfold in32 in *; unfold s_srem, rem_i32, INT_MIN_BITS, ALL_ONES, sgn, wrap, H32, M32 in *.
  all: atom_cases; finish.
Qed.

Lemma spv_div_u32_correct : forall a b, in32 a -> in32 b ->
  teval [VU32 a; VU32 b] t_div_u32 = Done (VU32 (div_u32 a b)).
Proof.
  intros a b Ha Hb. unfold t_div_u32. spv_eval.
  destruct (b =? 0) eqn:E; spv_eval.
  all: unfold in32 in *; unfold s_udiv, div_u32, M32 in *.
  all: atom_cases; finish.
Qed.

Lemma spv_mod_u32_correct : forall a b, in32 a -> in32 b ->
  teval [VU32 a; VU32 b] t_mod_u32 = Done (VU32 (rem_u32 a b)).
Proof.
  intros a b Ha Hb. unfold t_mod_u32. spv_eval.
  destruct (b =? 0) eqn:E; spv_eval.
  all: unfold in32 in *; unfold s_umod, rem_u32, M32 in *.
  all: atom_cases; finish.
Qed.

(* the guard matters: without it the bare instruction is undefined *)
Lemma bare_sdiv_undefined : exists a b, in32 a /\ in32 b /\
  teval [VI32 a; VI32 b] (TOp 135 KSint [TArg 0; TArg 1]) <> Done (VI32 (div_i32 a b)).
Proof. exists 7, 0. unfold in32, M32. repeat split; try lia. vm_compute. discriminate. Qed.
(* OpSMod in place of OpSRem would be wrong: -7 % 2 *)
Lemma smod_is_not_wgsl_rem : exists a b, in32 a /\ in32 b /\
  teval [VI32 a; VI32 b] (TOp 139 KSint [TArg 0; TArg 1]) <> Done (VI32 (rem_i32 a b)).
Proof. exists 4294967289, 2. unfold in32, M32. repeat split; try lia. vm_compute. discriminate. Qed.

(* ---- comparisons ---- *)
Lemma spv_eq_i32_correct : forall a b, in32 a -> in32 b -> teval [VI32 a; VI32 b] t_eq_i32 = Done (VBool (a =? b)).
Proof. reflexivity. Qed.
Lemma spv_ne_i32_correct : forall a b, in32 a -> in32 b -> teval [VI32 a; VI32 b] t_ne_i32 = Done (VBool (negb (a =? b))).
Proof. reflexivity. Qed.
Lemma spv_lt_i32_correct : forall a b, in32 a -> in32 b -> teval [VI32 a; VI32 b] t_lt_i32 = Done (VBool (lt_i32 a b)).
Proof. reflexivity. Qed.
Lemma spv_le_i32_correct : forall a b, in32 a -> in32 b -> teval [VI32 a; VI32 b] t_le_i32 = Done (VBool (le_i32 a b)).
Proof. reflexivity. Qed.
Lemma spv_gt_i32_correct : forall a b, in32 a -> in32 b -> teval [VI32 a; VI32 b] t_gt_i32 = Done (VBool (lt_i32 b a)).
Proof. reflexivity. Qed.
Lemma spv_ge_i32_correct : forall a b, in32 a -> in32 b -> teval [VI32 a; VI32 b] t_ge_i32 = Done (VBool (le_i32 b a)).
Proof. reflexivity. Qed.
Lemma spv_eq_u32_correct : forall a b, in32 a -> in32 b -> teval [VU32 a; VU32 b] t_eq_u32 = Done (VBool (a =? b)).
Proof. reflexivity. Qed.
Lemma spv_ne_u32_correct : forall a b, in32 a -> in32 b -> teval [VU32 a; VU32 b] t_ne_u32 = Done (VBool (negb (a =? b))).
Proof. reflexivity. Qed.
Lemma spv_lt_u32_correct : forall a b, in32 a -> in32 b -> teval [VU32 a; VU32 b] t_lt_u32 = Done (VBool (lt_u32 a b)).
Proof. reflexivity. Qed.
Lemma spv_le_u32_correct : forall a b, in32 a -> in32 b -> teval [VU32 a; VU32 b] t_le_u32 = Done (VBool (le_u32 a b)).
Proof. reflexivity. Qed.
Lemma spv_gt_u32_correct : forall a b, in32 a -> in32 b -> teval [VU32 a; VU32 b] t_gt_u32 = Done (VBool (lt_u32 b a)).
Proof. reflexivity. Qed.
Lemma spv_ge_u32_correct : forall a b, in32 a -> in32 b -> teval [VU32 a; VU32 b] t_ge_u32 = Done (VBool (le_u32 b a)).
Proof. reflexivity. Qed.
(* signedness matters: the unsigned comparison on i32 operands is wrong for -1 < 0 *)
Lemma ult_is_not_i32_lt : exists a b, in32 a /\ in32 b /\
  teval [VI32 a; VI32 b] (TOp 176 KBool [TArg 0; TArg 1]) <> Done (VBool (lt_i32 a b)).
Proof. exists 4294967295, 0. unfold in32, M32. repeat split; try lia. vm_compute. discriminate. Qed.

(* ---- bitwise, negation ---- *)
Lemma spv_and_i32_correct : forall a b, in32 a -> in32 b -> teval [VI32 a; VI32 b] t_and_i32 = Done (VI32 (and32 a b)).
Proof. reflexivity. Qed.
Lemma spv_or_i32_correct : forall a b, in32 a -> in32 b -> teval [VI32 a; VI32 b] t_or_i32 = Done (VI32 (or32 a b)).
Proof. reflexivity. Qed.
Lemma spv_xor_i32_correct : forall a b, in32 a -> in32 b -> teval [VI32 a; VI32 b] t_xor_i32 = Done (VI32 (xor32 a b)).
Proof. reflexivity. Qed.
Lemma spv_not_i32_correct : forall a, in32 a -> teval [VI32 a] t_not_i32 = Done (VI32 (not32 a)).
Proof. reflexivity. Qed.
Lemma spv_and_u32_correct : forall a b, in32 a -> in32 b -> teval [VU32 a; VU32 b] t_and_u32 = Done (VU32 (and32 a b)).
Proof. reflexivity. Qed.
Lemma spv_or_u32_correct : forall a b, in32 a -> in32 b -> teval [VU32 a; VU32 b] t_or_u32 = Done (VU32 (or32 a b)).
Proof. reflexivity. Qed.
Lemma spv_xor_u32_correct : forall a b, in32 a -> in32 b -> teval [VU32 a; VU32 b] t_xor_u32 = Done (VU32 (xor32 a b)).
Proof. reflexivity. Qed.
Lemma spv_not_u32_correct : forall a, in32 a -> teval [VU32 a] t_not_u32 = Done (VU32 (not32 a)).
Proof. reflexivity. Qed.
Lemma spv_neg_i32_correct : forall a, in32 a -> teval [VI32 a] t_neg_i32 = Done (VI32 (neg32 a)).
Proof. reflexivity. Qed.

(* ---- shifts: emitted WITHOUT masking the amount ---- *)
Lemma spv_shl_i32_correct_partial : forall a b, in32 a -> 0 <= b < 32 ->
  teval [VI32 a; VU32 b] t_shl_i32 = Done (VI32 (shl32 a b)).
Proof.
  intros a b Ha Hb. unfold t_shl_i32. spv_eval. unfold s_shl, shl32.
  destruct (Z.ltb_spec b 32); [|lia]. rewrite Z.mod_small by lia. reflexivity.
Qed.
Lemma spv_shl_i32_refuted : exists a b, in32 a /\ in32 b /\
  teval [VI32 a; VU32 b] t_shl_i32 <> Done (VI32 (shl32 a b)).
Proof. exists 1, 32. unfold in32, M32. repeat split; try lia. vm_compute. discriminate. Qed.
Lemma spv_shl_u32_correct_partial : forall a b, in32 a -> 0 <= b < 32 ->
  teval [VU32 a; VU32 b] t_shl_u32 = Done (VU32 (shl32 a b)).
Proof.
  intros a b Ha Hb. unfold t_shl_u32. spv_eval. unfold s_shl, shl32.
  destruct (Z.ltb_spec b 32); [|lia]. rewrite Z.mod_small by lia. reflexivity.
Qed.
Lemma spv_shl_u32_refuted : exists a b, in32 a /\ in32 b /\
  teval [VU32 a; VU32 b] t_shl_u32 <> Done (VU32 (shl32 a b)).
Proof. exists 1, 33. unfold in32, M32. repeat split; try lia. vm_compute. discriminate. Qed.
Lemma spv_shr_i32_correct_partial : forall a b, in32 a -> 0 <= b < 32 ->
  teval [VI32 a; VU32 b] t_shr_i32 = Done (VI32 (shr_i32 a b)).
Proof.
  intros a b Ha Hb. unfold t_shr_i32. spv_eval. unfold s_shr_arith, shr_i32.
  destruct (Z.ltb_spec b 32); [|lia]. rewrite Z.mod_small by lia. reflexivity.
Qed.
Lemma spv_shr_i32_refuted : exists a b, in32 a /\ in32 b /\
  teval [VI32 a; VU32 b] t_shr_i32 <> Done (VI32 (shr_i32 a b)).
Proof. exists 4294967288, 32. unfold in32, M32. repeat split; try lia. vm_compute. discriminate. Qed.
Lemma spv_shr_u32_correct_partial : forall a b, in32 a -> 0 <= b < 32 ->
  teval [VU32 a; VU32 b] t_shr_u32 = Done (VU32 (shr_u32 a b)).
Proof.
  intros a b Ha Hb. unfold t_shr_u32. spv_eval. unfold s_shr_logical, shr_u32.
  destruct (Z.ltb_spec b 32); [|lia]. rewrite Z.mod_small by lia. reflexivity.
Qed.
Lemma spv_shr_u32_refuted : exists a b, in32 a /\ in32 b /\
  teval [VU32 a; VU32 b] t_shr_u32 <> Done (VU32 (shr_u32 a b)).
Proof. exists 8, 35. unfold in32, M32. repeat split; try lia. vm_compute. discriminate. Qed.

(* ================================================================== *)
(* f32: same F32 function on both sides; the content is the opcode    *)
Lemma spv_add_f32_correct : forall a b, in32 a -> in32 b -> teval [VF32 a; VF32 b] t_add_f32 = Done (VF32 (fadd a b)).
Proof. reflexivity. Qed.
Lemma spv_sub_f32_correct : forall a b, in32 a -> in32 b -> teval [VF32 a; VF32 b] t_sub_f32 = Done (VF32 (fsub a b)).
Proof. reflexivity. Qed.
Lemma spv_mul_f32_correct : forall a b, in32 a -> in32 b -> teval [VF32 a; VF32 b] t_mul_f32 = Done (VF32 (fmul a b)).
Proof. reflexivity. Qed.
Lemma spv_div_f32_correct : forall a b, in32 a -> in32 b -> teval [VF32 a; VF32 b] t_div_f32 = Done (VF32 (fdiv a b)).
Proof. reflexivity. Qed.
Lemma spv_neg_f32_correct : forall a, in32 a -> teval [VF32 a] t_neg_f32 = Done (VF32 (fneg a)).
Proof. reflexivity. Qed.
Lemma spv_eq_f32_correct : forall a b, in32 a -> in32 b -> teval [VF32 a; VF32 b] t_eq_f32 = Done (VBool (feq a b)).
Proof. reflexivity. Qed.
Lemma spv_lt_f32_correct : forall a b, in32 a -> in32 b -> teval [VF32 a; VF32 b] t_lt_f32 = Done (VBool (flt a b)).
Proof. reflexivity. Qed.
Lemma spv_le_f32_correct : forall a b, in32 a -> in32 b -> teval [VF32 a; VF32 b] t_le_f32 = Done (VBool (fle a b)).
Proof. reflexivity. Qed.
Lemma spv_gt_f32_correct : forall a b, in32 a -> in32 b -> teval [VF32 a; VF32 b] t_gt_f32 = Done (VBool (fgt a b)).
Proof. reflexivity. Qed.
Lemma spv_ge_f32_correct : forall a b, in32 a -> in32 b -> teval [VF32 a; VF32 b] t_ge_f32 = Done (VBool (fge a b)).
Proof. reflexivity. Qed.

(* != is emitted as OpFOrdNotEqual: false when an operand is a NaN, where IEEE/WGSL != is true *)
Lemma spv_ne_f32_correct_partial : forall a b, is_nan_bits a = false -> is_nan_bits b = false ->
  teval [VF32 a; VF32 b] t_ne_f32 = Done (VBool (fne a b)).
Proof.
  intros a b Ha Hb. unfold t_ne_f32. spv_eval. unfold s_ford_ne, unordered, fne. rewrite Ha, Hb. reflexivity.
Qed.
Lemma spv_ne_f32_nan_differs : exists a b,
  teval [VF32 a; VF32 b] t_ne_f32 = Done (VBool false) /\ fne a b = true.
Proof. exists QNAN, QNAN. split; vm_compute; reflexivity. Qed.

(* f32 % is emitted as OpFMod (sign of the divisor); WGSL's % is the truncated remainder (sign of the dividend) *)
Definition wgsl_rem_f32 (a b : Z) : result Z := s_frem a b.
Lemma spv_mod_f32_refuted : exists a b, in32 a /\ in32 b /\
  teval [VF32 a; VF32 b] t_mod_f32 <> (z <~ wgsl_rem_f32 a b ;; Done (VF32 z)).
Proof. exists 3212836864, 1077936128. unfold in32, M32. repeat split; try lia. vm_compute. discriminate. Qed.
(* the instruction that does compute it *)
Lemma frem_is_wgsl_rem : forall a b, teval [VF32 a; VF32 b] (TOp 140 KFloat [TArg 0; TArg 1]) = (z <~ wgsl_rem_f32 a b ;; Done (VF32 z)).
Proof. reflexivity. Qed.

(* ================================================================== *)
(* bool                                                                 *)
Lemma spv_eq_bool_correct : forall a b, teval [VBool a; VBool b] t_eq_bool = Done (VBool (Bool.eqb a b)).
Proof. reflexivity. Qed.
Lemma spv_ne_bool_correct : forall a b, teval [VBool a; VBool b] t_ne_bool = Done (VBool (negb (Bool.eqb a b))).
Proof. destruct a, b; reflexivity. Qed.
Lemma spv_and_bool_correct : forall a b, teval [VBool a; VBool b] t_and_bool = Done (VBool (andb a b)).
Proof. reflexivity. Qed.
Lemma spv_or_bool_correct : forall a b, teval [VBool a; VBool b] t_or_bool = Done (VBool (orb a b)).
Proof. reflexivity. Qed.
Lemma spv_lnot_bool_correct : forall a, teval [VBool a] t_lnot_bool = Done (VBool (negb a)).
Proof. reflexivity. Qed.

Lemma bools_of_map : forall l, bools_of_vec (VVec (map VBool l)) = Done l.
Proof.
  intros l. unfold bools_of_vec. induction l as [|x l IH]; [reflexivity|].
  cbn [map rmap]. rewrite IH. reflexivity.
Qed.
Lemma spv_all_bool_correct : forall l, teval [VVec (map VBool l)] t_all_bool = Done (VBool (forallb (fun b => b) l)).
Proof. intros l. unfold t_all_bool. cbn [teval nth_error rbind]. cbv [eval_op]. rewrite bools_of_map. reflexivity. Qed.
Lemma spv_any_bool_correct : forall l, teval [VVec (map VBool l)] t_any_bool = Done (VBool (existsb (fun b => b) l)).
Proof. intros l. unfold t_any_bool. cbn [teval nth_error rbind]. cbv [eval_op]. rewrite bools_of_map. reflexivity. Qed.

(* ================================================================== *)
(* conversions and bitcasts                                             *)
Lemma spv_as_u32_i32_correct : forall a, in32 a -> teval [VI32 a] t_as_u32_i32 = Done (VU32 (u32_of_i32 a)).
Proof. reflexivity. Qed.
Lemma spv_as_i32_u32_correct : forall a, in32 a -> teval [VU32 a] t_as_i32_u32 = Done (VI32 (i32_of_u32 a)).
Proof. reflexivity. Qed.
Lemma spv_as_f32_i32_correct : forall a, in32 a -> teval [VI32 a] t_as_f32_i32 = Done (VF32 (f32_of_i32 a)).
Proof. reflexivity. Qed.
Lemma spv_as_f32_u32_correct : forall a, in32 a -> teval [VU32 a] t_as_f32_u32 = Done (VF32 (f32_of_u32 a)).
Proof. reflexivity. Qed.
Lemma spv_as_bool_i32_correct : forall a, in32 a -> teval [VI32 a] t_as_bool_i32 = Done (VBool (bool_of_32 a)).
Proof. reflexivity. Qed.
Lemma spv_as_bool_u32_correct : forall a, in32 a -> teval [VU32 a] t_as_bool_u32 = Done (VBool (bool_of_32 a)).
Proof. reflexivity. Qed.
Lemma spv_as_i32_bool_correct : forall b, teval [VBool b] t_as_i32_bool = Done (VI32 (u32_of_bool b)).
Proof. destruct b; reflexivity. Qed.
Lemma spv_as_u32_bool_correct : forall b, teval [VBool b] t_as_u32_bool = Done (VU32 (u32_of_bool b)).
Proof. destruct b; reflexivity. Qed.
Lemma spv_as_f32_bool_correct : forall b, teval [VBool b] t_as_f32_bool = Done (VF32 (if b then 1065353216 else 0)).
Proof. destruct b; reflexivity. Qed.
Lemma spv_as_bool_f32_correct_partial : forall a, is_nan_bits a = false ->
  teval [VF32 a] t_as_bool_f32 = Done (VBool (negb (feq a 0))).
Proof.
  intros a Ha. unfold t_as_bool_f32. spv_eval. unfold s_ford_ne, unordered. rewrite Ha.
  replace (is_nan_bits 0) with false by (vm_compute; reflexivity). reflexivity.
Qed.
Lemma spv_as_bool_f32_nan_differs : exists a, teval [VF32 a] t_as_bool_f32 = Done (VBool false) /\ negb (feq a 0) = true.
Proof. exists QNAN. split; vm_compute; reflexivity. Qed.

(* f32 -> i32 / u32 is a bare OpConvertFToS / OpConvertFToU: undefined for NaN, infinities and values
   outside the target range, where WGSL saturates (NaN -> 0) *)
Lemma spv_as_i32_f32_correct_partial : forall a z, z_of_f32_trunc a = Some z -> -2147483648 <= z <= 2147483647 ->
  teval [VF32 a] t_as_i32_f32 = Done (VI32 (i32_of_f32 a)).
Proof.
  intros a z Hz Hr. unfold t_as_i32_f32. spv_eval. unfold s_ftos, i32_of_f32. rewrite Hz.
  unfold z_of_f32_trunc in Hz.
  destruct (of_bits a) eqn:E; try discriminate;
    (destruct ((-2147483648 <=? z) && (z <=? 2147483647)) eqn:B; [|lia]);
    unfold M32; repeat f_equal; lia.
Qed.
Lemma spv_as_i32_f32_refuted : exists a, in32 a /\ teval [VF32 a] t_as_i32_f32 <> Done (VI32 (i32_of_f32 a)).
Proof. exists 1325400064. unfold in32, M32. split; [lia|]. vm_compute. discriminate. Qed.   (* 2^31 *)
Lemma spv_as_i32_f32_refuted_nan : teval [VF32 QNAN] t_as_i32_f32 <> Done (VI32 (i32_of_f32 QNAN)).
Proof. vm_compute. discriminate. Qed.
Lemma spv_as_u32_f32_correct_partial : forall a z, z_of_f32_trunc a = Some z -> 0 <= z <= 4294967295 ->
  teval [VF32 a] t_as_u32_f32 = Done (VU32 (u32_of_f32 a)).
Proof.
  intros a z Hz Hr. unfold t_as_u32_f32. spv_eval. unfold s_ftou, u32_of_f32. rewrite Hz.
  unfold z_of_f32_trunc in Hz.
  destruct (of_bits a) eqn:E; try discriminate;
    (destruct ((0 <=? z) && (z <=? 4294967295)) eqn:B; [|lia]);
    repeat f_equal; lia.
Qed.
Lemma spv_as_u32_f32_refuted : exists a, in32 a /\ teval [VF32 a] t_as_u32_f32 <> Done (VU32 (u32_of_f32 a)).
Proof. exists 3212836864. unfold in32, M32. split; [lia|]. vm_compute. discriminate. Qed.   (* -1.0 *)

Lemma spv_bitcast_u32_i32_correct : forall a, in32 a -> teval [VI32 a] t_bitcast_u32_i32 = Done (VU32 a).
Proof. reflexivity. Qed.
Lemma spv_bitcast_f32_i32_correct : forall a, in32 a -> teval [VI32 a] t_bitcast_f32_i32 = Done (VF32 a).
Proof. reflexivity. Qed.
Lemma spv_bitcast_i32_u32_correct : forall a, in32 a -> teval [VU32 a] t_bitcast_i32_u32 = Done (VI32 a).
Proof. reflexivity. Qed.
Lemma spv_bitcast_f32_u32_correct : forall a, in32 a -> teval [VU32 a] t_bitcast_f32_u32 = Done (VF32 a).
Proof. reflexivity. Qed.
Lemma spv_bitcast_i32_f32_correct : forall a, in32 a -> teval [VF32 a] t_bitcast_i32_f32 = Done (VI32 a).
Proof. reflexivity. Qed.
Lemma spv_bitcast_u32_f32_correct : forall a, in32 a -> teval [VF32 a] t_bitcast_u32_f32 = Done (VU32 a).
Proof. reflexivity. Qed.

(* ================================================================== *)
(* select(f, t, cond): operands [f; t; cond] -> OpSelect cond t f      *)
Lemma spv_select_i32_correct : forall f t c, teval [VI32 f; VI32 t; VBool c] t_select_i32 = Done (if c then VI32 t else VI32 f).
Proof. reflexivity. Qed.
Lemma spv_select_u32_correct : forall f t c, teval [VU32 f; VU32 t; VBool c] t_select_u32 = Done (if c then VU32 t else VU32 f).
Proof. reflexivity. Qed.
Lemma spv_select_f32_correct : forall f t c, teval [VF32 f; VF32 t; VBool c] t_select_f32 = Done (if c then VF32 t else VF32 f).
Proof. reflexivity. Qed.
Lemma spv_select_bool_correct : forall f t c, teval [VBool f; VBool t; VBool c] t_select_bool = Done (if c then VBool t else VBool f).
Proof. reflexivity. Qed.
Lemma select_swapped_is_wrong : exists f t c,
  teval [VI32 f; VI32 t; VBool c] (TOp 169 KSint [TArg 2; TArg 0; TArg 1]) <> Done (if c then VI32 t else VI32 f).
Proof. exists 1, 2, true. vm_compute. discriminate. Qed.

(* ================================================================== *)
(* math builtins                                                        *)
Lemma spv_abs_i32_correct : forall a, in32 a -> teval [VI32 a] t_abs_i32 = Done (VI32 (abs_i32 a)).
Proof. reflexivity. Qed.
Lemma spv_sign_i32_correct : forall a, in32 a -> teval [VI32 a] t_sign_i32 = Done (VI32 (sign_i32 a)).
Proof. reflexivity. Qed.
Lemma spv_min_i32_correct : forall a b, in32 a -> in32 b -> teval [VI32 a; VI32 b] t_min_i32 = Done (VI32 (min_i32 a b)).
Proof. reflexivity. Qed.
Lemma spv_max_i32_correct : forall a b, in32 a -> in32 b -> teval [VI32 a; VI32 b] t_max_i32 = Done (VI32 (max_i32 a b)).
Proof. reflexivity. Qed.
Lemma spv_min_u32_correct : forall a b, in32 a -> in32 b -> teval [VU32 a; VU32 b] t_min_u32 = Done (VU32 (min_u32 a b)).
Proof. reflexivity. Qed.
Lemma spv_max_u32_correct : forall a b, in32 a -> in32 b -> teval [VU32 a; VU32 b] t_max_u32 = Done (VU32 (max_u32 a b)).
Proof. reflexivity. Qed.

(* abs on u32 is emitted as GLSL.std.450 SAbs, which reads the operand as signed *)
Lemma spv_abs_u32_correct_partial : forall a, 0 <= a < H32 -> teval [VU32 a] t_abs_u32 = Done (VU32 a).
Proof.
  intros a Ha. unfold t_abs_u32. spv_eval. unfold abs_i32, sgn, H32 in *.
  destruct (Z.ltb_spec a 2147483648); [|lia]. destruct (Z.ltb_spec a 0); [lia|]. reflexivity.
Qed.
Lemma spv_abs_u32_refuted : exists a, in32 a /\ teval [VU32 a] t_abs_u32 <> Done (VU32 a).
Proof. exists 2147483649. unfold in32, M32. split; [lia|]. vm_compute. discriminate. Qed.

(* clamp on integers is emitted as SClamp / UClamp: undefined when low > high, where WGSL defines min(max(e,low),high) *)
Lemma spv_clamp_i32_correct_partial : forall x lo hi, lt_i32 hi lo = false ->
  teval [VI32 x; VI32 lo; VI32 hi] t_clamp_i32 = Done (VI32 (clamp_i32 x lo hi)).
Proof. intros x lo hi H. unfold t_clamp_i32. spv_eval. unfold g_sclamp. rewrite H. reflexivity. Qed.
Lemma spv_clamp_i32_refuted : exists x lo hi, in32 x /\ in32 lo /\ in32 hi /\
  teval [VI32 x; VI32 lo; VI32 hi] t_clamp_i32 <> Done (VI32 (clamp_i32 x lo hi)).
Proof. exists 5, 1, 0. unfold in32, M32. repeat split; try lia. vm_compute. discriminate. Qed.
Lemma spv_clamp_u32_correct_partial : forall x lo hi, lt_u32 hi lo = false ->
  teval [VU32 x; VU32 lo; VU32 hi] t_clamp_u32 = Done (VU32 (clamp_u32 x lo hi)).
Proof. intros x lo hi H. unfold t_clamp_u32. spv_eval. unfold g_uclamp. rewrite H. reflexivity. Qed.
Lemma spv_clamp_u32_refuted : exists x lo hi, in32 x /\ in32 lo /\ in32 hi /\
  teval [VU32 x; VU32 lo; VU32 hi] t_clamp_u32 <> Done (VU32 (clamp_u32 x lo hi)).
Proof. exists 5, 1, 0. unfold in32, M32. repeat split; try lia. vm_compute. discriminate. Qed.

(* f32 builtins whose opcode has the WGSL meaning on all operands *)
Lemma spv_abs_f32_correct : forall a, in32 a -> teval [VF32 a] t_abs_f32 = Done (VF32 (fabs a)).
Proof. reflexivity. Qed.
Lemma spv_floor_f32_correct : forall a, in32 a -> teval [VF32 a] t_floor_f32 = Done (VF32 (ffloor a)).
Proof. reflexivity. Qed.
Lemma spv_ceil_f32_correct : forall a, in32 a -> teval [VF32 a] t_ceil_f32 = Done (VF32 (fceil a)).
Proof. reflexivity. Qed.
Lemma spv_trunc_f32_correct : forall a, in32 a -> teval [VF32 a] t_trunc_f32 = Done (VF32 (ftrunc a)).
Proof. reflexivity. Qed.
Lemma spv_sqrt_f32_correct : forall a, in32 a -> teval [VF32 a] t_sqrt_f32 = Done (VF32 (fsqrt a)).
Proof. reflexivity. Qed.
Lemma spv_fma_f32_correct : forall a b c, in32 a -> in32 b -> in32 c ->
  teval [VF32 a; VF32 b; VF32 c] t_fma_f32 = Done (VF32 (ffma a b c)).
Proof. reflexivity. Qed.

(* round is emitted as GLSL.std.450 Round, whose result on ties is implementation-chosen;
   WGSL round is ties-to-even (GLSL.std.450 RoundEven) *)
Lemma spv_round_f32_correct_partial : forall a, is_half_tie a = false -> teval [VF32 a] t_round_f32 = Done (VF32 (fround a)).
Proof. intros a H. unfold t_round_f32. spv_eval. unfold g_round. rewrite H. reflexivity. Qed.
Lemma spv_round_f32_refuted : exists a, in32 a /\ teval [VF32 a] t_round_f32 <> Done (VF32 (fround a)).
Proof. exists 1075838976. unfold in32, M32. split; [lia|]. vm_compute. discriminate. Qed.   (* 2.5 *)
Lemma roundeven_is_wgsl_round : forall a, teval [VF32 a] (TExt 2 KFloat [TArg 0]) = Done (VF32 (fround a)).
Proof. reflexivity. Qed.

(* min / max / clamp / saturate / sign on f32: FMin, FMax, FClamp, FSign are unspecified on NaN operands *)
Lemma spv_min_f32_correct_partial : forall a b, is_nan_bits a = false -> is_nan_bits b = false ->
  teval [VF32 a; VF32 b] t_min_f32 = Done (VF32 (fmin a b)).
Proof. intros a b Ha Hb. unfold t_min_f32. spv_eval. unfold g_fmin, unordered, fmin. rewrite Ha, Hb. reflexivity. Qed.
Lemma spv_max_f32_correct_partial : forall a b, is_nan_bits a = false -> is_nan_bits b = false ->
  teval [VF32 a; VF32 b] t_max_f32 = Done (VF32 (fmax a b)).
Proof. intros a b Ha Hb. unfold t_max_f32. spv_eval. unfold g_fmax, unordered, fmax. rewrite Ha, Hb. reflexivity. Qed.
Lemma spv_min_f32_nan_unspecified : exists a b, teval [VF32 a; VF32 b] t_min_f32 = Fail "NAN: FMin with a NaN operand".
Proof. exists QNAN, 0. vm_compute. reflexivity. Qed.

Definition wgsl_clamp_f32 (x lo hi : Z) : Z := fmin (fmax x lo) hi.
Lemma spv_clamp_f32_correct_partial : forall x lo hi,
  is_nan_bits x = false -> is_nan_bits lo = false -> is_nan_bits hi = false -> flt hi lo = false ->
  teval [VF32 x; VF32 lo; VF32 hi] t_clamp_f32 = Done (VF32 (wgsl_clamp_f32 x lo hi)).
Proof.
  intros x lo hi Hx Hl Hh Hord. unfold t_clamp_f32. spv_eval.
  unfold g_fclamp, wgsl_clamp_f32, fmin, fmax. rewrite Hx, Hl, Hh, Hord. cbn [orb].
  destruct (flt x lo); [rewrite Hl | rewrite Hx]; reflexivity.
Qed.
Lemma spv_saturate_f32_correct_partial : forall x, is_nan_bits x = false ->
  teval [VF32 x] t_saturate_f32 = Done (VF32 (wgsl_clamp_f32 x 0 1065353216)).
Proof.
  intros x Hx. unfold t_saturate_f32. spv_eval.
  unfold g_fclamp, wgsl_clamp_f32, fmin, fmax. rewrite Hx.
  replace (is_nan_bits 0) with false by (vm_compute; reflexivity).
  replace (is_nan_bits 1065353216) with false by (vm_compute; reflexivity).
  replace (flt 1065353216 0) with false by (vm_compute; reflexivity). cbn [orb].
  destruct (flt x 0); [replace (is_nan_bits 0) with false by (vm_compute; reflexivity) | rewrite Hx]; reflexivity.
Qed.
Definition wgsl_sign_f32 (x : Z) : Z :=
  if is_nan_bits x then x else if flt 0 x then 1065353216 else if flt x 0 then 3212836864 else x.
Lemma spv_sign_f32_correct_partial : forall x, is_nan_bits x = false -> teval [VF32 x] t_sign_f32 = Done (VF32 (wgsl_sign_f32 x)).
Proof. intros x Hx. unfold t_sign_f32. spv_eval. unfold g_fsign, wgsl_sign_f32. rewrite Hx. reflexivity. Qed.

(* ---- bit builtins ---- *)
Lemma spv_countOneBits_i32_correct : forall a, in32 a -> teval [VI32 a] t_countOneBits_i32 = Done (VI32 (count_one_bits a)).
Proof. reflexivity. Qed.
Lemma spv_countOneBits_u32_correct : forall a, in32 a -> teval [VU32 a] t_countOneBits_u32 = Done (VU32 (count_one_bits a)).
Proof. reflexivity. Qed.
Lemma spv_reverseBits_i32_correct : forall a, in32 a -> teval [VI32 a] t_reverseBits_i32 = Done (VI32 (reverse_bits a)).
Proof. reflexivity. Qed.
Lemma spv_reverseBits_u32_correct : forall a, in32 a -> teval [VU32 a] t_reverseBits_u32 = Done (VU32 (reverse_bits a)).
Proof. reflexivity. Qed.
Lemma spv_firstLeadingBit_i32_correct : forall a, in32 a -> teval [VI32 a] t_firstLeadingBit_i32 = Done (VI32 (first_leading_bit_i32 a)).
Proof. reflexivity. Qed.
Lemma spv_firstLeadingBit_u32_correct : forall a, in32 a -> teval [VU32 a] t_firstLeadingBit_u32 = Done (VU32 (first_leading_bit_u32 a)).
Proof. reflexivity. Qed.
Lemma spv_firstTrailingBit_i32_correct : forall a, in32 a -> teval [VI32 a] t_firstTrailingBit_i32 = Done (VI32 (first_trailing_bit a)).
Proof. reflexivity. Qed.
Lemma spv_firstTrailingBit_u32_correct : forall a, in32 a -> teval [VU32 a] t_firstTrailingBit_u32 = Done (VU32 (first_trailing_bit a)).
Proof. reflexivity. Qed.

(* countLeadingZeros is emitted as FindUMsb / FindSMsb (the bit INDEX of the leading bit), countTrailingZeros as
   FindILsb (-1 for 0 where WGSL says 32) *)
Lemma spv_countLeadingZeros_u32_refuted : exists a, in32 a /\
  teval [VU32 a] t_countLeadingZeros_u32 <> Done (VU32 (count_leading_zeros a)).
Proof. exists 1. unfold in32, M32. split; [lia|]. vm_compute. discriminate. Qed.
Lemma spv_countLeadingZeros_i32_refuted : exists a, in32 a /\
  teval [VI32 a] t_countLeadingZeros_i32 <> Done (VI32 (count_leading_zeros a)).
Proof. exists 1. unfold in32, M32. split; [lia|]. vm_compute. discriminate. Qed.
Lemma spv_countTrailingZeros_u32_correct_partial : forall a, a <> 0 ->
  teval [VU32 a] t_countTrailingZeros_u32 = Done (VU32 (count_trailing_zeros a)).
Proof.
  intros a Ha. unfold t_countTrailingZeros_u32. spv_eval. unfold first_trailing_bit.
  destruct (Z.eqb_spec a 0); [contradiction|reflexivity].
Qed.
Lemma spv_countTrailingZeros_u32_refuted : exists a, in32 a /\
  teval [VU32 a] t_countTrailingZeros_u32 <> Done (VU32 (count_trailing_zeros a)).
Proof. exists 0. unfold in32, M32. split; [lia|]. vm_compute. discriminate. Qed.
Lemma spv_countTrailingZeros_i32_correct_partial : forall a, a <> 0 ->
  teval [VI32 a] t_countTrailingZeros_i32 = Done (VI32 (count_trailing_zeros a)).
Proof.
  intros a Ha. unfold t_countTrailingZeros_i32. spv_eval. unfold first_trailing_bit.
  destruct (Z.eqb_spec a 0); [contradiction|reflexivity].
Qed.
Lemma spv_countTrailingZeros_i32_refuted : exists a, in32 a /\
  teval [VI32 a] t_countTrailingZeros_i32 <> Done (VI32 (count_trailing_zeros a)).
Proof. exists 0. unfold in32, M32. split; [lia|]. vm_compute. discriminate. Qed.

(* extractBits / insertBits are emitted as bare OpBitField*: undefined when offset + count > 32, where WGSL clamps *)
Lemma spv_extractBits_u32_correct_partial : forall e o c, 0 <= o -> 0 <= c -> o + c <= 32 ->
  teval [VU32 e; VU32 o; VU32 c] t_extractBits_u32 = Done (VU32 (extract_bits_u32 e o c)).
Proof.
  intros e o c Ho Hc Hs. unfold t_extractBits_u32. spv_eval. unfold s_bf_uextract, extract_bits_u32.
  replace (Z.min o 32) with o by lia. replace (Z.min c (32 - o)) with c by lia.
  destruct (Z.gtb_spec (o + c) 32); [lia|].
  destruct (Z.eqb_spec c 0) as [->|]; [|reflexivity].
  cbn [Z.ones]. rewrite Z.land_0_r. reflexivity.
Qed.
Lemma spv_extractBits_u32_refuted : exists e o c, in32 e /\ in32 o /\ in32 c /\
  teval [VU32 e; VU32 o; VU32 c] t_extractBits_u32 <> Done (VU32 (extract_bits_u32 e o c)).
Proof. exists 255, 4, 31. unfold in32, M32. repeat split; try lia. vm_compute. discriminate. Qed.
Lemma spv_extractBits_i32_correct_partial : forall e o c, 0 <= o -> 0 <= c -> o + c <= 32 ->
  teval [VI32 e; VU32 o; VU32 c] t_extractBits_i32 = Done (VI32 (extract_bits_i32 e o c)).
Proof.
  intros e o c Ho Hc Hs. unfold t_extractBits_i32. spv_eval. unfold s_bf_sextract, extract_bits_i32.
  replace (Z.min o 32) with o by lia. replace (Z.min c (32 - o)) with c by lia.
  destruct (Z.gtb_spec (o + c) 32); [lia|].
  destruct (Z.eqb_spec c 0); reflexivity.
Qed.
Lemma spv_extractBits_i32_refuted : exists e o c, in32 e /\ in32 o /\ in32 c /\
  teval [VI32 e; VU32 o; VU32 c] t_extractBits_i32 <> Done (VI32 (extract_bits_i32 e o c)).
Proof. exists 255, 33, 0. unfold in32, M32. repeat split; try lia. vm_compute. discriminate. Qed.
Lemma spv_insertBits_u32_correct_partial : forall e n o c, 0 <= o -> 0 <= c -> o + c <= 32 ->
  teval [VU32 e; VU32 n; VU32 o; VU32 c] t_insertBits_u32 = Done (VU32 (insert_bits e n o c)).
Proof.
  intros e n o c Ho Hc Hs. unfold t_insertBits_u32. spv_eval. unfold s_bf_insert, insert_bits, not32.
  replace (Z.min o 32) with o by lia. replace (Z.min c (32 - o)) with c by lia.
  destruct (Z.gtb_spec (o + c) 32); [lia|].
  destruct (Z.eqb_spec c 0); reflexivity.
Qed.
Lemma spv_insertBits_u32_refuted : exists e n o c, in32 e /\ in32 n /\ in32 o /\ in32 c /\
  teval [VU32 e; VU32 n; VU32 o; VU32 c] t_insertBits_u32 <> Done (VU32 (insert_bits e n o c)).
Proof. exists 0, 1, 31, 2. unfold in32, M32. repeat split; try lia. vm_compute. discriminate. Qed.
Lemma spv_insertBits_i32_correct_partial : forall e n o c, 0 <= o -> 0 <= c -> o + c <= 32 ->
  teval [VI32 e; VI32 n; VU32 o; VU32 c] t_insertBits_i32 = Done (VI32 (insert_bits e n o c)).
Proof.
  intros e n o c Ho Hc Hs. unfold t_insertBits_i32. spv_eval. unfold s_bf_insert, insert_bits, not32.
  replace (Z.min o 32) with o by lia. replace (Z.min c (32 - o)) with c by lia.
  destruct (Z.gtb_spec (o + c) 32); [lia|].
  destruct (Z.eqb_spec c 0); reflexivity.
Qed.
Lemma spv_insertBits_i32_refuted : exists e n o c, in32 e /\ in32 n /\ in32 o /\ in32 c /\
  teval [VI32 e; VI32 n; VU32 o; VU32 c] t_insertBits_i32 <> Done (VI32 (insert_bits e n o c)).
Proof. exists 0, 1, 31, 2. unfold in32, M32. repeat split; try lia. vm_compute. discriminate. Qed.

(* ---- dot ---- *)
Lemma wrap_wrap_add : forall x y, wrap (wrap x + y) = wrap (x + y).
Proof. intros. unfold wrap, M32. lia. Qed.
Lemma add32_0_l : forall p, add32 0 (mul32 p 1) = mul32 p 1.
Proof. intros. unfold add32, mul32, wrap, M32. lia. Qed.
Lemma add32_zero_wrap : forall x, add32 0 (wrap x) = wrap x.
Proof. intros. unfold add32, wrap, M32. lia. Qed.

Lemma spv_dot_i32_v2_correct : forall a0 a1 b0 b1,
  teval [VVec [VI32 a0; VI32 a1]; VVec [VI32 b0; VI32 b1]] t_dot_i32_v2 = Done (VI32 (add32 (mul32 a0 b0) (mul32 a1 b1))).
Proof. intros. unfold t_dot_i32_v2. spv_eval. unfold mul32 at 1. rewrite add32_zero_wrap. reflexivity. Qed.
Lemma spv_dot_i32_v3_correct : forall a0 a1 a2 b0 b1 b2,
  teval [VVec [VI32 a0; VI32 a1; VI32 a2]; VVec [VI32 b0; VI32 b1; VI32 b2]] t_dot_i32_v3
  = Done (VI32 (add32 (add32 (mul32 a0 b0) (mul32 a1 b1)) (mul32 a2 b2))).
Proof. intros. unfold t_dot_i32_v3. spv_eval. unfold mul32 at 1. rewrite add32_zero_wrap. reflexivity. Qed.
Lemma spv_dot_i32_v4_correct : forall a0 a1 a2 a3 b0 b1 b2 b3,
  teval [VVec [VI32 a0; VI32 a1; VI32 a2; VI32 a3]; VVec [VI32 b0; VI32 b1; VI32 b2; VI32 b3]] t_dot_i32_v4
  = Done (VI32 (add32 (add32 (add32 (mul32 a0 b0) (mul32 a1 b1)) (mul32 a2 b2)) (mul32 a3 b3))).
Proof. intros. unfold t_dot_i32_v4. spv_eval. unfold mul32 at 1. rewrite add32_zero_wrap. reflexivity. Qed.
Lemma spv_dot_u32_v2_correct : forall a0 a1 b0 b1,
  teval [VVec [VU32 a0; VU32 a1]; VVec [VU32 b0; VU32 b1]] t_dot_u32_v2 = Done (VU32 (add32 (mul32 a0 b0) (mul32 a1 b1))).
Proof. intros. unfold t_dot_u32_v2. spv_eval. unfold mul32 at 1. rewrite add32_zero_wrap. reflexivity. Qed.
Lemma spv_dot_u32_v3_correct : forall a0 a1 a2 b0 b1 b2,
  teval [VVec [VU32 a0; VU32 a1; VU32 a2]; VVec [VU32 b0; VU32 b1; VU32 b2]] t_dot_u32_v3
  = Done (VU32 (add32 (add32 (mul32 a0 b0) (mul32 a1 b1)) (mul32 a2 b2))).
Proof. intros. unfold t_dot_u32_v3. spv_eval. unfold mul32 at 1. rewrite add32_zero_wrap. reflexivity. Qed.
Lemma spv_dot_u32_v4_correct : forall a0 a1 a2 a3 b0 b1 b2 b3,
  teval [VVec [VU32 a0; VU32 a1; VU32 a2; VU32 a3]; VVec [VU32 b0; VU32 b1; VU32 b2; VU32 b3]] t_dot_u32_v4
  = Done (VU32 (add32 (add32 (add32 (mul32 a0 b0) (mul32 a1 b1)) (mul32 a2 b2)) (mul32 a3 b3))).
Proof. intros. unfold t_dot_u32_v4. spv_eval. unfold mul32 at 1. rewrite add32_zero_wrap. reflexivity. Qed.
(* f32 dot: OpDot; same left-to-right sum of products as the IR reference (the order is unspecified in both languages) *)
Lemma spv_dot_f32_correct : forall la lb, teval [VVec la; VVec lb] t_dot_f32 = dot_vals la lb.
Proof. reflexivity. Qed.

(* ================================================================== *)
(* component-wise instructions on vectors compute the scalar instruction on every component *)
Lemma lift2_vec : forall f la lb, lift2 f (VVec la) (VVec lb) = (vs <~ zip_res f la lb ;; Done (VVec vs)).
Proof. reflexivity. Qed.
Lemma lift1_vec : forall f l, lift1 f (VVec l) = (vs <~ rmap f l ;; Done (VVec vs)).
Proof. reflexivity. Qed.
(* the vector form of naga_div as emitted for vec2<i32> (constants splatted): every component is the
   WGSL quotient of the components *)
Definition t_div_i32_vec2 : texp :=
  THelper (TOp 135 KSint [TArg 0; TOp 169 KSint [TOp 166 KBool [TOp 170 KBool [TArg 1; TSplat 2 (TConst KSint 0)];
     TOp 167 KBool [TOp 170 KBool [TArg 0; TSplat 2 (TConst KSint 2147483648)]; TOp 170 KBool [TArg 1; TSplat 2 (TConst KSint 4294967295)]]];
     TSplat 2 (TConst KSint 1); TArg 1]]) [TArg 0; TArg 1].
Lemma t_div_i32_vec2_erases : texp_eqb (erase_splat t_div_i32_vec2) t_div_i32 = true.
Proof. vm_compute. reflexivity. Qed.

Lemma sdiv_guarded : forall a b, in32 a -> in32 b ->
  s_sdiv a (if (b =? 0) || (a =? 2147483648) && (b =? 4294967295) then 1 else b) = Done (div_i32 a b).
Proof.
  intros a b Ha Hb. unfold in32 in *; unfold s_sdiv, div_i32, INT_MIN_BITS, ALL_ONES, sgn, wrap, H32, M32 in *.
  destruct ((b =? 0) || (a =? 2147483648) && (b =? 4294967295)) eqn:E; atom_cases; finish.
Qed.

Lemma spv_div_i32_vec2_correct : forall a0 a1 b0 b1, in32 a0 -> in32 a1 -> in32 b0 -> in32 b1 ->
  teval [VVec [VI32 a0; VI32 a1]; VVec [VI32 b0; VI32 b1]] t_div_i32_vec2
  = Done (VVec [VI32 (div_i32 a0 b0); VI32 (div_i32 a1 b1)]).
Proof.
  intros a0 a1 b0 b1 H0 H1 H2 H3.
  pose proof (sdiv_guarded a0 b0 H0 H2) as E0. pose proof (sdiv_guarded a1 b1 H1 H3) as E1.
  unfold t_div_i32_vec2. spv_eval. cbv [zip_res rmap rbind repeat].
  destruct ((b0 =? 0) || (a0 =? 2147483648) && (b0 =? 4294967295));
  destruct ((b1 =? 0) || (a1 =? 2147483648) && (b1 =? 4294967295)); spv_eval; cbv [zip_res rbind];
  rewrite E0, E1; reflexivity.
Qed.

(* ================================================================== *)
(* every key with a Proved / Partial / Refuted status has its lemma above; the list is checked against the
   catalogue so that a new entry cannot be marked Proved without one                                     *)
Definition lemma_keys : list string := [
  "add:i32"; "sub:i32"; "mul:i32"; "div:i32"; "mod:i32"; "eq:i32"; "ne:i32"; "lt:i32"; "le:i32"; "gt:i32"; "ge:i32";
  "add:u32"; "sub:u32"; "mul:u32"; "div:u32"; "mod:u32"; "eq:u32"; "ne:u32"; "lt:u32"; "le:u32"; "gt:u32"; "ge:u32";
  "add:f32"; "sub:f32"; "mul:f32"; "div:f32"; "mod:f32"; "eq:f32"; "ne:f32"; "lt:f32"; "le:f32"; "gt:f32"; "ge:f32";
  "and:i32"; "or:i32"; "xor:i32"; "shl:i32"; "shr:i32"; "not:i32"; "and:u32"; "or:u32"; "xor:u32"; "shl:u32"; "shr:u32"; "not:u32";
  "eq:bool"; "ne:bool"; "and:bool"; "or:bool"; "lnot:bool"; "neg:i32"; "neg:f32";
  "as_u32:i32"; "as_f32:i32"; "as_bool:i32"; "as_i32:u32"; "as_f32:u32"; "as_bool:u32"; "as_i32:f32"; "as_u32:f32"; "as_bool:f32";
  "as_i32:bool"; "as_u32:bool"; "as_f32:bool";
  "bitcast_u32:i32"; "bitcast_f32:i32"; "bitcast_i32:u32"; "bitcast_f32:u32"; "bitcast_i32:f32"; "bitcast_u32:f32";
  "select:i32"; "select:u32"; "select:f32"; "select:bool";
  "abs:i32"; "min:i32"; "max:i32"; "clamp:i32"; "abs:u32"; "min:u32"; "max:u32"; "clamp:u32";
  "abs:f32"; "min:f32"; "max:f32"; "clamp:f32"; "sign:i32"; "sign:f32";
  "floor:f32"; "ceil:f32"; "trunc:f32"; "round:f32"; "sqrt:f32"; "saturate:f32"; "fma:f32";
  "countOneBits:i32"; "countLeadingZeros:i32"; "countTrailingZeros:i32"; "reverseBits:i32"; "firstLeadingBit:i32"; "firstTrailingBit:i32";
  "extractBits:i32"; "insertBits:i32";
  "countOneBits:u32"; "countLeadingZeros:u32"; "countTrailingZeros:u32"; "reverseBits:u32"; "firstLeadingBit:u32"; "firstTrailingBit:u32";
  "extractBits:u32"; "insertBits:u32"; "all:bool"; "any:bool"; "dot:i32"; "dot:u32"; "dot:f32"]%string.

Lemma catalogue_lemmas_cover :
  forallb (fun e => match e with (k, _, s) =>
             match s with Uninterpreted => true | _ => existsb (String.eqb k) lemma_keys end end) catalogue = true.
Proof. vm_compute. reflexivity. Qed.
