(* Models of the two small state machines of naga's SPIR-V writer, with their
   for-all-histories invariants:
     * writer.go  ModuleBuilder.AllocID / Build : nextID uint32, bound := nextID
     * block.go   Block.Push / FunctionBuilder.Consume / ToInstructions
   (anchors: /repo/spirv/internal/codegen/writer.go AllocID, Build; block.go).  The
   statement text of these functions is re-read from /repo on every run and compared with
   the text modelled here (Gen/SpvBuild.v, obligations in Spv/SpvTies.v). *)
From Coq Require Import List ZArith Bool Lia Sorted FinFun.
Require Import Naga.Spv.Binary Naga.Spv.Validate Naga.Spv.ValidateProofs.
Import ListNotations.
Open Scope Z_scope.

(* ------------------------------------------------------------------ *)
(* id allocation:  id := b.nextID; b.nextID++   on uint32, starting from 1 (NewModuleBuilder / Reset) *)

Definition wrap32 (z : Z) : Z := z mod 4294967296.

Record idstate := { next_id : Z; allocated : list Z (* most recent first *) }.
Definition id_init : idstate := {| next_id := 1; allocated := [] |}.
Definition alloc_id (s : idstate) : Z * idstate :=
  (next_id s, {| next_id := wrap32 (next_id s + 1); allocated := next_id s :: allocated s |}).
(* Build(): b.bound = b.nextID *)
Definition build_bound (s : idstate) : Z := next_id s.

Fixpoint alloc_n (n : nat) (s : idstate) : idstate :=
  match n with O => s | S k => snd (alloc_id (alloc_n k s)) end.

Lemma alloc_n_state : forall n, Z.of_nat n < 4294967295 ->
  next_id (alloc_n n id_init) = Z.of_nat n + 1 /\
  allocated (alloc_n n id_init) = rev (map Z.of_nat (seq 1 n)).
Proof.
  induction n as [|n IH]; intros Hn.
  - split; reflexivity.
  - destruct IH as [IHn IHa]; [lia|].
    cbn [alloc_n alloc_id snd next_id allocated]. rewrite IHn, IHa. split.
    + unfold wrap32. rewrite Z.mod_small by lia. lia.
    + rewrite seq_S, map_app, rev_app_distr. cbn [map rev app]. f_equal. f_equal. lia.
Qed.

(* For every history of fewer than 2^32-1 allocations: the ids handed out are pairwise
   distinct, positive, strictly increasing in time, and the bound written by Build() is
   strictly greater than each of them. *)
Theorem alloc_id_inv : forall n, Z.of_nat n < 4294967295 ->
  let s := alloc_n n id_init in
  NoDup (allocated s) /\
  (forall id, In id (allocated s) -> 0 < id < build_bound s) /\
  StronglySorted (fun a b => a > b) (allocated s).
Proof.
  intros n Hn s. destruct (alloc_n_state n Hn) as [Hnext Hall]. subst s.
  unfold build_bound. rewrite Hnext, Hall. repeat split.
  - apply NoDup_rev. apply FinFun.Injective_map_NoDup; [|apply seq_NoDup].
    intros a b. apply Nat2Z.inj.
  - apply in_rev in H. apply in_map_iff in H. destruct H as (k & <- & Hk). apply in_seq in Hk. lia.
  - apply in_rev in H. apply in_map_iff in H. destruct H as (k & <- & Hk). apply in_seq in Hk. lia.
  - clear Hn Hnext Hall. generalize 1%nat as start. induction n as [|n IH]; intros start.
    + constructor.
    + rewrite seq_S, map_app, rev_app_distr. cbn [map rev app]. constructor.
      * apply IH.
      * apply Forall_forall. intros x Hx. apply in_rev in Hx. apply in_map_iff in Hx.
        destruct Hx as (k & <- & Hk). apply in_seq in Hk. lia.
Qed.

(* the wrap really is reachable by the code as written: after 2^32-1 allocations nextID is 0 *)
Example alloc_wraps : wrap32 (4294967295 + 1) = 0. Proof. reflexivity. Qed.

(* ------------------------------------------------------------------ *)
(* blocks:  Push appends to Body; Consume appends the terminator and moves the block to
   FunctionBuilder.Blocks; ToInstructions emits OpLabel from LabelID, the local
   variables after the first label, then each Body. *)

Record block := { blk_label : Z; blk_body : list instr }.
Definition new_block (l : Z) : block := {| blk_label := l; blk_body := [] |}.
Definition push (b : block) (i : instr) : block := {| blk_label := blk_label b; blk_body := blk_body b ++ [i] |}.

Record fbuilder := { fb_blocks : list block (* terminated, Body includes the terminator *);
                     fb_vars : list instr }.
Definition consume (f : fbuilder) (b : block) (t : instr) : fbuilder :=
  {| fb_blocks := fb_blocks f ++ [{| blk_label := blk_label b; blk_body := blk_body b ++ [t] |}];
     fb_vars := fb_vars f |}.

Definition label_instr (l : Z) : instr := {| opcode := 248; operands := [l] |}.
Fixpoint to_body (first : bool) (vars : list instr) (bs : list block) : list instr :=
  match bs with
  | [] => []
  | b :: r => label_instr (blk_label b) :: (if first then vars else []) ++ blk_body b ++ to_body false vars r
  end.
(* the part of ToInstructions between the parameters and OpFunctionEnd *)
Definition to_instructions_body (f : fbuilder) : list instr := to_body true (fb_vars f) (fb_blocks f).

(* histories: blocks are built by pushes of non-terminator, non-label instructions and
   consumed with a terminator — the discipline of backend.go (consumeBlock) *)
Definition plain_i (i : instr) : Prop := plain opcode i.
Inductive built : fbuilder -> Prop :=
| built_init : forall vars, Forall plain_i vars -> built {| fb_blocks := []; fb_vars := vars |}
| built_consume : forall f b t, built f -> Forall plain_i (blk_body b) -> is_terminator (opcode t) = true ->
                  built (consume f b t).

Lemma push_plain : forall b i, Forall plain_i (blk_body b) -> plain_i i -> Forall plain_i (blk_body (push b i)).
Proof. intros b i Hb Hi. cbn [push blk_body]. apply Forall_app. split; [assumption | now constructor]. Qed.

Definition tblock_ok (b : block) : Prop :=
  exists body t, blk_body b = body ++ [t] /\ Forall plain_i body /\ is_terminator (opcode t) = true.

Lemma built_blocks : forall f, built f -> Forall tblock_ok (fb_blocks f) /\ Forall plain_i (fb_vars f).
Proof.
  induction 1 as [vars Hv | f b t Hf [IHb IHv] Hb Ht].
  - split; [constructor | assumption].
  - cbn [consume fb_blocks fb_vars]. split; [|assumption].
    apply Forall_app. split; [assumption|]. constructor; [|constructor].
    exists (blk_body b), t. cbn [blk_body]. auto.
Qed.

Lemma to_body_blocks : forall bs first vars, Forall tblock_ok bs -> Forall plain_i vars ->
  exists l, to_body first vars bs = flat_map (flatten_block (A := instr)) l /\ Forall (block_ok opcode) l.
Proof.
  induction bs as [|b bs IH]; intros first vars Hbs Hv.
  - exists []. split; [reflexivity | constructor].
  - inversion Hbs as [|? ? (body & t & Hbody & Hplain & Ht) Hbs']; subst.
    destruct (IH false vars Hbs' Hv) as (l & Hl & Hok).
    exists ((label_instr (blk_label b), (if first then vars else []) ++ body, t) :: l). split.
    + cbn [to_body flat_map flatten_block]. rewrite Hbody, Hl.
      cbn [app]. f_equal. rewrite <- !app_assoc. reflexivity.
    + constructor; [|assumption]. cbn [block_ok]. repeat split; [| assumption].
      apply Forall_app. split; [destruct first; [assumption | constructor] | assumption].
Qed.

(* For every history of Push/Consume operations following the discipline, the emitted
   function body passes the block rule of the validator: every block is
   OpLabel :: body ++ [terminator] with exactly one terminator, which is last. *)
Theorem consume_inv : forall f, built f -> check_blocks (to_instructions_body f) = true.
Proof.
  intros f Hf. destruct (built_blocks f Hf) as [Hb Hv].
  destruct (to_body_blocks (fb_blocks f) true (fb_vars f) Hb Hv) as (l & Hl & Hok).
  unfold to_instructions_body. rewrite Hl. now apply terminated_complete.
Qed.

(* non-vacuity *)
Example built_example :
  let b0 := push (new_block 5) {| opcode := 61; operands := [2; 6; 4] |} in
  let f := consume (consume {| fb_blocks := []; fb_vars := [{| opcode := 59; operands := [3; 4; 7] |}] |}
                            b0 {| opcode := 249; operands := [7] |})
                   (new_block 7) {| opcode := 253; operands := [] |} in
  built f /\ to_instructions_body f =
    [label_instr 5; {| opcode := 59; operands := [3; 4; 7] |}; {| opcode := 61; operands := [2; 6; 4] |};
     {| opcode := 249; operands := [7] |}; label_instr 7; {| opcode := 253; operands := [] |}].
Proof.
  cbv zeta. split; [|reflexivity].
  apply built_consume; [apply built_consume; [apply built_init|..]|..].
  - repeat constructor; discriminate.
  - repeat constructor; discriminate.
  - reflexivity.
  - constructor.
  - reflexivity.
Qed.
