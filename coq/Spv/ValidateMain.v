(* C02 model, top level: spv_validate = all rule groups on a decoded module. *)
From Coq Require Import List ZArith String Bool FMapPositive MSets.MSetPositive.
Require Import Naga.Spv.Binary Naga.Spv.Opcodes Naga.Spv.Graph Naga.Spv.Validate Naga.Spv.Vulkan Naga.Spv.Caps Naga.Spv.Typecheck.
Import ListNotations.
Open Scope string_scope.
Open Scope list_scope.
Open Scope Z_scope.

Definition spv_validate (m : header * list instr) : list violation :=
  let '(h, is) := m in
  let ps := parse_all 0 is in
  let defs := build_defs ps 0 0 0 (PM.empty _) in
  let linkage := memz 5 (declared_caps ps) in
  rule_header h ps ++
  flat (fun p => if pi_ok p then [] else [V "operands_malformed" (pi_idx p) (pi_op p) (lenz (operands (pi_i p)))]) ps ++
  rule_layout is ps ++
  dup_violations PS.empty ps ++
  (if check_ids is then [] else [V "ids_not_unique" (-1) 0 0]) ++
  flat (rule_uses_one defs) ps ++
  fn_structure linkage FOut ps ++
  flat (rule_function defs) (collect_fns ps 0 None) ++
  dup_types [] ps ++
  rule_vulkan h defs ps (collect_fns ps 0 None) ++
  rule_caps h defs ps ++
  rule_enumerants ps ++
  rule_types defs ps (collect_fns ps 0 None).

Record stats := { st_instrs : Z; st_opaque : Z; st_unchecked : Z; st_functions : Z; st_blocks : Z; st_ids : Z }.

Definition spv_stats (m : header * list instr) : stats :=
  let ps := parse_all 0 (snd m) in
  {| st_instrs := lenz ps;
     st_opaque := lenz (filter (fun p => negb (pi_known p)) ps);
     st_unchecked := lenz (filter (fun p => pi_known p && pi_unchecked p) ps);
     st_functions := count_op 54 ps;
     st_blocks := count_op 248 ps;
     st_ids := lenz (defined_ids_p ps) |}.
