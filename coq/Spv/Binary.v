(* SPIR-V binary form (SPIR-V spec section 2.3 "Physical Layout of a SPIR-V
   Module and Instruction"): a stream of 32-bit words = 5 header words, then
   instructions whose first word is (word count << 16) | opcode.

   This file is deliberately minimal and stable (other properties reuse it):
   the word-stream decoder, the encoder, and the two round-trip theorems.  *)
From Coq Require Import List ZArith Lia Bool.
Import ListNotations.
Open Scope Z_scope.

Record instr := { opcode : Z; operands : list Z }.   (* operands = the words after the first *)
Record header := { magic : Z; version : Z; generator : Z; bound : Z; schema : Z }.

Definition word_ok (w : Z) : bool := (0 <=? w) && (w <? 4294967296).

(* ---- decoding ---- *)

Fixpoint take_words (n : nat) (l : list Z) : option (list Z * list Z) :=
  match n with
  | O => Some ([], l)
  | S n' => match l with
            | [] => None                                   (* overrun: instruction longer than the stream *)
            | x :: l' => match take_words n' l' with
                         | Some (a, b) => Some (x :: a, b)
                         | None => None
                         end
            end
  end.

(* fuel: every instruction consumes at least one word, so [length ws] suffices *)
Fixpoint decode_instrs (fuel : nat) (ws : list Z) : option (list instr) :=
  match ws with
  | [] => Some []
  | w :: rest =>
    match fuel with
    | O => None
    | S fuel' =>
      let wc := w / 65536 in
      if wc =? 0 then None                                  (* word count 0 is invalid *)
      else match take_words (Z.to_nat (wc - 1)) rest with
           | None => None
           | Some (ops, rest') =>
             match decode_instrs fuel' rest' with
             | None => None
             | Some is => Some ({| opcode := w mod 65536; operands := ops |} :: is)
             end
           end
    end
  end.

Definition decode (ws : list Z) : option (header * list instr) :=
  if negb (forallb word_ok ws) then None                    (* not a stream of 32-bit words *)
  else match ws with
       | m :: v :: g :: b :: s :: rest =>
         match decode_instrs (length rest) rest with
         | Some is => Some ({| magic := m; version := v; generator := g; bound := b; schema := s |}, is)
         | None => None
         end
       | _ => None                                          (* short stream: no complete header *)
       end.

(* ---- encoding ---- *)

Definition word_count (i : instr) : Z := 1 + Z.of_nat (length (operands i)).
Definition encode_instr (i : instr) : list Z := (word_count i * 65536 + opcode i) :: operands i.
Definition encode_instrs (is : list instr) : list Z := flat_map encode_instr is.
Definition encode_header (h : header) : list Z := [magic h; version h; generator h; bound h; schema h].
Definition encode (h : header) (is : list instr) : list Z := encode_header h ++ encode_instrs is.

Definition instr_wf (i : instr) : Prop :=
  0 <= opcode i < 65536 /\ word_count i < 65536 /\ forallb word_ok (operands i) = true.
Definition header_wf (h : header) : Prop := forallb word_ok (encode_header h) = true.

(* ---- round trip: decode after encode ---- *)

Lemma take_words_app : forall a b, take_words (length a) (a ++ b) = Some (a, b).
Proof. induction a as [|x a IH]; intros b; cbn [length take_words app]; [reflexivity|]. now rewrite IH. Qed.

Lemma encode_instr_length : forall i, (length (encode_instr i) = S (length (operands i)))%nat.
Proof. reflexivity. Qed.

Lemma first_word_split : forall i, instr_wf i ->
  (word_count i * 65536 + opcode i) / 65536 = word_count i /\
  (word_count i * 65536 + opcode i) mod 65536 = opcode i.
Proof.
  intros i (Hop & _ & _). split.
  - rewrite Z.div_add_l by lia. rewrite Z.div_small by lia. lia.
  - rewrite Z.add_comm, Z.mod_add by lia. now apply Z.mod_small.
Qed.

Lemma decode_instrs_encode : forall is fuel, Forall instr_wf is ->
  (length (encode_instrs is) <= fuel)%nat -> decode_instrs fuel (encode_instrs is) = Some is.
Proof.
  induction is as [|i is IH]; intros fuel Hwf Hfuel.
  - destruct fuel; reflexivity.
  - inversion Hwf as [|? ? Hi His]; subst.
    unfold encode_instrs in *. cbn [flat_map] in *.
    unfold encode_instr at 1. unfold encode_instr at 1 in Hfuel.
    cbn [app] in *. cbn [length] in Hfuel.
    destruct fuel as [|fuel]; [lia|].
    cbn [decode_instrs].
    destruct (first_word_split i Hi) as [Hd Hm]. rewrite Hd, Hm.
    assert (Hwc : word_count i =? 0 = false) by (unfold word_count; apply Z.eqb_neq; lia).
    rewrite Hwc.
    replace (Z.to_nat (word_count i - 1)) with (length (operands i)) by (unfold word_count; lia).
    rewrite take_words_app.
    rewrite IH; [destruct i; reflexivity | assumption |].
    rewrite app_length in Hfuel. lia.
Qed.

Lemma forallb_word_ok_encode_instrs : forall is, Forall instr_wf is ->
  forallb word_ok (encode_instrs is) = true.
Proof.
  induction is as [|i is IH]; intros Hwf; [reflexivity|].
  inversion Hwf as [|? ? Hi His]; subst.
  unfold encode_instrs. cbn [flat_map]. rewrite forallb_app. fold (encode_instrs is).
  rewrite IH by assumption. rewrite andb_true_r.
  unfold encode_instr. cbn [forallb].
  destruct Hi as (Hop & Hwc & Hops). rewrite Hops, andb_true_r.
  unfold word_ok. unfold word_count in *. apply andb_true_intro. split.
  - apply Z.leb_le. lia.
  - apply Z.ltb_lt. lia.
Qed.

Theorem decode_encode : forall h is, header_wf h -> Forall instr_wf is ->
  decode (encode h is) = Some (h, is).
Proof.
  intros h is Hh His. unfold decode, encode.
  rewrite forallb_app. unfold header_wf in Hh. rewrite Hh.
  rewrite forallb_word_ok_encode_instrs by assumption.
  cbn [andb negb]. unfold encode_header. cbn [app].
  rewrite decode_instrs_encode by (auto; lia).
  destruct h; reflexivity.
Qed.

(* ---- round trip: encode after decode (the decoder loses nothing) ---- *)

Lemma take_words_spec : forall n l a b, take_words n l = Some (a, b) -> l = a ++ b /\ length a = n.
Proof.
  induction n as [|n IH]; intros l a b H; cbn [take_words] in H.
  - inversion H; subst. split; reflexivity.
  - destruct l as [|x l]; [discriminate|].
    destruct (take_words n l) as [[a' b']|] eqn:E; [|discriminate].
    inversion H; subst. destruct (IH _ _ _ E) as [-> <-]. split; reflexivity.
Qed.

Lemma decode_instrs_sound : forall fuel ws is, forallb word_ok ws = true ->
  decode_instrs fuel ws = Some is -> encode_instrs is = ws /\ Forall instr_wf is.
Proof.
  induction fuel as [|fuel IH]; intros ws is Hok H.
  - destruct ws; cbn [decode_instrs] in H; [|discriminate]. inversion H; subst. split; [reflexivity|constructor].
  - destruct ws as [|w rest]; cbn [decode_instrs] in H.
    + inversion H; subst. split; [reflexivity|constructor].
    + cbn [forallb] in Hok. apply andb_prop in Hok. destruct Hok as [Hw Hrest].
      destruct (w / 65536 =? 0) eqn:Hz; [discriminate|].
      destruct (take_words (Z.to_nat (w / 65536 - 1)) rest) as [[ops rest']|] eqn:Et; [|discriminate].
      destruct (decode_instrs fuel rest') as [is'|] eqn:Ed; [|discriminate].
      inversion H; subst. clear H.
      destruct (take_words_spec _ _ _ _ Et) as [-> Hlen].
      rewrite forallb_app in Hrest. apply andb_prop in Hrest. destruct Hrest as [Hops Hr'].
      destruct (IH _ _ Hr' Ed) as [Henc Hwf].
      unfold word_ok in Hw. apply andb_prop in Hw. destruct Hw as [Hw0 Hw1].
      apply Z.leb_le in Hw0. apply Z.ltb_lt in Hw1. apply Z.eqb_neq in Hz.
      assert (Hq : 0 < w / 65536) by (pose proof (Z.div_pos w 65536); lia).
      assert (Hq2 : w / 65536 < 65536) by (apply Z.div_lt_upper_bound; lia).
      assert (Hwc : 1 + Z.of_nat (length ops) = w / 65536) by lia.
      split.
      * unfold encode_instrs. cbn [flat_map]. fold (encode_instrs is'). rewrite Henc.
        unfold encode_instr, word_count. cbn [operands opcode app].
        rewrite Hwc. f_equal. pose proof (Z.div_mod w 65536). lia.
      * constructor; [|assumption]. unfold instr_wf, word_count. cbn [operands opcode].
        pose proof (Z.mod_pos_bound w 65536). repeat split; try lia. assumption.
Qed.

Theorem encode_decode : forall ws h is, decode ws = Some (h, is) ->
  encode h is = ws /\ header_wf h /\ Forall instr_wf is.
Proof.
  intros ws h is H. unfold decode in H.
  destruct (forallb word_ok ws) eqn:Hok; cbn [negb] in H; [|discriminate].
  destruct ws as [|m [|v [|g [|b [|s rest]]]]]; try discriminate.
  destruct (decode_instrs (length rest) rest) as [is'|] eqn:Ed; [|discriminate].
  inversion H; subst. clear H.
  assert (Hrest : forallb word_ok rest = true).
  { cbn [forallb] in Hok. repeat (apply andb_prop in Hok; destruct Hok as [_ Hok]). exact Hok. }
  destruct (decode_instrs_sound _ _ _ Hrest Ed) as [Henc Hwf].
  repeat split; try assumption.
  - unfold encode, encode_header. cbn [magic version generator bound schema app]. now rewrite Henc.
  - unfold header_wf, encode_header. cbn [magic version generator bound schema].
    cbn [forallb] in Hok |- *.
    repeat (apply andb_prop in Hok; let H1 := fresh in destruct Hok as [H1 Hok]; rewrite H1).
    reflexivity.
Qed.

(* every error case really is rejected *)
Example decode_short : decode [119734787; 65536; 0; 10] = None. Proof. reflexivity. Qed.
Example decode_wc0 : decode [119734787; 65536; 0; 10; 0; 17] = None. Proof. reflexivity. Qed.
Example decode_overrun : decode [119734787; 65536; 0; 10; 0; 196625; 1] = None. Proof. reflexivity. Qed.
Example decode_bad_word : decode [119734787; 65536; 0; 10; 0; 4294967296] = None. Proof. reflexivity. Qed.
Example decode_ok : decode [119734787; 65536; 0; 10; 0; 131089; 1] =
  Some ({| magic := 119734787; version := 65536; generator := 0; bound := 10; schema := 0 |},
        [{| opcode := 17; operands := [1] |}]).
Proof. reflexivity. Qed.
