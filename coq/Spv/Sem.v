(* Executable semantics of the SPIR-V that naga emits for compute shaders (DESIGN 3.3),
   on explicit fuel: module pre-pass (types, constants, global variables, decorations,
   entry points, function bodies as label -> instruction list) and a CFG small-step
   interpreter over blocks that IGNORES the structured-control-flow annotations
   (OpSelectionMerge / OpLoopMerge are no-ops).  Opcode numbers and operand layouts are
   transcribed from the SPIR-V 1.6 specification (section 3.49), independent of spirv.go.

   Values are IR/Values.v values plus an explicit [SUndef] (OpUndef, load of memory that
   was never written); using an undefined value, and every operation the specification
   leaves undefined, is a failed execution [Fail "UB: ..."] (see Spv/Ops.v): this is
   also C15's trapping interpreter.  Single invocation: barriers are no-ops, atomics
   are sequential.                                                                    *)
From Coq Require Import List ZArith String Bool Ascii FMapPositive.
Import ListNotations.
Require Import Naga.Base.Bits32 Naga.Base.F32 Naga.IR.Values Naga.Spv.Binary Naga.Spv.Ops.
Open Scope string_scope.
Open Scope Z_scope.

Module PM := PositiveMap.
Definition pid (z : Z) : positive := Z.to_pos z.       (* <id>s are >= 1 *)

(* ---- small utilities ---- *)
Fixpoint dec_digits (fuel : nat) (z : Z) (acc : string) : string :=
  match fuel with
  | O => acc
  | S f => let acc' := String (ascii_of_nat (48 + Z.to_nat (z mod 10))) acc in
           if z / 10 =? 0 then acc' else dec_digits f (z / 10) acc'
  end.
Definition dec (z : Z) : string := if z <? 0 then "-" ++ dec_digits 24 (- z) "" else dec_digits 24 z "".

Definition byte_char (b : Z) : ascii := ascii_of_nat (Z.to_nat b).
(* literal string: UTF-8 octets packed four per word, lowest-order octet first, nul-terminated *)
Fixpoint str_of_words (ws : list Z) : string * list Z :=
  match ws with
  | [] => (EmptyString, [])
  | w :: r =>
    let b0 := w mod 256 in let b1 := (w / 256) mod 256 in
    let b2 := (w / 65536) mod 256 in let b3 := (w / 16777216) mod 256 in
    if b0 =? 0 then (EmptyString, r)
    else if b1 =? 0 then (String (byte_char b0) EmptyString, r)
    else if b2 =? 0 then (String (byte_char b0) (String (byte_char b1) EmptyString), r)
    else if b3 =? 0 then (String (byte_char b0) (String (byte_char b1) (String (byte_char b2) EmptyString)), r)
    else let '(s, r') := str_of_words r in
         (String (byte_char b0) (String (byte_char b1) (String (byte_char b2) (String (byte_char b3) s))), r')
  end.

(* decoded / data-dependent numbers are never turned into a unary nat without a cap *)
Definition NAT_CAP : Z := 4194304.
Definition small_nat (z : Z) : option nat := if (0 <=? z) && (z <? NAT_CAP) then Some (Z.to_nat z) else None.
Definition nat_of_lit (what : string) (z : Z) : result nat :=
  match small_nat z with Some n => Done n | None => Fail ("UB: " ++ what ++ ": index out of bounds (beyond any object)") end.

Definition nth_r {A} (msg : string) (l : list A) (n : nat) : result A :=
  match nth_error l n with Some x => Done x | None => Fail msg end.

Fixpoint set_nth {A} (l : list A) (n : nat) (x : A) : list A :=
  match l, n with
  | [], _ => []
  | _ :: l', O => x :: l'
  | y :: l', S n' => y :: set_nth l' n' x
  end.

(* ---- static module ---- *)
Inductive sty :=
| TyVoid | TyBool | TyInt (w : Z) (signed : bool) | TyFloat (w : Z)
| TyVec (elem n : Z) | TyMat (col n : Z)
| TyArr (elem len_id : Z) | TyRtArr (elem : Z)
| TyStruct (ms : list Z) | TyPtr (sc t : Z) | TyFn | TyOpaque (opc : Z).

Inductive sval := SV (v : value) | SUndef | SBad (why : string).

Record gvar := mkgvar { gv_id : Z; gv_ptr_ty : Z; gv_sc : Z; gv_init : option Z }.
Record deco := mkdeco { d_builtin : option Z; d_binding : option Z; d_set : option Z }.
Definition no_deco := mkdeco None None None.
Record sfunc := mksfunc { sf_id : Z; sf_params : list Z; sf_entry : Z; sf_blocks : PM.t (list instr) }.

Record smod := mksmod {
  sm_types : PM.t sty;
  sm_vals : PM.t sval;             (* constants; after [init_globals] also the pointers of global variables *)
  sm_globals : list gvar;          (* in reverse order of declaration while loading *)
  sm_decos : PM.t deco;
  sm_funcs : PM.t sfunc;
  sm_eps : list (string * Z);
  sm_glsl : list Z                 (* <id>s of OpExtInstImport "GLSL.std.450" *)
}.
Definition empty_mod := mksmod (PM.empty _) (PM.empty _) [] (PM.empty _) (PM.empty _) [] [].

Definition ty_of (m : smod) (t : Z) : result sty :=
  match PM.find (pid t) (sm_types m) with Some x => Done x | None => Fail ("unknown type id " ++ dec t) end.

Definition sval_res (what : string) (s : sval) : result value :=
  match s with
  | SV v => Done v
  | SUndef => ub ("use of an undefined value (OpUndef or a load of uninitialised memory): " ++ what)
  | SBad why => unmodelled why
  end.

Definition const_val (m : smod) (id : Z) : result value :=
  match PM.find (pid id) (sm_vals m) with
  | Some s => sval_res ("%" ++ dec id) s
  | None => Fail ("unknown id %" ++ dec id)
  end.

Definition const_nat (m : smod) (id : Z) : result nat :=
  v <~ const_val m id ;; z <~ int_bits v ;;
  match small_nat z with Some n => Done n | None => unmodelled "array length above the modelled bound (4194304)" end.

Fixpoint kind_of (fuel : nat) (m : smod) (t : Z) : result skind :=
  match fuel with
  | O => Fail "kind_of: type nesting"
  | S f =>
    ty <~ ty_of m t ;;
    match ty with
    | TyBool => Done KBool
    | TyInt w sg => if w =? 32 then Done (if sg then KSint else KUint) else unmodelled ("integer width " ++ dec w)
    | TyFloat w => if w =? 32 then Done KFloat else unmodelled ("float width " ++ dec w)
    | TyVec e _ => kind_of f m e
    | TyMat c _ => kind_of f m c
    | _ => Done KBool      (* struct / array / pointer results (OpCopyLogical, OpSelect on composites, ...): the kind is not used *)
    end
  end.
Definition rkind (m : smod) (t : Z) : result skind := kind_of 4 m t.

(* zero / OpConstantNull *)
Fixpoint zero_of (fuel : nat) (m : smod) (t : Z) : result value :=
  match fuel with
  | O => Fail "zero_of: type nesting"
  | S f =>
    ty <~ ty_of m t ;;
    match ty with
    | TyBool => Done (VBool false)
    | TyInt w sg => if w =? 32 then Done (if sg then VI32 0 else VU32 0) else unmodelled ("integer width " ++ dec w)
    | TyFloat w => if w =? 32 then Done (VF32 0) else unmodelled ("float width " ++ dec w)
    | TyVec e n => z <~ zero_of f m e ;; if n <=? 4 then Done (VVec (repeat z (Z.to_nat n))) else Fail "vector with more than 4 components"
    | TyMat c n => z <~ zero_of f m c ;; if n <=? 4 then Done (VMat (repeat z (Z.to_nat n))) else Fail "matrix with more than 4 columns"
    | TyArr e l => z <~ zero_of f m e ;; n <~ const_nat m l ;; Done (VArr (repeat z n))
    | TyRtArr _ => Fail "zero value of a runtime array (buffer contents must be supplied)"
    | TyStruct ms => vs <~ rmap (zero_of f m) ms ;; Done (VStruct vs)
    | _ => unmodelled "zero value of a pointer / opaque / function type"
    end
  end.
Definition zero_value (m : smod) (t : Z) : result value := zero_of 16 m t.

(* ---- loading the module ---- *)
Definition add_type (m : smod) (id : Z) (t : sty) : smod :=
  mksmod (PM.add (pid id) t (sm_types m)) (sm_vals m) (sm_globals m) (sm_decos m) (sm_funcs m) (sm_eps m) (sm_glsl m).
Definition add_val (m : smod) (id : Z) (v : sval) : smod :=
  mksmod (sm_types m) (PM.add (pid id) v (sm_vals m)) (sm_globals m) (sm_decos m) (sm_funcs m) (sm_eps m) (sm_glsl m).
Definition add_global (m : smod) (g : gvar) : smod :=
  mksmod (sm_types m) (sm_vals m) (g :: sm_globals m) (sm_decos m) (sm_funcs m) (sm_eps m) (sm_glsl m).
Definition get_deco (m : smod) (id : Z) : deco :=
  match PM.find (pid id) (sm_decos m) with Some d => d | None => no_deco end.
Definition add_deco (m : smod) (id : Z) (d : deco) : smod :=
  mksmod (sm_types m) (sm_vals m) (sm_globals m) (PM.add (pid id) d (sm_decos m)) (sm_funcs m) (sm_eps m) (sm_glsl m).
Definition add_func (m : smod) (f : sfunc) : smod :=
  mksmod (sm_types m) (sm_vals m) (sm_globals m) (sm_decos m) (PM.add (pid (sf_id f)) f (sm_funcs m)) (sm_eps m) (sm_glsl m).
Definition add_ep (m : smod) (n : string) (f : Z) : smod :=
  mksmod (sm_types m) (sm_vals m) (sm_globals m) (sm_decos m) (sm_funcs m) (app (sm_eps m) [(n, f)]) (sm_glsl m).
Definition add_glsl (m : smod) (id : Z) : smod :=
  mksmod (sm_types m) (sm_vals m) (sm_globals m) (sm_decos m) (sm_funcs m) (sm_eps m) (id :: sm_glsl m).

Definition const_of_members (m : smod) (t : Z) (ids : list Z) : sval :=
  match rmap (const_val m) ids, ty_of m t with
  | Done vs, Done (TyVec _ _) => SV (VVec vs)
  | Done vs, Done (TyMat _ _) => SV (VMat vs)
  | Done vs, Done (TyArr _ _) => SV (VArr vs)
  | Done vs, Done (TyStruct _) => SV (VStruct vs)
  | _, _ => SBad "composite constant of an unsupported type or with unsupported constituents"
  end.

(* module-level instruction (outside any function) *)
Definition load_global_instr (m : smod) (i : instr) : smod :=
  match opcode i, operands i with
  | 11, id :: ws => if String.eqb (fst (str_of_words ws)) "GLSL.std.450" then add_glsl m id else m   (* OpExtInstImport *)
  | 15, _ :: f :: ws => add_ep m (fst (str_of_words ws)) f                                           (* OpEntryPoint *)
  | 71, [t; 11; b] => let d := get_deco m t in add_deco m t (mkdeco (Some b) (d_binding d) (d_set d))      (* OpDecorate BuiltIn *)
  | 71, [t; 33; b] => let d := get_deco m t in add_deco m t (mkdeco (d_builtin d) (Some b) (d_set d))      (* Binding *)
  | 71, [t; 34; s] => let d := get_deco m t in add_deco m t (mkdeco (d_builtin d) (d_binding d) (Some s))  (* DescriptorSet *)
  | 19, [id] => add_type m id TyVoid
  | 20, [id] => add_type m id TyBool
  | 21, [id; w; s] => add_type m id (TyInt w (negb (s =? 0)))
  | 22, id :: w :: _ => add_type m id (TyFloat w)
  | 23, [id; e; n] => add_type m id (TyVec e n)
  | 24, [id; c; n] => add_type m id (TyMat c n)
  | 28, [id; e; l] => add_type m id (TyArr e l)
  | 29, [id; e] => add_type m id (TyRtArr e)
  | 30, id :: ms => add_type m id (TyStruct ms)
  | 32, [id; sc; t] => add_type m id (TyPtr sc t)
  | 33, id :: _ => add_type m id TyFn
  | 25, id :: _ | 26, id :: _ | 27, id :: _ | 31, id :: _ | 4472, id :: _ | 5341, id :: _ => add_type m id (TyOpaque (opcode i))
  | 41, [_; id] => add_val m id (SV (VBool true))                                                    (* OpConstantTrue *)
  | 42, [_; id] => add_val m id (SV (VBool false))                                                   (* OpConstantFalse *)
  | 43, t :: id :: lits =>                                                                           (* OpConstant *)
    add_val m id
      match ty_of m t, lits with
      | Done (TyInt 32 sg), [w] => SV (if sg then VI32 w else VU32 w)
      | Done (TyFloat 32), [w] => SV (VF32 w)
      | _, _ => SBad "constant of a type that is not 32 bits wide"
      end
  | 44, t :: id :: ms => add_val m id (const_of_members m t ms)                                      (* OpConstantComposite *)
  | 46, [t; id] => add_val m id (match zero_value m t with Done v => SV v | _ => SBad "OpConstantNull of an unsupported type" end)
  | 1, [_; id] => add_val m id SUndef                                                                (* OpUndef *)
  | 48, _ :: id :: _ | 49, _ :: id :: _ | 50, _ :: id :: _ | 51, _ :: id :: _ | 52, _ :: id :: _ =>
    add_val m id (SBad "specialization constant")
  | 59, t :: id :: sc :: rest =>                                                                      (* OpVariable *)
    add_global m (mkgvar id t sc (match rest with [init] => Some init | _ => None end))
  | _, _ => m                                                                                        (* debug, capabilities, other decorations, ... *)
  end.

Definition is_terminator (opc : Z) : bool :=
  match opc with 249 | 250 | 251 | 252 | 253 | 254 | 255 | 4416 => true | _ => false end.

(* function being read: id, parameters (reversed), entry label, blocks, open block (label, instructions reversed) *)
Record fstate := mkfstate { fs_id : Z; fs_params : list Z; fs_entry : option Z; fs_blocks : PM.t (list instr);
                            fs_open : option (Z * list instr) }.

Fixpoint load_instrs (is : list instr) (m : smod) (cur : option fstate) : result smod :=
  match is with
  | [] => match cur with None => Done m | Some _ => Fail "module ends inside a function" end
  | i :: rest =>
    match cur with
    | None =>
      match opcode i, operands i with
      | 54, _ :: id :: _ => load_instrs rest m (Some (mkfstate id [] None (PM.empty _) None))          (* OpFunction *)
      | _, _ => load_instrs rest (load_global_instr m i) None
      end
    | Some fs =>
      match opcode i, operands i, fs_open fs with
      | 55, [_; id], None => load_instrs rest m (Some (mkfstate (fs_id fs) (id :: fs_params fs) (fs_entry fs) (fs_blocks fs) None))
      | 248, [l], None =>
        load_instrs rest m (Some (mkfstate (fs_id fs) (fs_params fs) (match fs_entry fs with None => Some l | e => e end)
                                           (fs_blocks fs) (Some (l, []))))
      | 56, _, None =>
        match fs_entry fs with
        | Some e => load_instrs rest (add_func m (mksfunc (fs_id fs) (rev (fs_params fs)) e (fs_blocks fs))) None
        | None => load_instrs rest m None                                                               (* declaration without body *)
        end
      | _, _, Some (l, acc) =>
        if is_terminator (opcode i)
        then load_instrs rest m (Some (mkfstate (fs_id fs) (fs_params fs) (fs_entry fs)
                                                (PM.add (pid l) (rev (i :: acc)) (fs_blocks fs)) None))
        else load_instrs rest m (Some (mkfstate (fs_id fs) (fs_params fs) (fs_entry fs) (fs_blocks fs) (Some (l, i :: acc))))
      | _, _, None => Fail ("instruction outside a block inside a function: opcode " ++ dec (opcode i))
      end
    end
  end.

Definition load_module (is : list instr) : result smod :=
  m <~ load_instrs is empty_mod None ;;
  Done (mksmod (sm_types m) (sm_vals m) (rev (sm_globals m)) (sm_decos m) (sm_funcs m) (sm_eps m) (sm_glsl m)).

(* ---- memory ---- *)
Inductive imask := IAll (b : bool) | INode (l : list imask).       (* which scalar leaves have been written *)
Record cell := mkcell { c_val : value; c_init : imask }.

Definition elems (v : value) : result (list value) :=
  match v with
  | VVec l | VMat l | VArr l | VStruct l => Done l
  | _ => Fail "indexing a non-composite"
  end.
Definition rebuild (v : value) (l : list value) : value :=
  match v with VVec _ => VVec l | VMat _ => VMat l | VArr _ => VArr l | VStruct _ => VStruct l | _ => v end.

Fixpoint get_path (what : string) (v : value) (p : list nat) : result value :=
  match p with
  | [] => Done v
  | i :: p' => l <~ elems v ;;
               match nth_error l i with
               | Some x => get_path what x p'
               | None => ub (what ++ ": index " ++ dec (Z.of_nat i) ++ " out of bounds")
               end
  end.

Fixpoint put_path (what : string) (v : value) (p : list nat) (nv : value) : result value :=
  match p with
  | [] => Done nv
  | i :: p' => l <~ elems v ;;
               match nth_error l i with
               | Some x => x' <~ put_path what x p' nv ;; Done (rebuild v (set_nth l i x'))
               | None => ub (what ++ ": index " ++ dec (Z.of_nat i) ++ " out of bounds")
               end
  end.

Fixpoint mask_get (m : imask) (p : list nat) : imask :=
  match p, m with
  | [], _ => m
  | _, IAll b => IAll b
  | i :: p', INode l => match nth_error l i with Some x => mask_get x p' | None => IAll false end
  end.
Fixpoint mask_all (m : imask) : bool :=
  match m with IAll b => b | INode l => forallb mask_all l end.
Definition arity (v : value) : nat := match elems v with Done l => List.length l | _ => 0%nat end.
Definition child (v : value) (i : nat) : value :=
  match elems v with Done l => nth i l (VBool false) | _ => VBool false end.
Fixpoint mask_set (v : value) (m : imask) (p : list nat) (nm : imask) : imask :=
  match p with
  | [] => nm
  | i :: p' =>
    let kids := match m with INode l => l | IAll b => repeat (IAll b) (arity v) end in
    INode (set_nth kids i (mask_set (child v i) (nth i kids (IAll false)) p' nm))
  end.

Definition mem := list cell.

Definition mem_load (what : string) (me : mem) (p : value) : result sval :=
  match p with
  | VPtr c path =>
    ce <~ nth_r "load: memory cell" me c ;;
    v <~ get_path what (c_val ce) path ;;
    Done (if mask_all (mask_get (c_init ce) path) then SV v else SUndef)
  | _ => Fail (what ++ ": operand is not a pointer")
  end.

Definition mem_store (what : string) (me : mem) (p : value) (v : value) : result mem :=
  match p with
  | VPtr c path =>
    ce <~ nth_r "store: memory cell" me c ;;
    nv <~ put_path what (c_val ce) path v ;;
    Done (set_nth me c (mkcell nv (mask_set (c_val ce) (c_init ce) path (IAll true))))
  | _ => Fail (what ++ ": operand is not a pointer")
  end.

(* ---- run-time environment ---- *)
Definition env := PM.t sval.

Definition lookup (m : smod) (e : env) (id : Z) : result sval :=
  match PM.find (pid id) e with
  | Some s => Done s
  | None => match PM.find (pid id) (sm_vals m) with
            | Some s => Done s
            | None => Fail ("use of an id with no value: %" ++ dec id)
            end
  end.
Definition get (m : smod) (e : env) (id : Z) : result value :=
  s <~ lookup m e id ;; sval_res ("%" ++ dec id) s.
Definition bind (e : env) (id : Z) (v : value) : env := PM.add (pid id) (SV v) e.

Definition index_nat (what : string) (v : value) : result nat :=
  z <~ int_bits v ;;
  if z <? H32 then nat_of_lit what z else ub (what ++ ": negative index").

Definition flatten_scalars (comps : list value) : list value :=
  flat_map (fun c => match c with VVec l => l | _ => [c] end) comps.

Definition construct (m : smod) (t : Z) (parts : list value) : result value :=
  ty <~ ty_of m t ;;
  match ty with
  | TyVec _ n => let l := flatten_scalars parts in
                 if Z.of_nat (List.length l) =? n then Done (VVec l) else Fail "OpCompositeConstruct: vector arity"
  | TyMat _ n => if Z.of_nat (List.length parts) =? n then Done (VMat parts) else Fail "OpCompositeConstruct: matrix arity"
  | TyArr _ _ => Done (VArr parts)
  | TyStruct ms => if Nat.eqb (List.length parts) (List.length ms) then Done (VStruct parts) else Fail "OpCompositeConstruct: struct arity"
  | _ => Fail "OpCompositeConstruct: result type"
  end.

Definition is_opaque_type (m : smod) (t : Z) : bool :=
  match ty_of m t with Done (TyOpaque _) => true | _ => false end.

(* atomic read-modify-write: new value from the old bits and the operand bits *)
Definition atomic_rmw (opc : Z) (old v : Z) : option Z :=
  match opc with
  | 229 => Some v                                   (* OpAtomicExchange *)
  | 232 => Some (add32 old 1)                       (* OpAtomicIIncrement *)
  | 233 => Some (sub32 old 1)                       (* OpAtomicIDecrement *)
  | 234 => Some (add32 old v)                       (* OpAtomicIAdd *)
  | 235 => Some (sub32 old v)                       (* OpAtomicISub *)
  | 236 => Some (min_i32 old v)                     (* OpAtomicSMin *)
  | 237 => Some (min_u32 old v)                     (* OpAtomicUMin *)
  | 238 => Some (max_i32 old v)                     (* OpAtomicSMax *)
  | 239 => Some (max_u32 old v)                     (* OpAtomicUMax *)
  | 240 => Some (and32 old v)                       (* OpAtomicAnd *)
  | 241 => Some (or32 old v)                        (* OpAtomicOr *)
  | 242 => Some (xor32 old v)                       (* OpAtomicXor *)
  | _ => None
  end.

Definition retag_like (old : value) (z : Z) : result value :=
  match old with VI32 _ => Done (VI32 z) | VU32 _ => Done (VU32 z) | _ => Fail "atomic on a non-integer" end.

(* one non-control instruction: new environment and memory *)
Definition step (m : smod) (e : env) (me : mem) (i : instr) : result (env * mem) :=
  let g := get m e in
  match opcode i, operands i with
  | 246, _ | 247, _ | 224, _ | 225, _ | 8, _ | 317, _ | 0, _ => Done (e, me)    (* merges, barriers, OpLine/OpNoLine, OpNop *)
  | 1, [_; id] => Done (PM.add (pid id) SUndef e, me)                             (* OpUndef *)
  | 59, t :: id :: _ :: rest =>                                                   (* OpVariable (Function) *)
    pt <~ ty_of m t ;;
    match pt with
    | TyPtr _ pointee =>
      ce <~ match rest with
            | [init] => v <~ g init ;; Done (mkcell v (IAll true))
            | _ => Done (mkcell (match zero_value m pointee with Done z => z | _ => VBool false end) (IAll false))
            end ;;
      Done (bind e id (VPtr (List.length me) []), app me [ce])
    | _ => Fail "OpVariable: result type is not a pointer"
    end
  | 61, t :: id :: p :: _ =>                                                      (* OpLoad *)
    if is_opaque_type m t then unmodelled "load of an image / sampler / opaque object"
    else pv <~ g p ;; s <~ mem_load "OpLoad" me pv ;; Done (PM.add (pid id) s e, me)
  | 62, p :: v :: _ =>                                                            (* OpStore *)
    pv <~ g p ;; vv <~ g v ;; me' <~ mem_store "OpStore" me pv vv ;; Done (e, me')
  | 63, d :: s :: _ =>                                                            (* OpCopyMemory *)
    dv <~ g d ;; sv <~ g s ;; x <~ mem_load "OpCopyMemory" me sv ;; v <~ sval_res "OpCopyMemory source" x ;;
    me' <~ mem_store "OpCopyMemory" me dv v ;; Done (e, me')
  | 65, _ :: id :: b :: idx | 66, _ :: id :: b :: idx =>                          (* OpAccessChain / OpInBoundsAccessChain *)
    bv <~ g b ;; ivs <~ rmap g idx ;; ns <~ rmap (index_nat "OpAccessChain") ivs ;;
    match bv with
    | VPtr c path =>
      ce <~ nth_r "OpAccessChain: memory cell" me c ;;
      _ <~ get_path "OpAccessChain" (c_val ce) (app path ns) ;;
      Done (bind e id (VPtr c (app path ns)), me)
    | _ => Fail "OpAccessChain: base is not a pointer"
    end
  | 68, [_; id; s; member] =>                                                     (* OpArrayLength *)
    sv <~ g s ;;
    match sv with
    | VPtr c path =>
      ce <~ nth_r "OpArrayLength: memory cell" me c ;;
      mi <~ nat_of_lit "OpArrayLength" member ;;
      a <~ get_path "OpArrayLength" (c_val ce) (app path [mi]) ;;
      l <~ elems a ;; Done (bind e id (VU32 (Z.of_nat (List.length l))), me)
    | _ => Fail "OpArrayLength: operand is not a pointer"
    end
  | 77, [_; id; v; ix] =>                                                         (* OpVectorExtractDynamic *)
    vv <~ g v ;; iv <~ g ix ;; n <~ index_nat "OpVectorExtractDynamic" iv ;;
    x <~ get_path "OpVectorExtractDynamic" vv [n] ;; Done (bind e id x, me)
  | 78, [_; id; v; c; ix] =>                                                      (* OpVectorInsertDynamic *)
    vv <~ g v ;; cv <~ g c ;; iv <~ g ix ;; n <~ index_nat "OpVectorInsertDynamic" iv ;;
    x <~ put_path "OpVectorInsertDynamic" vv [n] cv ;; Done (bind e id x, me)
  | 79, _ :: id :: v1 :: v2 :: comps =>                                           (* OpVectorShuffle *)
    a <~ g v1 ;; b <~ g v2 ;; la <~ vec_elems a ;; lb <~ vec_elems b ;;
    xs <~ rmap (fun c => if c =? 4294967295 then ub "OpVectorShuffle: component 0xFFFFFFFF (undefined)"
                         else match small_nat c with
                              | Some ci => match nth_error (app la lb) ci with
                                           | Some x => Done x | None => ub "OpVectorShuffle: component out of range" end
                              | None => ub "OpVectorShuffle: component out of range" end) comps ;;
    Done (bind e id (VVec xs), me)
  | 80, t :: id :: parts =>                                                       (* OpCompositeConstruct *)
    vs <~ rmap g parts ;; v <~ construct m t vs ;; Done (bind e id v, me)
  | 81, _ :: id :: c :: idx =>                                                    (* OpCompositeExtract *)
    cv <~ g c ;; ns <~ rmap (nat_of_lit "OpCompositeExtract") idx ;;
    x <~ get_path "OpCompositeExtract" cv ns ;; Done (bind e id x, me)
  | 82, _ :: id :: o :: c :: idx =>                                               (* OpCompositeInsert *)
    ov <~ g o ;; cv <~ g c ;; ns <~ rmap (nat_of_lit "OpCompositeInsert") idx ;;
    x <~ put_path "OpCompositeInsert" cv ns ov ;; Done (bind e id x, me)
  | 12, t :: id :: set :: inst :: args =>                                         (* OpExtInst *)
    if existsb (Z.eqb set) (sm_glsl m)
    then k <~ rkind m t ;; vs <~ rmap g args ;; v <~ eval_glsl inst k vs ;; Done (bind e id v, me)
    else unmodelled "extended instruction set other than GLSL.std.450"
  | 227, _ :: id :: p :: _ =>                                                     (* OpAtomicLoad *)
    pv <~ g p ;; s <~ mem_load "OpAtomicLoad" me pv ;; Done (PM.add (pid id) s e, me)
  | 228, [p; _; _; v] =>                                                          (* OpAtomicStore *)
    pv <~ g p ;; vv <~ g v ;; me' <~ mem_store "OpAtomicStore" me pv vv ;; Done (e, me')
  | 230, [_; id; p; _; _; _; v; cmp] | 231, [_; id; p; _; _; _; v; cmp] =>        (* OpAtomicCompareExchange(Weak) *)
    pv <~ g p ;; vv <~ g v ;; cv <~ g cmp ;;
    s <~ mem_load "OpAtomicCompareExchange" me pv ;; old <~ sval_res "atomic operand" s ;;
    ob <~ int_bits old ;; cb <~ int_bits cv ;; nb <~ int_bits vv ;;
    me' <~ (if ob =? cb then nv <~ retag_like old nb ;; mem_store "OpAtomicCompareExchange" me pv nv else Done me) ;;
    Done (bind e id old, me')
  | opc, _ :: id :: p :: _ :: _ :: rest =>
    match atomic_rmw opc 0 0 with
    | Some _ =>                                                                   (* atomic read-modify-write *)
      pv <~ g p ;;
      vb <~ match rest with [v] => vv <~ g v ;; int_bits vv | _ => Done 0 end ;;
      s <~ mem_load "atomic" me pv ;; old <~ sval_res "atomic operand" s ;; ob <~ int_bits old ;;
      match atomic_rmw opc ob vb with
      | Some nb => nv <~ retag_like old nb ;; me' <~ mem_store "atomic" me pv nv ;; Done (bind e id old, me')
      | None => Fail "atomic"
      end
    | None =>
      match operands i with
      | t :: id :: args =>
        k <~ rkind m t ;; vs <~ rmap g args ;;
        match eval_op opc k vs with
        | Some r => v <~ r ;; Done (bind e id v, me)
        | None => unmodelled ("opcode " ++ dec opc)
        end
      | _ => unmodelled ("opcode " ++ dec opc)
      end
    end
  | opc, t :: id :: args =>
    k <~ rkind m t ;; vs <~ rmap g args ;;
    match eval_op opc k vs with
    | Some r => v <~ r ;; Done (bind e id v, me)
    | None => unmodelled ("opcode " ++ dec opc)
    end
  | opc, _ => unmodelled ("opcode " ++ dec opc)
  end.

(* entering block [target] from block [from]: the OpPhi instructions at its head are evaluated
   simultaneously in the environment of the predecessor *)
Fixpoint phi_value (m : smod) (e : env) (from : Z) (pairs : list Z) : result sval :=
  match pairs with
  | v :: p :: rest => if p =? from then lookup m e v else phi_value m e from rest
  | _ => Fail "OpPhi: no entry for the predecessor block"
  end.

Fixpoint run_phis (m : smod) (e0 : env) (from : Z) (is : list instr) (e : env) : result (env * list instr) :=
  match is with
  | i :: rest =>
    if opcode i =? 245
    then match operands i with
         | _ :: id :: pairs => s <~ phi_value m e0 from pairs ;; run_phis m e0 from rest (PM.add (pid id) s e)
         | _ => Fail "OpPhi: operands"
         end
    else if (opcode i =? 8) || (opcode i =? 317) then run_phis m e0 from rest e
    else Done (e, is)
  | [] => Done (e, [])
  end.

Definition enter_block (m : smod) (f : sfunc) (e : env) (from target : Z) : result (env * list instr) :=
  match PM.find (pid target) (sf_blocks f) with
  | Some is => run_phis m e from is e
  | None => Fail ("branch to an unknown block %" ++ dec target)
  end.

Fixpoint switch_target (sel : Z) (default : Z) (pairs : list Z) : Z :=
  match pairs with
  | lit :: lbl :: rest => if lit =? sel then lbl else switch_target sel default rest
  | _ => default
  end.

Fixpoint bind_params (e : env) (ps : list Z) (vs : list value) : result env :=
  match ps, vs with
  | [], [] => Done e
  | p :: ps', v :: vs' => bind_params (bind e p v) ps' vs'
  | _, _ => Fail "OpFunctionCall: argument count"
  end.

Inductive outcome := ORet (v : option value) | OKilled.

Fixpoint exec (fuel : nat) (m : smod) (f : sfunc) (e : env) (cur : Z) (is : list instr) (me : mem)
  {struct fuel} : result (outcome * mem) :=
  match fuel with
  | O => OutOfFuel
  | S fu =>
    match is with
    | [] => Fail "block without a terminator"
    | i :: rest =>
      match opcode i, operands i with
      | 249, [t] =>                                                             (* OpBranch *)
        r <~ enter_block m f e cur t ;; let '(e', is') := r in exec fu m f e' t is' me
      | 250, c :: t :: fl :: _ =>                                               (* OpBranchConditional *)
        cv <~ get m e c ;; b <~ bool_of cv ;;
        let tgt := if b then t else fl in
        r <~ enter_block m f e cur tgt ;; let '(e', is') := r in exec fu m f e' tgt is' me
      | 251, s :: d :: pairs =>                                                 (* OpSwitch *)
        sv <~ get m e s ;; z <~ int_bits sv ;;
        let tgt := switch_target z d pairs in
        r <~ enter_block m f e cur tgt ;; let '(e', is') := r in exec fu m f e' tgt is' me
      | 252, _ | 4416, _ => Done (OKilled, me)                                  (* OpKill / OpTerminateInvocation *)
      | 253, _ => Done (ORet None, me)                                          (* OpReturn *)
      | 254, [v] => x <~ get m e v ;; Done (ORet (Some x), me)                  (* OpReturnValue *)
      | 255, _ => ub "OpUnreachable executed"
      | 57, _ :: id :: fid :: args =>                                           (* OpFunctionCall *)
        vs <~ rmap (get m e) args ;;
        match PM.find (pid fid) (sm_funcs m) with
        | None => Fail ("call of an unknown function %" ++ dec fid)
        | Some callee =>
          e0 <~ bind_params (PM.empty _) (sf_params callee) vs ;;
          match PM.find (pid (sf_entry callee)) (sf_blocks callee) with
          | None => Fail "function without an entry block"
          | Some body =>
            r <~ exec fu m callee e0 (sf_entry callee) body me ;;
            let '(o, me') := r in
            match o with
            | OKilled => Done (OKilled, me')
            | ORet None => exec fu m f e cur rest me'
            | ORet (Some v) => exec fu m f (bind e id v) cur rest me'
            end
          end
        end
      | _, _ => r <~ step m e me i ;; let '(e', me') := r in exec fu m f e' cur rest me'
      end
    end
  end.

(* ---- harness values <-> variable contents, by shape ---- *)
(* naga wraps a buffer's type in a Block struct (possibly more than one level), and may lay a
   matrix out as a struct of columns: the harness value is fitted onto whatever type the variable
   points to, and the final contents are brought back to the shape of the harness value. *)
Fixpoint zip_opt {A B C} (f : A -> B -> option C) (l1 : list A) (l2 : list B) : option (list C) :=
  match l1, l2 with
  | [], [] => Some []
  | x :: r1, y :: r2 => match f x y, zip_opt f r1 r2 with Some z, Some zs => Some (z :: zs) | _, _ => None end
  | _, _ => None
  end.

Fixpoint fit (fuel : nat) (m : smod) (t : Z) (v : value) : option value :=
  match fuel with
  | O => None
  | S fu =>
    match ty_of m t with
    | Done ty =>
      let direct :=
        match ty, v with
        | TyBool, VBool _ => Some v
        | TyInt 32 true, VI32 _ => Some v
        | TyInt 32 false, VU32 _ => Some v
        | TyFloat 32, VF32 _ => Some v
        | TyVec e n, VVec l => if Z.of_nat (List.length l) =? n then option_map VVec (zip_opt (fit fu m) (repeat e (List.length l)) l) else None
        | TyMat c n, VMat l => if Z.of_nat (List.length l) =? n then option_map VMat (zip_opt (fit fu m) (repeat c (List.length l)) l) else None
        | TyArr e len, VArr l =>
          match const_nat m len with
          | Done n => if Nat.eqb (List.length l) n then option_map VArr (zip_opt (fit fu m) (repeat e n) l) else None
          | _ => None
          end
        | TyRtArr e, VArr l => option_map VArr (zip_opt (fit fu m) (repeat e (List.length l)) l)
        | TyStruct ms, VStruct l => option_map VStruct (zip_opt (fit fu m) ms l)
        | TyStruct ms, VMat l => option_map VStruct (zip_opt (fit fu m) ms l)
        | _, _ => None
        end in
      match direct, ty with
      | Some r, _ => Some r
      | None, TyStruct [inner] => option_map (fun x => VStruct [x]) (fit fu m inner v)
      | None, _ => None
      end
    | _ => None
    end
  end.

Definition same_scalar_kind (a b : value) : bool :=
  match a, b with
  | VBool _, VBool _ | VI32 _, VI32 _ | VU32 _, VU32 _ | VF32 _, VF32 _ => true
  | _, _ => false
  end.

Fixpoint unfit (fuel : nat) (template v : value) : option value :=
  match fuel with
  | O => None
  | S fu =>
    let direct :=
      match template, v with
      | VVec lt, VVec lv => option_map VVec (zip_opt (unfit fu) lt lv)
      | VMat lt, VMat lv => option_map VMat (zip_opt (unfit fu) lt lv)
      | VMat lt, VStruct lv => option_map VMat (zip_opt (unfit fu) lt lv)
      | VArr lt, VArr lv => option_map VArr (zip_opt (unfit fu) lt lv)
      | VStruct lt, VStruct lv => option_map VStruct (zip_opt (unfit fu) lt lv)
      | _, _ => if same_scalar_kind template v then Some v else None
      end in
    match direct, v with
    | Some r, _ => Some r
    | None, VStruct [inner] => unfit fu template inner
    | None, _ => None
    end
  end.

(* ---- entry points ---- *)
Definition builtin_name (b : Z) : string :=
  match b with
  | 24 => "NumWorkgroups" | 25 => "WorkgroupSize" | 26 => "WorkgroupId" | 27 => "LocalInvocationId"
  | 28 => "GlobalInvocationId" | 29 => "LocalInvocationIndex"
  | _ => "BuiltIn" ++ dec b
  end.

Definition buffer_key (d : deco) : option string :=
  match d_set d, d_binding d with
  | Some s, Some b => Some (dec s ++ ":" ++ dec b)
  | None, Some b => Some ("0:" ++ dec b)
  | _, _ => None
  end.

Fixpoint assoc_str {A} (k : string) (l : list (string * A)) : option A :=
  match l with
  | [] => None
  | (k', v) :: l' => if String.eqb k k' then Some v else assoc_str k l'
  end.

(* a bound buffer: key, memory cell, the harness value it was initialised from (if any) *)
Record bound := mkbound { b_key : string; b_cell : nat; b_template : option value }.

Definition uninit_cell (m : smod) (pointee : Z) : cell :=
  mkcell (match zero_value m pointee with Done z => z | _ => VBool false end) (IAll false).

Fixpoint init_globals (m : smod) (gs : list gvar) (buffers builtins : list (string * value))
                      (vals : PM.t sval) (me : mem) (bs : list bound) : result (PM.t sval * mem * list bound) :=
  match gs with
  | [] => Done (vals, me, bs)
  | g :: gs' =>
    pt <~ ty_of m (gv_ptr_ty g) ;;
    match pt with
    | TyPtr _ pointee =>
      let d := get_deco m (gv_id g) in
      let idx := List.length me in
      r <~ (if (gv_sc g =? 12) || (gv_sc g =? 2) || (gv_sc g =? 9) then                (* StorageBuffer, Uniform, PushConstant *)
              let key := match buffer_key d with Some k => k | None => if gv_sc g =? 9 then "push" else "?" end in
              match assoc_str key buffers with
              | Some hv =>
                match fit 24 m pointee hv with
                | Some cv => Done (mkcell cv (IAll true), [mkbound key idx (Some hv)])
                | None => Fail ("buffer " ++ key ++ ": the supplied value does not have the shape of the variable's type")
                end
              | None =>
                z <~ zero_value m pointee ;; Done (mkcell z (IAll true), [mkbound key idx None])
              end
            else if gv_sc g =? 1 then                                                     (* Input *)
              match d_builtin d with
              | Some b =>
                match assoc_str (builtin_name b) builtins with
                | Some hv => match fit 8 m pointee hv with
                             | Some cv => Done (mkcell cv (IAll true), [])
                             | None => Fail ("builtin " ++ builtin_name b ++ ": value does not have the variable's type")
                             end
                | None => z <~ zero_value m pointee ;; Done (mkcell z (IAll true), [])
                end
              | None => Done (uninit_cell m pointee, [])
              end
            else
              match gv_init g with
              | Some i =>
                match PM.find (pid i) (sm_vals m) with
                | Some (SV v) => Done (mkcell v (IAll true), [])
                | _ => Done (uninit_cell m pointee, [])
                end
              | None => Done (uninit_cell m pointee, [])
              end) ;;
      let '(ce, nb) := r in
      init_globals m gs' buffers builtins (PM.add (pid (gv_id g)) (SV (VPtr idx [])) vals) (app me [ce]) (app bs nb)
    | _ => Fail "OpVariable: result type is not a pointer"
    end
  end.

Definition read_bound (me : mem) (b : bound) : result (string * value) :=
  ce <~ nth_r "buffer cell" me (b_cell b) ;;
  match b_template b with
  | Some t => match unfit 24 t (c_val ce) with
              | Some v => Done (b_key b, v)
              | None => Fail ("buffer " ++ b_key b ++ ": final contents do not have the shape of the input")
              end
  | None => Done (b_key b, c_val ce)
  end.

(* run entry point [ep]; result: the final contents of every bound buffer, keyed "set:binding" *)
Definition run_entry (fuel : nat) (m0 : smod) (ep : string) (buffers builtins : list (string * value))
  : result (list (string * value)) :=
  match assoc_str ep (sm_eps m0) with
  | None => Fail ("no entry point named " ++ ep)
  | Some fid =>
    match PM.find (pid fid) (sm_funcs m0) with
    | None => Fail "entry point function not found"
    | Some f =>
      r <~ init_globals m0 (sm_globals m0) buffers builtins (sm_vals m0) [] [] ;;
      let '(vals, me0, bs) := r in
      let m := mksmod (sm_types m0) vals (sm_globals m0) (sm_decos m0) (sm_funcs m0) (sm_eps m0) (sm_glsl m0) in
      match PM.find (pid (sf_entry f)) (sf_blocks f) with
      | None => Fail "entry point without an entry block"
      | Some body =>
        x <~ exec fuel m f (PM.empty _) (sf_entry f) body me0 ;;
        let '(_, me1) := x in
        rmap (read_bound me1) bs
      end
    end
  end.

Definition run_words (fuel : nat) (ws : list Z) (ep : string) (buffers builtins : list (string * value))
  : result (list (string * value)) :=
  match decode ws with
  | None => Fail "decode: not a SPIR-V word stream"
  | Some (_, is) => m <~ load_module is ;; run_entry fuel m ep buffers builtins
  end.
