(* C02 model, Vulkan environment rules (Vulkan spec appendix "Validation Rules within a
   Module", SPIR-V 2.16.2 "Validation Rules for Shader Capabilities", 2.18 Uniformity of
   block layouts): Block/Offset/ArrayStride/MatrixStride presence and consistency,
   DescriptorSet/Binding on resources, BuiltIn/Location on stage interface variables,
   entry-point interface lists, execution modes.  DEFINITIONS ONLY. *)
From Coq Require Import List ZArith String Bool FMapPositive MSets.MSetPositive.
Require Import Naga.Spv.Binary Naga.Spv.Opcodes Naga.Spv.Graph Naga.Spv.Validate.
Import ListNotations.
Open Scope string_scope.
Open Scope list_scope.
Open Scope Z_scope.

(* ---- a view of type declarations ---- *)
Inductive sty :=
| TVoid | TBool
| TInt (w s : Z) | TFloat (w : Z)
| TVec (c n : Z) | TMat (c n : Z)
| TImage (sty_id dim depth arrayed ms sampled fmt : Z)
| TSampler | TSampledImage (img : Z)
| TArray (e len : Z) | TRtArray (e : Z) | TStruct (ms : list Z)
| TPtr (sc t : Z) | TFn (ret : Z) (ps : list Z)
| TRayQuery | TAccel | TOtherType | TNone.

Definition tview (defs : PM.t dinfo) (id : Z) : sty :=
  match pm_find id defs with
  | None => TNone
  | Some d =>
    let a := pi_args (d_pi d) in
    match pi_op (d_pi d) with
    | 19 => TVoid
    | 20 => TBool
    | 21 => TInt (nthz 0 a) (nthz 1 a)
    | 22 => TFloat (nthz 0 a)
    | 23 => TVec (nthz 0 a) (nthz 1 a)
    | 24 => TMat (nthz 0 a) (nthz 1 a)
    | 25 => TImage (nthz 0 a) (nthz 1 a) (nthz 2 a) (nthz 3 a) (nthz 4 a) (nthz 5 a) (nthz 6 a)
    | 26 => TSampler
    | 27 => TSampledImage (nthz 0 a)
    | 28 => TArray (nthz 0 a) (nthz 1 a)
    | 29 => TRtArray (nthz 0 a)
    | 30 => TStruct a
    | 32 => TPtr (nthz 0 a) (nthz 1 a)
    | 33 => TFn (nthz 0 a) (tl a)
    | 4472 => TRayQuery
    | 5341 => TAccel
    | op => if is_type_op op then TOtherType else TNone
    end
  end.

(* ---- decorations ---- *)
Record decos := {
  dc_id : PM.t (list (Z * list Z));            (* target -> (decoration, literals) *)
  dc_mem : PM.t (list (Z * Z * list Z))        (* struct -> (member, decoration, literals) *)
}.

Definition build_decos (ps : list pinstr) : decos :=
  fold_left (fun dc p =>
    if negb (pi_ok p) then dc
    else if pi_op p =? 71 then
      let t := nthz 0 (pi_args p) in
      {| dc_id := pm_add t ((nthz 1 (pi_args p), skipn 2 (pi_args p)) ::
                            match pm_find t (dc_id dc) with Some l => l | None => [] end) (dc_id dc);
         dc_mem := dc_mem dc |}
    else if pi_op p =? 72 then
      let t := nthz 0 (pi_args p) in
      {| dc_id := dc_id dc;
         dc_mem := pm_add t ((nthz 1 (pi_args p), nthz 2 (pi_args p), skipn 3 (pi_args p)) ::
                             match pm_find t (dc_mem dc) with Some l => l | None => [] end) (dc_mem dc) |}
    else dc) ps {| dc_id := PM.empty _; dc_mem := PM.empty _ |}.

Definition decos_of (dc : decos) (id : Z) : list (Z * list Z) :=
  match pm_find id (dc_id dc) with Some l => l | None => [] end.
Definition has_deco (dc : decos) (id d : Z) : bool := existsb (fun x => fst x =? d) (decos_of dc id).
Definition deco_vals (dc : decos) (id d : Z) : list (list Z) :=
  map snd (filter (fun x => fst x =? d) (decos_of dc id)).
Definition mdecos_of (dc : decos) (sid m : Z) : list (Z * list Z) :=
  flat (fun x => match x with (m', d, l) => if m' =? m then [(d, l)] else [] end)
       (match pm_find sid (dc_mem dc) with Some l => l | None => [] end).
Definition has_mdeco (dc : decos) (sid m d : Z) : bool := existsb (fun x => fst x =? d) (mdecos_of dc sid m).
Definition mdeco_vals (dc : decos) (sid m d : Z) : list (list Z) :=
  map snd (filter (fun x => fst x =? d) (mdecos_of dc sid m)).
Definition first_val (l : list (list Z)) : Z := match l with (v :: _) :: _ => v | _ => -1 end.

(* decoration numbers (3.20) *)
Definition D_Block := 2. Definition D_BufferBlock := 3. Definition D_RowMajor := 4. Definition D_ColMajor := 5.
Definition D_ArrayStride := 6. Definition D_MatrixStride := 7. Definition D_BuiltIn := 11. Definition D_Flat := 14.
Definition D_Location := 30. Definition D_Binding := 33. Definition D_DescriptorSet := 34. Definition D_Offset := 35.

(* ---- sizes, for overlap checks (explicit layout: sizes follow from the decorations) ---- *)
Definition const_value (defs : PM.t dinfo) (id : Z) : Z :=
  match pm_find id defs with
  | Some d => if pi_op (d_pi d) =? 43 then nthz 0 (pi_args (d_pi d)) else -1
  | None => -1
  end.

(* scalar component width in bytes, 0 = none/unknown *)
Fixpoint scalar_bytes (fuel : nat) (defs : PM.t dinfo) (t : Z) : Z :=
  match fuel with
  | O => 0
  | S f =>
    match tview defs t with
    | TInt w _ => w / 8
    | TFloat w => w / 8
    | TVec c _ => scalar_bytes f defs c
    | TMat c _ => scalar_bytes f defs c
    | TArray e _ => scalar_bytes f defs e
    | TRtArray e => scalar_bytes f defs e
    | _ => 0
    end
  end.

(* size in bytes of a value of type t laid out as a member [m] of struct [sid]; 0 = unknown *)
Fixpoint size_of (fuel : nat) (defs : PM.t dinfo) (dc : decos) (sid m : Z) (t : Z) : Z :=
  match fuel with
  | O => 0
  | S f =>
    match tview defs t with
    | TInt w _ => w / 8
    | TFloat w => w / 8
    | TVec c n => n * scalar_bytes 8 defs c
    | TMat c n =>
      let stride := first_val (mdeco_vals dc sid m D_MatrixStride) in
      if stride <=? 0 then 0
      else if has_mdeco dc sid m D_RowMajor then
        match tview defs c with TVec _ rows => rows * stride | _ => 0 end
      else n * stride
    | TArray e len =>
      let stride := first_val (deco_vals dc t D_ArrayStride) in
      let n := const_value defs len in
      if (stride <=? 0) || (n <=? 0) then 0 else n * stride
    | TStruct ms =>
      (fix go (k : Z) (l : list Z) (acc : Z) : Z :=
         match l with
         | [] => acc
         | mt :: r =>
           let off := first_val (mdeco_vals dc t k D_Offset) in
           let sz := size_of f defs dc t k mt in
           go (k + 1) r (if (off <? 0) then acc else Z.max acc (off + sz))
         end) 0 ms 0
    | _ => 0
    end
  end.

(* ---- explicit layout of a Block struct ---- *)

(* walk arrays down to the base type; report missing ArrayStride *)
Fixpoint strip_arrays (fuel : nat) (defs : PM.t dinfo) (dc : decos) (idx : Z) (check : bool) (t : Z)
  : Z * list violation :=
  match fuel with
  | O => (t, [])
  | S f =>
    match tview defs t with
    | TArray e _ =>
      let '(b, vs) := strip_arrays f defs dc idx check e in
      (b, (if check && negb (has_deco dc t D_ArrayStride) then [V "array_without_array_stride" idx t 0] else []) ++ vs)
    | TRtArray e =>
      let '(b, vs) := strip_arrays f defs dc idx check e in
      (b, (if check && negb (has_deco dc t D_ArrayStride) then [V "array_without_array_stride" idx t 0] else []) ++ vs)
    | _ => (t, [])
    end
  end.

Fixpoint pair_overlaps (idx sid : Z) (l : list (Z * Z * Z)) : list violation :=   (* (member, offset, size) *)
  match l with
  | [] => []
  | (m, o, s) :: r =>
    flat (fun x => match x with (m', o', s') =>
            if (0 <? s) && (0 <? s') && (o <? o' + s') && (o' <? o + s)
            then [V "struct_members_overlap" idx sid m'] else [] end) r ++ pair_overlaps idx sid r
  end.

Fixpoint rule_struct_layout (fuel : nat) (defs : PM.t dinfo) (dc : decos) (idx : Z) (uniform : bool) (sid : Z)
  : list violation :=
  match fuel with
  | O => []
  | S f =>
    match tview defs sid with
    | TStruct ms =>
      let per_member :=
        (fix go (k : Z) (l : list Z) : list violation :=
           match l with
           | [] => []
           | mt :: r =>
             let offs := mdeco_vals dc sid k D_Offset in
             let off := first_val offs in
             let '(base, vs) := strip_arrays 16 defs dc idx true mt in
             (match offs with
              | [] => [V "block_member_without_offset" idx sid k]
              | [_] => []
              | _ => [V "block_member_with_several_offsets" idx sid k]
              end) ++ vs ++
             (* stride sanity on the outermost array *)
             (match tview defs mt with
              | TArray e _ | TRtArray e =>
                let stride := first_val (deco_vals dc mt D_ArrayStride) in
                let esz := size_of 16 defs dc sid k e in
                (if (0 <? stride) && (0 <? esz) && (stride <? esz) then [V "array_stride_smaller_than_element" idx mt stride] else []) ++
                (if uniform && (0 <? stride) && negb (stride mod 16 =? 0) then [V "uniform_array_stride_not_multiple_of_16" idx mt stride] else [])
              | _ => []
              end) ++
             (match tview defs base with
              | TMat c _ =>
                (if has_mdeco dc sid k D_MatrixStride then [] else [V "matrix_member_without_matrix_stride" idx sid k]) ++
                (if has_mdeco dc sid k D_ColMajor || has_mdeco dc sid k D_RowMajor then []
                 else [V "matrix_member_without_majorness" idx sid k]) ++
                (let stride := first_val (mdeco_vals dc sid k D_MatrixStride) in
                 let sb := scalar_bytes 8 defs c in
                 if (0 <? stride) && (0 <? sb) && negb (stride mod sb =? 0) then [V "matrix_stride_misaligned" idx sid k] else [])
              | TStruct _ =>
                (if uniform && (0 <=? off) && negb (off mod 16 =? 0) then [V "uniform_struct_member_offset_not_multiple_of_16" idx sid k] else []) ++
                rule_struct_layout f defs dc idx uniform base
              | _ => []
              end) ++
             (let sb := scalar_bytes 8 defs mt in
              if (0 <=? off) && (0 <? sb) && negb (off mod sb =? 0) then [V "member_offset_misaligned" idx sid k] else []) ++
             go (k + 1) r
           end) 0 ms in
      let triples :=
        (fix go (k : Z) (l : list Z) : list (Z * Z * Z) :=
           match l with
           | [] => []
           | mt :: r => (k, first_val (mdeco_vals dc sid k D_Offset), size_of 16 defs dc sid k mt) :: go (k + 1) r
           end) 0 ms in
      per_member ++ pair_overlaps idx sid (filter (fun x => 0 <=? snd (fst x)) triples)
    | _ => []
    end
  end.

(* ---- global variables ---- *)

Definition is_global_var (p : pinstr) : bool := (pi_op p =? 59) && negb (nthz 0 (pi_args p) =? 7).

Definition io_decorated (defs : PM.t dinfo) (dc : decos) (v : Z) (pointee : Z) : bool :=
  has_deco dc v D_BuiltIn || has_deco dc v D_Location ||
  match tview defs pointee with
  | TStruct ms =>
    negb (match ms with [] => true | _ => false end) &&
    (fix go (k : Z) (l : list Z) : bool :=
       match l with
       | [] => true
       | _ :: r => (has_mdeco dc pointee k D_BuiltIn || has_mdeco dc pointee k D_Location) && go (k + 1) r
       end) 0 ms
  | _ => false
  end.

Fixpoint is_opaque_resource (fuel : nat) (defs : PM.t dinfo) (t : Z) : bool :=
  match fuel with
  | O => false
  | S f =>
    match tview defs t with
    | TImage _ _ _ _ _ _ _ | TSampler | TSampledImage _ | TAccel => true
    | TArray e _ | TRtArray e => is_opaque_resource f defs e
    | _ => false
    end
  end.

Definition rule_global_var (defs : PM.t dinfo) (dc : decos) (p : pinstr) : list violation :=
  if negb (is_global_var p && pi_ok p) then [] else
  let idx := pi_idx p in
  let v := pi_res p in
  let sc := nthz 0 (pi_args p) in
  match tview defs (pi_ty p) with
  | TPtr sc' t =>
    (if sc' =? sc then [] else [V "variable_storage_class_differs_from_pointer_type" idx sc sc']) ++
    (if (sc =? 2) || (sc =? 12) || (sc =? 9) then
       let '(base, _) := strip_arrays 16 defs dc idx false t in
       match tview defs base with
       | TStruct _ =>
         (if has_deco dc base D_Block || ((sc =? 2) && has_deco dc base D_BufferBlock) then []
          else [V "buffer_struct_without_block_decoration" idx v base]) ++
         (if has_deco dc base D_Block && has_deco dc base D_BufferBlock then [V "struct_both_block_and_buffer_block" idx v base] else []) ++
         rule_struct_layout 16 defs dc idx ((sc =? 2) && negb (has_deco dc base D_BufferBlock)) base
       | _ => [V "buffer_variable_not_a_struct" idx v base]
       end
     else []) ++
    (if (sc =? 0) || (sc =? 2) || (sc =? 12) then
       (if has_deco dc v D_DescriptorSet then [] else [V "resource_variable_without_descriptor_set" idx v sc]) ++
       (if has_deco dc v D_Binding then [] else [V "resource_variable_without_binding" idx v sc])
     else []) ++
    (if (sc =? 0) && negb (is_opaque_resource 16 defs t) then [V "uniform_constant_variable_not_opaque" idx v t] else []) ++
    (if (sc =? 1) || (sc =? 3) then
       (if io_decorated defs dc v t then [] else [V "interface_variable_without_location_or_builtin" idx v sc]) ++
       (if has_deco dc v D_BuiltIn && has_deco dc v D_Location then [V "interface_variable_both_builtin_and_location" idx v sc] else [])
     else []) ++
    (if ((sc =? 1) || (sc =? 2) || (sc =? 9) || (sc =? 12) || (sc =? 0)) && negb (lenz (pi_uses p) =? 0)
     then [V "initializer_on_non_initializable_storage_class" idx v sc] else [])
  | _ => [V "variable_type_not_a_pointer" idx v (pi_ty p)]
  end.

(* ---- entry points ---- *)

(* functions called (transitively) from a function id *)
Definition callees (f : fn) : list Z :=
  flat (fun p => if pi_op p =? 57 then [nthz 0 (pi_uses p)] else []) (fn_body f).

Definition find_fn (fns : list fn) (id : Z) : option fn :=
  find (fun f => pi_res (fn_def f) =? id) fns.

Fixpoint call_closure (fuel : nat) (fns : list fn) (work : list Z) (seen : list Z) : list Z :=
  match fuel with
  | O => seen
  | S f =>
    match work with
    | [] => seen
    | x :: w =>
      if memz x seen then call_closure f fns w seen
      else match find_fn fns x with
           | Some fx => call_closure f fns (callees fx ++ w) (x :: seen)
           | None => call_closure f fns w (x :: seen)
           end
    end
  end.

Definition total_calls (fns : list fn) : nat :=
  fold_left (fun n f => (n + List.length (callees f))%nat) fns O.

(* module-scope variables referenced by a set of functions *)
Definition used_globals (defs : PM.t dinfo) (fns : list fn) (ids : list Z) : list Z :=
  flat (fun fid => match find_fn fns fid with
                   | Some f => flat (fun p => filter (fun u => match pm_find u defs with
                                                              | Some d => is_global_var (d_pi d) && (d_fn d =? 0)
                                                              | None => false end) (pi_uses p)) (fn_body f)
                   | None => [] end) ids.

(* the words of a literal string as a key (for duplicate entry-point names) *)
Fixpoint string_words (ws : list Z) : list Z :=
  match ws with
  | [] => []
  | w :: r => if has_zero_byte w then [w] else w :: string_words r
  end.

Fixpoint dup_in (l : list Z) : list Z :=
  match l with
  | [] => []
  | x :: r => (if memz x r then [x] else []) ++ dup_in r
  end.

Definition builtin_of (dc : decos) (v : Z) : Z := first_val (deco_vals dc v D_BuiltIn).

Definition rule_entry_point (h : header) (defs : PM.t dinfo) (dc : decos) (fns : list fn) (ps : list pinstr)
           (p : pinstr) : list violation :=
  if negb ((pi_op p =? 15) && pi_ok p) then [] else
  let idx := pi_idx p in
  let model := nthz 0 (pi_args p) in
  let fid := nthz 0 (pi_uses p) in
  let iface := tl (pi_uses p) in
  let v14 := 260 <=? vmm h in        (* SPIR-V 1.4: 0x0104 *)
  let modes := flat (fun q => if ((pi_op q =? 16) || (pi_op q =? 331)) && (nthz 0 (pi_args q) =? fid) then [nthz 1 (pi_args q)] else []) ps in
  let reach := call_closure (4 + List.length fns + total_calls fns) fns [fid] [] in
  let used := used_globals defs fns reach in
  (if def_op defs fid =? 54 then [] else [V "entry_point_not_a_function" idx fid 0]) ++
  (match tview defs (nthz 1 (def_args defs fid)) with
   | TFn ret [] => match tview defs ret with TVoid => [] | _ => [V "entry_point_signature_not_void" idx fid 0] end
   | TNone => []
   | _ => [V "entry_point_signature_not_void" idx fid 0]
   end) ++
  flat (fun v => match pm_find v defs with
                 | Some d =>
                   let sc := nthz 0 (pi_args (d_pi d)) in
                   if is_global_var (d_pi d) && (d_fn d =? 0) && (v14 || (sc =? 1) || (sc =? 3)) then []
                   else [V "interface_id_not_an_interface_variable" idx v sc]
                 | None => [] end) iface ++
  (if v14 then flat (fun v => [V "interface_lists_variable_twice" idx v 0]) (dup_in iface) else []) ++
  flat (fun v => let sc := nthz 0 (def_args defs v) in
                 if memz v iface then []
                 else if v14 || (sc =? 1) || (sc =? 3) then [V "interface_missing_used_variable" idx v sc] else [])
       used ++
  (* no two interface variables of one storage class share a Location (without Component/Index) or a BuiltIn *)
  (let vars_of (sc : Z) := filter (fun v => nthz 0 (def_args defs v) =? sc) iface in
   let collisions (sc : Z) :=
     (fix go (l : list Z) : list violation :=
        match l with
        | [] => []
        | v :: r =>
          flat (fun w =>
            (if has_deco dc v D_Location && has_deco dc w D_Location &&
                (first_val (deco_vals dc v D_Location) =? first_val (deco_vals dc w D_Location)) &&
                negb (has_deco dc v 31 || has_deco dc w 31 || has_deco dc v 32 || has_deco dc w 32)
             then [V "interface_location_used_twice" idx v w] else []) ++
            (if has_deco dc v D_BuiltIn && has_deco dc w D_BuiltIn && (builtin_of dc v =? builtin_of dc w)
             then [V "interface_builtin_used_twice" idx v w] else [])) r ++ go r
        end) (vars_of sc) in
   collisions 1 ++ collisions 3) ++
  (if (model =? 4) && negb (memz 7 modes || memz 8 modes) then [V "fragment_entry_without_origin_mode" idx fid 0] else []) ++
  (if (model =? 4) && memz 8 modes then [V "fragment_origin_lower_left_in_vulkan" idx fid 0] else []) ++
  (if (model =? 5) && negb (memz 17 modes || memz 38 modes ||
        existsb (fun q => (pi_op q =? 71) && (nthz 1 (pi_args q) =? D_BuiltIn) && (nthz 2 (pi_args q) =? 25)) ps)
   then [V "compute_entry_without_local_size" idx fid 0] else []) ++
  (* FragDepth written => DepthReplacing (Vulkan VUID-StandaloneSpirv-FragDepth-04216) *)
  (if (model =? 4) && existsb (fun v => (builtin_of dc v =? 22) && (nthz 0 (def_args defs v) =? 3)) iface && negb (memz 12 modes)
   then [V "frag_depth_without_depth_replacing" idx fid 0] else []) ++
  (* integer / 64-bit inputs of a fragment shader must be Flat (VUID-StandaloneSpirv-Flat-04744) *)
  (if model =? 4 then
     flat (fun v =>
       let sc := nthz 0 (def_args defs v) in
       if (sc =? 1) && negb (has_deco dc v D_BuiltIn) then
         match tview defs (def_ty defs v) with
         | TPtr _ t =>
           let int_like := match tview defs t with
                           | TInt _ _ => true
                           | TVec c _ => match tview defs c with TInt _ _ => true | _ => false end
                           | _ => false end in
           if int_like && negb (has_deco dc v D_Flat) then [V "fragment_integer_input_not_flat" idx v 0] else []
         | _ => []
         end
       else []) iface
   else []).

Definition rule_entry_points (h : header) (defs : PM.t dinfo) (dc : decos) (fns : list fn) (ps : list pinstr)
  : list violation :=
  let eps := filter (fun p => (pi_op p =? 15) && pi_ok p) ps in
  flat (rule_entry_point h defs dc fns ps) eps ++
  (* (execution model, name) pairs are unique *)
  (fix go (l : list pinstr) : list violation :=
     match l with
     | [] => []
     | p :: r =>
       (if existsb (fun q => (nthz 0 (pi_args q) =? nthz 0 (pi_args p)) &&
                             eq_list (string_words (skipn 2 (pi_args q))) (string_words (skipn 2 (pi_args p)))) r
        then [V "duplicate_entry_point_name" (pi_idx p) 0 0] else []) ++ go r
     end) eps ++
  (* execution modes name entry points *)
  flat (fun q => if ((pi_op q =? 16) || (pi_op q =? 331)) && pi_ok q &&
                    negb (existsb (fun p => nthz 0 (pi_uses p) =? nthz 0 (pi_args q)) eps)
                 then [V "execution_mode_target_not_an_entry_point" (pi_idx q) (nthz 0 (pi_args q)) 0] else []) ps ++
  (* memory model: Logical + GLSL450 or Vulkan *)
  flat (fun q => if (pi_op q =? 14) && pi_ok q then
                   (if nthz 0 (pi_args q) =? 0 then [] else [V "addressing_model_not_logical" (pi_idx q) (nthz 0 (pi_args q)) 0]) ++
                   (if (nthz 1 (pi_args q) =? 1) || (nthz 1 (pi_args q) =? 3) then [] else [V "memory_model_not_glsl450_or_vulkan" (pi_idx q) (nthz 1 (pi_args q)) 0])
                 else []) ps.

(* ---- decoration targets and builtin types ---- *)

Definition rule_decoration_targets (defs : PM.t dinfo) (p : pinstr) : list violation :=
  if negb (pi_ok p) then [] else
  let idx := pi_idx p in
  if pi_op p =? 72 then
    let sid := nthz 0 (pi_args p) in
    match tview defs sid with
    | TStruct ms => if nthz 1 (pi_args p) <? lenz ms then [] else [V "member_decoration_index_out_of_range" idx sid (nthz 1 (pi_args p))]
    | TNone => []
    | _ => [V "member_decoration_on_non_struct" idx sid 0]
    end
  else if pi_op p =? 71 then
    let t := nthz 0 (pi_args p) in
    let d := nthz 1 (pi_args p) in
    let nlits := lenz (pi_args p) - 2 in
    (* literal counts of the decorations naga uses *)
    (if ((d =? D_ArrayStride) || (d =? D_MatrixStride) || (d =? D_BuiltIn) || (d =? D_Location) || (d =? D_Binding) ||
         (d =? D_DescriptorSet) || (d =? D_Offset) || (d =? 32) || (d =? 31) || (d =? 1)) && negb (nlits =? 1)
     then [V "decoration_literal_count" idx d nlits] else []) ++
    (if ((d =? D_Block) || (d =? D_BufferBlock) || (d =? D_RowMajor) || (d =? D_ColMajor) || (d =? D_Flat) || (d =? 13) ||
         (d =? 16) || (d =? 17) || (d =? 18) || (d =? 24) || (d =? 25) || (d =? 5300)) && negb (nlits =? 0)
     then [V "decoration_literal_count" idx d nlits] else []) ++
    (if (d =? D_Block) || (d =? D_BufferBlock) then
       match tview defs t with TStruct _ => [] | TNone => [] | _ => [V "block_decoration_on_non_struct" idx t 0] end
     else if d =? D_ArrayStride then
       match tview defs t with TArray _ _ | TRtArray _ => [] | TPtr _ _ => [] | TNone => [] | _ => [V "array_stride_on_non_array" idx t 0] end
     else if (d =? D_Binding) || (d =? D_DescriptorSet) || (d =? D_Location) || (d =? D_BuiltIn) then
       (if (def_op defs t =? 59) || (def_op defs t =? -1) || ((d =? D_BuiltIn) && is_const_id defs t) then []
        else [V "variable_decoration_on_non_variable" idx t d])
     else [])
  else [].

Definition rule_vulkan (h : header) (defs : PM.t dinfo) (ps : list pinstr) (fns : list fn) : list violation :=
  let dc := build_decos ps in
  flat (rule_global_var defs dc) ps ++
  rule_entry_points h defs dc fns ps ++
  flat (rule_decoration_targets defs) ps.
