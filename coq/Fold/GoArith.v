(* Go's integer arithmetic as the constant folder of wgsl/internal/lower uses it
   (Go language specification, "Arithmetic operators", "Integer overflow",
   "Conversions between numeric types"):
     - int64/uint64/int32/uint32 arithmetic wraps around silently;
     - x / y and x % y truncate towards zero and panic when y = 0
       (modelled as None); MinInt64 / -1 = MinInt64, MinInt64 % -1 = 0;
     - x << n and x >> n with an unsigned count n: a count >= the width gives 0
       for <<, and 0 or -1 (sign fill) for >> on signed x  ("wide shift");
     - uint(x) for a negative int64 x is x + 2^64 (uint is 64 bits on the
       platforms naga is built for);
     - int32(x), uint32(x) keep the low 32 bits.
   An int64 is represented by its signed value in [-2^63, 2^63); an int32/uint32
   *result* is represented the way Base/Bits32 represents run-time values: by its
   bit pattern in [0, 2^32). *)
From Coq Require Import ZArith Bool Lia.
Require Import Naga.Base.Bits32.
Open Scope Z_scope.

Definition W64 : Z := 18446744073709551616.   (* 2^64 *)
Definition H64 : Z := 9223372036854775808.    (* 2^63 *)

Definition in_s64 (z : Z) : Prop := - H64 <= z < H64.

Definition u64 (z : Z) : Z := z mod W64.                                   (* uint64(z) / uint(z) *)
Definition s64 (z : Z) : Z := let u := z mod W64 in if u <? H64 then u else u - W64.   (* int64(z) *)

Definition add64 a b := s64 (a + b).
Definition sub64 a b := s64 (a - b).
Definition mul64 a b := s64 (a * b).
Definition neg64 a := s64 (- a).
Definition not64 (a : Z) := - a - 1.                 (* ^a *)
Definition and64 (a b : Z) := Z.land a b.
Definition or64 (a b : Z) := Z.lor a b.
Definition xor64 (a b : Z) := Z.lxor a b.

(* None = run-time panic "integer divide by zero" *)
Definition quo64 (a b : Z) : option Z := if b =? 0 then None else Some (s64 (Z.quot a b)).
Definition rem64 (a b : Z) : option Z := if b =? 0 then None else Some (Z.rem a b).

(* vl << uint(vr), vl >> uint(vr) on int64 *)
Definition shl64 (a vr : Z) : Z := let n := u64 vr in if 64 <=? n then 0 else s64 (Z.shiftl a n).
Definition shr64 (a vr : Z) : Z := let n := u64 vr in if 64 <=? n then (if a <? 0 then -1 else 0) else Z.shiftr a n.

(* conversions to 32 bits; results as bit patterns *)
Definition to32 (z : Z) : Z := wrap z.                (* bits of int32(z) = bits of uint32(z) *)

(* float64 -> integer conversions.  Go: "if the result type cannot represent the value the
   conversion succeeds but the result value is implementation-dependent".  For a value whose
   truncation t fits, the result is t; otherwise what the gc compiler does on amd64 (the
   platform the check runs naga on; observed with a probe program): int64 -> MinInt64,
   int32 -> MinInt32, uint32 -> low 32 bits of the int64 conversion.  [t] is the truncated
   real value (NaN/infinities are handled by the float model, which passes an out-of-range t). *)
Definition f2i64_amd64 (t : Z) : Z := if (- H64 <=? t) && (t <? H64) then t else - H64.
Definition f2i32_amd64 (t : Z) : Z := if (- H32 <=? t) && (t <? H32) then wrap t else H32.
Definition f2u32_amd64 (t : Z) : Z := wrap (f2i64_amd64 t).

(* float64(v) for an int64 v, as an integer (the result of the conversion is always an
   integer): round to nearest, ties to even, at 53 significant bits *)
Definition round_to_f64 (v : Z) : Z :=
  let a := Z.abs v in
  if a <? 9007199254740992 then v
  else
    let k := Z.log2 a - 52 in
    let q := Z.shiftr a k in
    let r := a - Z.shiftl q k in
    let half := Z.shiftl 1 (k - 1) in
    let q' := if (half <? r) || ((r =? half) && Z.odd q) then q + 1 else q in
    Z.sgn v * Z.shiftl q' k.

(* uint32 arithmetic (evalConstU32Expr) on bit patterns *)
Definition addu32 a b := wrap (a + b).
Definition subu32 a b := wrap (a - b).
Definition mulu32 a b := wrap (a * b).

(* uint64 arithmetic (evalScalarArithmetic on ScalarValue.Bits) *)
Definition addu64 a b := u64 (a + b).
Definition subu64 a b := u64 (a - b).
Definition mulu64 a b := u64 (a * b).

(* math/bits on a 32-bit pattern *)
Definition trailing_zeros32 (u : Z) : Z := count_trailing_zeros u.    (* 32 for 0 *)
Definition leading_zeros32 (u : Z) : Z := count_leading_zeros u.      (* 32 for 0 *)
Definition ones_count32 (u : Z) : Z := count_one_bits u.
Definition reverse32 (u : Z) : Z := reverse_bits u.

(* ---- basic facts ---- *)
Module Facts.
Ltac Zify.zify_post_hook ::= Z.to_euclidean_division_equations.

Lemma s64_range z : in_s64 (s64 z).
Proof.
  unfold in_s64, s64, W64, H64.
  destruct (Z.ltb_spec (z mod 18446744073709551616) 9223372036854775808); lia.
Qed.

Lemma s64_id z : in_s64 z -> s64 z = z.
Proof.
  unfold in_s64, s64, W64, H64. intros H.
  destruct (Z.ltb_spec (z mod 18446744073709551616) 9223372036854775808); lia.
Qed.

Lemma s64_mod32 z : wrap (s64 z) = wrap z.
Proof.
  unfold s64, wrap, W64, H64, M32.
  destruct (Z.ltb_spec (z mod 18446744073709551616) 9223372036854775808); lia.
Qed.

Lemma sgn_in_s64 u : in32 u -> in_s64 (sgn u).
Proof. intros H. pose proof (sgn_range u H). unfold in_s64, H64, Bits32.H32 in *. lia. Qed.
End Facts.
Export Facts.
