(* Per-operator theorems about the function-scope folder model (FoldModel), for ALL
   operands: what it computes for concrete i32/u32/bool literals is the run-time
   operation of Base/Bits32; where it is not, a refutation with a witness. *)
From Coq Require Import ZArith Bool List Lia.
From Coq Require Import ZifyBool.
Import ListNotations.
Require Import Naga.Base.Bits32 Naga.Fold.GoArith Naga.Fold.FoldArith Naga.Fold.FoldModel.
Open Scope Z_scope.
Ltac Zify.zify_post_hook ::= Z.to_euclidean_division_equations.

Section Proofs.
Variable F : float_ops.

Notation tfb := (try_fold_binary_op F).

Ltac unfold_fold :=
  unfold try_fold_binary_op, int_branch, int_binop, literal_to_i64, make_int_literal, is_integer_literal;
  cbn [andb orb].

(* ================= i32 ================= *)
Lemma fold_add_i32 a b : tfb BAdd (LI32 a) (LI32 b) = Some (LI32 (add32 a b)).
Proof. unfold_fold. unfold add64, add32. rewrite to32_s64, wrap_add_sgn. reflexivity. Qed.
Lemma fold_sub_i32 a b : tfb BSub (LI32 a) (LI32 b) = Some (LI32 (sub32 a b)).
Proof. unfold_fold. unfold sub64, sub32. rewrite to32_s64, wrap_sub_sgn. reflexivity. Qed.
Lemma fold_mul_i32 a b : tfb BMul (LI32 a) (LI32 b) = Some (LI32 (mul32 a b)).
Proof. unfold_fold. unfold mul64, mul32. rewrite to32_s64, wrap_mul_sgn. reflexivity. Qed.

Lemma sgn_zero a : in32 a -> (sgn a =? 0) = (a =? 0).
Proof. unfold in32, sgn, M32, H32. intros. destruct (Z.ltb_spec a 2147483648); lia. Qed.

Lemma fold_div_i32 a b : in32 a -> in32 b ->
  tfb BDiv (LI32 a) (LI32 b) = if b =? 0 then None else Some (LI32 (div_i32 a b)).
Proof.
  intros Ha Hb. unfold_fold. unfold quo64. rewrite (sgn_zero b Hb). unfold div_i32.
  destruct (Z.eqb_spec b 0) as [E|E]; [reflexivity|]. cbn [option_map]. rewrite to32_s64.
  destruct (Z.eqb_spec a INT_MIN_BITS) as [Ea|Ea]; destruct (Z.eqb_spec b ALL_ONES) as [Eb|Eb]; cbn [andb]; try reflexivity.
  subst. reflexivity.
Qed.

Lemma fold_mod_i32 a b : in32 a -> in32 b ->
  tfb BMod (LI32 a) (LI32 b) = if b =? 0 then None else Some (LI32 (rem_i32 a b)).
Proof.
  intros Ha Hb. unfold_fold. unfold rem64. rewrite (sgn_zero b Hb). unfold rem_i32.
  destruct (Z.eqb_spec b 0) as [E|E]; [reflexivity|]. cbn [option_map]. unfold to32.
  destruct (Z.eqb_spec a INT_MIN_BITS) as [Ea|Ea]; destruct (Z.eqb_spec b ALL_ONES) as [Eb|Eb]; cbn [andb]; try reflexivity.
  subst. reflexivity.
Qed.

Lemma fold_and_i32 a b : in32 a -> in32 b -> tfb BAnd (LI32 a) (LI32 b) = Some (LI32 (and32 a b)).
Proof. intros. unfold_fold. unfold and64, to32. rewrite and_sgn by assumption. reflexivity. Qed.
Lemma fold_or_i32 a b : in32 a -> in32 b -> tfb BOr (LI32 a) (LI32 b) = Some (LI32 (or32 a b)).
Proof. intros. unfold_fold. unfold or64, to32. rewrite or_sgn by assumption. reflexivity. Qed.
Lemma fold_xor_i32 a b : in32 a -> in32 b -> tfb BXor (LI32 a) (LI32 b) = Some (LI32 (xor32 a b)).
Proof. intros. unfold_fold. unfold xor64, to32. rewrite xor_sgn by assumption. reflexivity. Qed.

Lemma sgn_eqb a b : in32 a -> in32 b -> (sgn a =? sgn b) = (a =? b).
Proof.
  intros Ha Hb. destruct (Z.eqb_spec a b) as [E|E].
  - subst. apply Z.eqb_refl.
  - apply Z.eqb_neq. intro H. apply E. apply sgn_inj; assumption.
Qed.

Lemma fold_eq_i32 a b : in32 a -> in32 b -> tfb BEq (LI32 a) (LI32 b) = Some (LBool (a =? b)).
Proof. intros. unfold_fold. rewrite sgn_eqb by assumption. reflexivity. Qed.
Lemma fold_ne_i32 a b : in32 a -> in32 b -> tfb BNe (LI32 a) (LI32 b) = Some (LBool (negb (a =? b))).
Proof. intros. unfold_fold. rewrite sgn_eqb by assumption. reflexivity. Qed.
Lemma fold_lt_i32 a b : tfb BLt (LI32 a) (LI32 b) = Some (LBool (lt_i32 a b)).
Proof. reflexivity. Qed.
Lemma fold_le_i32 a b : tfb BLe (LI32 a) (LI32 b) = Some (LBool (le_i32 a b)).
Proof. reflexivity. Qed.
Lemma fold_gt_i32 a b : tfb BGt (LI32 a) (LI32 b) = Some (LBool (lt_i32 b a)).
Proof. reflexivity. Qed.
Lemma fold_ge_i32 a b : tfb BGe (LI32 a) (LI32 b) = Some (LBool (le_i32 b a)).
Proof. reflexivity. Qed.

(* shifts: the amount is a u32 literal *)
Lemma u64_small n : 0 <= n < W64 -> u64 n = n.
Proof. unfold u64, W64. intros. apply Z.mod_small. assumption. Qed.

Lemma fold_shl_i32 a n : in32 n -> n < 32 -> tfb BShl (LI32 a) (LU32 n) = Some (LI32 (shl32 a n)).
Proof.
  unfold in32, M32. intros Hn Hlt. unfold_fold. unfold shl64. rewrite u64_small by (unfold W64; lia).
  destruct (Z.leb_spec 64 n); [lia|]. rewrite to32_s64. unfold shl32.
  rewrite (Z.mod_small n 32) by lia. rewrite !shiftl_mul by lia. rewrite wrap_shl_sgn by lia. reflexivity.
Qed.
Lemma fold_shr_i32 a n : in32 a -> in32 n -> n < 32 -> tfb BShr (LI32 a) (LU32 n) = Some (LI32 (shr_i32 a n)).
Proof.
  unfold in32 at 2. unfold M32. intros Ha Hn Hlt. unfold_fold. unfold shr64. rewrite u64_small by (unfold W64; lia).
  destruct (Z.leb_spec 64 n); [lia|]. unfold shr_i32, to32. rewrite (Z.mod_small n 32) by lia. reflexivity.
Qed.

(* ================= u32 ================= *)
Lemma fold_add_u32 a b : tfb BAdd (LU32 a) (LU32 b) = Some (LU32 (add32 a b)).
Proof. unfold_fold. unfold add64, add32. rewrite to32_s64. reflexivity. Qed.
Lemma fold_sub_u32 a b : tfb BSub (LU32 a) (LU32 b) = Some (LU32 (sub32 a b)).
Proof. unfold_fold. unfold sub64, sub32. rewrite to32_s64. reflexivity. Qed.
Lemma fold_mul_u32 a b : tfb BMul (LU32 a) (LU32 b) = Some (LU32 (mul32 a b)).
Proof. unfold_fold. unfold mul64, mul32. rewrite to32_s64. reflexivity. Qed.

Lemma fold_div_u32 a b : in32 a -> in32 b ->
  tfb BDiv (LU32 a) (LU32 b) = if b =? 0 then None else Some (LU32 (div_u32 a b)).
Proof.
  intros Ha Hb. unfold_fold. unfold quo64, div_u32.
  destruct (Z.eqb_spec b 0) as [E|E]; [reflexivity|]. cbn [option_map]. rewrite to32_s64.
  unfold in32, M32 in *. rewrite Z.quot_div_nonneg by lia.
  f_equal. f_equal. apply wrap_id. unfold in32, M32. split; [apply Z.div_pos; lia|].
  apply Z.le_lt_trans with a; [|lia]. apply Z.div_le_upper_bound; nia.
Qed.
Lemma fold_mod_u32 a b : in32 a -> in32 b ->
  tfb BMod (LU32 a) (LU32 b) = if b =? 0 then None else Some (LU32 (rem_u32 a b)).
Proof.
  intros Ha Hb. unfold_fold. unfold rem64, rem_u32.
  destruct (Z.eqb_spec b 0) as [E|E]; [reflexivity|]. cbn [option_map]. unfold to32.
  unfold in32, M32 in *. rewrite Z.rem_mod_nonneg by lia.
  f_equal. f_equal. apply wrap_id. unfold in32, M32. pose proof (Z.mod_pos_bound a b ltac:(lia)). lia.
Qed.

Lemma fold_and_u32 a b : in32 a -> in32 b -> tfb BAnd (LU32 a) (LU32 b) = Some (LU32 (and32 a b)).
Proof. intros. unfold_fold. unfold and64, to32. rewrite wrap_id by (apply and32_in; assumption). reflexivity. Qed.
Lemma fold_or_u32 a b : in32 a -> in32 b -> tfb BOr (LU32 a) (LU32 b) = Some (LU32 (or32 a b)).
Proof. intros. unfold_fold. unfold or64, to32. rewrite wrap_id by (apply or32_in; assumption). reflexivity. Qed.
Lemma fold_xor_u32 a b : in32 a -> in32 b -> tfb BXor (LU32 a) (LU32 b) = Some (LU32 (xor32 a b)).
Proof. intros. unfold_fold. unfold xor64, to32. rewrite wrap_id by (apply xor32_in; assumption). reflexivity. Qed.

Lemma fold_eq_u32 a b : tfb BEq (LU32 a) (LU32 b) = Some (LBool (a =? b)).
Proof. reflexivity. Qed.
Lemma fold_ne_u32 a b : tfb BNe (LU32 a) (LU32 b) = Some (LBool (negb (a =? b))).
Proof. reflexivity. Qed.
Lemma fold_lt_u32 a b : tfb BLt (LU32 a) (LU32 b) = Some (LBool (lt_u32 a b)).
Proof. reflexivity. Qed.
Lemma fold_le_u32 a b : tfb BLe (LU32 a) (LU32 b) = Some (LBool (le_u32 a b)).
Proof. reflexivity. Qed.
Lemma fold_gt_u32 a b : tfb BGt (LU32 a) (LU32 b) = Some (LBool (lt_u32 b a)).
Proof. reflexivity. Qed.
Lemma fold_ge_u32 a b : tfb BGe (LU32 a) (LU32 b) = Some (LBool (le_u32 b a)).
Proof. reflexivity. Qed.

Lemma fold_shl_u32 a n : in32 n -> n < 32 -> tfb BShl (LU32 a) (LU32 n) = Some (LU32 (shl32 a n)).
Proof.
  unfold in32, M32. intros Hn Hlt. unfold_fold. unfold shl64. rewrite u64_small by (unfold W64; lia).
  destruct (Z.leb_spec 64 n); [lia|]. rewrite to32_s64. unfold shl32. rewrite (Z.mod_small n 32) by lia. reflexivity.
Qed.
Lemma fold_shr_u32 a n : in32 a -> in32 n -> n < 32 -> tfb BShr (LU32 a) (LU32 n) = Some (LU32 (shr_u32 a n)).
Proof.
  intros Ha Hn Hlt. unfold_fold. unfold shr64. rewrite u64_small by (unfold in32, M32, W64 in *; lia).
  destruct (Z.leb_spec 64 n); [lia|]. unfold shr_u32, to32.
  rewrite (Z.mod_small n 32) by (unfold in32 in *; lia).
  rewrite wrap_id by (apply shr_u_range; [assumption | unfold in32 in *; lia]). reflexivity.
Qed.

(* ================= bool ================= *)
Lemma fold_bool a b op : tfb op (LBool a) (LBool b) = bool_binop op a b.
Proof. reflexivity. Qed.

(* ================= unary ================= *)
Notation tfu := (try_fold_unary_op F).
Lemma fold_neg_i32 a : tfu UNeg (LI32 a) = Some (LI32 (neg32 a)).
Proof.
  unfold try_fold_unary_op, is_integer_literal, make_int_literal, literal_to_i64, neg64, neg32.
  rewrite to32_s64, wrap_neg_sgn. reflexivity.
Qed.
Lemma fold_bnot_i32 a : in32 a -> tfu UBNot (LI32 a) = Some (LI32 (not32 a)).
Proof.
  intros. unfold try_fold_unary_op, is_integer_literal, make_int_literal, literal_to_i64, to32.
  rewrite not_sgn by assumption. reflexivity.
Qed.
Lemma fold_bnot_u32 a : in32 a -> tfu UBNot (LU32 a) = Some (LU32 (not32 a)).
Proof.
  intros. unfold try_fold_unary_op, is_integer_literal, make_int_literal, literal_to_i64, to32.
  rewrite not_u by assumption. reflexivity.
Qed.
Lemma fold_lnot a : tfu ULNot (LBool a) = Some (LBool (negb a)).
Proof. reflexivity. Qed.
Lemma negated_literal_i32 a : lower_negated_literal F (LI32 a) = Some (LI32 (neg32 a)).
Proof. unfold lower_negated_literal, to32, neg32. rewrite wrap_neg_sgn. reflexivity. Qed.

(* ================= conversions (tryFoldAs) ================= *)
Lemma fold_as_i32_of_i32 a : in32 a -> try_fold_as F (LI32 a) TI32 = Some (LI32 a).
Proof. intros. unfold try_fold_as, is_float_literal, literal_to_i64, to32. rewrite wrap_sgn', wrap_id by assumption. reflexivity. Qed.
Lemma fold_as_i32_of_u32 a : in32 a -> try_fold_as F (LU32 a) TI32 = Some (LI32 (i32_of_u32 a)).
Proof. intros. unfold try_fold_as, is_float_literal, literal_to_i64, to32, i32_of_u32. rewrite wrap_id by assumption. reflexivity. Qed.
Lemma fold_as_u32_of_i32 a : in32 a -> try_fold_as F (LI32 a) TU32 = Some (LU32 (u32_of_i32 a)).
Proof.
  intros. unfold try_fold_as, is_float_literal, literal_to_i64, to32, u32_of_i32, u64.
  f_equal. f_equal. transitivity (wrap (sgn a)).
  - unfold wrap, W64, M32. lia.
  - rewrite wrap_sgn'. apply wrap_id. assumption.
Qed.
Lemma fold_as_u32_of_u32 a : in32 a -> try_fold_as F (LU32 a) TU32 = Some (LU32 a).
Proof.
  intros. unfold try_fold_as, is_float_literal, literal_to_i64, to32, u64.
  f_equal. f_equal. unfold in32, wrap, W64, M32 in *. lia.
Qed.
Lemma fold_as_of_bool b t : t = TI32 \/ t = TU32 ->
  try_fold_as F (LBool b) t = Some (match t with TI32 => LI32 (u32_of_bool b) | _ => LU32 (u32_of_bool b) end).
Proof. intros [E|E]; subst; destruct b; reflexivity. Qed.
Lemma fold_as_bool_of_i32 a : in32 a -> try_fold_as F (LI32 a) TBool = Some (LBool (bool_of_32 a)).
Proof. intros. unfold try_fold_as, is_float_literal, literal_to_i64, bool_of_32. rewrite sgn_zero by assumption. reflexivity. Qed.
Lemma fold_as_bool_of_u32 a : try_fold_as F (LU32 a) TBool = Some (LBool (bool_of_32 a)).
Proof. reflexivity. Qed.
Lemma fold_as_bool_of_bool b : try_fold_as F (LBool b) TBool = Some (LBool b).
Proof. destruct b; reflexivity. Qed.

(* ================= integer builtins ================= *)
Notation tfm := (try_fold_scalar_math F).

Lemma fold_abs_i32 a : in32 a -> tfm MAbs [LI32 a] = Some (LI32 (abs_i32 a)).
Proof.
  intros Ha. unfold try_fold_scalar_math, is_integer_literal, fold_abs_int, make_int_literal, literal_to_i64, abs_i32.
  destruct (Z.ltb_spec (sgn a) 0).
  - unfold neg64, neg32. rewrite to32_s64, wrap_neg_sgn. reflexivity.
  - unfold to32. rewrite wrap_sgn', wrap_id by assumption. reflexivity.
Qed.
Lemma fold_abs_u32 a : in32 a -> tfm MAbs [LU32 a] = Some (LU32 a).
Proof.
  intros Ha. unfold try_fold_scalar_math, is_integer_literal, fold_abs_int, make_int_literal, literal_to_i64.
  destruct (Z.ltb_spec a 0); [unfold in32 in Ha; lia|]. unfold to32. rewrite wrap_id by assumption. reflexivity.
Qed.
Lemma fold_sign_i32 a : in32 a -> tfm MSign [LI32 a] = Some (LI32 (sign_i32 a)).
Proof.
  intros Ha. unfold try_fold_scalar_math, is_integer_literal, fold_sign_int, make_int_literal, literal_to_i64, sign_i32.
  pose proof (sgn_zero a Ha) as Hz.
  destruct (Z.ltb_spec 0 (sgn a)); destruct (Z.ltb_spec (sgn a) 0); destruct (Z.eqb_spec a 0); try lia; try reflexivity.
Qed.

Lemma wrap_sgn_id a : in32 a -> to32 (sgn a) = a.
Proof. intros. unfold to32. apply wrap_sgn. assumption. Qed.

Lemma fold_min_i32 a b : in32 a -> in32 b -> tfm MMin [LI32 a; LI32 b] = Some (LI32 (min_i32 a b)).
Proof.
  intros Ha Hb. unfold try_fold_scalar_math, all_int, forallb, is_integer_literal. cbn [andb].
  unfold fold_min_int, make_int_literal, literal_to_i64, min_i32, lt_i32.
  destruct (sgn b <? sgn a); rewrite wrap_sgn_id by assumption; reflexivity.
Qed.
Lemma fold_max_i32 a b : in32 a -> in32 b -> tfm MMax [LI32 a; LI32 b] = Some (LI32 (max_i32 a b)).
Proof.
  intros Ha Hb. unfold try_fold_scalar_math, all_int, forallb, is_integer_literal. cbn [andb].
  unfold fold_max_int, make_int_literal, literal_to_i64, max_i32, lt_i32.
  destruct (sgn a <? sgn b); rewrite wrap_sgn_id by assumption; reflexivity.
Qed.
Lemma fold_min_u32 a b : in32 a -> in32 b -> tfm MMin [LU32 a; LU32 b] = Some (LU32 (min_u32 a b)).
Proof.
  intros Ha Hb. unfold try_fold_scalar_math, all_int, forallb, is_integer_literal. cbn [andb].
  unfold fold_min_int, make_int_literal, literal_to_i64, min_u32, lt_u32, to32.
  destruct (b <? a); rewrite wrap_id by assumption; reflexivity.
Qed.
Lemma fold_max_u32 a b : in32 a -> in32 b -> tfm MMax [LU32 a; LU32 b] = Some (LU32 (max_u32 a b)).
Proof.
  intros Ha Hb. unfold try_fold_scalar_math, all_int, forallb, is_integer_literal. cbn [andb].
  unfold fold_max_int, make_int_literal, literal_to_i64, max_u32, lt_u32, to32.
  destruct (a <? b); rewrite wrap_id by assumption; reflexivity.
Qed.

(* clamp: naga computes  e < low ? low : (e > high ? high : e)  which is min(max(e,low),high)
   exactly when low <= high *)
Lemma fold_clamp_i32 e lo hi : in32 e -> in32 lo -> in32 hi -> lt_i32 hi lo = false ->
  tfm MClamp [LI32 e; LI32 lo; LI32 hi] = Some (LI32 (clamp_i32 e lo hi)).
Proof.
  intros He Hlo Hhi Hord. unfold try_fold_scalar_math, promote3, existsb. cbn [orb].
  unfold all_int, forallb, is_integer_literal. cbn [andb].
  unfold fold_clamp_int, make_int_literal, literal_to_i64, clamp_i32, min_i32, max_i32, lt_i32 in *.
  destruct (Z.ltb_spec (sgn e) (sgn lo)); destruct (Z.ltb_spec (sgn hi) (sgn lo)); try discriminate.
  - destruct (Z.ltb_spec (sgn hi) (sgn lo)); [lia|]. rewrite wrap_sgn_id by assumption. reflexivity.
  - destruct (Z.ltb_spec (sgn hi) (sgn e)); rewrite wrap_sgn_id by assumption; reflexivity.
Qed.
Lemma fold_clamp_u32 e lo hi : in32 e -> in32 lo -> in32 hi -> lt_u32 hi lo = false ->
  tfm MClamp [LU32 e; LU32 lo; LU32 hi] = Some (LU32 (clamp_u32 e lo hi)).
Proof.
  intros He Hlo Hhi Hord. unfold try_fold_scalar_math, promote3, existsb. cbn [orb].
  unfold all_int, forallb, is_integer_literal. cbn [andb].
  unfold fold_clamp_int, make_int_literal, literal_to_i64, clamp_u32, min_u32, max_u32, lt_u32, to32 in *.
  destruct (Z.ltb_spec e lo); destruct (Z.ltb_spec hi lo); try discriminate.
  - destruct (Z.ltb_spec hi lo); [lia|]. rewrite wrap_id by assumption. reflexivity.
  - destruct (Z.ltb_spec hi e); rewrite wrap_id by assumption; reflexivity.
Qed.

End Proofs.
