(* The module-scope evaluator (ModEvalModel.eval_constant_int) computes in int64 and never
   wraps intermediate results to 32 bits.  Theorem: on every tree over concrete i32/u32
   literals, IF every intermediate result stays inside the range of its 32-bit type
   (eval_exact) and WGSL defines the value, the evaluator's result is that value.
   Without the side condition the statement is false (Props/C06.v, refutations). *)
From Coq Require Import ZArith Bool List Lia.
From Coq Require Import ZifyBool.
Import ListNotations.
Require Import Naga.Base.Bits32 Naga.Fold.GoArith Naga.Fold.FoldArith Naga.Fold.FoldModel Naga.Fold.FoldProofs
               Naga.Fold.FoldTree Naga.Fold.ModEvalModel Naga.Fold.WgslConst.
Open Scope Z_scope.
Ltac Zify.zify_post_hook ::= Z.to_euclidean_division_equations.

Section ModProofs.
Variable F : float_ops.
Ltac inv H := inversion H; subst; clear H.

(* the evaluator's (kind, int64) pair stands for the WGSL value *)
Definition rep (x : wval) (k : mkind) (v : Z) : Prop :=
  match x with
  | VI32 b => k = KSint /\ v = sgn b /\ in32 b
  | VU32 b => k = KUint /\ v = b /\ in32 b
  | _ => False
  end.

Lemma sgn_wrap v : - H32 <= v < H32 -> sgn (wrap v) = v.
Proof. unfold sgn, wrap, M32, H32. intros H. destruct (Z.ltb_spec (v mod 4294967296) 2147483648); lia. Qed.

Lemma fits_sint v : fits KSint v = true -> - H32 <= v < H32.
Proof. unfold fits. intros H. apply andb_prop in H. destruct H as [H1 H2]. apply Z.leb_le in H1. apply Z.ltb_lt in H2. lia. Qed.
Lemma fits_uint v : fits KUint v = true -> in32 v.
Proof. unfold fits, in32. intros H. apply andb_prop in H. destruct H as [H1 H2]. apply Z.leb_le in H1. apply Z.ltb_lt in H2. lia. Qed.

(* mod_binop is the integer switch of the function-scope folder restricted to the arithmetic operators *)
Lemma mod_binop_int_binop op a b v : mod_binop op a b = Some v -> int_binop op a b = Some (IInt v).
Proof.
  destruct op; cbn [mod_binop int_binop]; intros H; try discriminate; try (inv H; reflexivity).
  - destruct (b =? 0); [discriminate|]. rewrite H. reflexivity.
  - destruct (b =? 0); [discriminate|]. rewrite H. reflexivity.
Qed.

Lemma rep_lit_i64 x k v : rep x k v -> literal_to_i64 (lit_of_wval x) = v /\ wf_val x.
Proof. destruct x; cbn; try tauto; intros [_ [-> H]]; auto. Qed.

Definition kind_join (ka kb : mkind) : mkind := match ka, kb with KUint, KUint => KUint | _, _ => KSint end.

Lemma binary_rep op x y w ka va kb vb v :
  rep x ka va -> rep y kb vb -> wgsl_binary op x y = Ok w -> mod_binop op va vb = Some v ->
  fits (kind_join ka kb) v = true -> rep w (kind_join ka kb) v.
Proof.
  intros Rx Ry Hw Hm Hfit.
  destruct (rep_lit_i64 _ _ _ Rx) as [Lx Wx]. destruct (rep_lit_i64 _ _ _ Ry) as [Ly Wy].
  destruct (binary_sound F op x y w Wx Wy Hw) as [Ww Hfold].
  apply mod_binop_int_binop in Hm.
  assert (Hint : is_integer_literal (lit_of_wval x) && is_integer_literal (lit_of_wval y) = true)
    by (destruct x; try contradiction; destruct y; try contradiction; reflexivity).
  specialize (Hfold (make_int_literal (lit_of_wval x) v)).
  unfold try_fold_binary_op, int_branch in Hfold. rewrite Hint, Lx, Ly, Hm in Hfold. specialize (Hfold eq_refl).
  destruct x as [a|a| |]; try contradiction; destruct y as [b|b| |]; try contradiction;
    cbn [rep] in Rx, Ry; destruct Rx as [-> [-> Ha]]; destruct Ry as [-> [-> Hb]];
    cbn [kind_join] in *; cbn [lit_of_wval make_int_literal] in Hfold;
    destruct w as [r|r|r|r]; try discriminate Hfold; injection Hfold as <-; cbn [rep].
  - split; [reflexivity|]. split; [|apply wrap_in32]. symmetry. apply sgn_wrap. apply fits_sint. assumption.
  - split; [reflexivity|]. split; [|apply wrap_in32]. symmetry. apply sgn_wrap. apply fits_sint. assumption.
  - (* u32 op i32 has no overload *)
    exfalso. unfold wgsl_binary in Hw. destruct op; cbn [is_shift] in Hw; discriminate.
  - split; [reflexivity|]. split; [|apply wrap_in32]. symmetry. apply wrap_id. apply fits_uint. assumption.
Qed.

(* the fragment evalConstantIntExpr handles, with concrete leaves *)
Fixpoint mod_tree (e : cexpr) : bool :=
  match e with
  | CLit (LI32 _ | LU32 _) => true
  | CUn (UNeg | UBNot) a => mod_tree a
  | CBin _ a b => mod_tree a && mod_tree b
  | CAs (TI32 | TU32) a => mod_tree a
  | _ => false
  end.

Lemma fits_split (c r : bool) : c && r = true -> c = true /\ r = true.
Proof. apply andb_prop. Qed.

Definition sound_int (e : cexpr) : Prop :=
  forall x k v, mod_tree e = true -> wgsl_eval e = Ok x -> eval_constant_int e = Some (k, v) -> eval_exact e = true -> rep x k v.

Lemma exact_inv e k v : eval_constant_int e = Some (k, v) -> eval_exact e = true ->
  fits k v = true /\ match e with
                     | CUn _ a | CAs _ a => eval_exact a = true
                     | CBin _ a b => eval_exact a = true /\ eval_exact b = true
                     | _ => True
                     end.
Proof.
  intros He Hex. destruct e; cbn [eval_exact] in Hex; rewrite He in Hex; apply andb_prop in Hex; destruct Hex as [H1 H2];
    (split; [exact H1|]); try exact I; try exact H2. apply andb_prop in H2. exact H2.
Qed.

Lemma sound_lit l : sound_int (CLit l).
Proof.
  intros x k v Ht Hx He _. destruct l; try discriminate Ht; cbn [wgsl_eval wgsl_literal] in Hx;
    cbn [eval_constant_int eval_literal_as_int] in He; injection He as <- <-.
  - destruct (Z.leb_spec 0 b); destruct (Z.ltb_spec b H32); cbn [andb] in Hx; try discriminate Hx. injection Hx as <-.
    cbn [rep]. split; [reflexivity|]. split; [|unfold in32, M32, H32 in *; lia].
    unfold sgn. destruct (Z.ltb_spec b H32); [reflexivity | lia].
  - unfold in_u32_range in Hx. destruct (Z.leb_spec 0 b); destruct (Z.ltb_spec b M32); cbn [andb] in Hx; try discriminate Hx. injection Hx as <-.
    cbn [rep]. split; [reflexivity|]. split; [reflexivity | unfold in32; lia].
Qed.

Lemma sound_neg a : sound_int a -> sound_int (CUn UNeg a).
Proof.
  intros IHa x k v Ht Hx He Hex. destruct (exact_inv _ _ _ He Hex) as [Hfit Hexa].
  cbn [wgsl_eval] in Hx. apply bind_ok in Hx. destruct Hx as [y [Hy Hu]].
  cbn [mod_tree] in Ht. cbn [eval_constant_int] in He.
  destruct (eval_constant_int a) as [[ka va]|] eqn:Ea; try discriminate He. injection He as <- <-.
  specialize (IHa y ka va Ht Hy Ea Hexa).
  destruct y as [b|b| |]; try contradiction; cbn [rep] in IHa; destruct IHa as [-> [-> Hb]]; cbn [wgsl_unary] in Hu; try discriminate Hu.
  injection Hu as <-. cbn [rep]. split; [reflexivity|]. split; [|apply neg32_in].
  pose proof (sgn_range b Hb) as Hs. unfold H32 in Hs.
  assert (E : neg64 (sgn b) = - sgn b) by (unfold neg64; apply s64_id; unfold in_s64, H64; lia).
  rewrite E in *. unfold neg32. rewrite <- wrap_neg_sgn. symmetry. apply sgn_wrap. apply fits_sint. assumption.
Qed.

Lemma sound_bnot a : sound_int a -> sound_int (CUn UBNot a).
Proof.
  intros IHa x k v Ht Hx He Hex. destruct (exact_inv _ _ _ He Hex) as [Hfit Hexa].
  cbn [wgsl_eval] in Hx. apply bind_ok in Hx. destruct Hx as [y [Hy Hu]].
  cbn [mod_tree] in Ht. cbn [eval_constant_int] in He.
  destruct (eval_constant_int a) as [[ka va]|] eqn:Ea; try discriminate He. injection He as <- <-.
  specialize (IHa y ka va Ht Hy Ea Hexa).
  destruct y as [b|b| |]; try contradiction; cbn [rep] in IHa; destruct IHa as [-> [-> Hb]]; cbn [wgsl_unary] in Hu; injection Hu as <-; cbn [rep].
  - split; [reflexivity|]. split; [|apply not32_in; assumption].
    rewrite <- (not_sgn b Hb). symmetry. apply sgn_wrap. apply fits_sint. assumption.
  - exfalso. apply fits_uint in Hfit. unfold in32, not64 in *. lia.
Qed.

Lemma sound_bin op a b : sound_int a -> sound_int b -> sound_int (CBin op a b).
Proof.
  intros IHa IHb x k v Ht Hx He Hex. destruct (exact_inv _ _ _ He Hex) as [Hfit [Hexa Hexb]].
  cbn [mod_tree] in Ht. apply andb_prop in Ht. destruct Ht as [Hta Htb].
  cbn [eval_constant_int] in He.
  destruct (eval_constant_int a) as [[ka va]|] eqn:Ea; try discriminate He.
  destruct (eval_constant_int b) as [[kb vb]|] eqn:Eb; try discriminate He.
  destruct (mod_binop op va vb) as [v'|] eqn:Em; try discriminate He. injection He as <- <-.
  cbn [wgsl_eval] in Hx.
  destruct (is_logical op) eqn:Hlog; [destruct op; discriminate|].
  apply bind2_ok in Hx. destruct Hx as [xa [xb [Hxa [Hxb Hk]]]].
  exact (binary_rep op xa xb x ka va kb vb v' (IHa xa ka va Hta Hxa Ea Hexa) (IHb xb kb vb Htb Hxb Eb Hexb) Hk Em Hfit).
Qed.

Lemma sound_as_i32 a : sound_int a -> sound_int (CAs TI32 a).
Proof.
  intros IHa x k v Ht Hx He Hex. destruct (exact_inv _ _ _ He Hex) as [Hfit Hexa].
  cbn [wgsl_eval] in Hx. apply bind_ok in Hx. destruct Hx as [y [Hy Hc]].
  cbn [mod_tree] in Ht. cbn [eval_constant_int] in He.
  destruct (eval_constant_int a) as [[ka va]|] eqn:Ea; try discriminate He. injection He as <- <-.
  specialize (IHa y ka va Ht Hy Ea Hexa).
  destruct y as [b|b| |]; try contradiction; cbn [rep] in IHa; destruct IHa as [-> [-> Hb]];
    unfold wgsl_convert in Hc; cbn [wgsl_convert_concrete] in Hc; injection Hc as <-; cbn [rep].
  - auto.
  - split; [reflexivity|]. split; [|assumption]. unfold i32_of_u32.
    apply fits_sint in Hfit. unfold sgn. destruct (Z.ltb_spec b H32); [reflexivity | lia].
Qed.

Lemma sound_as_u32 a : sound_int a -> sound_int (CAs TU32 a).
Proof.
  intros IHa x k v Ht Hx He Hex. destruct (exact_inv _ _ _ He Hex) as [Hfit Hexa].
  cbn [wgsl_eval] in Hx. apply bind_ok in Hx. destruct Hx as [y [Hy Hc]].
  cbn [mod_tree] in Ht. cbn [eval_constant_int] in He.
  destruct (eval_constant_int a) as [[ka va]|] eqn:Ea; try discriminate He. injection He as <- <-.
  specialize (IHa y ka va Ht Hy Ea Hexa).
  destruct y as [b|b| |]; try contradiction; cbn [rep] in IHa; destruct IHa as [-> [-> Hb]];
    unfold wgsl_convert in Hc; cbn [wgsl_convert_concrete] in Hc; injection Hc as <-; cbn [rep].
  - split; [reflexivity|]. split; [|assumption]. unfold u32_of_i32.
    apply fits_uint in Hfit. revert Hfit Hb. unfold in32, sgn, M32, H32. intros Hfit Hb.
    destruct (Z.ltb_spec b 2147483648); lia.
  - auto.
Qed.

Lemma sound_as t a : sound_int a -> sound_int (CAs t a).
Proof.
  intros IHa. destruct t; try (intros x k v Ht; discriminate Ht).
  - apply sound_as_i32. exact IHa.
  - apply sound_as_u32. exact IHa.
Qed.

Theorem eval_constant_int_sound : forall e x k v,
  mod_tree e = true -> wgsl_eval e = Ok x -> eval_constant_int e = Some (k, v) -> eval_exact e = true -> rep x k v.
Proof.
  induction e as [l | op a IHa | op a IHa b IHb | t a IHa | | | | ]; try (intros x k v Ht; discriminate Ht).
  - apply sound_lit.
  - destruct op; [apply sound_neg; exact IHa | intros x k v Ht; discriminate Ht | apply sound_bnot; exact IHa].
  - apply sound_bin; assumption.
  - apply sound_as; assumption.
Qed.

(* the literal the module constant gets *)
Lemma rep_literal x k v : rep x k v -> literal_of_sv k (u64 v) = lit_of_wval x.
Proof.
  destruct x as [b|b| |]; cbn [rep]; try contradiction; intros [-> [-> Hb]]; cbn [literal_of_sv lit_of_wval]; f_equal.
  - unfold to32, u64. transitivity (wrap (sgn b)); [unfold wrap, W64, M32; lia | apply wrap_sgn; assumption].
  - unfold to32, u64, in32, wrap, W64, M32 in *. lia.
Qed.

(* `const N = e;` with e a binary expression over concrete literals *)
Theorem mod_const_binary_sound : forall e m w,
  mod_tree e = true -> eval_exact e = true -> wgsl_eval e = Ok w ->
  mod_const_binary None e = Some m -> m.(mc_lit) = lit_of_wval w.
Proof.
  intros e m w Ht Hex Hw Hm. unfold mod_const_binary in Hm.
  destruct (eval_constant_int e) as [[k v]|] eqn:Ee; try discriminate.
  destruct e; try discriminate. cbn [coerce_kind] in Hm. inv Hm. cbn [mc_lit mk_mconst].
  apply rep_literal. eapply eval_constant_int_sound; eassumption.
Qed.

(* switch case selectors *)
Theorem mod_switch_value_sound : forall e l w,
  mod_tree e = true -> eval_exact e = true -> wgsl_eval e = Ok w ->
  mod_switch_value e = Some l -> l = lit_of_wval w.
Proof.
  intros e l w Ht Hex Hw Hm. unfold mod_switch_value in Hm.
  destruct (eval_constant_int e) as [[k v]|] eqn:Ee; try discriminate.
  pose proof (eval_constant_int_sound e w k v Ht Hw Ee Hex) as R.
  pose proof (rep_literal _ _ _ R) as RL.
  destruct w as [b|b| |]; cbn [rep] in R; try contradiction; destruct R as [-> [-> Hb]]; inv Hm; cbn [lit_of_wval]; f_equal.
  - unfold to32. apply wrap_sgn. assumption.
  - unfold to32. apply wrap_id. assumption.
Qed.

(* array sizes: the evaluated size is the WGSL value when that value is a positive 32-bit count *)
Theorem mod_array_size_sound : forall e w n,
  mod_tree e = true -> eval_exact e = true -> wgsl_eval e = Ok w ->
  mod_array_size e = ASize n -> n = payload w.
Proof.
  intros e w n Ht Hex Hw Hm. unfold mod_array_size in Hm.
  destruct (eval_constant_int e) as [[k v]|] eqn:Ee; try discriminate.
  pose proof (eval_constant_int_sound e w k v Ht Hw Ee Hex) as R.
  destruct (v <=? 0); [discriminate|]. inv Hm.
  destruct w as [b|b| |]; cbn [rep] in R; try contradiction; destruct R as [-> [-> Hb]]; cbn [payload].
  - unfold to32. apply wrap_sgn. assumption.
  - unfold to32. apply wrap_id. assumption.
Qed.

End ModProofs.
