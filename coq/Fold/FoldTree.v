(* The tree-level theorem: for every const-expression tree over concrete i32/u32/bool
   literals built from all operators, the value constructors and the integer builtins,
   IF WGSL defines its value (WgslConst.wgsl_eval = Ok w: no shader-creation error) and
   naga's function-scope folder replaces it by a literal (FoldModel.fold_expr = Some v),
   THEN that literal is exactly w -- and w is what the same expression yields at run
   time (WgslConst.rt_eval).  All operand values, all tree shapes. *)
From Coq Require Import ZArith Bool List Lia.
Import ListNotations.
Require Import Naga.Base.Bits32 Naga.Fold.GoArith Naga.Fold.FoldArith Naga.Fold.FoldModel
               Naga.Fold.FoldProofs Naga.Fold.FoldBits Naga.Fold.WgslConst.
Open Scope Z_scope.

(* well-formed concrete values: 32-bit patterns *)
Definition wf_val (w : wval) : Prop :=
  match w with VI32 b | VU32 b => in32 b | VBool _ => True | VAI _ => False end.

Definition int_math (f : mathfn) : bool :=
  match f with
  | MAbs | MMin | MMax | MClamp | MSign | MCountTrailingZeros | MCountLeadingZeros | MCountOneBits
  | MReverseBits | MFirstTrailingBit | MFirstLeadingBit => true
  | _ => false
  end.

(* the fragment: concrete leaves, integer/bool operations only *)
Fixpoint concrete_tree (e : cexpr) : bool :=
  match e with
  | CLit (LI32 _ | LU32 _ | LBool _) => true
  | CLit _ => false
  | CUn _ a => concrete_tree a
  | CBin _ a b => concrete_tree a && concrete_tree b
  | CAs (TI32 | TU32 | TBool) a => concrete_tree a
  | CAs _ _ => false
  | CMath1 f a => int_math f && concrete_tree a
  | CMath2 f a b => int_math f && concrete_tree a && concrete_tree b
  | CMath3 f a b c => int_math f && concrete_tree a && concrete_tree b && concrete_tree c
  | CSelect a b c => concrete_tree a && concrete_tree b && concrete_tree c
  end.

Section Tree.
Variable F : float_ops.

Ltac inv H := inversion H; subst; clear H.

(* ---------------- results of the run-time operations are 32-bit patterns ---------------- *)
Lemma shl32_in a n : in32 (shl32 a n). Proof. apply wrap_in32. Qed.
Lemma shr_i32_in a n : in32 (shr_i32 a n). Proof. apply wrap_in32. Qed.
Lemma shr_u32_in a n : in32 a -> in32 (shr_u32 a n).
Proof. intros. apply shr_u_range; [assumption|]. apply Z.mod_pos_bound. lia. Qed.
Lemma abs_i32_in a : in32 a -> in32 (abs_i32 a).
Proof. intros. unfold abs_i32. destruct (sgn a <? 0); [apply neg32_in | assumption]. Qed.
Lemma sign_i32_in a : in32 (sign_i32 a).
Proof. unfold sign_i32, in32, ALL_ONES, M32. destruct (sgn a <? 0); [lia|]. destruct (a =? 0); lia. Qed.
Lemma min_i32_in a b : in32 a -> in32 b -> in32 (min_i32 a b).
Proof. intros. unfold min_i32. destruct (lt_i32 b a); assumption. Qed.
Lemma max_i32_in a b : in32 a -> in32 b -> in32 (max_i32 a b).
Proof. intros. unfold max_i32. destruct (lt_i32 a b); assumption. Qed.
Lemma min_u32_in a b : in32 a -> in32 b -> in32 (min_u32 a b).
Proof. intros. unfold min_u32. destruct (lt_u32 b a); assumption. Qed.
Lemma max_u32_in a b : in32 a -> in32 b -> in32 (max_u32 a b).
Proof. intros. unfold max_u32. destruct (lt_u32 a b); assumption. Qed.
Lemma first_trailing_bit_in a : in32 (first_trailing_bit a).
Proof. unfold first_trailing_bit. destruct (a =? 0); [unfold in32, ALL_ONES, M32; lia | apply count_trailing_zeros_in]. Qed.
Lemma first_leading_bit_u32_in a : in32 a -> in32 (first_leading_bit_u32 a).
Proof.
  intros Ha. unfold first_leading_bit_u32. destruct (Z.eqb_spec a 0); [unfold in32, ALL_ONES, M32; lia|].
  pose proof (clz_lt32 a Ha n). pose proof (count_leading_zeros_range a). unfold in32, M32. lia.
Qed.
Lemma first_leading_bit_i32_in a : in32 a -> in32 (first_leading_bit_i32 a).
Proof.
  intros Ha. unfold first_leading_bit_i32.
  destruct (Z.eqb_spec a 0) as [E0|E0]; cbn [orb]; [unfold in32, ALL_ONES, M32; lia|].
  destruct (Z.eqb_spec a ALL_ONES) as [E1|E1]; [unfold in32, ALL_ONES, M32; lia|].
  destruct (sgn a <? 0).
  - assert (Hn : in32 (not32 a)) by (apply not32_in; assumption).
    assert (Hnz : not32 a <> 0) by (unfold in32, not32, ALL_ONES, M32 in *; lia).
    pose proof (clz_lt32 _ Hn Hnz). pose proof (count_leading_zeros_range (not32 a)). unfold in32, M32. lia.
  - pose proof (clz_lt32 a Ha E0). pose proof (count_leading_zeros_range a). unfold in32, M32. lia.
Qed.

Local Hint Resolve add32_in sub32_in mul32_in neg32_in not32_in div_i32_in rem_i32_in div_u32_in rem_u32_in
  and32_in or32_in xor32_in shl32_in shr_i32_in shr_u32_in abs_i32_in sign_i32_in min_i32_in max_i32_in
  min_u32_in max_u32_in count_one_bits_in count_leading_zeros_in count_trailing_zeros_in reverse_bits_in
  first_trailing_bit_in first_leading_bit_u32_in first_leading_bit_i32_in : in32db.

(* ---------------- binary operators ---------------- *)
(* on concrete operands the AST fast path and the general path are the same function *)
Lemma general_concrete op l r :
  is_abstract l = false -> is_abstract r = false ->
  lower_binary_general F op l r = try_fold_binary_op F op l r.
Proof.
  intros Hl Hr. unfold lower_binary_general, concretize_binary_operands, concretize_shift_right. rewrite Hl, Hr.
  destruct (is_shift op); [|reflexivity]. destruct r; try reflexivity. discriminate.
Qed.

Definition plain (l : lit) : Prop := match l with LI32 _ | LU32 _ | LBool _ => True | _ => False end.

Lemma ast_concrete op l r : plain l -> plain r ->
  try_fold_ast_binary F op l r = try_fold_binary_op F op l r.
Proof.
  intros Hl Hr. destruct l; try contradiction; destruct r; try contradiction; reflexivity.
Qed.

Lemma plain_of_wf w : wf_val w -> plain (lit_of_wval w).
Proof. destruct w; cbn; tauto. Qed.
Lemma plain_not_abstract l : plain l -> is_abstract l = false.
Proof. destruct l; cbn; tauto. Qed.

Lemma binary_sound op x y w :
  wf_val x -> wf_val y -> wgsl_binary op x y = Ok w ->
  wf_val w /\ forall v, try_fold_binary_op F op (lit_of_wval x) (lit_of_wval y) = Some v -> v = lit_of_wval w.
Proof.
  intros Hx Hy Hw. unfold wgsl_binary in Hw.
  destruct x as [a|a|a|a]; try contradiction; destruct y as [b|b|b|b]; try contradiction; cbn [wf_val lit_of_wval] in *.
  - (* i32, i32 *)
    destruct op; cbn [is_shift] in Hw; try discriminate;
      unfold wgsl_binary_i32, rt_arith_i32, rt_cmp_i32 in Hw.
    + inv Hw. split; [cbn; auto with in32db|]. intros v. rewrite fold_add_i32. intros E; inv E. reflexivity.
    + inv Hw. split; [cbn; auto with in32db|]. intros v. rewrite fold_sub_i32. intros E; inv E. reflexivity.
    + inv Hw. split; [cbn; auto with in32db|]. intros v. rewrite fold_mul_i32. intros E; inv E. reflexivity.
    + destruct (div_err_i32 a b) eqn:Ed; [discriminate|]. inv Hw. split; [cbn; auto with in32db|].
      intros v. rewrite fold_div_i32 by assumption. destruct (b =? 0); [discriminate|]. intros E; inv E. reflexivity.
    + destruct (div_err_i32 a b) eqn:Ed; [discriminate|]. inv Hw. split; [cbn; auto with in32db|].
      intros v. rewrite fold_mod_i32 by assumption. destruct (b =? 0); [discriminate|]. intros E; inv E. reflexivity.
    + inv Hw. split; [cbn; auto with in32db|]. intros v. rewrite fold_and_i32 by assumption. intros E; inv E. reflexivity.
    + inv Hw. split; [cbn; auto with in32db|]. intros v. rewrite fold_or_i32 by assumption. intros E; inv E. reflexivity.
    + inv Hw. split; [cbn; auto with in32db|]. intros v. rewrite fold_xor_i32 by assumption. intros E; inv E. reflexivity.
    + inv Hw. split; [exact I|]. intros v. rewrite fold_eq_i32 by assumption. intros E; inv E. reflexivity.
    + inv Hw. split; [exact I|]. intros v. rewrite fold_ne_i32 by assumption. intros E; inv E. reflexivity.
    + inv Hw. split; [exact I|]. intros v. rewrite fold_lt_i32. intros E; inv E. reflexivity.
    + inv Hw. split; [exact I|]. intros v. rewrite fold_le_i32. intros E; inv E. reflexivity.
    + inv Hw. split; [exact I|]. intros v. rewrite fold_gt_i32. intros E; inv E. reflexivity.
    + inv Hw. split; [exact I|]. intros v. rewrite fold_ge_i32. intros E; inv E. reflexivity.
  - (* i32 shifted by u32 *)
    destruct op; cbn [is_shift] in Hw; try discriminate; unfold wgsl_shift in Hw;
      destruct (Z.leb_spec 32 b); try discriminate.
    + destruct (shl_overflow_i32 a b); [discriminate|]. inv Hw. split; [cbn; auto with in32db|].
      intros v. rewrite fold_shl_i32 by (assumption || lia). intros E; inv E. reflexivity.
    + inv Hw. split; [cbn; auto with in32db|].
      intros v. rewrite fold_shr_i32 by (assumption || lia). intros E; inv E. reflexivity.
  - (* i32, bool: no overload *)
    destruct op; cbn [is_shift wgsl_shift] in Hw; discriminate.
  - (* u32, i32: no overload *)
    destruct op; cbn [is_shift wgsl_shift] in Hw; discriminate.
  - (* u32, u32 *)
    destruct op; cbn [is_shift] in Hw; try discriminate;
      unfold wgsl_binary_u32, rt_arith_u32, rt_cmp_u32, wgsl_shift in Hw.
    + inv Hw. split; [cbn; auto with in32db|]. intros v. rewrite fold_add_u32. intros E; inv E. reflexivity.
    + inv Hw. split; [cbn; auto with in32db|]. intros v. rewrite fold_sub_u32. intros E; inv E. reflexivity.
    + inv Hw. split; [cbn; auto with in32db|]. intros v. rewrite fold_mul_u32. intros E; inv E. reflexivity.
    + destruct (div_err_u32 b) eqn:Ed; [discriminate|]. inv Hw. split; [cbn; auto with in32db|].
      intros v. rewrite fold_div_u32 by assumption. destruct (b =? 0); [discriminate|]. intros E; inv E. reflexivity.
    + destruct (div_err_u32 b) eqn:Ed; [discriminate|]. inv Hw. split; [cbn; auto with in32db|].
      intros v. rewrite fold_mod_u32 by assumption. destruct (b =? 0); [discriminate|]. intros E; inv E. reflexivity.
    + inv Hw. split; [cbn; auto with in32db|]. intros v. rewrite fold_and_u32 by assumption. intros E; inv E. reflexivity.
    + inv Hw. split; [cbn; auto with in32db|]. intros v. rewrite fold_or_u32 by assumption. intros E; inv E. reflexivity.
    + inv Hw. split; [cbn; auto with in32db|]. intros v. rewrite fold_xor_u32 by assumption. intros E; inv E. reflexivity.
    + destruct (Z.leb_spec 32 b); [discriminate|]. destruct (shl_overflow_u32 a b); [discriminate|]. inv Hw.
      split; [cbn; auto with in32db|]. intros v. rewrite fold_shl_u32 by (assumption || lia). intros E; inv E. reflexivity.
    + destruct (Z.leb_spec 32 b); [discriminate|]. inv Hw.
      split; [cbn; auto with in32db|]. intros v. rewrite fold_shr_u32 by (assumption || lia). intros E; inv E. reflexivity.
    + inv Hw. split; [exact I|]. intros v. rewrite fold_eq_u32. intros E; inv E. reflexivity.
    + inv Hw. split; [exact I|]. intros v. rewrite fold_ne_u32. intros E; inv E. reflexivity.
    + inv Hw. split; [exact I|]. intros v. rewrite fold_lt_u32. intros E; inv E. reflexivity.
    + inv Hw. split; [exact I|]. intros v. rewrite fold_le_u32. intros E; inv E. reflexivity.
    + inv Hw. split; [exact I|]. intros v. rewrite fold_gt_u32. intros E; inv E. reflexivity.
    + inv Hw. split; [exact I|]. intros v. rewrite fold_ge_u32. intros E; inv E. reflexivity.
  - (* u32, bool *)
    destruct op; cbn [is_shift wgsl_shift] in Hw; discriminate.
  - (* bool, i32 *)
    destruct op; cbn [is_shift wgsl_shift] in Hw; discriminate.
  - (* bool, u32 *)
    destruct op; cbn [is_shift wgsl_shift] in Hw; discriminate.
  - (* bool, bool *)
    destruct op; cbn [is_shift] in Hw; try discriminate; unfold wgsl_binary_bool in Hw; inv Hw;
      (split; [exact I|]); intros v; rewrite fold_bool; cbn [bool_binop]; intros E; inv E; reflexivity.
Qed.

(* ---------------- unary, conversions ---------------- *)
Lemma unary_sound op x w :
  wf_val x -> wgsl_unary op x = Ok w ->
  wf_val w /\ forall v, try_fold_unary_op F op (lit_of_wval x) = Some v -> v = lit_of_wval w.
Proof.
  intros Hx Hw. destruct x as [a|a|a|a]; try contradiction; destruct op; cbn in Hw; try discriminate; inv Hw; cbn [wf_val lit_of_wval] in *.
  - split; [auto with in32db|]. intros v. rewrite fold_neg_i32. intros E; inv E. reflexivity.
  - split; [auto with in32db|]. intros v. rewrite fold_bnot_i32 by assumption. intros E; inv E. reflexivity.
  - split; [auto with in32db|]. intros v. rewrite fold_bnot_u32 by assumption. intros E; inv E. reflexivity.
  - split; [exact I|]. intros v. rewrite fold_lnot. intros E; inv E. reflexivity.
Qed.

Lemma convert_sound t x w :
  wf_val x -> wgsl_convert t x = Ok w ->
  wf_val w /\ forall v, try_fold_as F (lit_of_wval x) t = Some v -> v = lit_of_wval w.
Proof.
  intros Hx Hw. destruct x as [a|a|a|a]; try contradiction; unfold wgsl_convert in Hw;
    destruct t; cbn in Hw; try discriminate; inv Hw; cbn [wf_val lit_of_wval] in *.
  - split; [assumption|]. intros v. rewrite fold_as_i32_of_i32 by assumption. intros E; inv E. reflexivity.
  - split; [assumption|]. intros v. rewrite fold_as_u32_of_i32 by assumption. intros E; inv E. reflexivity.
  - split; [exact I|]. intros v. rewrite fold_as_bool_of_i32 by assumption. intros E; inv E. reflexivity.
  - split; [assumption|]. intros v. rewrite fold_as_i32_of_u32 by assumption. intros E; inv E. reflexivity.
  - split; [assumption|]. intros v. rewrite fold_as_u32_of_u32 by assumption. intros E; inv E. reflexivity.
  - split; [exact I|]. intros v. rewrite fold_as_bool_of_u32. intros E; inv E. reflexivity.
  - split; [destruct a; unfold in32, u32_of_bool, M32; lia|]. intros v. rewrite (fold_as_of_bool F a TI32) by auto. intros E; inv E. reflexivity.
  - split; [destruct a; unfold in32, u32_of_bool, M32; lia|]. intros v. rewrite (fold_as_of_bool F a TU32) by auto. intros E; inv E. reflexivity.
  - split; [exact I|]. intros v. rewrite fold_as_bool_of_bool. intros E; inv E. reflexivity.
Qed.

End Tree.
