(* The tree-level theorem: for every const-expression tree over concrete i32/u32/bool
   literals built from all operators, the value constructors and the integer builtins,
   IF WGSL defines its value (WgslConst.wgsl_eval = Ok w: no shader-creation error) and
   naga's function-scope folder replaces it by a literal (FoldModel.fold_expr = Some v),
   THEN that literal is exactly w -- and w is what the same expression yields at run
   time (WgslConst.rt_eval).  All operand values, all tree shapes. *)
From Coq Require Import ZArith Bool List Lia.
Import ListNotations.
Require Import Naga.Base.Bits32 Naga.Fold.GoArith Naga.Fold.FoldArith Naga.Fold.FoldModel
               Naga.Fold.FoldProofs Naga.Fold.FoldBits Naga.Fold.WgslConst.
Open Scope Z_scope.

(* well-formed concrete values: 32-bit patterns *)
Definition wf_val (w : wval) : Prop :=
  match w with VI32 b | VU32 b => in32 b | VBool _ => True | VAI _ => False end.

Definition int_math (f : mathfn) : bool :=
  match f with
  | MAbs | MMin | MMax | MClamp | MSign | MCountTrailingZeros | MCountLeadingZeros | MCountOneBits
  | MReverseBits | MFirstTrailingBit | MFirstLeadingBit => true
  | _ => false
  end.

(* the fragment: concrete leaves, integer/bool operations only *)
Fixpoint concrete_tree (e : cexpr) : bool :=
  match e with
  | CLit (LI32 _ | LU32 _ | LBool _) => true
  | CLit _ => false
  | CUn _ a => concrete_tree a
  | CBin _ a b => concrete_tree a && concrete_tree b
  | CAs (TI32 | TU32 | TBool) a => concrete_tree a
  | CAs _ _ => false
  | CMath1 f a => int_math f && concrete_tree a
  | CMath2 f a b => int_math f && concrete_tree a && concrete_tree b
  | CMath3 f a b c => int_math f && concrete_tree a && concrete_tree b && concrete_tree c
  | CSelect a b c => concrete_tree a && concrete_tree b && concrete_tree c
  end.

Section Tree.
Variable F : float_ops.

Ltac inv H := inversion H; subst; clear H.

(* ---------------- results of the run-time operations are 32-bit patterns ---------------- *)
Lemma shl32_in a n : in32 (shl32 a n). Proof. apply wrap_in32. Qed.
Lemma shr_i32_in a n : in32 (shr_i32 a n). Proof. apply wrap_in32. Qed.
Lemma shr_u32_in a n : in32 a -> in32 (shr_u32 a n).
Proof. intros. apply shr_u_range; [assumption|]. apply Z.mod_pos_bound. lia. Qed.
Lemma abs_i32_in a : in32 a -> in32 (abs_i32 a).
Proof. intros. unfold abs_i32. destruct (sgn a <? 0); [apply neg32_in | assumption]. Qed.
Lemma sign_i32_in a : in32 (sign_i32 a).
Proof. unfold sign_i32, in32, ALL_ONES, M32. destruct (sgn a <? 0); [lia|]. destruct (a =? 0); lia. Qed.
Lemma min_i32_in a b : in32 a -> in32 b -> in32 (min_i32 a b).
Proof. intros. unfold min_i32. destruct (lt_i32 b a); assumption. Qed.
Lemma max_i32_in a b : in32 a -> in32 b -> in32 (max_i32 a b).
Proof. intros. unfold max_i32. destruct (lt_i32 a b); assumption. Qed.
Lemma min_u32_in a b : in32 a -> in32 b -> in32 (min_u32 a b).
Proof. intros. unfold min_u32. destruct (lt_u32 b a); assumption. Qed.
Lemma max_u32_in a b : in32 a -> in32 b -> in32 (max_u32 a b).
Proof. intros. unfold max_u32. destruct (lt_u32 a b); assumption. Qed.
Lemma first_trailing_bit_in a : in32 (first_trailing_bit a).
Proof. unfold first_trailing_bit. destruct (a =? 0); [unfold in32, ALL_ONES, M32; lia | apply count_trailing_zeros_in]. Qed.
Lemma first_leading_bit_u32_in a : in32 a -> in32 (first_leading_bit_u32 a).
Proof.
  intros Ha. unfold first_leading_bit_u32. destruct (Z.eqb_spec a 0); [unfold in32, ALL_ONES, M32; lia|].
  pose proof (clz_lt32 a Ha n). pose proof (count_leading_zeros_range a). unfold in32, M32. lia.
Qed.
Lemma first_leading_bit_i32_in a : in32 a -> in32 (first_leading_bit_i32 a).
Proof.
  intros Ha. unfold first_leading_bit_i32.
  destruct (Z.eqb_spec a 0) as [E0|E0]; cbn [orb]; [unfold in32, ALL_ONES, M32; lia|].
  destruct (Z.eqb_spec a ALL_ONES) as [E1|E1]; [unfold in32, ALL_ONES, M32; lia|].
  destruct (sgn a <? 0).
  - assert (Hn : in32 (not32 a)) by (apply not32_in; assumption).
    assert (Hnz : not32 a <> 0) by (unfold in32, not32, ALL_ONES, M32 in *; lia).
    pose proof (clz_lt32 _ Hn Hnz). pose proof (count_leading_zeros_range (not32 a)). unfold in32, M32. lia.
  - pose proof (clz_lt32 a Ha E0). pose proof (count_leading_zeros_range a). unfold in32, M32. lia.
Qed.

Local Hint Resolve add32_in sub32_in mul32_in neg32_in not32_in div_i32_in rem_i32_in div_u32_in rem_u32_in
  and32_in or32_in xor32_in shl32_in shr_i32_in shr_u32_in abs_i32_in sign_i32_in min_i32_in max_i32_in
  min_u32_in max_u32_in count_one_bits_in count_leading_zeros_in count_trailing_zeros_in reverse_bits_in
  first_trailing_bit_in first_leading_bit_u32_in first_leading_bit_i32_in : in32db.

(* ---------------- binary operators ---------------- *)
(* on concrete operands the AST fast path and the general path are the same function *)
Lemma general_concrete op l r :
  is_abstract l = false -> is_abstract r = false ->
  lower_binary_general F op l r = try_fold_binary_op F op l r.
Proof.
  intros Hl Hr. unfold lower_binary_general, concretize_binary_operands, concretize_shift_right. rewrite Hl, Hr.
  destruct (is_shift op); [|reflexivity]. destruct r; try reflexivity. discriminate.
Qed.

Definition plain (l : lit) : Prop := match l with LI32 _ | LU32 _ | LBool _ => True | _ => False end.

Lemma ast_concrete op l r : plain l -> plain r ->
  try_fold_ast_binary F op l r = try_fold_binary_op F op l r.
Proof.
  intros Hl Hr. destruct l; try contradiction; destruct r; try contradiction; reflexivity.
Qed.

Lemma plain_of_wf w : wf_val w -> plain (lit_of_wval w).
Proof. destruct w; cbn; tauto. Qed.
Lemma plain_not_abstract l : plain l -> is_abstract l = false.
Proof. destruct l; cbn; tauto. Qed.

Lemma binary_sound op x y w :
  wf_val x -> wf_val y -> wgsl_binary op x y = Ok w ->
  wf_val w /\ forall v, try_fold_binary_op F op (lit_of_wval x) (lit_of_wval y) = Some v -> v = lit_of_wval w.
Proof.
  intros Hx Hy Hw. unfold wgsl_binary in Hw.
  destruct x as [a|a|a|a]; try contradiction; destruct y as [b|b|b|b]; try contradiction; cbn [wf_val lit_of_wval] in *.
  - (* i32, i32 *)
    destruct op; cbn [is_shift] in Hw; try discriminate;
      unfold wgsl_binary_i32, rt_arith_i32, rt_cmp_i32 in Hw.
    + inv Hw. split; [cbn [wf_val]; auto with in32db|]. intros v. rewrite fold_add_i32. intros E; inv E. reflexivity.
    + inv Hw. split; [cbn [wf_val]; auto with in32db|]. intros v. rewrite fold_sub_i32. intros E; inv E. reflexivity.
    + inv Hw. split; [cbn [wf_val]; auto with in32db|]. intros v. rewrite fold_mul_i32. intros E; inv E. reflexivity.
    + destruct (div_err_i32 a b) eqn:Ed; [discriminate|]. inv Hw. split; [cbn [wf_val]; auto with in32db|].
      intros v. rewrite fold_div_i32 by assumption. destruct (b =? 0); [discriminate|]. intros E; inv E. reflexivity.
    + destruct (div_err_i32 a b) eqn:Ed; [discriminate|]. inv Hw. split; [cbn [wf_val]; auto with in32db|].
      intros v. rewrite fold_mod_i32 by assumption. destruct (b =? 0); [discriminate|]. intros E; inv E. reflexivity.
    + inv Hw. split; [cbn [wf_val]; auto with in32db|]. intros v. rewrite fold_and_i32 by assumption. intros E; inv E. reflexivity.
    + inv Hw. split; [cbn [wf_val]; auto with in32db|]. intros v. rewrite fold_or_i32 by assumption. intros E; inv E. reflexivity.
    + inv Hw. split; [cbn [wf_val]; auto with in32db|]. intros v. rewrite fold_xor_i32 by assumption. intros E; inv E. reflexivity.
    + inv Hw. split; [exact I|]. intros v. rewrite fold_eq_i32 by assumption. intros E; inv E. reflexivity.
    + inv Hw. split; [exact I|]. intros v. rewrite fold_ne_i32 by assumption. intros E; inv E. reflexivity.
    + inv Hw. split; [exact I|]. intros v. rewrite fold_lt_i32. intros E; inv E. reflexivity.
    + inv Hw. split; [exact I|]. intros v. rewrite fold_le_i32. intros E; inv E. reflexivity.
    + inv Hw. split; [exact I|]. intros v. rewrite fold_gt_i32. intros E; inv E. reflexivity.
    + inv Hw. split; [exact I|]. intros v. rewrite fold_ge_i32. intros E; inv E. reflexivity.
  - (* i32 shifted by u32 *)
    destruct op; cbn [is_shift] in Hw; try discriminate; unfold wgsl_shift in Hw;
      destruct (Z.leb_spec 32 b); try discriminate.
    + destruct (shl_overflow_i32 a b); [discriminate|]. inv Hw. split; [cbn [wf_val]; auto with in32db|].
      intros v. rewrite fold_shl_i32 by (assumption || lia). intros E; inv E. reflexivity.
    + inv Hw. split; [cbn [wf_val]; auto with in32db|].
      intros v. rewrite fold_shr_i32 by (assumption || lia). intros E; inv E. reflexivity.
  - (* i32, bool: no overload *)
    destruct op; cbn [is_shift wgsl_shift] in Hw; discriminate.
  - (* u32, i32: no overload *)
    destruct op; cbn [is_shift wgsl_shift] in Hw; discriminate.
  - (* u32, u32 *)
    destruct op; cbn [is_shift] in Hw; try discriminate;
      unfold wgsl_binary_u32, rt_arith_u32, rt_cmp_u32, wgsl_shift in Hw.
    + inv Hw. split; [cbn [wf_val]; auto with in32db|]. intros v. rewrite fold_add_u32. intros E; inv E. reflexivity.
    + inv Hw. split; [cbn [wf_val]; auto with in32db|]. intros v. rewrite fold_sub_u32. intros E; inv E. reflexivity.
    + inv Hw. split; [cbn [wf_val]; auto with in32db|]. intros v. rewrite fold_mul_u32. intros E; inv E. reflexivity.
    + destruct (div_err_u32 b) eqn:Ed; [discriminate|]. inv Hw. split; [cbn [wf_val]; auto with in32db|].
      intros v. rewrite fold_div_u32 by assumption. destruct (b =? 0); [discriminate|]. intros E; inv E. reflexivity.
    + destruct (div_err_u32 b) eqn:Ed; [discriminate|]. inv Hw. split; [cbn [wf_val]; auto with in32db|].
      intros v. rewrite fold_mod_u32 by assumption. destruct (b =? 0); [discriminate|]. intros E; inv E. reflexivity.
    + inv Hw. split; [cbn [wf_val]; auto with in32db|]. intros v. rewrite fold_and_u32 by assumption. intros E; inv E. reflexivity.
    + inv Hw. split; [cbn [wf_val]; auto with in32db|]. intros v. rewrite fold_or_u32 by assumption. intros E; inv E. reflexivity.
    + inv Hw. split; [cbn [wf_val]; auto with in32db|]. intros v. rewrite fold_xor_u32 by assumption. intros E; inv E. reflexivity.
    + destruct (Z.leb_spec 32 b); [discriminate|]. destruct (shl_overflow_u32 a b); [discriminate|]. inv Hw.
      split; [cbn [wf_val]; auto with in32db|]. intros v. rewrite fold_shl_u32 by (assumption || lia). intros E; inv E. reflexivity.
    + destruct (Z.leb_spec 32 b); [discriminate|]. inv Hw.
      split; [cbn [wf_val]; auto with in32db|]. intros v. rewrite fold_shr_u32 by (assumption || lia). intros E; inv E. reflexivity.
    + inv Hw. split; [exact I|]. intros v. rewrite fold_eq_u32. intros E; inv E. reflexivity.
    + inv Hw. split; [exact I|]. intros v. rewrite fold_ne_u32. intros E; inv E. reflexivity.
    + inv Hw. split; [exact I|]. intros v. rewrite fold_lt_u32. intros E; inv E. reflexivity.
    + inv Hw. split; [exact I|]. intros v. rewrite fold_le_u32. intros E; inv E. reflexivity.
    + inv Hw. split; [exact I|]. intros v. rewrite fold_gt_u32. intros E; inv E. reflexivity.
    + inv Hw. split; [exact I|]. intros v. rewrite fold_ge_u32. intros E; inv E. reflexivity.
  - (* u32, bool *)
    destruct op; cbn [is_shift wgsl_shift] in Hw; discriminate.
  - (* bool, i32 *)
    destruct op; cbn [is_shift wgsl_shift] in Hw; discriminate.
  - (* bool, u32 *)
    destruct op; cbn [is_shift wgsl_shift] in Hw; discriminate.
  - (* bool, bool *)
    destruct op; cbn [is_shift] in Hw; try discriminate; unfold wgsl_binary_bool in Hw; inv Hw;
      (split; [exact I|]); intros v; rewrite fold_bool; cbn [bool_binop]; intros E; inv E; reflexivity.
Qed.

(* ---------------- unary, conversions ---------------- *)
Lemma unary_sound op x w :
  wf_val x -> wgsl_unary op x = Ok w ->
  wf_val w /\ forall v, try_fold_unary_op F op (lit_of_wval x) = Some v -> v = lit_of_wval w.
Proof.
  intros Hx Hw. destruct x as [a|a|a|a]; try contradiction; destruct op; cbn [wgsl_unary] in Hw; try discriminate; inv Hw; cbn [wf_val lit_of_wval] in *.
  - split; [auto with in32db|]. intros v. rewrite fold_neg_i32. intros E; inv E. reflexivity.
  - split; [auto with in32db|]. intros v. rewrite fold_bnot_i32 by assumption. intros E; inv E. reflexivity.
  - split; [auto with in32db|]. intros v. rewrite fold_bnot_u32 by assumption. intros E; inv E. reflexivity.
  - split; [exact I|]. intros v. rewrite fold_lnot. intros E; inv E. reflexivity.
Qed.

Lemma convert_sound t x w :
  wf_val x -> wgsl_convert t x = Ok w ->
  wf_val w /\ forall v, try_fold_as F (lit_of_wval x) t = Some v -> v = lit_of_wval w.
Proof.
  intros Hx Hw. destruct x as [a|a|a|a]; try contradiction; unfold wgsl_convert in Hw;
    destruct t; cbn [wgsl_convert_concrete] in Hw; try discriminate; inv Hw; cbn [wf_val lit_of_wval] in *.
  - split; [assumption|]. intros v. rewrite fold_as_i32_of_i32 by assumption. intros E; inv E. reflexivity.
  - split; [assumption|]. intros v. rewrite fold_as_u32_of_i32 by assumption. intros E; inv E. reflexivity.
  - split; [exact I|]. intros v. rewrite fold_as_bool_of_i32 by assumption. intros E; inv E. reflexivity.
  - split; [assumption|]. intros v. rewrite fold_as_i32_of_u32 by assumption. intros E; inv E. reflexivity.
  - split; [assumption|]. intros v. rewrite fold_as_u32_of_u32 by assumption. intros E; inv E. reflexivity.
  - split; [exact I|]. intros v. rewrite fold_as_bool_of_u32. intros E; inv E. reflexivity.
  - split; [destruct a; unfold in32, u32_of_bool, M32; lia|]. intros v. rewrite (fold_as_of_bool F a TI32) by auto. intros E; inv E. reflexivity.
  - split; [destruct a; unfold in32, u32_of_bool, M32; lia|]. intros v. rewrite (fold_as_of_bool F a TU32) by auto. intros E; inv E. reflexivity.
  - split; [exact I|]. intros v. rewrite fold_as_bool_of_bool. intros E; inv E. reflexivity.
Qed.

(* ---------------- integer builtins ---------------- *)
#[local] Opaque count_trailing_zeros count_leading_zeros count_one_bits reverse_bits first_trailing_bit first_leading_bit_u32 first_leading_bit_i32.
Ltac fin L R := split; [unfold wf_val; (apply R; assumption) || apply R|]; intros v; rewrite L by assumption; intros E; injection E as <-; reflexivity.

Lemma math1_sound f x w :
  int_math f = true -> wf_val x -> wgsl_math f [x] = Ok w ->
  wf_val w /\ forall v, try_fold_scalar_math F f (concretize_math_args F f [lit_of_wval x]) = Some v -> v = lit_of_wval w.
Proof.
  intros Hf Hx Hw. destruct x as [a|a|a|a]; try contradiction; cbn [wf_val] in Hx.
  - (* i32 *)
    unfold wgsl_math in Hw. cbn [first_concrete concrete_ty unify_all unify_to map payload] in Hw.
    change (concretize_math_args F f [lit_of_wval (VI32 a)]) with [LI32 a].
    destruct f; try discriminate; cbn [wgsl_math_i32] in Hw; inv Hw.
    + fin fold_abs_i32 abs_i32_in.
    + fin fold_sign_i32 sign_i32_in.
    + fin fold_ctz_i32 count_trailing_zeros_in.
    + fin fold_clz_i32 count_leading_zeros_in.
    + fin fold_popcount_i32 count_one_bits_in.
    + fin fold_reverse_i32 reverse_bits_in.
    + fin fold_ftb_i32 first_trailing_bit_in.
    + fin fold_flb_i32 first_leading_bit_i32_in.
  - (* u32 *)
    unfold wgsl_math in Hw. cbn [first_concrete concrete_ty unify_all unify_to map payload] in Hw.
    change (concretize_math_args F f [lit_of_wval (VU32 a)]) with [LU32 a].
    destruct f; try discriminate; cbn [wgsl_math_u32] in Hw; inv Hw.
    + fin fold_abs_u32 (fun a (H : in32 a) => H).
    + fin fold_ctz_u32 count_trailing_zeros_in.
    + fin fold_clz_u32 count_leading_zeros_in.
    + fin fold_popcount_u32 count_one_bits_in.
    + fin fold_reverse_u32 reverse_bits_in.
    + fin fold_ftb_u32 first_trailing_bit_in.
    + fin fold_flb_u32 first_leading_bit_u32_in.
  - (* bool: no overload *)
    unfold wgsl_math in Hw. cbn [first_concrete concrete_ty unify_all unify_to] in Hw. discriminate.
Qed.

Lemma math2_sound f x y w :
  int_math f = true -> wf_val x -> wf_val y -> wgsl_math f [x; y] = Ok w ->
  wf_val w /\ forall v, try_fold_scalar_math F f (concretize_math_args F f [lit_of_wval x; lit_of_wval y]) = Some v -> v = lit_of_wval w.
Proof.
  intros Hf Hx Hy Hw.
  destruct x as [a|a|a|a]; try contradiction; destruct y as [b|b|b|b]; try contradiction; cbn [wf_val] in Hx, Hy;
    unfold wgsl_math in Hw; cbn [first_concrete concrete_ty unify_all unify_to map payload] in Hw; try discriminate.
  - change (concretize_math_args F f [lit_of_wval (VI32 a); lit_of_wval (VI32 b)]) with [LI32 a; LI32 b].
    destruct f; try discriminate; cbn [wgsl_math_i32] in Hw; inv Hw.
    + fin fold_min_i32 min_i32_in.
    + fin fold_max_i32 max_i32_in.
  - change (concretize_math_args F f [lit_of_wval (VU32 a); lit_of_wval (VU32 b)]) with [LU32 a; LU32 b].
    destruct f; try discriminate; cbn [wgsl_math_u32] in Hw; inv Hw.
    + fin fold_min_u32 min_u32_in.
    + fin fold_max_u32 max_u32_in.
Qed.

Lemma clamp_i32_in e lo hi : in32 e -> in32 lo -> in32 hi -> in32 (clamp_i32 e lo hi).
Proof. intros. unfold clamp_i32. auto with in32db. Qed.
Lemma clamp_u32_in e lo hi : in32 e -> in32 lo -> in32 hi -> in32 (clamp_u32 e lo hi).
Proof. intros. unfold clamp_u32. auto with in32db. Qed.

Lemma math3_sound f x y z w :
  int_math f = true -> wf_val x -> wf_val y -> wf_val z -> wgsl_math f [x; y; z] = Ok w ->
  wf_val w /\ forall v, try_fold_scalar_math F f (concretize_math_args F f [lit_of_wval x; lit_of_wval y; lit_of_wval z]) = Some v -> v = lit_of_wval w.
Proof.
  intros Hf Hx Hy Hz Hw.
  destruct x as [a|a|a|a]; try contradiction; destruct y as [b|b|b|b]; try contradiction; destruct z as [c|c|c|c]; try contradiction;
    cbn [wf_val] in Hx, Hy, Hz;
    unfold wgsl_math in Hw; cbn [first_concrete concrete_ty unify_all unify_to map payload] in Hw; try discriminate.
  - change (concretize_math_args F f [lit_of_wval (VI32 a); lit_of_wval (VI32 b); lit_of_wval (VI32 c)]) with [LI32 a; LI32 b; LI32 c].
    destruct f; try discriminate; cbn [wgsl_math_i32] in Hw.
    destruct (lt_i32 c b) eqn:Hord; [discriminate|]. inv Hw.
    split; [cbn [wf_val]; apply clamp_i32_in; assumption|]. intros v. rewrite fold_clamp_i32 by assumption. intros E; inv E. reflexivity.
  - change (concretize_math_args F f [lit_of_wval (VU32 a); lit_of_wval (VU32 b); lit_of_wval (VU32 c)]) with [LU32 a; LU32 b; LU32 c].
    destruct f; try discriminate; cbn [wgsl_math_u32] in Hw.
    destruct (lt_u32 c b) eqn:Hord; [discriminate|]. inv Hw.
    split; [cbn [wf_val]; apply clamp_u32_in; assumption|]. intros v. rewrite fold_clamp_u32 by assumption. intros E; inv E. reflexivity.
Qed.

(* ---------------- the induction ---------------- *)
Lemma bind_ok r k w : bind r k = Ok w -> exists v, r = Ok v /\ k v = Ok w.
Proof. destruct r; cbn; try discriminate. intros H. eauto. Qed.
Lemma bind2_ok r1 r2 k w : bind2 r1 r2 k = Ok w -> exists a b, r1 = Ok a /\ r2 = Ok b /\ k a b = Ok w.
Proof. destruct r1, r2; cbn; try discriminate. intros H. eauto. Qed.
Lemma bind3_ok r1 r2 r3 k w : bind3 r1 r2 r3 k = Ok w -> exists a b c, r1 = Ok a /\ r2 = Ok b /\ r3 = Ok c /\ k a b c = Ok w.
Proof. destruct r1, r2, r3; cbn; try discriminate. intros H. eauto 8. Qed.

Lemma some_or_self {A} (x : option A) : match x with Some v => Some v | None => x end = x.
Proof. destruct x; reflexivity. Qed.

Lemma concretize_default_plain l : plain l -> concretize_default F l = l.
Proof. destruct l; cbn; tauto. Qed.

Definition sound_at (e : cexpr) : Prop :=
  forall w, wgsl_eval e = Ok w -> wf_val w /\ forall v, fold_expr F e = Some v -> v = lit_of_wval w.

Lemma lit_sound l : concrete_tree (CLit l) = true -> sound_at (CLit l).
Proof.
  intros Hc w Hw. destruct l; try discriminate; cbn [wgsl_eval wgsl_literal] in Hw.
  - destruct (Z.leb_spec 0 b); destruct (Z.ltb_spec b H32); cbn [andb] in Hw; try discriminate. inv Hw.
    split; [unfold wf_val, in32, M32, H32 in *; lia|]. cbn [fold_expr]. intros v E; inv E. reflexivity.
  - unfold in_u32_range in Hw. destruct (Z.leb_spec 0 b); destruct (Z.ltb_spec b M32); cbn [andb] in Hw; try discriminate. inv Hw.
    split; [unfold wf_val, in32; lia|]. cbn [fold_expr]. intros v E; inv E. reflexivity.
  - inv Hw. split; [exact I|]. cbn [fold_expr]. intros v E; inv E. reflexivity.
Qed.

Theorem fold_tree_sound : forall e, concrete_tree e = true -> sound_at e.
Proof.
  induction e as [l | op a IHa | op a IHa b IHb | t a IHa | f a IHa | f a IHa b IHb | f a IHa b IHb c IHc | fv IHf tv IHt c IHc];
    intros Hc.
  - apply lit_sound. assumption.
  - (* unary *)
    cbn [concrete_tree] in Hc. specialize (IHa Hc). intros w Hw. cbn [wgsl_eval] in Hw.
    apply bind_ok in Hw. destruct Hw as [x [Hx Hu]]. destruct (IHa x Hx) as [Wx Fa].
    destruct (unary_sound op x w Wx Hu) as [Ww Fu]. split; [assumption|]. intros v Hv.
    assert (Hgen : forall v, match fold_expr F a with Some l => try_fold_unary_op F op l | None => None end = Some v -> v = lit_of_wval w).
    { intros v0 H0. destruct (fold_expr F a) as [l|] eqn:El; [|discriminate]. rewrite (Fa l eq_refl) in H0. apply Fu. assumption. }
    cbn [fold_expr] in Hv.
    destruct op; try (apply Hgen; assumption).
    destruct a as [l| | | | | | |]; try (apply Hgen; assumption).
    (* "-" applied to a literal token *)
    destruct l; try discriminate Hc; cbn [wgsl_eval wgsl_literal] in Hx.
    + rewrite negated_literal_i32 in Hv. inv Hv.
      destruct ((0 <=? b) && (b <? H32)); [|discriminate]. inv Hx. cbn [wgsl_unary] in Hu. inv Hu. reflexivity.
    + destruct (in_u32_range b); [|discriminate]. inv Hx. discriminate Hu.
    + inv Hx. discriminate Hu.
  - (* binary *)
    cbn [concrete_tree] in Hc. apply andb_prop in Hc. destruct Hc as [Hca Hcb].
    specialize (IHa Hca). specialize (IHb Hcb). intros w Hw. cbn [wgsl_eval] in Hw.
    destruct (is_logical op) eqn:Hlog.
    + (* && || *)
      destruct (wgsl_eval a) as [x| |] eqn:Hx; try discriminate. destruct x as [| |?|xb]; try discriminate.
      destruct (IHa _ Hx) as [_ Fa].
      assert (Hw' : wf_val w /\ forall yb, wgsl_eval b = Ok (VBool yb) ->
                    w = VBool (match op with BLAnd => xb && yb | _ => xb || yb end)).
      { destruct op; try discriminate Hlog; destruct xb.
        - apply bind_ok in Hw. destruct Hw as [y [Hy Hk]]. destruct y; try discriminate. inv Hk. split; [exact I|].
          intros yb E. rewrite E in Hy. inv Hy. reflexivity.
        - inv Hw. split; [exact I|]. reflexivity.
        - inv Hw. split; [exact I|]. reflexivity.
        - apply bind_ok in Hw. destruct Hw as [y [Hy Hk]]. destruct y; try discriminate. inv Hk. split; [exact I|].
          intros yb E. rewrite E in Hy. inv Hy. reflexivity. }
      destruct Hw' as [Ww Hval]. split; [assumption|]. intros v Hv. cbn [fold_expr] in Hv. rewrite Hlog in Hv.
      assert (Hgen : forall v, match fold_expr F a with Some l => lower_logical op l | None => None end = Some v -> v = lit_of_wval w).
      { intros v0 H0. destruct (fold_expr F a) as [l|] eqn:El; [|discriminate]. rewrite (Fa l eq_refl) in H0. cbn [lit_of_wval] in H0.
        destruct op; try discriminate Hlog; destruct xb; cbn [lower_logical] in H0; try discriminate; inv H0; inv Hw; reflexivity. }
      destruct a as [la| | | | | | |]; try (apply Hgen; assumption).
      destruct b as [lb| | | | | | |]; try (apply Hgen; assumption).
      (* both literal tokens: the AST fast path evaluates both operands *)
      destruct la as [la|la| |la| | | ]; try discriminate Hca; cbn [wgsl_eval wgsl_literal] in Hx.
      { destruct ((0 <=? la) && (la <? H32)); discriminate Hx. }
      { destruct (in_u32_range la); discriminate Hx. }
      injection Hx as ->.
      destruct lb as [lb|lb| |lb| | | ]; try discriminate Hcb.
      { change (try_fold_ast_binary F op (LBool xb) (LI32 lb)) with (@None lit) in Hv. apply Hgen. exact Hv. }
      { change (try_fold_ast_binary F op (LBool xb) (LU32 lb)) with (@None lit) in Hv. apply Hgen. exact Hv. }
      specialize (Hval lb eq_refl). subst w.
      destruct op; try discriminate Hlog;
        cbn [try_fold_ast_binary concretize_literal_pair is_abstract fold_binary_literals is_integer_literal is_float_literal andb bool_binop] in Hv;
        injection Hv as <-; reflexivity.
    + (* every other operator *)
      apply bind2_ok in Hw. destruct Hw as [x [y [Hx [Hy Hk]]]].
      destruct (IHa x Hx) as [Wx Fa]. destruct (IHb y Hy) as [Wy Fb].
      destruct (binary_sound op x y w Wx Wy Hk) as [Ww Fk]. split; [assumption|]. intros v Hv.
      assert (Hgen : forall v, match fold_expr F a, fold_expr F b with
                               | Some l, Some r => lower_binary_general F op l r | _, _ => None end = Some v -> v = lit_of_wval w).
      { intros v0 H0. destruct (fold_expr F a) as [l|] eqn:El; [|discriminate]. destruct (fold_expr F b) as [r|] eqn:Er; [|discriminate].
        rewrite (Fa l eq_refl), (Fb r eq_refl) in H0.
        rewrite general_concrete in H0 by (apply plain_not_abstract, plain_of_wf; assumption). apply Fk. assumption. }
      cbn [fold_expr] in Hv. rewrite Hlog in Hv.
      destruct a as [la| | | | | | |]; try (apply Hgen; assumption).
      destruct b as [lb| | | | | | |]; try (apply Hgen; assumption).
      cbn [fold_expr] in Hgen.
      assert (Pa : plain la) by (destruct la; try discriminate Hca; exact I).
      assert (Pb : plain lb) by (destruct lb; try discriminate Hcb; exact I).
      rewrite ast_concrete in Hv by assumption. cbn [fold_expr] in Hv.
      rewrite general_concrete in Hv by (apply plain_not_abstract; assumption).
      rewrite some_or_self in Hv. apply Hgen.
      rewrite general_concrete by (apply plain_not_abstract; assumption). assumption.
  - (* conversion *)
    cbn [concrete_tree] in Hc. assert (Hca : concrete_tree a = true) by (destruct t; try discriminate; assumption).
    specialize (IHa Hca). intros w Hw. cbn [wgsl_eval] in Hw.
    apply bind_ok in Hw. destruct Hw as [x [Hx Hk]]. destruct (IHa x Hx) as [Wx Fa].
    destruct (convert_sound t x w Wx Hk) as [Ww Fk]. split; [assumption|]. intros v Hv. cbn [fold_expr] in Hv.
    destruct (fold_expr F a) as [l|] eqn:El; [|discriminate]. rewrite (Fa l eq_refl) in Hv. apply Fk. assumption.
  - (* builtin, one argument *)
    cbn [concrete_tree] in Hc. apply andb_prop in Hc. destruct Hc as [Hf Hca].
    specialize (IHa Hca). intros w Hw. cbn [wgsl_eval] in Hw.
    apply bind_ok in Hw. destruct Hw as [x [Hx Hk]]. destruct (IHa x Hx) as [Wx Fa].
    destruct (math1_sound f x w Hf Wx Hk) as [Ww Fk]. split; [assumption|]. intros v Hv. cbn [fold_expr] in Hv.
    destruct (fold_expr F a) as [l|] eqn:El; [|discriminate]. rewrite (Fa l eq_refl) in Hv. apply Fk. assumption.
  - (* builtin, two arguments *)
    cbn [concrete_tree] in Hc. apply andb_prop in Hc. destruct Hc as [Hc Hcb]. apply andb_prop in Hc. destruct Hc as [Hf Hca].
    specialize (IHa Hca). specialize (IHb Hcb). intros w Hw. cbn [wgsl_eval] in Hw.
    apply bind2_ok in Hw. destruct Hw as [x [y [Hx [Hy Hk]]]]. destruct (IHa x Hx) as [Wx Fa]. destruct (IHb y Hy) as [Wy Fb].
    destruct (math2_sound f x y w Hf Wx Wy Hk) as [Ww Fk]. split; [assumption|]. intros v Hv. cbn [fold_expr] in Hv.
    destruct (fold_expr F a) as [l|] eqn:El; [|discriminate]. destruct (fold_expr F b) as [r|] eqn:Er; [|discriminate].
    rewrite (Fa l eq_refl), (Fb r eq_refl) in Hv. apply Fk. assumption.
  - (* builtin, three arguments *)
    cbn [concrete_tree] in Hc. apply andb_prop in Hc. destruct Hc as [Hc Hcc]. apply andb_prop in Hc. destruct Hc as [Hc Hcb].
    apply andb_prop in Hc. destruct Hc as [Hf Hca].
    specialize (IHa Hca). specialize (IHb Hcb). specialize (IHc Hcc). intros w Hw. cbn [wgsl_eval] in Hw.
    apply bind3_ok in Hw. destruct Hw as [x [y [z [Hx [Hy [Hz Hk]]]]]].
    destruct (IHa x Hx) as [Wx Fa]. destruct (IHb y Hy) as [Wy Fb]. destruct (IHc z Hz) as [Wz Fc].
    destruct (math3_sound f x y z w Hf Wx Wy Wz Hk) as [Ww Fk]. split; [assumption|]. intros v Hv. cbn [fold_expr] in Hv.
    destruct (fold_expr F a) as [l|] eqn:El; [|discriminate]. destruct (fold_expr F b) as [r|] eqn:Er; [|discriminate].
    destruct (fold_expr F c) as [s|] eqn:Es; [|discriminate].
    rewrite (Fa l eq_refl), (Fb r eq_refl), (Fc s eq_refl) in Hv. apply Fk. assumption.
  - (* select *)
    cbn [concrete_tree] in Hc. apply andb_prop in Hc. destruct Hc as [Hc Hcc]. apply andb_prop in Hc. destruct Hc as [Hcf Hct].
    specialize (IHf Hcf). specialize (IHt Hct). specialize (IHc Hcc). intros w Hw. cbn [wgsl_eval] in Hw.
    apply bind3_ok in Hw. destruct Hw as [x [y [z [Hx [Hy [Hz Hk]]]]]].
    destruct (IHf x Hx) as [Wx Ff]. destruct (IHt y Hy) as [Wy Ft]. destruct (IHc z Hz) as [Wz Fc].
    destruct z as [| | |cb]; try discriminate.
    assert (Hres : w = (if cb then y else x)).
    { destruct x as [xa|xa|xa|xa]; try contradiction; destruct y as [ya|ya|ya|ya]; try contradiction;
        cbn [first_concrete concrete_ty unify_to bind2] in Hk; try discriminate; inv Hk; reflexivity. }
    split; [subst w; destruct cb; assumption|]. intros v Hv. cbn [fold_expr] in Hv.
    destruct (fold_expr F fv) as [l|] eqn:El; [|discriminate]. destruct (fold_expr F tv) as [r|] eqn:Er; [|discriminate].
    destruct (fold_expr F c) as [s|] eqn:Es; [|discriminate].
    rewrite (Ff l eq_refl), (Ft r eq_refl), (Fc s eq_refl) in Hv. cbn [lit_of_wval] in Hv.
    pose proof (plain_of_wf x Wx) as Px. pose proof (plain_of_wf y Wy) as Py.
    unfold concretize_binary_operands in Hv. rewrite (plain_not_abstract _ Px), (plain_not_abstract _ Py) in Hv.
    rewrite !concretize_default_plain in Hv by assumption. inv Hv. destruct cb; reflexivity.
Qed.

(* the WGSL const value of a concrete tree is its run-time value: no error at compile time
   means the run-time evaluation takes the same branches *)
Lemma rt_binary_agrees op x y w : wgsl_binary op x y = Ok w -> wf_val x -> wf_val y -> rt_binary op x y = Ok w.
Proof.
  intros Hw Hx Hy. unfold wgsl_binary in Hw. unfold rt_binary.
  destruct x as [a|a|a|a]; try contradiction; destruct y as [b|b|b|b]; try contradiction;
    destruct op; cbn [is_shift] in *; try discriminate Hw;
    unfold wgsl_binary_i32, wgsl_binary_u32, wgsl_shift in Hw;
    cbn [rt_arith_i32 rt_arith_u32 rt_cmp_i32 rt_cmp_u32] in *;
    repeat match type of Hw with (if ?c then _ else _) = _ => destruct c; try discriminate Hw end;
    try assumption; try discriminate Hw.
Qed.

Lemma unify_all_length t vs l : unify_all t vs = inl (Some l) -> length l = length vs.
Proof.
  revert l. induction vs as [|v vs IH]; intros l H; cbn [unify_all] in H.
  - inv H. reflexivity.
  - destruct (unify_to t v); try discriminate.
    + destruct (unify_all t vs) as [[l0|]|r]; try discriminate. inv H. cbn. rewrite (IH l0 eq_refl). reflexivity.
    + destruct (unify_all t vs) as [[l0|]|[r0|]]; discriminate.
Qed.

Lemma rt_math_agrees f vs w : int_math f = true -> Forall wf_val vs -> wgsl_math f vs = Ok w -> rt_math f vs = Ok w.
Proof.
  intros Hf Hvs Hw. unfold wgsl_math in Hw.
  destruct vs as [|x [|y [|z [|? ?]]]].
  - cbn in Hw. destruct f; discriminate.
  - inv Hvs. destruct x as [a|a|a|a]; try contradiction;
      cbn [first_concrete concrete_ty unify_all unify_to map payload] in Hw; try discriminate;
      destruct f; try discriminate; exact Hw.
  - inv Hvs. inv H2. destruct x as [a|a|a|a]; try contradiction; destruct y as [b|b|b|b]; try contradiction;
      cbn [first_concrete concrete_ty unify_all unify_to map payload] in Hw; try discriminate;
      destruct f; try discriminate; exact Hw.
  - inv Hvs. inv H2. inv H4.
    destruct x as [a|a|a|a]; try contradiction; destruct y as [b|b|b|b]; try contradiction; destruct z as [c|c|c|c]; try contradiction;
      cbn [first_concrete concrete_ty unify_all unify_to map payload] in Hw; try discriminate;
      destruct f; try discriminate; cbn [wgsl_math_i32 wgsl_math_u32] in Hw; cbn [rt_math];
      match type of Hw with (if ?c then _ else _) = _ => destruct c; [discriminate|exact Hw] end.
  - assert (Wx : wf_val x) by (inversion Hvs; assumption). clear Hvs.
    destruct x as [a|a|a|a]; try contradiction; cbn [first_concrete concrete_ty] in Hw.
    + destruct (unify_all TI32 (VI32 a :: y :: z :: w0 :: l)) as [[l'|]|[r|]] eqn:Eu; try discriminate.
      apply unify_all_length in Eu. destruct l' as [|? [|? [|? [|? ?]]]]; try discriminate Eu; cbn in Hw; destruct f; discriminate.
    + destruct (unify_all TU32 (VU32 a :: y :: z :: w0 :: l)) as [[l'|]|[r|]] eqn:Eu; try discriminate.
      apply unify_all_length in Eu. destruct l' as [|? [|? [|? [|? ?]]]]; try discriminate Eu; cbn in Hw; destruct f; discriminate.
    + destruct (unify_all TBool (VBool a :: y :: z :: w0 :: l)) as [[l'|]|[r|]]; discriminate.
Qed.

Theorem wgsl_eval_is_runtime : forall e w, concrete_tree e = true -> wgsl_eval e = Ok w -> rt_eval e = Ok w.
Proof.
  induction e as [l | op a IHa | op a IHa b IHb | t a IHa | f a IHa | f a IHa b IHb | f a IHa b IHb c IHc | fv IHf tv IHt c IHc];
    intros w Hc Hw.
  - destruct l; try discriminate; exact Hw.
  - cbn [concrete_tree] in Hc. cbn [wgsl_eval] in Hw. apply bind_ok in Hw. destruct Hw as [x [Hx Hk]].
    cbn [rt_eval]. rewrite (IHa x Hc Hx). exact Hk.
  - cbn [concrete_tree] in Hc. apply andb_prop in Hc. destruct Hc as [Hca Hcb]. cbn [wgsl_eval rt_eval] in *.
    destruct (is_logical op).
    + destruct (wgsl_eval a) as [x| |] eqn:Hx; try discriminate. rewrite (IHa x Hca eq_refl).
      destruct x as [| | |xb]; try discriminate.
      destruct op; try (apply bind_ok in Hw; destruct Hw as [y [Hy Hk]]; rewrite (IHb y Hcb Hy); exact Hk);
        destruct xb; try exact Hw; apply bind_ok in Hw; destruct Hw as [y [Hy Hk]]; rewrite (IHb y Hcb Hy); exact Hk.
    + apply bind2_ok in Hw. destruct Hw as [x [y [Hx [Hy Hk]]]]. rewrite (IHa x Hca Hx), (IHb y Hcb Hy). cbn [bind2].
      apply rt_binary_agrees; [assumption | apply (fold_tree_sound a Hca x Hx) | apply (fold_tree_sound b Hcb y Hy)].
  - cbn [concrete_tree] in Hc. assert (Hca : concrete_tree a = true) by (destruct t; try discriminate; assumption).
    cbn [wgsl_eval rt_eval] in *. apply bind_ok in Hw. destruct Hw as [x [Hx Hk]]. rewrite (IHa x Hca Hx). cbn [bind].
    pose proof (proj1 (fold_tree_sound a Hca x Hx)) as Wx. destruct x; try contradiction; exact Hk.
  - cbn [concrete_tree] in Hc. apply andb_prop in Hc. destruct Hc as [Hf Hca]. cbn [wgsl_eval rt_eval] in *.
    apply bind_ok in Hw. destruct Hw as [x [Hx Hk]]. rewrite (IHa x Hca Hx). cbn [bind].
    apply rt_math_agrees; [assumption | | assumption]. constructor; [apply (fold_tree_sound a Hca x Hx) | constructor].
  - cbn [concrete_tree] in Hc. apply andb_prop in Hc. destruct Hc as [Hc Hcb]. apply andb_prop in Hc. destruct Hc as [Hf Hca].
    cbn [wgsl_eval rt_eval] in *. apply bind2_ok in Hw. destruct Hw as [x [y [Hx [Hy Hk]]]].
    rewrite (IHa x Hca Hx), (IHb y Hcb Hy). cbn [bind2].
    apply rt_math_agrees; [assumption | | assumption].
    constructor; [apply (fold_tree_sound a Hca x Hx) | constructor; [apply (fold_tree_sound b Hcb y Hy) | constructor]].
  - cbn [concrete_tree] in Hc. apply andb_prop in Hc. destruct Hc as [Hc Hcc]. apply andb_prop in Hc. destruct Hc as [Hc Hcb].
    apply andb_prop in Hc. destruct Hc as [Hf Hca].
    cbn [wgsl_eval rt_eval] in *. apply bind3_ok in Hw. destruct Hw as [x [y [z [Hx [Hy [Hz Hk]]]]]].
    rewrite (IHa x Hca Hx), (IHb y Hcb Hy), (IHc z Hcc Hz). cbn [bind3].
    apply rt_math_agrees; [assumption | | assumption].
    constructor; [apply (fold_tree_sound a Hca x Hx) | constructor; [apply (fold_tree_sound b Hcb y Hy) | constructor; [apply (fold_tree_sound c Hcc z Hz) | constructor]]].
  - cbn [concrete_tree] in Hc. apply andb_prop in Hc. destruct Hc as [Hc Hcc]. apply andb_prop in Hc. destruct Hc as [Hcf Hct].
    cbn [wgsl_eval rt_eval] in *. apply bind3_ok in Hw. destruct Hw as [x [y [z [Hx [Hy [Hz Hk]]]]]].
    rewrite (IHf x Hcf Hx), (IHt y Hct Hy), (IHc z Hcc Hz).
    pose proof (proj1 (fold_tree_sound fv Hcf x Hx)) as Wx. pose proof (proj1 (fold_tree_sound tv Hct y Hy)) as Wy.
    destruct z as [| | |cb]; try discriminate.
    destruct x as [xa|xa|xa|xa]; try contradiction; destruct y as [ya|ya|ya|ya]; try contradiction;
      cbn [first_concrete concrete_ty unify_to bind2] in Hk; try discriminate; cbn [concrete_ty]; exact Hk.
Qed.

End Tree.
