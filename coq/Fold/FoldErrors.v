(* Error preservation: which WGSL const-expression errors make the folder refrain from
   substituting a value (the positive half; the negative half is in FoldRefuted.v). *)
From Coq Require Import ZArith Bool List Lia.
Import ListNotations.
Require Import Naga.Base.Bits32 Naga.Fold.GoArith Naga.Fold.FoldModel Naga.Fold.FoldProofs Naga.Fold.ModEvalModel Naga.Fold.WgslConst.
Open Scope Z_scope.

Section Errors.
Variable F : float_ops.

Lemma zero_in32 : in32 0. Proof. unfold in32, M32. lia. Qed.

(* integer division / remainder by zero is never folded, for every dividend, both signednesses *)
Lemma div_zero_not_folded a :
  in32 a ->
  try_fold_binary_op F BDiv (LI32 a) (LI32 0) = None /\ try_fold_binary_op F BMod (LI32 a) (LI32 0) = None /\
  try_fold_binary_op F BDiv (LU32 a) (LU32 0) = None /\ try_fold_binary_op F BMod (LU32 a) (LU32 0) = None.
Proof.
  intros Ha. rewrite fold_div_i32, fold_mod_i32, fold_div_u32, fold_mod_u32 by (assumption || apply zero_in32).
  repeat split; reflexivity.
Qed.
Lemma div_zero_not_folded_ai a :
  try_fold_binary_op F BDiv (LAI a) (LAI 0) = None /\ try_fold_binary_op F BMod (LAI a) (LAI 0) = None /\
  try_fold_ast_binary F BDiv (LAI a) (LAI 0) = None /\ try_fold_ast_binary F BMod (LAI a) (LAI 0) = None.
Proof. repeat split; reflexivity. Qed.

(* WGSL error "division by zero" on concrete operands => not folded (statement in terms of the spec) *)
Lemma wgsl_div_zero_not_folded op a b :
  in32 a -> in32 b -> (op = BDiv \/ op = BMod) ->
  (wgsl_binary op (VI32 a) (VI32 b) = Err RDivZero -> try_fold_binary_op F op (LI32 a) (LI32 b) = None) /\
  (wgsl_binary op (VU32 a) (VU32 b) = Err RDivZero -> try_fold_binary_op F op (LU32 a) (LU32 b) = None).
Proof.
  intros Ha Hb [-> | ->]; split; intros H;
    unfold wgsl_binary, wgsl_binary_i32, wgsl_binary_u32, div_err_i32, div_err_u32 in H; cbn [is_shift] in H;
    rewrite ?fold_div_i32, ?fold_mod_i32, ?fold_div_u32, ?fold_mod_u32 by assumption;
    destruct (Z.eqb_spec b 0); try reflexivity; cbn [orb] in H;
    repeat match type of H with (if ?c then _ else _) = _ => destruct c end; discriminate H.
Qed.

(* module scope: / and % by zero abort the evaluation ("division by zero in constant expression") *)
Lemma mod_div_zero_error a : mod_binop BDiv a 0 = None /\ mod_binop BMod a 0 = None.
Proof. split; reflexivity. Qed.

End Errors.
