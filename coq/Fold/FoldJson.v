(* JSON front end of the fold models (wire format of the C06 correspondence check).
   Expressions:  ["lit", kind, n]  kind in I32 U32 AI Bool F32 F16 AF  (n = bit pattern; AI: signed value; Bool: 0/1)
                 ["un", op, e]  ["bin", op, a, b]  ["as", ty, e]
                 ["m1", f, a]  ["m2", f, a, b]  ["m3", f, a, b, c]  ["sel", fv, tv, c]
   Requests:     {"fn": name, "ty": type or null, "e": expr}
   Answers:      {"r": ["lit", kind, n] | null, ...} depending on fn (see [entry_with]). *)
From Coq Require Import ZArith Bool List String.
Import ListNotations.
Require Import Naga.Base.Json Naga.Base.Bits32 Naga.Fold.GoArith Naga.Fold.FoldModel Naga.Fold.ModEvalModel Naga.Fold.WgslConst.
Open Scope Z_scope.
Open Scope string_scope.

Definition lit_of_json (k : string) (n : Z) : option lit :=
  if String.eqb k "I32" then Some (LI32 n) else if String.eqb k "U32" then Some (LU32 n)
  else if String.eqb k "AI" then Some (LAI n) else if String.eqb k "Bool" then Some (LBool (negb (Z.eqb n 0)))
  else if String.eqb k "F32" then Some (LF32 n) else if String.eqb k "F16" then Some (LF16 n)
  else if String.eqb k "AF" then Some (LAF n) else None.

Definition json_of_lit (l : lit) : json :=
  match l with
  | LI32 b => JArr [JStr "lit"; JStr "I32"; JNum b]
  | LU32 b => JArr [JStr "lit"; JStr "U32"; JNum b]
  | LAI v => JArr [JStr "lit"; JStr "AI"; JNum v]
  | LBool b => JArr [JStr "lit"; JStr "Bool"; JNum (if b then 1 else 0)]
  | LF32 b => JArr [JStr "lit"; JStr "F32"; JNum b]
  | LF16 b => JArr [JStr "lit"; JStr "F16"; JNum b]
  | LAF b => JArr [JStr "lit"; JStr "AF"; JNum b]
  end.

Fixpoint assoc_str {A} (k : string) (l : list (string * A)) : option A :=
  match l with [] => None | (k', v) :: r => if String.eqb k k' then Some v else assoc_str k r end.

Definition binops : list (string * binop) :=
  [("+", BAdd); ("-", BSub); ("*", BMul); ("/", BDiv); ("%", BMod); ("&", BAnd); ("|", BOr); ("^", BXor);
   ("<<", BShl); (">>", BShr); ("==", BEq); ("!=", BNe); ("<", BLt); ("<=", BLe); (">", BGt); (">=", BGe);
   ("&&", BLAnd); ("||", BLOr)].
Definition unops : list (string * unop) := [("-", UNeg); ("!", ULNot); ("~", UBNot)].
Definition stys : list (string * sty) := [("i32", TI32); ("u32", TU32); ("f32", TF32); ("f16", TF16); ("bool", TBool)].
Definition mathfns : list (string * mathfn) :=
  [("abs", MAbs); ("min", MMin); ("max", MMax); ("clamp", MClamp); ("sign", MSign);
   ("countTrailingZeros", MCountTrailingZeros); ("countLeadingZeros", MCountLeadingZeros);
   ("countOneBits", MCountOneBits); ("reverseBits", MReverseBits);
   ("firstTrailingBit", MFirstTrailingBit); ("firstLeadingBit", MFirstLeadingBit);
   ("extractBits", MExtractBits); ("insertBits", MInsertBits);
   ("saturate", MFloat 1); ("ceil", MFloat 2); ("floor", MFloat 3); ("round", MFloat 4); ("fract", MFloat 5);
   ("trunc", MFloat 6); ("sqrt", MFloat 7); ("step", MFloat 8); ("fma", MFloat 9)].

Fixpoint expr_of_json (fuel : nat) (j : json) : option cexpr :=
  match fuel with
  | O => None
  | S f =>
    match j with
    | JArr [JStr "lit"; JStr k; JNum n] => option_map CLit (lit_of_json k n)
    | JArr [JStr "un"; JStr o; a] =>
      match assoc_str o unops, expr_of_json f a with Some op, Some x => Some (CUn op x) | _, _ => None end
    | JArr [JStr "bin"; JStr o; a; b] =>
      match assoc_str o binops, expr_of_json f a, expr_of_json f b with
      | Some op, Some x, Some y => Some (CBin op x y) | _, _, _ => None end
    | JArr [JStr "as"; JStr t; a] =>
      match assoc_str t stys, expr_of_json f a with Some ty, Some x => Some (CAs ty x) | _, _ => None end
    | JArr [JStr "m1"; JStr m; a] =>
      match assoc_str m mathfns, expr_of_json f a with Some fn, Some x => Some (CMath1 fn x) | _, _ => None end
    | JArr [JStr "m2"; JStr m; a; b] =>
      match assoc_str m mathfns, expr_of_json f a, expr_of_json f b with
      | Some fn, Some x, Some y => Some (CMath2 fn x y) | _, _, _ => None end
    | JArr [JStr "m3"; JStr m; a; b; c] =>
      match assoc_str m mathfns, expr_of_json f a, expr_of_json f b, expr_of_json f c with
      | Some fn, Some x, Some y, Some z => Some (CMath3 fn x y z) | _, _, _, _ => None end
    | JArr [JStr "sel"; a; b; c] =>
      match expr_of_json f a, expr_of_json f b, expr_of_json f c with
      | Some x, Some y, Some z => Some (CSelect x y z) | _, _, _ => None end
    | _ => None
    end
  end.

Definition jopt_lit (o : option lit) : json := match o with Some l => json_of_lit l | None => JNull end.
Definition ty_of (j : json) : option sty :=
  match field_str "ty" j with Some t => assoc_str t stys | None => None end.

Definition json_of_mconst (o : option mconst) : json :=
  match o with
  | Some m => JObj [("r", json_of_lit m.(mc_lit)); ("bits", JNum m.(mc_bits));
                    ("kind", JStr (match m.(mc_kind) with KSint => "sint" | KUint => "uint" end))]
  | None => JObj [("r", JNull)]
  end.

Definition entry_dispatch (F : float_ops) (fn : string) (j : json) (e : cexpr) : json :=
    if String.eqb fn "fold_expr" then JObj [("r", jopt_lit (fold_expr F e))]
    else if String.eqb fn "fold_let" then JObj [("r", jopt_lit (fold_let F e))]
    else if String.eqb fn "fold_store" then
      match ty_of j with Some t => JObj [("r", jopt_lit (fold_store F t e))] | None => JObj [("err", JStr "ty")] end
    else if String.eqb fn "mod_const_binary" then json_of_mconst (mod_const_binary (ty_of j) e)
    else if String.eqb fn "mod_const_bitnot" then json_of_mconst (mod_const_bitnot (ty_of j) e)
    else if String.eqb fn "mod_const_as" then
      match ty_of j with Some t => json_of_mconst (mod_const_as t e) | None => JObj [("err", JStr "ty")] end
    else if String.eqb fn "mod_abstract_store" then
      match ty_of j with
      | Some t => JObj [("r", jopt_lit (option_map (fun l => concretize_expr_to_scalar F l t) (mod_abstract_binary e)))]
      | None => JObj [("err", JStr "ty")]
      end
    else if String.eqb fn "mod_switch_value" then JObj [("r", jopt_lit (mod_switch_value e))]
    else if String.eqb fn "mod_array_size" then
      JObj [("r", match mod_array_size e with ASize n => JNum n | ARuntime => JStr "runtime" | AError => JStr "error" end)]
    else if String.eqb fn "const_assert" then
      JObj [("r", match try_eval_constant_bool e with Some b => JBool b | None => JNull end)]
    else if String.eqb fn "workgroup_dim" then
      JObj [("r", JNum (mod_workgroup_dim e)); ("evaluated", JBool (match eval_const_u32 e with Some _ => true | None => false end))]
    else if String.eqb fn "mod_vec_component" then
      match e with
      | CBin op (CLit l) (CLit r) => JObj [("r", jopt_lit (mod_vec_component op l r))]
      | _ => JObj [("err", JStr "shape")]
      end
    else JObj [("err", JStr "fn")].

(* the WGSL-specified outcome of the same request: "as" = "ty" (value used at type ty),
   "default" (let without type), absent (the expression itself) *)
Definition json_of_wres (r : wres) : json :=
  match r with
  | Ok v => json_of_lit (lit_of_wval v)
  | Err x => JArr [JStr "err"; JStr match x with
                                    | RDivZero => "division-by-zero" | RDivOverflow => "division-overflow"
                                    | RShiftTooLarge => "shift-amount-too-large" | RShlOverflow => "shift-left-overflow"
                                    | RAbstractOverflow => "abstract-int-overflow" | RNotRepresentable => "value-not-representable"
                                    | RClampLowHigh => "clamp-low-greater-than-high" | RLiteralRange => "literal-out-of-range"
                                    end]
  | Ill => JStr "ill"
  end.
Definition spec_of (j : json) (e : cexpr) : json :=
  let r := wgsl_eval e in
  json_of_wres
    match field_str "as" j with
    | Some a => if String.eqb a "ty" then match ty_of j with Some t => wgsl_as_type t r | None => Ill end
                else if String.eqb a "default" then wgsl_as_default r else r
    | None => r
    end.

(* exactness of the module evaluator on e, or on the operands of a top-level comparison (const_assert) *)
Definition exact_top (e : cexpr) : bool :=
  match e, eval_constant_int e with
  | CBin _ a b, None => eval_exact a && eval_exact b
  | _, _ => eval_exact e
  end.

Definition entry_with (F : float_ops) (j : json) : json :=
  match field_str "fn" j, match field "e" j with Some e => expr_of_json 64 e | None => None end with
  | Some fn, Some e =>
    match entry_dispatch F fn j e with
    | JObj fs => JObj (fs ++ [("s", spec_of j e); ("rt", json_of_wres (rt_eval e)); ("exact", JBool (exact_top e))])
    | a => a
    end
  | _, _ => JObj [("err", JStr "request")]
  end.
