(* AbstractInt operands: the folder computes in Go int64, which is exactly WGSL's
   AbstractInt as long as the mathematical result stays inside the 64-bit range; and the
   abstract -> concrete conversion is the identity on representable values. *)
From Coq Require Import ZArith Bool List Lia.
From Coq Require Import ZifyBool.
Import ListNotations.
Require Import Naga.Base.Bits32 Naga.Fold.GoArith Naga.Fold.FoldArith Naga.Fold.FoldModel Naga.Fold.WgslConst.
Open Scope Z_scope.
Ltac Zify.zify_post_hook ::= Z.to_euclidean_division_equations.

Section Abstract.
Variable F : float_ops.
Notation tfb := (try_fold_binary_op F).

Lemma in_s64b_spec v : in_s64b v = true -> in_s64 v.
Proof. unfold in_s64b, in_s64. intros H. apply andb_prop in H. destruct H as [H1 H2]. apply Z.leb_le in H1. apply Z.ltb_lt in H2. lia. Qed.

(* + - * : whenever WGSL's AbstractInt result exists (no overflow), the fold is that result *)
Lemma fold_ai_arith op a b w :
  (op = BAdd \/ op = BSub \/ op = BMul) -> wgsl_binary_ai op a b = Ok w -> tfb op (LAI a) (LAI b) = Some (lit_of_wval w).
Proof.
  intros Hop Hw. destruct Hop as [-> | [-> | ->]]; cbn [wgsl_binary_ai] in Hw; unfold ai_result in Hw;
    match type of Hw with (if in_s64b ?v then _ else _) = _ => destruct (in_s64b v) eqn:E; [|discriminate] end;
    injection Hw as <-; apply in_s64b_spec in E;
    unfold try_fold_binary_op, int_branch, int_binop, literal_to_i64, make_int_literal, is_integer_literal, add64, sub64, mul64;
    cbn [andb lit_of_wval]; rewrite s64_id by assumption; reflexivity.
Qed.

Lemma fold_ai_div a b w : in_s64 a -> in_s64 b -> wgsl_binary_ai BDiv a b = Ok w -> tfb BDiv (LAI a) (LAI b) = Some (lit_of_wval w).
Proof.
  intros Ha Hb Hw. cbn [wgsl_binary_ai] in Hw. destruct (Z.eqb_spec b 0) as [E0|E0]; [discriminate|].
  unfold ai_result in Hw. destruct (in_s64b (Z.quot a b)) eqn:E; [|discriminate]. injection Hw as <-. apply in_s64b_spec in E.
  unfold try_fold_binary_op, int_branch, int_binop, literal_to_i64, make_int_literal, is_integer_literal, quo64. cbn [andb lit_of_wval].
  destruct (Z.eqb_spec b 0); [contradiction|]. cbn [option_map]. rewrite s64_id by assumption. reflexivity.
Qed.

Lemma fold_ai_cmp a b :
  tfb BLt (LAI a) (LAI b) = Some (LBool (a <? b)) /\ tfb BEq (LAI a) (LAI b) = Some (LBool (a =? b)) /\
  tfb BLe (LAI a) (LAI b) = Some (LBool (a <=? b)) /\ tfb BNe (LAI a) (LAI b) = Some (LBool (negb (a =? b))) /\
  tfb BGt (LAI a) (LAI b) = Some (LBool (b <? a)) /\ tfb BGe (LAI a) (LAI b) = Some (LBool (b <=? a)).
Proof. repeat split; reflexivity. Qed.

Lemma fold_ai_bitwise a b :
  tfb BAnd (LAI a) (LAI b) = Some (LAI (Z.land a b)) /\ tfb BOr (LAI a) (LAI b) = Some (LAI (Z.lor a b)) /\
  tfb BXor (LAI a) (LAI b) = Some (LAI (Z.lxor a b)).
Proof. repeat split; reflexivity. Qed.

(* conversion of a representable AbstractInt value: concretizeAbstractInt / computeConcreteLiteral *)
Lemma concretize_representable_i32 v : in_i32_range v = true -> ai_to TI32 v = Ok (VI32 (wrap v)) /\ concretize_abstract_int F v TI32 = LI32 (wrap v).
Proof. intros H. unfold ai_to. rewrite H. split; reflexivity. Qed.
Lemma concretize_representable_u32 v : in_u32_range v = true -> ai_to TU32 v = Ok (VU32 v) /\ concretize_abstract_int F v TU32 = LU32 v.
Proof.
  intros H. unfold ai_to. rewrite H. split; [reflexivity|]. unfold concretize_abstract_int, to32. f_equal.
  unfold in_u32_range in H. apply andb_prop in H. destruct H as [H1 H2]. apply Z.leb_le in H1. apply Z.ltb_lt in H2.
  apply wrap_id. unfold in32. lia.
Qed.

(* the AST fast path converts through float64: exact below 2^53 and in range *)
Lemma round_to_f64_small v : Z.abs v < 9007199254740992 -> round_to_f64 v = v.
Proof. intros H. unfold round_to_f64. destruct (Z.ltb_spec (Z.abs v) 9007199254740992); [reflexivity | lia]. Qed.

Lemma concretize_literal_to_i32 v b : in_i32_range v = true -> concretize_literal_to F (LAI v) (LI32 b) = LI32 (wrap v).
Proof.
  intros H. unfold in_i32_range in H. apply andb_prop in H. destruct H as [H1 H2]. apply Z.leb_le in H1. apply Z.ltb_lt in H2.
  unfold concretize_literal_to. rewrite round_to_f64_small by (unfold H32 in *; lia).
  unfold f2i32_amd64. destruct (Z.leb_spec (- H32) v); destruct (Z.ltb_spec v H32); try lia. reflexivity.
Qed.
Lemma concretize_literal_to_u32 v b : in_u32_range v = true -> concretize_literal_to F (LAI v) (LU32 b) = LU32 v.
Proof.
  intros H. unfold in_u32_range in H. apply andb_prop in H. destruct H as [H1 H2]. apply Z.leb_le in H1. apply Z.ltb_lt in H2.
  unfold concretize_literal_to. rewrite round_to_f64_small by (unfold M32 in *; lia).
  unfold f2u32_amd64, f2i64_amd64. destruct (Z.leb_spec (- H64) v); destruct (Z.ltb_spec v H64); unfold H64, M32 in *; try lia.
  cbn [andb]. f_equal. apply wrap_id. unfold in32, M32. lia.
Qed.

End Abstract.
