(* The float half of the folder model: instantiates FoldModel.float_ops with Flocq
   (IEEE754.BinarySingleNaN).  Go float64 = binary64 (53, 1024), WGSL f32 = binary32
   (24, 128); the folder computes every float operation in float64 and narrows the
   result with float32(...) (round to nearest even), f16 through its own roundToF16
   (lower.go 11702), transliterated here on bit patterns.
   NaN: one NaN (payloads are unspecified in WGSL); its bit pattern on output is Flocq's
   default quiet NaN, the check compares "is a NaN". *)
From Coq Require Import ZArith Bool List Lia.
Import ListNotations.
From Flocq Require Import Core IEEE754.BinarySingleNaN IEEE754.Bits.
Require Flocq.IEEE754.Binary.
Require Import Naga.Base.Bits32 Naga.Fold.GoArith Naga.Fold.FoldModel.
Open Scope Z_scope.

Definition f32 := binary_float 24 128.
Definition f64 := binary_float 53 1024.

Lemma Hprec32 : FLX.Prec_gt_0 24. Proof. reflexivity. Qed.
Lemma Hmax32 : Prec_lt_emax 24 128. Proof. reflexivity. Qed.
Lemma Hprec64 : FLX.Prec_gt_0 53. Proof. reflexivity. Qed.
Lemma Hmax64 : Prec_lt_emax 53 1024. Proof. reflexivity. Qed.
#[global] Existing Instance Hprec32.
#[global] Existing Instance Hmax32.
#[global] Existing Instance Hprec64.
#[global] Existing Instance Hmax64.

(* ---- bit patterns <-> floats ---- *)
Definition f32_of_bits (b : Z) : f32 := Binary.B2BSN 24 128 (b32_of_bits b).
Definition bits_of_f32 (x : f32) : Z := bits_of_b32 (Binary.BSN2B 24 128 default_nan_pl32 x).
Definition f64_of_bits (b : Z) : f64 := Binary.B2BSN 53 1024 (b64_of_bits b).
Definition bits_of_f64 (x : f64) : Z := bits_of_b64 (Binary.BSN2B 53 1024 default_nan_pl64 x).

(* ---- conversions ---- *)
(* float64(x) for a float32 x: exact *)
Definition f64_of_f32 (x : f32) : f64 :=
  match x with
  | B754_zero s => B754_zero s
  | B754_infinity s => B754_infinity s
  | B754_nan => B754_nan
  | B754_finite s m e _ => binary_normalize 53 1024 Hprec64 Hmax64 mode_NE (cond_Zopp s (Zpos m)) e s
  end.
(* float32(x) for a float64 x: round to nearest even, overflow to infinity *)
Definition f32_of_f64 (x : f64) : f32 :=
  match x with
  | B754_zero s => B754_zero s
  | B754_infinity s => B754_infinity s
  | B754_nan => B754_nan
  | B754_finite s m e _ => binary_normalize 24 128 Hprec32 Hmax32 mode_NE (cond_Zopp s (Zpos m)) e s
  end.
(* float64(v) for an int64 v *)
Definition f64_of_Z (v : Z) : f64 := binary_normalize 53 1024 Hprec64 Hmax64 mode_NE v 0 false.
(* float32(v) for an int64 v: one rounding *)
Definition f32_of_Z (v : Z) : f32 := binary_normalize 24 128 Hprec32 Hmax32 mode_NE v 0 false.
(* the truncation of a float, 2^70 standing for "not finite" (out of every integer range) *)
Definition OUT : Z := 1180591620717411303424.
Definition trunc_f64 (x : f64) : Z :=
  match x with
  | B754_finite _ _ _ _ | B754_zero _ => Btrunc x
  | _ => OUT
  end.

(* ---- float64 arithmetic as Go does it ---- *)
Definition add64f (x y : f64) : f64 := Bplus mode_NE x y.
Definition sub64f (x y : f64) : f64 := Bminus mode_NE x y.
Definition mul64f (x y : f64) : f64 := Bmult mode_NE x y.
Definition div64f (x y : f64) : f64 := Bdiv mode_NE x y.
Definition neg64f (x : f64) : f64 := Bopp x.
Definition is_zero64 (x : f64) : bool := match x with B754_zero _ => true | _ => false end.
Definition lt64f (x y : f64) : bool := match Bcompare x y with Some Lt => true | _ => false end.
Definition le64f (x y : f64) : bool := match Bcompare x y with Some Lt | Some Eq => true | _ => false end.
Definition eq64f (x y : f64) : bool := match Bcompare x y with Some Eq => true | _ => false end.

(* ---- roundToF16 (11702) on the bit pattern of a float32 ---- *)
Definition is_nan_bits32 (b : Z) : bool := (Z.land (Z.shiftr b 23) 255 =? 255) && negb (Z.land b 8388607 =? 0).
Definition NAN32 : Z := 2143289344.   (* 0x7FC00000 *)
Definition round_to_f16_bits (bits : Z) : Z :=
  let sign := Z.shiftr bits 31 in
  let exp := Z.land (Z.shiftr bits 23) 255 - 127 in
  let mant := Z.land bits 8388607 in
  if exp =? 128 then (if negb (mant =? 0) then NAN32 else if negb (sign =? 0) then 4286578688 else 2139095040)
  else if exp <? -24 then 0     (* "too small for f16": the Go source says `return -0.0` for negative inputs, but the Go
                                   constant -0.0 IS +0.0, so both branches return +0 *)
  else if 15 <? exp then (if negb (sign =? 0) then 4286578688 else 2139095040)
  else
    let mant1 := mant + 4096 in                                              (* mant += 1 << 12 *)
    if 8388608 <=? mant1 then
      let exp1 := exp + 1 in
      if 15 <? exp1 then (if negb (sign =? 0) then 4286578688 else 2139095040)
      else Z.lor (Z.shiftl sign 31) (Z.shiftl (exp1 + 127) 23)
    else Z.lor (Z.lor (Z.shiftl sign 31) (Z.shiftl (exp + 127) 23)) (Z.land mant1 8380416).   (* mant &= 0x7FE000 *)

(* ---- literals as float64 ---- *)
Definition literal_to_f64 (l : lit) : f64 :=
  match l with
  | LF32 b | LF16 b => f64_of_f32 (f32_of_bits b)
  | LAF b => f64_of_bits b
  | _ => B754_zero false
  end.
Definition lit_to_f64_mixed (l : lit) : f64 :=
  if is_integer_literal l then f64_of_Z (literal_to_i64 l) else literal_to_f64 l.

Definition bits32_of_f64 (x : f64) : Z := bits_of_f32 (f32_of_f64 x).

(* makeFloatLiteral(template, val) (11351) *)
Definition make_float_literal (template : lit) (v : f64) : lit :=
  match template with
  | LF16 _ => LF16 (round_to_f16_bits (bits32_of_f64 v))
  | LAF _ => LAF (bits_of_f64 v)
  | _ => LF32 (bits32_of_f64 v)
  end.

(* int64(x) of a float64 as gc/amd64 does it, then back to float64: float64(int64(vl/vr)) in the % fold *)
Definition float_mod (vl vr : f64) : f64 :=
  let q := div64f vl vr in
  sub64f vl (mul64f (f64_of_Z (f2i64_amd64 (trunc_f64 q))) vr).

(* the switch of the float branches (5655-5692 and 12589-12626; 12665-12702 for mixed operands) *)
Definition float_switch (op : binop) (vl vr : f64) (template : lit) : option lit :=
  match op with
  | BAdd => Some (make_float_literal template (add64f vl vr))
  | BSub => Some (make_float_literal template (sub64f vl vr))
  | BMul => Some (make_float_literal template (mul64f vl vr))
  | BDiv => if is_zero64 vr then None else Some (make_float_literal template (div64f vl vr))
  | BMod => if is_zero64 vr then None else Some (make_float_literal template (float_mod vl vr))
  | BEq => Some (LBool (eq64f vl vr))
  | BNe => Some (LBool (negb (eq64f vl vr)))
  | BLt => Some (LBool (lt64f vl vr))
  | BLe => Some (LBool (le64f vl vr))
  | BGt => Some (LBool (lt64f vr vl))
  | BGe => Some (LBool (le64f vr vl))
  | _ => None
  end.

Definition is_f16 (l : lit) : bool := match l with LF16 _ => true | _ => false end.
Definition f16_round64 (x : f64) : f64 := f64_of_f32 (f32_of_bits (round_to_f16_bits (bits32_of_f64 x))).

(* foldBinaryLiterals, float branch: F16 operands are rounded to f16 precision first *)
Definition fbin_ast (op : binop) (l r : lit) : option lit :=
  let vl := literal_to_f64 l in let vr := literal_to_f64 r in
  let '(vl, vr) := if is_f16 l || is_f16 r then (f16_round64 vl, f16_round64 vr) else (vl, vr) in
  float_switch op vl vr l.

(* tryFoldBinaryOp: float/float, and mixed integer/float (the float operand gives the type) *)
Definition fbin (op : binop) (l r : lit) : option lit :=
  if is_float_literal l && is_float_literal r then float_switch op (literal_to_f64 l) (literal_to_f64 r) l
  else float_switch op (lit_to_f64_mixed l) (lit_to_f64_mixed r) (if is_float_literal l then l else r).

(* tryFoldUnaryOp negate / lowerNegatedLiteral on a float literal: -v in float64, or flip on the literal *)
Definition fneg (l : lit) : option lit := Some (make_float_literal l (neg64f (literal_to_f64 l))).

(* tryFoldAs (12317) with a float source and/or a float target *)
Definition max_f64 (x y : f64) : f64 := if lt64f x y then y else x.       (* math.Max without NaN (handled before) *)
Definition min_f64 (x y : f64) : f64 := if lt64f y x then y else x.
Definition is_nan64 (x : f64) : bool := match x with B754_nan => true | _ => false end.
Definition fas (l : lit) (t : sty) : option lit :=
  let srcIsF64 := match l with LAF _ => true | _ => false end in
  if is_float_literal l then
    let fval := literal_to_f64 l in
    match t with
    | TF32 => Some (LF32 (bits32_of_f64 fval))
    | TF16 => Some (LF16 (round_to_f16_bits (bits32_of_f64 fval)))
    | TI32 =>
      (* math.Max(minVal, math.Min(maxVal, fval)): NaN propagates, int64(NaN) on amd64 = MinInt64, int32(...) = 0 *)
      if is_nan64 fval then Some (LI32 (to32 (f2i64_amd64 OUT)))
      else
        let lo := f64_of_Z (-2147483648) in
        let hi := f64_of_Z (if srcIsF64 then 2147483647 else 2147483520) in
        Some (LI32 (to32 (f2i64_amd64 (trunc_f64 (max_f64 lo (min_f64 hi fval))))))
    | TU32 =>
      let hi := if srcIsF64 then 4294967295 else 4294967040 in
      if lt64f fval (B754_zero false) then Some (LU32 0)
      else if lt64f (f64_of_Z hi) fval then Some (LU32 hi)
      else if is_nan64 fval then Some (LU32 (to32 (u64 (f2i64_amd64 OUT))))   (* uint64(NaN): via int64 on amd64 *)
      else Some (LU32 (to32 (trunc_f64 fval)))
    | TBool => Some (LBool (negb (eq64f fval (B754_zero false))))
    end
  else
    let ival := match l with LBool b => if b then 1 else 0 | _ => literal_to_i64 l end in
    match t with
    | TF32 => Some (LF32 (bits32_of_f64 (f64_of_Z ival)))
    | TF16 => Some (LF16 (round_to_f16_bits (bits32_of_f64 (f64_of_Z ival))))
    | _ => None
    end.

(* conversions outside tryFoldAs: Go's float64 -> int32/uint32 and int64 -> float32 *)
Definition fconc (l : lit) (t : sty) : option lit :=
  match l with
  | LAI v =>
    match t with
    | TF32 => Some (LF32 (bits_of_f32 (f32_of_Z v)))           (* ir.LiteralF32(float32(intVal)): one rounding *)
    | TF16 => Some (LF16 (bits_of_f32 (f32_of_Z v)))           (* ir.LiteralF16(float32(value)): NOT rounded to f16 *)
    | _ => None
    end
  | LAF b =>
    let x := f64_of_bits b in
    match t with
    | TF32 => Some (LF32 (bits32_of_f64 x))
    | TF16 => Some (LF16 (bits32_of_f64 x))
    | TI32 => Some (LI32 (f2i32_amd64 (trunc_f64 x)))
    | TU32 => Some (LU32 (f2u32_amd64 (trunc_f64 x)))
    | TBool => None
    end
  | LI32 b => match t with TF32 | TF16 => Some (LF32 (bits_of_f32 (f32_of_Z (sgn b)))) | _ => None end
  | LF32 b =>
    let x := f64_of_f32 (f32_of_bits b) in
    match t with
    | TI32 => Some (LI32 (f2i32_amd64 (trunc_f64 x)))
    | TU32 => Some (LU32 (f2u32_amd64 (trunc_f64 x)))
    | _ => None
    end
  | _ => None
  end.

(* float builtins: the exactly-rounded ones; everything else (sqrt, pow, trig, ...) is not modelled *)
Definition fmath (f : mathfn) (args : list lit) : option lit :=
  match f, args with
  | MAbs, [a] => Some (make_float_literal a (Babs (literal_to_f64 a)))
  | MSign, [a] => let v := literal_to_f64 a in
                  Some (make_float_literal a (if lt64f (B754_zero false) v then f64_of_Z 1 else if lt64f v (B754_zero false) then f64_of_Z (-1) else B754_zero false))
  | MMin, [a; b] => let va := literal_to_f64 a in let vb := literal_to_f64 b in
                    Some (make_float_literal a (if lt64f vb va then vb else va))
  | MMax, [a; b] => let va := literal_to_f64 a in let vb := literal_to_f64 b in
                    Some (make_float_literal a (if lt64f va vb then vb else va))
  | MClamp, [e; lo; hi] => let v := literal_to_f64 e in let l := literal_to_f64 lo in let h := literal_to_f64 hi in
                           Some (make_float_literal e (if lt64f v l then l else if lt64f h v then h else v))
  | MFloat 1, [a] => let v := literal_to_f64 a in      (* saturate *)
                     Some (make_float_literal a (if lt64f v (B754_zero false) then B754_zero false else if lt64f (f64_of_Z 1) v then f64_of_Z 1 else v))
  | MFloat 2, [a] => Some (make_float_literal a (Bnearbyint mode_UP (literal_to_f64 a)))    (* ceil *)
  | MFloat 3, [a] => Some (make_float_literal a (Bnearbyint mode_DN (literal_to_f64 a)))    (* floor *)
  | MFloat 4, [a] => Some (make_float_literal a (Bnearbyint mode_NE (literal_to_f64 a)))    (* round: RoundToEven *)
  | MFloat 5, [a] => let v := literal_to_f64 a in                                          (* fract: v - math.Floor(v) in float64 *)
                     Some (make_float_literal a (sub64f v (Bnearbyint mode_DN v)))
  | MFloat 6, [a] => Some (make_float_literal a (Bnearbyint mode_ZR (literal_to_f64 a)))    (* trunc *)
  | MFloat 7, [a] => Some (make_float_literal a (Bsqrt mode_NE (literal_to_f64 a)))         (* sqrt: math.Sqrt is correctly rounded *)
  | MFloat 8, [edge; x] => Some (make_float_literal edge (if le64f (literal_to_f64 edge) (literal_to_f64 x) then f64_of_Z 1 else B754_zero false))  (* step *)
  | MFloat 9, [a; b; c] => Some (make_float_literal a (add64f (mul64f (literal_to_f64 a) (literal_to_f64 b)) (literal_to_f64 c)))   (* fma: a*b + c, two roundings *)
  | _, _ => None
  end.

Definition flocq_float_ops : float_ops :=
  {| f_bin_ast := fbin_ast; f_bin := fbin; f_neg := fneg; f_as := fas; f_math := fmath; f_conc := fconc;
     f_ai_to_af := fun v => LAF (bits_of_f64 (f64_of_Z v)) |}.

(* tryFoldDot (11369) on float vectors: sum starts at +0.0 (Go zero value) *)
Fixpoint dot_f64 (acc : f64) (xs ys : list lit) : f64 :=
  match xs, ys with
  | x :: xs', y :: ys' => dot_f64 (add64f acc (mul64f (literal_to_f64 x) (literal_to_f64 y))) xs' ys'
  | _, _ => acc
  end.
Definition fold_dot_float (xs ys : list lit) : option lit :=
  match xs with
  | x :: _ => if Nat.eqb (length xs) (length ys) then Some (make_float_literal x (dot_f64 (B754_zero false) xs ys)) else None
  | [] => None
  end.
(* integer dot: int64 sum of products, then makeIntLiteral *)
Fixpoint dot_i64 (acc : Z) (xs ys : list lit) : Z :=
  match xs, ys with
  | x :: xs', y :: ys' => dot_i64 (add64 acc (mul64 (literal_to_i64 x) (literal_to_i64 y))) xs' ys'
  | _, _ => acc
  end.
Definition fold_dot_int (xs ys : list lit) : option lit :=
  match xs with
  | x :: _ => if Nat.eqb (length xs) (length ys) then Some (make_int_literal x (dot_i64 0 xs ys)) else None
  | [] => None
  end.

(* ---- WGSL run-time f32 operations that are correctly rounded: + - * and the comparisons ---- *)
Definition f32_rt (op : binop) (a b : Z) : option lit :=
  let x := f32_of_bits a in let y := f32_of_bits b in
  match op with
  | BAdd => Some (LF32 (bits_of_f32 (Bplus mode_NE x y)))
  | BSub => Some (LF32 (bits_of_f32 (Bminus mode_NE x y)))
  | BMul => Some (LF32 (bits_of_f32 (Bmult mode_NE x y)))
  | BEq => Some (LBool (match Bcompare x y with Some Eq => true | _ => false end))
  | BNe => Some (LBool (match Bcompare x y with Some Eq => false | _ => true end))
  | BLt => Some (LBool (match Bcompare x y with Some Lt => true | _ => false end))
  | BLe => Some (LBool (match Bcompare x y with Some Lt | Some Eq => true | _ => false end))
  | BGt => Some (LBool (match Bcompare x y with Some Gt => true | _ => false end))
  | BGe => Some (LBool (match Bcompare x y with Some Gt | Some Eq => true | _ => false end))
  | _ => None
  end.

(* correctly rounded f32 -> f16 (round to nearest even, subnormals, overflow to infinity), as f32 bits:
   what WGSL's f16 conversion specifies, to compare roundToF16 with *)
Lemma Hprec16 : FLX.Prec_gt_0 11. Proof. reflexivity. Qed.
Lemma Hmax16 : Prec_lt_emax 11 16. Proof. reflexivity. Qed.
Definition f16 := binary_float 11 16.
Definition f16_of_f32 (x : f32) : f16 :=
  match x with
  | B754_zero s => B754_zero s | B754_infinity s => B754_infinity s | B754_nan => B754_nan
  | B754_finite s m e _ => binary_normalize 11 16 Hprec16 Hmax16 mode_NE (cond_Zopp s (Zpos m)) e s
  end.
Definition f32_of_f16 (x : f16) : f32 :=
  match x with
  | B754_zero s => B754_zero s | B754_infinity s => B754_infinity s | B754_nan => B754_nan
  | B754_finite s m e _ => binary_normalize 24 128 Hprec32 Hmax32 mode_NE (cond_Zopp s (Zpos m)) e s
  end.
Definition ieee_round_to_f16_bits (bits : Z) : Z := bits_of_f32 (f32_of_f16 (f16_of_f32 (f32_of_bits bits))).

(* roundToF16 is NOT IEEE round-to-nearest-even: ties are rounded up and f16 subnormals keep 10 bits.
   1 + 2^-11 (exactly between 1 and 1+2^-10): IEEE gives 1.0 (even), roundToF16 gives 1 + 2^-10;
   2^-20 * (1 + 2^-10 + 2^-11) is not representable in f16 (subnormal spacing 2^-24): kept as is. *)
Lemma round_to_f16_tie_refuted :
  round_to_f16_bits 1065357312 = 1065361408 /\ ieee_round_to_f16_bits 1065357312 = 1065353216.
Proof. split; vm_compute; reflexivity. Qed.
Lemma round_to_f16_subnormal_refuted :
  round_to_f16_bits 897589248 = 897589248 /\ ieee_round_to_f16_bits 897589248 = 897581056.
Proof. split; vm_compute; reflexivity. Qed.

(* evalConstantFloatExpr (2262) on trees without identifiers: every numeric literal token (integer tokens too)
   is parsed as a float64; + - * / in float64 ("/" by a float zero is an error); unary minus.
   lowerConstantBinaryExpr (1795) falls back to it when the integer evaluation failed -- for whatever reason,
   including an integer division by zero -- and then declares the constant as an f32. *)
Fixpoint eval_constant_float (e : cexpr) : option f64 :=
  match e with
  | CLit (LI32 b) | CLit (LU32 b) | CLit (LAI b) => Some (f64_of_Z b)
  | CLit (LF32 b) | CLit (LF16 b) => Some (f64_of_f32 (f32_of_bits b))
  | CLit (LAF b) => Some (f64_of_bits b)
  | CUn UNeg a => option_map neg64f (eval_constant_float a)
  | CBin op a b =>
    match eval_constant_float a, eval_constant_float b with
    | Some x, Some y =>
      match op with
      | BAdd => Some (add64f x y) | BSub => Some (sub64f x y) | BMul => Some (mul64f x y)
      | BDiv => if is_zero64 y then None else Some (div64f x y)
      | _ => None
      end
    | _, _ => None
    end
  | _ => None
  end.
(* the f32 bit pattern of the constant the fallback creates *)
Definition mod_const_float_fallback (e : cexpr) : option Z :=
  match e with
  | CBin _ _ _ => option_map bits32_of_f64 (eval_constant_float e)
  | _ => None
  end.
