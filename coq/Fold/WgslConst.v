(* What WGSL specifies for const-expressions over bool / i32 / u32 / AbstractInt
   (my transcription of the WGSL specification; definitions only):
     - "Abstract numeric types": AbstractInt is the 64-bit two's complement range;
       "evaluation of an expression in one of these types must not overflow";
     - "Integer types": "expressions on concrete integer types that overflow produce
       a result that is modulo 2^bitwidth" (so + - * and unary - on i32/u32 never err);
     - "Arithmetic expressions": e1 / e2 and e1 % e2 on integers are a shader-creation
       error in a const-expression when e2 = 0, and for signed T when e1 is the most
       negative value and e2 = -1;
     - "Bit expressions": for e1 << e2 and e1 >> e2 it is a shader-creation error if
       e2 >= bit width of e1; for << in a const-expression also if, for signed e1, the
       e2+1 most significant bits of e1 are not all equal, for unsigned e1, any of the
       e2 most significant bits of e1 is 1; the shift amount has type u32;
     - "Conversion rank" / overload resolution: an AbstractInt operand converts to the
       concrete type of the other operand (feasible only if the value is representable,
       otherwise a shader-creation error); i32 is preferred over u32 when both are feasible;
     - builtins abs/min/max/clamp/sign and the bit builtins: "Integer built-in functions"
       (clamp: shader-creation error when low > high in a const-expression; the bit
       builtins exist for i32/u32 only).
   The value of every concrete operation is the run-time operation of Base/Bits32, so
   "the WGSL const value" and "the value at run time" are one definition.

   [Ok v] the value; [Err r] shader-creation error (with the reason); [Ill] no matching overload, or outside
   the modelled fragment (excluded by the theorems' hypotheses). *)
From Coq Require Import ZArith Bool List.
Import ListNotations.
Require Import Naga.Base.Bits32 Naga.Fold.GoArith Naga.Fold.FoldModel.
Open Scope Z_scope.

Inductive wval := VI32 (b : Z) | VU32 (b : Z) | VAI (v : Z) | VBool (b : bool).
(* why a const-expression is a shader-creation error *)
Inductive reason :=
| RDivZero            (* integer / or % by zero *)
| RDivOverflow        (* most negative value / or % -1 *)
| RShiftTooLarge      (* shift amount >= bit width *)
| RShlOverflow        (* << shifts out significant bits *)
| RAbstractOverflow   (* AbstractInt arithmetic leaves the 64-bit range *)
| RNotRepresentable   (* AbstractInt value not representable in the concrete type it must convert to *)
| RClampLowHigh       (* clamp with low > high *)
| RLiteralRange.      (* literal token out of range for its type *)
Inductive wres := Ok (v : wval) | Err (r : reason) | Ill.

Definition in_i32_range (v : Z) : bool := (- H32 <=? v) && (v <? H32).
Definition in_u32_range (v : Z) : bool := (0 <=? v) && (v <? M32).
Definition in_s64b (v : Z) : bool := (- H64 <=? v) && (v <? H64).

Definition ai_result (v : Z) : wres := if in_s64b v then Ok (VAI v) else Err RAbstractOverflow.

(* AbstractInt -> concrete (feasible automatic conversion) *)
Definition ai_to (t : sty) (v : Z) : wres :=
  match t with
  | TI32 => if in_i32_range v then Ok (VI32 (wrap v)) else Err RNotRepresentable
  | TU32 => if in_u32_range v then Ok (VU32 v) else Err RNotRepresentable
  | _ => Ill
  end.

(* ---- operators on one concrete type; the value is the Bits32 run-time operation ---- *)
Definition rt_arith_i32 (op : binop) (a b : Z) : option Z :=
  match op with
  | BAdd => Some (add32 a b) | BSub => Some (sub32 a b) | BMul => Some (mul32 a b)
  | BDiv => Some (div_i32 a b) | BMod => Some (rem_i32 a b)
  | BAnd => Some (and32 a b) | BOr => Some (or32 a b) | BXor => Some (xor32 a b)
  | _ => None
  end.
Definition rt_arith_u32 (op : binop) (a b : Z) : option Z :=
  match op with
  | BAdd => Some (add32 a b) | BSub => Some (sub32 a b) | BMul => Some (mul32 a b)
  | BDiv => Some (div_u32 a b) | BMod => Some (rem_u32 a b)
  | BAnd => Some (and32 a b) | BOr => Some (or32 a b) | BXor => Some (xor32 a b)
  | _ => None
  end.
Definition rt_cmp_i32 (op : binop) (a b : Z) : option bool :=
  match op with
  | BEq => Some (a =? b) | BNe => Some (negb (a =? b))
  | BLt => Some (lt_i32 a b) | BLe => Some (le_i32 a b) | BGt => Some (lt_i32 b a) | BGe => Some (le_i32 b a)
  | _ => None
  end.
Definition rt_cmp_u32 (op : binop) (a b : Z) : option bool :=
  match op with
  | BEq => Some (a =? b) | BNe => Some (negb (a =? b))
  | BLt => Some (lt_u32 a b) | BLe => Some (le_u32 a b) | BGt => Some (lt_u32 b a) | BGe => Some (le_u32 b a)
  | _ => None
  end.

(* const-expression errors of / and % *)
Definition div_err_i32 (a b : Z) : bool := (b =? 0) || ((a =? INT_MIN_BITS) && (b =? ALL_ONES)).
Definition div_err_u32 (b : Z) : bool := b =? 0.

(* const-expression errors of << on concrete operands (b < 32 checked separately):
   signed: the b+1 most significant bits must be all equal  <=>  the mathematical result fits;
   unsigned: none of the b most significant bits is set       <=>  the mathematical result fits *)
Definition shl_overflow_i32 (a b : Z) : bool := negb (in_i32_range (sgn a * 2 ^ b)).
Definition shl_overflow_u32 (a b : Z) : bool := negb (in_u32_range (a * 2 ^ b)).

Definition wgsl_binary_i32 (op : binop) (a b : Z) : wres :=
  match op with
  | BDiv | BMod => if div_err_i32 a b then Err (if b =? 0 then RDivZero else RDivOverflow) else
                   match rt_arith_i32 op a b with Some v => Ok (VI32 v) | None => Ill end
  | BAdd | BSub | BMul | BAnd | BOr | BXor =>
    match rt_arith_i32 op a b with Some v => Ok (VI32 v) | None => Ill end
  | BEq | BNe | BLt | BLe | BGt | BGe =>
    match rt_cmp_i32 op a b with Some v => Ok (VBool v) | None => Ill end
  | _ => Ill
  end.
Definition wgsl_binary_u32 (op : binop) (a b : Z) : wres :=
  match op with
  | BDiv | BMod => if div_err_u32 b then Err RDivZero else
                   match rt_arith_u32 op a b with Some v => Ok (VU32 v) | None => Ill end
  | BAdd | BSub | BMul | BAnd | BOr | BXor =>
    match rt_arith_u32 op a b with Some v => Ok (VU32 v) | None => Ill end
  | BEq | BNe | BLt | BLe | BGt | BGe =>
    match rt_cmp_u32 op a b with Some v => Ok (VBool v) | None => Ill end
  | _ => Ill
  end.
(* AbstractInt: mathematical integers, overflow of the 64-bit range is an error *)
Definition wgsl_binary_ai (op : binop) (a b : Z) : wres :=
  match op with
  | BAdd => ai_result (a + b) | BSub => ai_result (a - b) | BMul => ai_result (a * b)
  | BDiv => if b =? 0 then Err RDivZero else ai_result (Z.quot a b)
  | BMod => if b =? 0 then Err RDivZero else if (a =? - H64) && (b =? -1) then Err RDivOverflow else ai_result (Z.rem a b)
  | BAnd => Ok (VAI (Z.land a b)) | BOr => Ok (VAI (Z.lor a b)) | BXor => Ok (VAI (Z.lxor a b))
  | BEq => Ok (VBool (a =? b)) | BNe => Ok (VBool (negb (a =? b)))
  | BLt => Ok (VBool (a <? b)) | BLe => Ok (VBool (a <=? b)) | BGt => Ok (VBool (b <? a)) | BGe => Ok (VBool (b <=? a))
  | _ => Ill
  end.
Definition wgsl_binary_bool (op : binop) (a b : bool) : wres :=
  match op with
  | BEq => Ok (VBool (Bool.eqb a b)) | BNe => Ok (VBool (negb (Bool.eqb a b)))
  | BAnd | BLAnd => Ok (VBool (a && b)) | BOr | BLOr => Ok (VBool (a || b))
  | _ => Ill
  end.

(* shifts: n is the (u32) shift amount *)
Definition wgsl_shift (op : binop) (l : wval) (n : Z) : wres :=
  match l with
  | VI32 a => if 32 <=? n then Err RShiftTooLarge else
              match op with
              | BShl => if shl_overflow_i32 a n then Err RShlOverflow else Ok (VI32 (shl32 a n))
              | _ => Ok (VI32 (shr_i32 a n))
              end
  | VU32 a => if 32 <=? n then Err RShiftTooLarge else
              match op with
              | BShl => if shl_overflow_u32 a n then Err RShlOverflow else Ok (VU32 (shl32 a n))
              | _ => Ok (VU32 (shr_u32 a n))
              end
  | VAI a => if 64 <=? n then Err RShiftTooLarge else
             match op with
             | BShl => ai_result (a * 2 ^ n)
             | _ => Ok (VAI (Z.shiftr a n))
             end
  | VBool _ => Ill
  end.

Definition wgsl_binary (op : binop) (l r : wval) : wres :=
  if is_shift op then
    match r with
    | VU32 n => wgsl_shift op l n
    | VAI n => if in_u32_range n then wgsl_shift op l n else Err RNotRepresentable
    | _ => Ill
    end
  else
    match l, r with
    | VI32 a, VI32 b => wgsl_binary_i32 op a b
    | VU32 a, VU32 b => wgsl_binary_u32 op a b
    | VAI a, VAI b => wgsl_binary_ai op a b
    | VAI a, VI32 b => if in_i32_range a then wgsl_binary_i32 op (wrap a) b else Err RNotRepresentable
    | VI32 a, VAI b => if in_i32_range b then wgsl_binary_i32 op a (wrap b) else Err RNotRepresentable
    | VAI a, VU32 b => if in_u32_range a then wgsl_binary_u32 op a b else Err RNotRepresentable
    | VU32 a, VAI b => if in_u32_range b then wgsl_binary_u32 op a b else Err RNotRepresentable
    | VBool a, VBool b => wgsl_binary_bool op a b
    | _, _ => Ill
    end.

Definition wgsl_unary (op : unop) (v : wval) : wres :=
  match op, v with
  | UNeg, VI32 a => Ok (VI32 (neg32 a))
  | UNeg, VAI a => ai_result (- a)
  | UBNot, VI32 a => Ok (VI32 (not32 a))
  | UBNot, VU32 a => Ok (VU32 (not32 a))
  | UBNot, VAI a => Ok (VAI (- a - 1))
  | ULNot, VBool b => Ok (VBool (negb b))
  | _, _ => Ill
  end.

(* value constructors i32(e) u32(e) bool(e); an AbstractInt argument first converts to the
   parameter type of lowest conversion rank that can hold it: i32, else u32 *)
Definition ai_concretize_any (v : Z) : wres :=
  if in_i32_range v then Ok (VI32 (wrap v)) else if in_u32_range v then Ok (VU32 v) else Err RNotRepresentable.
Definition wgsl_convert_concrete (t : sty) (v : wval) : wres :=
  match t, v with
  | TI32, VI32 a => Ok (VI32 a) | TI32, VU32 a => Ok (VI32 (i32_of_u32 a)) | TI32, VBool b => Ok (VI32 (u32_of_bool b))
  | TU32, VU32 a => Ok (VU32 a) | TU32, VI32 a => Ok (VU32 (u32_of_i32 a)) | TU32, VBool b => Ok (VU32 (u32_of_bool b))
  | TBool, VBool b => Ok (VBool b) | TBool, VI32 a => Ok (VBool (bool_of_32 a)) | TBool, VU32 a => Ok (VBool (bool_of_32 a))
  | _, _ => Ill
  end.
Definition wgsl_convert (t : sty) (v : wval) : wres :=
  match v with
  | VAI a => match ai_concretize_any a with Ok c => wgsl_convert_concrete t c | r => r end
  | _ => wgsl_convert_concrete t v
  end.

(* arguments of a builtin unified to one type: all concrete and equal, or abstract ones
   converted to the concrete one; all abstract stay abstract *)
Definition concrete_ty (v : wval) : option sty :=
  match v with VI32 _ => Some TI32 | VU32 _ => Some TU32 | VBool _ => Some TBool | VAI _ => None end.
Definition unify_to (t : sty) (v : wval) : wres :=
  match v, t with
  | VAI a, _ => ai_to t a
  | VI32 _, TI32 | VU32 _, TU32 | VBool _, TBool => Ok v
  | _, _ => Ill
  end.
Fixpoint first_concrete (vs : list wval) : option sty :=
  match vs with [] => None | v :: r => match concrete_ty v with Some t => Some t | None => first_concrete r end end.
Fixpoint unify_all (t : sty) (vs : list wval) : option (list wval) + option reason (* inr (Some r) = Err r, inr None = Ill *) :=
  match vs with
  | [] => inl (Some [])
  | v :: r => match unify_to t v with
              | Ok v' => match unify_all t r with inl (Some l) => inl (Some (v' :: l)) | x => x end
              | Err x => match unify_all t r with inr None => inr None | _ => inr (Some x) end
              | Ill => inr None
              end
  end.

Definition wgsl_math_i32 (f : mathfn) (args : list Z) : wres :=
  match f, args with
  | MAbs, [a] => Ok (VI32 (abs_i32 a))
  | MSign, [a] => Ok (VI32 (sign_i32 a))
  | MMin, [a; b] => Ok (VI32 (min_i32 a b))
  | MMax, [a; b] => Ok (VI32 (max_i32 a b))
  | MClamp, [e; lo; hi] => if lt_i32 hi lo then Err RClampLowHigh else Ok (VI32 (clamp_i32 e lo hi))
  | MCountTrailingZeros, [a] => Ok (VI32 (count_trailing_zeros a))
  | MCountLeadingZeros, [a] => Ok (VI32 (count_leading_zeros a))
  | MCountOneBits, [a] => Ok (VI32 (count_one_bits a))
  | MReverseBits, [a] => Ok (VI32 (reverse_bits a))
  | MFirstTrailingBit, [a] => Ok (VI32 (first_trailing_bit a))
  | MFirstLeadingBit, [a] => Ok (VI32 (first_leading_bit_i32 a))
  | _, _ => Ill
  end.
Definition wgsl_math_u32 (f : mathfn) (args : list Z) : wres :=
  match f, args with
  | MAbs, [a] => Ok (VU32 a)
  | MMin, [a; b] => Ok (VU32 (min_u32 a b))
  | MMax, [a; b] => Ok (VU32 (max_u32 a b))
  | MClamp, [e; lo; hi] => if lt_u32 hi lo then Err RClampLowHigh else Ok (VU32 (clamp_u32 e lo hi))
  | MCountTrailingZeros, [a] => Ok (VU32 (count_trailing_zeros a))
  | MCountLeadingZeros, [a] => Ok (VU32 (count_leading_zeros a))
  | MCountOneBits, [a] => Ok (VU32 (count_one_bits a))
  | MReverseBits, [a] => Ok (VU32 (reverse_bits a))
  | MFirstTrailingBit, [a] => Ok (VU32 (first_trailing_bit a))
  | MFirstLeadingBit, [a] => Ok (VU32 (first_leading_bit_u32 a))
  | _, _ => Ill
  end.
Definition wgsl_math_ai (f : mathfn) (args : list Z) : wres :=
  match f, args with
  | MAbs, [a] => ai_result (Z.abs a)
  | MSign, [a] => Ok (VAI (Z.sgn a))
  | MMin, [a; b] => Ok (VAI (Z.min a b))
  | MMax, [a; b] => Ok (VAI (Z.max a b))
  | MClamp, [e; lo; hi] => if hi <? lo then Err RClampLowHigh else Ok (VAI (Z.min (Z.max e lo) hi))
  | _, _ => Ill
  end.
Definition is_bit_builtin (f : mathfn) : bool :=
  match f with
  | MCountTrailingZeros | MCountLeadingZeros | MCountOneBits | MReverseBits | MFirstTrailingBit | MFirstLeadingBit => true
  | _ => false
  end.
Definition payload (v : wval) : Z := match v with VI32 a | VU32 a | VAI a => a | VBool b => if b then 1 else 0 end.

Definition wgsl_math (f : mathfn) (vs : list wval) : wres :=
  match first_concrete vs with
  | Some t =>
    match unify_all t vs with
    | inl (Some l) => match t with
                      | TI32 => wgsl_math_i32 f (map payload l)
                      | TU32 => wgsl_math_u32 f (map payload l)
                      | _ => Ill
                      end
    | inl None => Ill
    | inr (Some r) => Err r
    | inr None => Ill
    end
  | None =>
    (* all AbstractInt: the integer builtins that accept AbstractInt stay abstract; the bit
       builtins have no AbstractInt overload: the argument converts to i32 *)
    if is_bit_builtin f then
      match vs with
      | [VAI a] => if in_i32_range a then wgsl_math_i32 f [wrap a] else Ill   (* which overload a larger value selects is not clear to me: not claimed *)
      | _ => Ill
      end
    else wgsl_math_ai f (map payload vs)
  end.

Definition wgsl_literal (l : lit) : wres :=
  match l with
  | LI32 b => if (0 <=? b) && (b <? H32) then Ok (VI32 b) else Err RLiteralRange
  | LU32 b => if in_u32_range b then Ok (VU32 b) else Err RLiteralRange
  | LAI v => if (0 <=? v) && (v <? H64) then Ok (VAI v) else Err RLiteralRange
  | LBool b => Ok (VBool b)
  | _ => Ill
  end.

Definition bind (r : wres) (k : wval -> wres) : wres := match r with Ok v => k v | Err r => Err r | Ill => Ill end.
(* both operands are evaluated: an error in either is an error (Ill wins: outside the fragment) *)
Definition bind2 (r1 r2 : wres) (k : wval -> wval -> wres) : wres :=
  match r1, r2 with
  | Ok a, Ok b => k a b
  | Ill, _ | _, Ill => Ill
  | Err r, _ => Err r
  | _, Err r => Err r
  end.
Definition bind3 (r1 r2 r3 : wres) (k : wval -> wval -> wval -> wres) : wres :=
  match r1, r2, r3 with
  | Ok a, Ok b, Ok c => k a b c
  | Ill, _, _ | _, Ill, _ | _, _, Ill => Ill
  | Err r, _, _ => Err r
  | _, Err r, _ => Err r
  | _, _, Err r => Err r
  end.

Fixpoint wgsl_eval (e : cexpr) : wres :=
  match e with
  | CLit l => wgsl_literal l
  | CUn op a => bind (wgsl_eval a) (wgsl_unary op)
  | CBin op a b =>
    if is_logical op then
      (* short-circuit: the right operand is not evaluated when the left decides *)
      match wgsl_eval a with
      | Ok (VBool x) =>
        match op, x with
        | BLAnd, false => Ok (VBool false)
        | BLOr, true => Ok (VBool true)
        | _, _ => bind (wgsl_eval b) (fun r => match r with VBool y => Ok (VBool y) | _ => Ill end)
        end
      | Ok _ => Ill
      | r => r
      end
    else bind2 (wgsl_eval a) (wgsl_eval b) (wgsl_binary op)
  | CAs t a => bind (wgsl_eval a) (wgsl_convert t)
  | CMath1 f a => bind (wgsl_eval a) (fun x => wgsl_math f [x])
  | CMath2 f a b => bind2 (wgsl_eval a) (wgsl_eval b) (fun x y => wgsl_math f [x; y])
  | CMath3 f a b c => bind3 (wgsl_eval a) (wgsl_eval b) (wgsl_eval c) (fun x y z => wgsl_math f [x; y; z])
  | CSelect fv tv c =>
    bind3 (wgsl_eval fv) (wgsl_eval tv) (wgsl_eval c) (fun x y cv =>
      match cv with
      | VBool cb =>
        match first_concrete [x; y] with
        | Some t => bind2 (unify_to t x) (unify_to t y) (fun x' y' => Ok (if cb then y' else x'))
        | None => Ok (if cb then y else x)
        end
      | _ => Ill
      end)
  end.

(* the value is finally used where a [t] is required (store to a t variable, `const c : t`,
   array size, selector, ...): an AbstractInt converts if representable *)
Definition wgsl_as_type (t : sty) (r : wres) : wres :=
  bind r (fun v => match v with VAI a => ai_to t a | _ => match concrete_ty v with
                                                        | Some t' => if match t, t' with TI32, TI32 | TU32, TU32 | TBool, TBool => true | _, _ => false end then Ok v else Ill
                                                        | None => Ill end end).
(* `let x = e;` : AbstractInt concretizes to i32 *)
Definition wgsl_as_default (r : wres) : wres :=
  bind r (fun v => match v with VAI a => ai_to TI32 a | _ => Ok v end).

Definition lit_of_wval (v : wval) : lit :=
  match v with VI32 b => LI32 b | VU32 b => LU32 b | VAI a => LAI a | VBool b => LBool b end.

(* ---- the same expression evaluated at run time (operands arriving in variables):
   no shader-creation errors exist there; / and % by zero, MIN / -1, shift amounts >= 32
   and clamp with low > high have the run-time results WGSL defines (Base/Bits32).
   Only for trees whose leaves are concrete (i32/u32/bool): an AbstractInt has no
   run-time existence ([Ill]). *)
Definition rt_binary (op : binop) (l r : wval) : wres :=
  if is_shift op then
    match l, r with
    | VI32 a, VU32 n => Ok (VI32 (match op with BShl => shl32 a n | _ => shr_i32 a n end))
    | VU32 a, VU32 n => Ok (VU32 (match op with BShl => shl32 a n | _ => shr_u32 a n end))
    | _, _ => Ill
    end
  else
    match l, r with
    | VI32 a, VI32 b =>
      match rt_arith_i32 op a b, rt_cmp_i32 op a b with
      | Some v, _ => Ok (VI32 v) | None, Some c => Ok (VBool c) | None, None => Ill end
    | VU32 a, VU32 b =>
      match rt_arith_u32 op a b, rt_cmp_u32 op a b with
      | Some v, _ => Ok (VU32 v) | None, Some c => Ok (VBool c) | None, None => Ill end
    | VBool a, VBool b => wgsl_binary_bool op a b
    | _, _ => Ill
    end.
Definition rt_math (f : mathfn) (vs : list wval) : wres :=
  match f, vs with
  | MClamp, [VI32 e; VI32 lo; VI32 hi] => Ok (VI32 (clamp_i32 e lo hi))
  | MClamp, [VU32 e; VU32 lo; VU32 hi] => Ok (VU32 (clamp_u32 e lo hi))
  | _, _ => match first_concrete vs with
            | Some TI32 => if forallb (fun v => match v with VI32 _ => true | _ => false end) vs
                           then wgsl_math_i32 f (map payload vs) else Ill
            | Some TU32 => if forallb (fun v => match v with VU32 _ => true | _ => false end) vs
                           then wgsl_math_u32 f (map payload vs) else Ill
            | _ => Ill
            end
  end.
Fixpoint rt_eval (e : cexpr) : wres :=
  match e with
  | CLit (LAI _) => Ill
  | CLit l => wgsl_literal l
  | CUn op a => bind (rt_eval a) (wgsl_unary op)
  | CBin op a b =>
    if is_logical op then
      match rt_eval a with
      | Ok (VBool x) =>
        match op, x with
        | BLAnd, false => Ok (VBool false)
        | BLOr, true => Ok (VBool true)
        | _, _ => bind (rt_eval b) (fun r => match r with VBool y => Ok (VBool y) | _ => Ill end)
        end
      | Ok _ => Ill
      | r => r
      end
    else bind2 (rt_eval a) (rt_eval b) (rt_binary op)
  | CAs t a => bind (rt_eval a) (wgsl_convert_concrete t)
  | CMath1 f a => bind (rt_eval a) (fun x => rt_math f [x])
  | CMath2 f a b => bind2 (rt_eval a) (rt_eval b) (fun x y => rt_math f [x; y])
  | CMath3 f a b c => bind3 (rt_eval a) (rt_eval b) (rt_eval c) (fun x y z => rt_math f [x; y; z])
  | CSelect fv tv c =>
    match rt_eval fv, rt_eval tv, rt_eval c with
    | Ok x, Ok y, Ok (VBool cb) =>
      match concrete_ty x, concrete_ty y with
      | Some TI32, Some TI32 | Some TU32, Some TU32 | Some TBool, Some TBool => Ok (if cb then y else x)
      | _, _ => Ill
      end
    | _, _, _ => Ill
    end
  end.
