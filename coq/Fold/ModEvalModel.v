(* Model of naga's module-scope constant evaluators, wgsl/internal/lower/lower.go
   (definitions only): evalConstantIntExpr / evalConstantBinaryExpr (4762-4843) with
   their users lowerConstantBinaryExpr (1795), lowerConstantUnaryExpr `~` (2191),
   lowerCompositeConstant scalar conversions (2446-2510), lowerScalarConstant (2353),
   lowerAbstractConstant (1451), lowerSwitchCaseValue (4622), array sizes
   (resolveType 10100 / tryEvalConstantUint 4747), const_assert (tryEvalConstantBool
   4660) and workgroup_size (evalConstU32Expr 13147).

   evalConstantIntExpr computes in Go int64 with a two-valued kind and NO 32-bit
   wrap of intermediate results; that is transliterated as is. *)
From Coq Require Import ZArith Bool List.
Import ListNotations.
Require Import Naga.Base.Bits32 Naga.Fold.GoArith Naga.Fold.FoldModel.
Open Scope Z_scope.

Inductive mkind := KSint | KUint.

(* evalLiteralAsInt (4846) via parseIntLiteral (5045): ParseInt(text, 0, 64) of the digits;
   "u" suffix -> Uint, otherwise (i suffix or none) -> Sint.  A literal token is written
   non-negative; its value is what literal_to_i64 gives for patterns below 2^31. *)
Definition eval_literal_as_int (l : lit) : option (mkind * Z) :=
  match l with
  | LI32 b => Some (KSint, b)
  | LU32 b => Some (KUint, b)
  | LAI v => Some (KSint, v)
  | _ => None
  end.

Definition mod_binop (op : binop) (a b : Z) : option Z :=
  match op with
  | BAdd => Some (add64 a b)
  | BSub => Some (sub64 a b)
  | BMul => Some (mul64 a b)
  | BDiv => if b =? 0 then None else quo64 a b
  | BMod => if b =? 0 then None else rem64 a b
  | BShl => Some (shl64 a b)
  | BShr => Some (shr64 a b)
  | BAnd => Some (and64 a b)
  | BOr => Some (or64 a b)
  | BXor => Some (xor64 a b)
  | _ => None                     (* comparisons, && ||: "unsupported operator in constant expression" *)
  end.

(* evalConstantIntExpr (4762) on trees without identifiers *)
Fixpoint eval_constant_int (e : cexpr) : option (mkind * Z) :=
  match e with
  | CLit l => eval_literal_as_int l
  | CUn UNeg a => match eval_constant_int a with Some (k, v) => Some (k, neg64 v) | None => None end
  | CUn UBNot a => match eval_constant_int a with Some (k, v) => Some (k, not64 v) | None => None end
  | CUn ULNot _ => None
  | CBin op a b =>
    match eval_constant_int a, eval_constant_int b with
    | Some (ka, va), Some (kb, vb) =>
      let k := match ka, kb with KUint, KUint => KUint | _, _ => KSint end in
      match mod_binop op va vb with Some v => Some (k, v) | None => None end
    | _, _ => None
    end
  | CAs TI32 a => match eval_constant_int a with Some (_, v) => Some (KSint, v) | None => None end
  | CAs TU32 a => match eval_constant_int a with Some (_, v) => Some (KUint, v) | None => None end
  | _ => None
  end.

(* a module constant as the IR shows it: the ScalarValue{Bits,Kind} stored in
   Module.Constants and the literal of its Init global expression
   (buildConstGlobalExpr 1535 -> scalarValueToLiteralWithType 9956) *)
Record mconst := { mc_kind : mkind; mc_bits : Z (* uint64 *); mc_lit : lit }.

Definition literal_of_sv (k : mkind) (bits : Z) : lit :=
  match k with KSint => LI32 (to32 bits) | KUint => LU32 (to32 bits) end.
Definition mk_mconst (k : mkind) (v : Z) : mconst :=
  {| mc_kind := k; mc_bits := u64 v; mc_lit := literal_of_sv k (u64 v) |}.

(* coerceScalarToType (1272) between the two integer kinds: the bits are kept *)
Definition coerce_kind (k : mkind) (t : option sty) : option mkind :=
  match t with
  | None => Some k
  | Some TI32 => Some KSint
  | Some TU32 => Some KUint
  | Some _ => None               (* float/bool declared types: not in the integer model *)
  end.

(* `const N [: T] = a op b;` -- lowerConstantBinaryExpr, integer path.  The declaration is
   concrete (initHasConcreteType) when some literal is suffixed or T is given; an all-abstract
   untyped one goes to lowerAbstractConstant instead (mod_abstract_binary). *)
Definition mod_const_binary (t : option sty) (e : cexpr) : option mconst :=
  match eval_constant_int e, e with
  | Some (k, v), CBin _ _ _ =>
    match coerce_kind k t with Some k' => Some (mk_mconst k' v) | None => None end
  | _, _ => None
  end.

(* `const N [: T] = ~e;` -- lowerConstantUnaryExpr, TokenTilde *)
Definition mod_const_bitnot (t : option sty) (a : cexpr) : option mconst :=
  match eval_constant_int a with
  | Some (k, v) => match coerce_kind k t with Some k' => Some (mk_mconst k' (not64 v)) | None => None end
  | None => None
  end.

(* `const N = i32(e);` / `u32(e)` with a non-literal integer argument -- lowerCompositeConstant 2494 *)
Definition mod_const_as (t : sty) (a : cexpr) : option mconst :=
  match t, a with
  | (TI32 | TU32), (CUn _ _ | CBin _ _ _ | CAs _ _) =>
    match eval_constant_int a with
    | Some (_, v) => Some (mk_mconst (match t with TU32 => KUint | _ => KSint end) v)
    | None => None
    end
  | _, _ => None
  end.

(* lowerAbstractConstant (1451) with a BinaryExpr initialiser: stored outside the module as
   ScalarValue{uint64(val), kind}; every use inlines scalarValueToAbstractLiteral = AbstractInt(int64(bits)) *)
Definition mod_abstract_binary (e : cexpr) : option lit :=
  match eval_constant_int e, e with
  | Some (_, v), CBin _ _ _ => Some (LAI v)
  | _, _ => None
  end.

(* lowerSwitchCaseValue (4622) *)
Definition mod_switch_value (e : cexpr) : option lit :=
  match eval_constant_int e with
  | Some (KUint, v) => Some (LU32 (to32 v))
  | Some (KSint, v) => Some (LI32 (to32 v))
  | None => None
  end.

(* array<T, e>: resolveType (10113, after fix ead2675): the size is evaluated as a SIGNED int64 with
   evalConstantIntExpr; n <= 0 is "array size must be greater than 0", otherwise the count is uint32(n).
   ASize n = fixed size n; ARuntime = the size expression could not be evaluated and the array silently
   becomes runtime-sized; AError = the error *)
Inductive asize := ASize (n : Z) | ARuntime | AError.
Definition mod_array_size (e : cexpr) : asize :=
  match eval_constant_int e with
  | Some (_, v) => if v <=? 0 then AError else ASize (to32 v)
  | None => ARuntime
  end.

(* const_assert: tryEvalConstantBool (4660) / evalConstAssert (4642).
   Some true = accepted because it evaluated to true; Some false = "const_assert failed";
   None = not evaluable, silently accepted *)
Fixpoint try_eval_constant_bool (e : cexpr) : option bool :=
  match e with
  | CLit (LBool b) => Some b
  | CUn ULNot a => option_map negb (try_eval_constant_bool a)
  | CBin BLAnd a b =>
    match try_eval_constant_bool a, try_eval_constant_bool b with Some x, Some y => Some (x && y) | _, _ => None end
  | CBin BLOr a b =>
    match try_eval_constant_bool a, try_eval_constant_bool b with Some x, Some y => Some (x || y) | _, _ => None end
  | CBin op a b =>
    match eval_constant_int a, eval_constant_int b with
    | Some (_, x), Some (_, y) =>
      match op with
      | BEq => Some (x =? y) | BNe => Some (negb (x =? y))
      | BLt => Some (x <? y) | BLe => Some (x <=? y)
      | BGt => Some (y <? x) | BGe => Some (y <=? x)
      | _ => None
      end
    | _, _ => None
    end
  | _ => None
  end.

(* @workgroup_size(e): evalConstU32Expr (13147) with uint32 arithmetic.  A literal is accepted
   only when strconv.ParseUint(text, 10, 32) succeeds: decimal digits without suffix (the check's
   generator writes abstract integers in decimal, suffixed literals keep their suffix).
   None = not evaluated: extractWorkgroupSize silently leaves the dimension at 1. *)
Fixpoint eval_const_u32 (e : cexpr) : option Z :=
  match e with
  | CLit (LAI v) => if (0 <=? v) && (v <? M32) then Some v else None
  | CBin op a b =>
    match eval_const_u32 a, eval_const_u32 b with
    | Some x, Some y =>
      match op with
      | BAdd => Some (addu32 x y)
      | BSub => Some (subu32 x y)
      | BMul => Some (mulu32 x y)
      | BDiv => if y =? 0 then None else Some (x / y)
      | _ => None
      end
    | _, _ => None
    end
  | _ => None
  end.
Definition mod_workgroup_dim (e : cexpr) : Z := match eval_const_u32 e with Some v => v | None => 1 end.

(* evalScalarArithmetic (2030) / evalScalarComparison (1999), integer branch, as used
   component-wise by lowerConstantVectorBinaryExpr (1858) on ScalarValue.Bits (uint64):
   unsigned 64-bit arithmetic, "/" by zero gives 0, every other operator returns the left
   operand; only == and != are compared, every other comparison is false. *)
Definition eval_scalar_arith_bits (op : binop) (l r : Z) : Z :=
  match op with
  | BAdd => addu64 l r
  | BSub => subu64 l r
  | BMul => mulu64 l r
  | BDiv => if r =? 0 then 0 else l / r
  | _ => l
  end.
Definition eval_scalar_cmp_bits (op : binop) (l r : Z) : bool :=
  match op with BEq => l =? r | BNe => negb (l =? r) | _ => false end.

(* every intermediate result of eval_constant_int lies in the range of the 32-bit type its kind
   stands for (Sint: [-2^31, 2^31), Uint: [0, 2^32)): then no wrap-around was skipped *)
Definition fits (k : mkind) (v : Z) : bool :=
  match k with KSint => (- H32 <=? v) && (v <? H32) | KUint => (0 <=? v) && (v <? M32) end.
Fixpoint eval_exact (e : cexpr) : bool :=
  match eval_constant_int e with
  | Some (k, v) =>
    fits k v &&
    match e with
    | CUn _ a | CAs _ a => eval_exact a
    | CBin _ a b => eval_exact a && eval_exact b
    | _ => true
    end
  | None => true
  end.

(* one component of `const v = vecN<T>(..) op vecN<T>(..);` (lowerConstantVectorBinaryExpr 1858): the
   components are stored as ScalarValue{Bits: uint64(int64 value)}; the result literal is
   scalarValueToLiteral{Bits: result, Kind: kind of the left component} *)
Definition sv_bits (l : lit) : option (mkind * Z) :=
  match l with
  | LI32 b => Some (KSint, u64 (sgn b))
  | LU32 b => Some (KUint, b)
  | _ => None
  end.
Definition is_comparison (op : binop) : bool :=
  match op with BEq | BNe | BLt | BLe | BGt | BGe => true | _ => false end.
Definition mod_vec_component (op : binop) (l r : lit) : option lit :=
  match sv_bits l, sv_bits r with
  | Some (k, a), Some (_, b) =>
    if is_comparison op then Some (LBool (eval_scalar_cmp_bits op a b))
    else match op with
         | BAdd | BSub | BMul | BDiv | BMod => Some (literal_of_sv k (eval_scalar_arith_bits op a b))
         | _ => Some (literal_of_sv k a)     (* any other operator token: `default: return left.Bits` *)
         end
  | _, _ => None
  end.
