(* Arithmetic facts relating Go's 64-bit computations (GoArith) to the 32-bit
   run-time operations (Base/Bits32): the lemmas under the per-operator theorems. *)
From Coq Require Import ZArith Bool List Lia.
From Coq Require Import ZifyBool.
Require Import Naga.Base.Bits32 Naga.Fold.GoArith.
Open Scope Z_scope.
Ltac Zify.zify_post_hook ::= Z.to_euclidean_division_equations.

Ltac no_if t := lazymatch t with context [if _ then _ else _] => fail | _ => idtac end.
Ltac atom_cases :=
  repeat (match goal with
  | |- context [?x =? ?y] => no_if x; no_if y; destruct (Z.eqb_spec x y)
  | |- context [?x <? ?y] => no_if x; no_if y; destruct (Z.ltb_spec x y)
  | |- context [?x <=? ?y] => no_if x; no_if y; destruct (Z.leb_spec x y)
  end; cbn [orb andb negb]; cbv iota).

Lemma to32_s64 z : to32 (s64 z) = wrap z.
Proof. apply s64_mod32. Qed.

(* sgn u is congruent to u, for every u *)
Lemma wrap_sgn' u : wrap (sgn u) = wrap u.
Proof. unfold wrap, sgn, M32, H32. destruct (Z.ltb_spec u 2147483648); lia. Qed.

Lemma wrap_wrap z : wrap (wrap z) = wrap z.
Proof. unfold wrap, M32. lia. Qed.

Lemma wrap_add_l a b : wrap (wrap a + b) = wrap (a + b).
Proof. unfold wrap. rewrite Z.add_mod_idemp_l; [reflexivity | unfold M32; lia]. Qed.
Lemma wrap_add_r a b : wrap (a + wrap b) = wrap (a + b).
Proof. unfold wrap. rewrite Z.add_mod_idemp_r; [reflexivity | unfold M32; lia]. Qed.
Lemma wrap_mul_l a b : wrap (wrap a * b) = wrap (a * b).
Proof. unfold wrap. rewrite Z.mul_mod_idemp_l; [reflexivity | unfold M32; lia]. Qed.
Lemma wrap_mul_r a b : wrap (a * wrap b) = wrap (a * b).
Proof. unfold wrap. rewrite Z.mul_mod_idemp_r; [reflexivity | unfold M32; lia]. Qed.
Lemma wrap_opp a : wrap (- wrap a) = wrap (- a).
Proof. unfold wrap, M32. lia. Qed.

Lemma wrap_add_sgn a b : wrap (sgn a + sgn b) = wrap (a + b).
Proof. rewrite <- wrap_add_l, <- wrap_add_r, !wrap_sgn', wrap_add_l, wrap_add_r. reflexivity. Qed.
Lemma wrap_sub_sgn a b : wrap (sgn a - sgn b) = wrap (a - b).
Proof.
  unfold Z.sub. rewrite <- wrap_add_l, <- wrap_add_r, <- wrap_opp, !wrap_sgn', wrap_opp, wrap_add_l, wrap_add_r. reflexivity.
Qed.
Lemma wrap_mul_sgn a b : wrap (sgn a * sgn b) = wrap (a * b).
Proof. rewrite <- wrap_mul_l, <- wrap_mul_r, !wrap_sgn', wrap_mul_l, wrap_mul_r. reflexivity. Qed.
Lemma wrap_neg_sgn a : wrap (- sgn a) = wrap (- a).
Proof. rewrite <- wrap_opp, wrap_sgn', wrap_opp. reflexivity. Qed.

(* ---- bitwise: wrap is "keep the low 32 bits" ---- *)
Lemma wrap_land_ones z : wrap z = Z.land z (Z.ones 32).
Proof. unfold wrap. rewrite Z.land_ones by lia. reflexivity. Qed.

Lemma wrap_testbit z i : 0 <= i -> Z.testbit (wrap z) i = if i <? 32 then Z.testbit z i else false.
Proof.
  intros Hi. unfold wrap. change M32 with (2 ^ 32). destruct (Z.ltb_spec i 32).
  - apply Z.mod_pow2_bits_low. lia.
  - apply Z.mod_pow2_bits_high. lia.
Qed.

Lemma wrap_land a b : wrap (Z.land a b) = Z.land (wrap a) (wrap b).
Proof.
  apply Z.bits_inj'. intros i Hi. rewrite Z.land_spec, !wrap_testbit by lia. rewrite Z.land_spec.
  destruct (i <? 32); [reflexivity | reflexivity].
Qed.
Lemma wrap_lor a b : wrap (Z.lor a b) = Z.lor (wrap a) (wrap b).
Proof.
  apply Z.bits_inj'. intros i Hi. rewrite Z.lor_spec, !wrap_testbit by lia. rewrite Z.lor_spec.
  destruct (i <? 32); reflexivity.
Qed.
Lemma wrap_lxor a b : wrap (Z.lxor a b) = Z.lxor (wrap a) (wrap b).
Proof.
  apply Z.bits_inj'. intros i Hi. rewrite Z.lxor_spec, !wrap_testbit by lia. rewrite Z.lxor_spec.
  destruct (i <? 32); reflexivity.
Qed.

Lemma and_sgn a b : in32 a -> in32 b -> wrap (Z.land (sgn a) (sgn b)) = and32 a b.
Proof. intros Ha Hb. rewrite wrap_land, !wrap_sgn', !wrap_id by assumption. reflexivity. Qed.
Lemma or_sgn a b : in32 a -> in32 b -> wrap (Z.lor (sgn a) (sgn b)) = or32 a b.
Proof. intros Ha Hb. rewrite wrap_lor, !wrap_sgn', !wrap_id by assumption. reflexivity. Qed.
Lemma xor_sgn a b : in32 a -> in32 b -> wrap (Z.lxor (sgn a) (sgn b)) = xor32 a b.
Proof. intros Ha Hb. rewrite wrap_lxor, !wrap_sgn', !wrap_id by assumption. reflexivity. Qed.

Lemma in32_of_wrap_eq z : wrap z = z -> in32 z.
Proof. intros H. rewrite <- H. apply wrap_in32. Qed.

Lemma and32_in a b : in32 a -> in32 b -> in32 (and32 a b).
Proof. intros Ha Hb. apply in32_of_wrap_eq. unfold and32. rewrite wrap_land, !wrap_id by assumption. reflexivity. Qed.
Lemma or32_in a b : in32 a -> in32 b -> in32 (or32 a b).
Proof. intros Ha Hb. apply in32_of_wrap_eq. unfold or32. rewrite wrap_lor, !wrap_id by assumption. reflexivity. Qed.
Lemma xor32_in a b : in32 a -> in32 b -> in32 (xor32 a b).
Proof. intros Ha Hb. apply in32_of_wrap_eq. unfold xor32. rewrite wrap_lxor, !wrap_id by assumption. reflexivity. Qed.

(* ^v on int64 is -v-1; on 32 bits it is all-ones minus the pattern *)
Lemma not_sgn a : in32 a -> wrap (not64 (sgn a)) = not32 a.
Proof.
  unfold in32, not64, not32, wrap, sgn, ALL_ONES, M32, H32. intros H.
  destruct (Z.ltb_spec a 2147483648); lia.
Qed.
Lemma not_u a : in32 a -> wrap (not64 a) = not32 a.
Proof. unfold in32, not64, not32, wrap, ALL_ONES, M32. intros H. lia. Qed.

(* ---- ranges ---- *)
Lemma sgn_s64 a : in32 a -> in_s64 (sgn a).
Proof. apply sgn_in_s64. Qed.

Lemma shiftl_mul a n : 0 <= n -> Z.shiftl a n = a * 2 ^ n.
Proof. intros. apply Z.shiftl_mul_pow2. assumption. Qed.

Lemma pow2_pos n : 0 <= n -> 0 < 2 ^ n.
Proof. intros. apply Z.pow_pos_nonneg; lia. Qed.

(* x * 2^n is congruent mod 2^32 whatever representative of x is taken *)
Lemma wrap_shl_sgn a n : 0 <= n -> wrap (sgn a * 2 ^ n) = wrap (a * 2 ^ n).
Proof. intros. rewrite <- wrap_mul_l, wrap_sgn', wrap_mul_l. reflexivity. Qed.

Lemma shr_u_range a n : in32 a -> 0 <= n -> in32 (Z.shiftr a n).
Proof.
  unfold in32. intros [H0 H1] Hn. rewrite Z.shiftr_div_pow2 by assumption.
  pose proof (pow2_pos n Hn). split.
  - apply Z.div_pos; lia.
  - apply Z.le_lt_trans with a; [|assumption]. apply Z.div_le_upper_bound; nia.
Qed.

Lemma shr_s_range a n : in32 a -> 0 <= n -> - H32 <= Z.shiftr (sgn a) n < H32.
Proof.
  intros Ha Hn. pose proof (sgn_range a Ha) as Hs. rewrite Z.shiftr_div_pow2 by assumption.
  pose proof (pow2_pos n Hn). split.
  - apply Z.div_le_lower_bound; [lia|]. unfold H32 in *. nia.
  - apply Z.div_lt_upper_bound; [lia|]. unfold H32 in *. nia.
Qed.
