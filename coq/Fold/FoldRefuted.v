(* Where the faithful models violate the property: each refutation is a concrete witness
   evaluated by vm_compute (replayed on naga by checks/c06.py on every run). *)
From Coq Require Import ZArith Bool List Lia.
Import ListNotations.
Require Import Naga.Base.Bits32 Naga.Fold.GoArith Naga.Fold.FoldModel Naga.Fold.ModEvalModel Naga.Fold.WgslConst.
Open Scope Z_scope.

Section Refuted.
Variable F : float_ops.

Definition i32_of (v : Z) : Z := wrap v.    (* bit pattern of a signed value *)

(* literal tokens of a negative i32 are written -(n i) *)
Definition neg_i32 (n : Z) : cexpr := CUn UNeg (CLit (LI32 n)).

(* 1u << 32u folds to 0: WGSL: shader-creation error; at run time the amount is taken mod 32: 1 *)
Lemma shl_u32_amount_refuted :
  exists a n v, in32 a /\ in32 n /\ try_fold_binary_op F BShl (LU32 a) (LU32 n) = Some v /\
                v <> LU32 (shl32 a n) /\ wgsl_binary BShl (VU32 a) (VU32 n) = Err RShiftTooLarge.
Proof. exists 1, 32, (LU32 0). unfold in32, M32. repeat split; try lia; try reflexivity. discriminate. Qed.

(* -8i >> 33u folds to -1; run time: -8 >> 1 = -4 *)
Lemma shr_i32_amount_refuted :
  exists a n v, in32 a /\ in32 n /\ try_fold_binary_op F BShr (LI32 a) (LU32 n) = Some v /\
                v <> LI32 (shr_i32 a n) /\ wgsl_binary BShr (VI32 a) (VU32 n) = Err RShiftTooLarge.
Proof. exists (i32_of (-8)), 33, (LI32 ALL_ONES). unfold in32, M32. repeat split; try (vm_compute; congruence); try reflexivity. Qed.

(* 1i << 31u folds (to the run-time value) although WGSL makes it an error: error not reported *)
Lemma shl_i32_overflow_refuted :
  exists a n v, try_fold_binary_op F BShl (LI32 a) (LU32 n) = Some v /\ wgsl_binary BShl (VI32 a) (VU32 n) = Err RShlOverflow.
Proof. exists 1, 31, (LI32 INT_MIN_BITS). split; reflexivity. Qed.

(* (-2147483648) / (-1) folds although WGSL makes it an error *)
Lemma div_overflow_refuted :
  exists v, try_fold_binary_op F BDiv (LI32 INT_MIN_BITS) (LI32 ALL_ONES) = Some v /\
            wgsl_binary BDiv (VI32 INT_MIN_BITS) (VI32 ALL_ONES) = Err RDivOverflow.
Proof. exists (LI32 INT_MIN_BITS). split; reflexivity. Qed.

(* clamp(0i, 5i, 3i) folds to 5; run time min(max(0,5),3) = 3; WGSL: error (low > high) *)
Lemma clamp_refuted :
  exists e lo hi v, try_fold_scalar_math F MClamp [LI32 e; LI32 lo; LI32 hi] = Some v /\
                    v <> LI32 (clamp_i32 e lo hi) /\ wgsl_math MClamp [VI32 e; VI32 lo; VI32 hi] = Err RClampLowHigh.
Proof. exists 0, 5, 3, (LI32 5). repeat split; try reflexivity. vm_compute. congruence. Qed.

(* 9223372036854775807 + 1 (AbstractInt) wraps instead of being an error *)
Lemma abstract_overflow_refuted :
  exists a b v, try_fold_ast_binary F BAdd (LAI a) (LAI b) = Some v /\ wgsl_binary BAdd (VAI a) (VAI b) = Err RAbstractOverflow.
Proof. exists 9223372036854775807, 1, (LAI (-9223372036854775808)). split; reflexivity. Qed.

(* abstract -> concrete without range check: `let x : i32 = 2147483648` gives -2147483648, `: u32 = -1` gives 4294967295 *)
Lemma concretize_refuted :
  concretize_abstract_int F 2147483648 TI32 = LI32 INT_MIN_BITS /\ ai_to TI32 2147483648 = Err RNotRepresentable /\
  concretize_abstract_int F (-1) TU32 = LU32 ALL_ONES /\ ai_to TU32 (-1) = Err RNotRepresentable.
Proof. repeat split; reflexivity. Qed.

(* builtins on abstract arguments are evaluated after truncation to i32:
   min(0, 2147483648) = -2147483648 (WGSL: 0), max(0, -2147483649) = 2147483647 (WGSL: 0), sign(2147483648) = -1 (WGSL: 1) *)
Lemma abstract_builtin_refuted :
  fold_expr F (CMath2 MMin (CLit (LAI 0)) (CLit (LAI 2147483648))) = Some (LI32 INT_MIN_BITS) /\
  wgsl_eval (CMath2 MMin (CLit (LAI 0)) (CLit (LAI 2147483648))) = Ok (VAI 0) /\
  fold_expr F (CMath2 MMax (CLit (LAI 0)) (CUn UNeg (CLit (LAI 2147483649)))) = Some (LI32 2147483647) /\
  wgsl_eval (CMath2 MMax (CLit (LAI 0)) (CUn UNeg (CLit (LAI 2147483649)))) = Ok (VAI 0) /\
  fold_expr F (CMath1 MSign (CLit (LAI 2147483648))) = Some (LI32 ALL_ONES) /\
  wgsl_eval (CMath1 MSign (CLit (LAI 2147483648))) = Ok (VAI 1).
Proof. repeat split; reflexivity. Qed.

(* `1 << 2u` gets the type of the shift amount (u32) instead of staying abstract (i32 by default) *)
Lemma abstract_shift_type_refuted :
  fold_let F (CBin BShl (CLit (LAI 1)) (CLit (LU32 2))) = Some (LU32 4) /\
  wgsl_as_default (wgsl_eval (CBin BShl (CLit (LAI 1)) (CLit (LU32 2)))) = Ok (VI32 4).
Proof. split; reflexivity. Qed.

(* ---- module scope: no 32-bit wrap of intermediate results ---- *)
Definition e_u32_wrap : cexpr := CBin BDiv (CBin BAdd (CLit (LU32 4294967295)) (CLit (LU32 1))) (CLit (LU32 2)).
Lemma mod_const_nowrap_refuted :
  exists m, mod_const_binary None e_u32_wrap = Some m /\ m.(mc_lit) = LU32 2147483648 /\
            wgsl_eval e_u32_wrap = Ok (VU32 0) /\ rt_eval e_u32_wrap = Ok (VU32 0) /\ eval_exact e_u32_wrap = false.
Proof. eexists. repeat split; reflexivity. Qed.

Definition e_i32_wrap : cexpr := CBin BDiv (CBin BAdd (CLit (LI32 2147483647)) (CLit (LI32 1))) (CLit (LI32 2)).
Lemma mod_const_nowrap_i32_refuted :
  exists m, mod_const_binary None e_i32_wrap = Some m /\ m.(mc_lit) = LI32 1073741824 /\
            wgsl_eval e_i32_wrap = Ok (VI32 (i32_of (-1073741824))) /\ rt_eval e_i32_wrap = Ok (VI32 (i32_of (-1073741824))).
Proof. eexists. repeat split; reflexivity. Qed.

(* (~0u) >> 1u: ~ on a u32 is a negative int64 *)
Definition e_not_shr : cexpr := CBin BShr (CUn UBNot (CLit (LU32 0))) (CLit (LU32 1)).
Lemma mod_const_bitnot_refuted :
  exists m, mod_const_binary None e_not_shr = Some m /\ m.(mc_lit) = LU32 ALL_ONES /\ wgsl_eval e_not_shr = Ok (VU32 2147483647).
Proof. eexists. repeat split; reflexivity. Qed.

(* `const c = 1u + 2;` is typed i32 (kind = unsigned only if BOTH operands are unsigned); WGSL: u32 *)
Lemma mod_const_mixed_type_refuted :
  exists m, mod_const_binary None (CBin BAdd (CLit (LU32 1)) (CLit (LAI 2))) = Some m /\ m.(mc_lit) = LI32 3 /\
            wgsl_eval (CBin BAdd (CLit (LU32 1)) (CLit (LAI 2))) = Ok (VU32 3).
Proof. eexists. repeat split; reflexivity. Qed.

(* switch selectors and array sizes go through the same evaluator *)
Lemma mod_switch_refuted :
  mod_switch_value e_u32_wrap = Some (LU32 2147483648) /\ wgsl_eval e_u32_wrap = Ok (VU32 0).
Proof. split; reflexivity. Qed.
Lemma mod_array_size_refuted :
  mod_array_size (CBin BShl (CLit (LU32 1)) (CLit (LU32 32))) = ASize 0 /\           (* array<T, 1u << 32u> has ZERO elements; WGSL: error *)
  mod_array_size (CBin BSub (CLit (LU32 0)) (CLit (LU32 1))) = AError /\             (* array<T, 0u - 1u> is rejected as "not > 0": the u32 difference is -1 in int64 *)
  mod_array_size (CMath2 MMin (CLit (LAI 2)) (CLit (LAI 3))) = ARuntime /\            (* array<T, min(2,3)> silently becomes runtime-sized *)
  mod_array_size (CBin BDiv (CLit (LAI 4)) (CLit (LAI 0))) = ARuntime.               (* array<T, 4 / 0> too: the error is swallowed *)
Proof. repeat split; reflexivity. Qed.

(* const_assert 4294967295u + 1u == 0u is true in WGSL and "fails" in naga *)
Lemma const_assert_refuted :
  let e := CBin BEq (CBin BAdd (CLit (LU32 4294967295)) (CLit (LU32 1))) (CLit (LU32 0)) in
  try_eval_constant_bool e = Some false /\ wgsl_eval e = Ok (VBool true).
Proof. split; reflexivity. Qed.

(* @workgroup_size(8u), @workgroup_size(1 << 3), @workgroup_size(2u * 4u) all give 1 *)
Lemma workgroup_size_refuted :
  mod_workgroup_dim (CLit (LU32 8)) = 1 /\ wgsl_eval (CLit (LU32 8)) = Ok (VU32 8) /\
  mod_workgroup_dim (CBin BShl (CLit (LAI 1)) (CLit (LAI 3))) = 1 /\ wgsl_eval (CBin BShl (CLit (LAI 1)) (CLit (LAI 3))) = Ok (VAI 8) /\
  mod_workgroup_dim (CBin BMul (CLit (LU32 2)) (CLit (LU32 4))) = 1 /\ wgsl_eval (CBin BMul (CLit (LU32 2)) (CLit (LU32 4))) = Ok (VU32 8).
Proof. repeat split; reflexivity. Qed.

(* vector constants at module scope (evalScalarArithmetic on raw bits): % returns the left operand,
   signed / is an unsigned 64-bit division, / by zero gives 0 *)
Lemma vector_arith_refuted :
  eval_scalar_arith_bits BMod 7 4 = 7 /\ rem_i32 7 4 = 3 /\
  eval_scalar_arith_bits BDiv (u64 (-6)) 2 = 9223372036854775805 /\ div_i32 (i32_of (-6)) 2 = i32_of (-3) /\
  eval_scalar_arith_bits BDiv 7 0 = 0 /\
  eval_scalar_cmp_bits BLt 1 2 = false.
Proof. repeat split; reflexivity. Qed.

End Refuted.
