(* Model of naga's function-scope constant folder, wgsl/internal/lower/lower.go
   (definitions only).  Function-by-function transliteration of what the Go code
   DOES, quirks included; Go arithmetic from Fold/GoArith.v.  Float literals are
   carried as bit patterns and every float computation is delegated to a record
   of float operations [float_ops] (instantiated with Flocq in Fold/FoldFloat.v),
   so the integer/bool theorems hold for any instantiation and stay axiom-free.

   Result convention: [Some l] = "the expression was replaced by Literal l";
   [None] = "not folded" (the expression stays a run-time expression, or lowering
   reports an error). *)
From Coq Require Import ZArith Bool List.
Import ListNotations.
Require Import Naga.Base.Bits32 Naga.Fold.GoArith.
Open Scope Z_scope.

(* ir.LiteralValue restricted to the 32-bit/abstract/bool/float kinds the folder
   handles (it skips I64/U64/F64: is64BitLiteral).  LI32/LU32 carry the bit pattern
   in [0,2^32) (Bits32 convention); LAI the int64 value; LF32 the f32 bit pattern;
   LF16 the *f32* bit pattern of the value (ir.LiteralF16 is a Go float32);
   LAF the f64 bit pattern. *)
Inductive lit :=
| LI32 (b : Z)
| LU32 (b : Z)
| LAI (v : Z)
| LBool (b : bool)
| LF32 (b : Z)
| LF16 (b : Z)
| LAF (b : Z).

(* ir.BinaryOperator / ir.UnaryOperator *)
Inductive binop := BAdd | BSub | BMul | BDiv | BMod | BAnd | BOr | BXor | BShl | BShr
                 | BEq | BNe | BLt | BLe | BGt | BGe | BLAnd | BLOr.
Inductive unop := UNeg | ULNot | UBNot.

(* target scalar of a conversion / store / declaration *)
Inductive sty := TI32 | TU32 | TF32 | TF16 | TBool.

(* builtins folded by tryFoldScalarMath (integer ones listed individually, float-only
   ones by name through the float hook) *)
Inductive mathfn := MAbs | MMin | MMax | MClamp | MSign
                  | MCountTrailingZeros | MCountLeadingZeros | MCountOneBits | MReverseBits
                  | MFirstTrailingBit | MFirstLeadingBit
                  | MExtractBits | MInsertBits
                  | MFloat (name : Z).   (* float-only function, numbered by the float hook *)

(* every float computation of the folder, supplied by Fold/FoldFloat.v *)
Record float_ops := {
  (* foldBinaryLiterals, both operands float literals (after concretizeLiteralPair) *)
  f_bin_ast : binop -> lit -> lit -> option lit;
  (* tryFoldBinaryOp, both float, or mixed integer/float *)
  f_bin : binop -> lit -> lit -> option lit;
  (* tryFoldUnaryOp negate on a float literal; lowerNegatedLiteral on a float literal *)
  f_neg : lit -> option lit;
  (* tryFoldAs with a float source or a float target *)
  f_as : lit -> sty -> option lit;
  (* float branches of foldAbs/foldMin/foldMax/foldClamp/foldSign and the float-only functions *)
  f_math : mathfn -> list lit -> option lit;
  (* float64(int64) then narrowing: concretizeLiteralTo / concretizeAbstractInt / computeConcreteLiteral to a float target,
     and any conversion from a float literal (concretizeAbstractFloat, concretizeLiteralToScalar, concretizeExpressionToScalar) *)
  f_conc : lit -> sty -> option lit;
  (* promoteIntToFloat / AbstractInt -> AbstractFloat in concretizeLiteralPair *)
  f_ai_to_af : Z -> lit
}.

Definition is_integer_literal (l : lit) : bool :=
  match l with LI32 _ | LU32 _ | LAI _ => true | _ => false end.
Definition is_float_literal (l : lit) : bool :=
  match l with LF32 _ | LF16 _ | LAF _ => true | _ => false end.
Definition is_abstract (l : lit) : bool :=
  match l with LAI _ | LAF _ => true | _ => false end.

(* literalToI64 *)
Definition literal_to_i64 (l : lit) : Z :=
  match l with LI32 b => sgn b | LU32 b => b | LAI v => v | _ => 0 end.

(* makeIntLiteral(template, val) *)
Definition make_int_literal (template : lit) (val : Z) : lit :=
  match template with
  | LI32 _ => LI32 (to32 val)
  | LU32 _ => LU32 (to32 val)
  | LAI _ => LAI val
  | _ => LI32 (to32 val)
  end.

(* the switch over op in the integer branch of foldBinaryLiterals (5585-5632) and of
   tryFoldBinaryOp (12522-12569): the two pieces of Go are the same text *)
Inductive ires := IInt (z : Z) | IBool (b : bool).

Definition int_binop (op : binop) (vl vr : Z) : option ires :=
  match op with
  | BAdd => Some (IInt (add64 vl vr))
  | BSub => Some (IInt (sub64 vl vr))
  | BMul => Some (IInt (mul64 vl vr))
  | BDiv => if vr =? 0 then None else option_map IInt (quo64 vl vr)
  | BMod => if vr =? 0 then None else option_map IInt (rem64 vl vr)
  | BAnd => Some (IInt (and64 vl vr))
  | BOr => Some (IInt (or64 vl vr))
  | BXor => Some (IInt (xor64 vl vr))
  | BShl => Some (IInt (shl64 vl vr))
  | BShr => Some (IInt (shr64 vl vr))
  | BEq => Some (IBool (vl =? vr))
  | BNe => Some (IBool (negb (vl =? vr)))
  | BLt => Some (IBool (vl <? vr))
  | BLe => Some (IBool (vl <=? vr))
  | BGt => Some (IBool (vr <? vl))
  | BGe => Some (IBool (vr <=? vl))
  | BLAnd | BLOr => None
  end.

Definition int_branch (op : binop) (l r : lit) : option lit :=
  match int_binop op (literal_to_i64 l) (literal_to_i64 r) with
  | Some (IInt z) => Some (make_int_literal l z)
  | Some (IBool b) => Some (LBool b)
  | None => None
  end.

(* bool branch (5700-5717, 12715-12734) *)
Definition bool_binop (op : binop) (a b : bool) : option lit :=
  match op with
  | BEq => Some (LBool (Bool.eqb a b))
  | BNe => Some (LBool (negb (Bool.eqb a b)))
  | BAnd | BLAnd => Some (LBool (a && b))
  | BOr | BLOr => Some (LBool (a || b))
  | _ => None
  end.

Section WithFloats.
Variable F : float_ops.

(* concretizeLiteralTo(abstract, concrete) (5545): goes through float64(int64(a)) even for
   integer targets: float64(int64) rounds to 53 bits (GoArith.round_to_f64, an integer) and
   int32(float64)/uint32(float64) of an out-of-range value is platform-dependent
   (GoArith.f2i32_amd64 / f2u32_amd64). *)
Definition concretize_literal_to (abstract concrete : lit) : lit :=
  match abstract with
  | LAI v =>
    match concrete with
    | LI32 _ => LI32 (f2i32_amd64 (round_to_f64 v))
    | LU32 _ => LU32 (f2u32_amd64 (round_to_f64 v))
    | LF32 _ => match F.(f_conc) (F.(f_ai_to_af) v) TF32 with Some l => l | None => abstract end   (* float32(float64(int64(a))) *)
    | _ => abstract          (* LiteralF16 / Bool / abstract: default branch returns the abstract literal *)
    end
  | LAF _ =>
    match concrete with
    | LI32 _ => match F.(f_conc) abstract TI32 with Some l => l | None => abstract end
    | LU32 _ => match F.(f_conc) abstract TU32 with Some l => l | None => abstract end
    | LF32 _ => match F.(f_conc) abstract TF32 with Some l => l | None => abstract end
    | _ => abstract
    end
  | _ => abstract
  end.

(* concretizeLiteralPair (5515) *)
Definition concretize_literal_pair (l r : lit) : lit * lit :=
  match is_abstract l, is_abstract r with
  | true, true =>
    match l, r with
    | LAF _, LAI v => (l, F.(f_ai_to_af) v)
    | LAI v, LAF _ => (F.(f_ai_to_af) v, r)
    | _, _ => (l, r)
    end
  | true, false => (concretize_literal_to l r, r)
  | false, true => (l, concretize_literal_to r l)
  | false, false => (l, r)
  end.

(* foldBinaryLiterals (5576).  The trailing "mixed shift" cases (5719-5751) are
   unreachable: both operands are integer literals there, and that case returned above. *)
Definition fold_binary_literals (op : binop) (l r : lit) : option lit :=
  if is_integer_literal l && is_integer_literal r then int_branch op l r
  else if is_float_literal l && is_float_literal r then F.(f_bin_ast) op l r
  else match l, r with
       | LBool a, LBool b => bool_binop op a b
       | _, _ => None
       end.

(* tryFoldASTBinary (5478): both operands are literal tokens *)
Definition try_fold_ast_binary (op : binop) (l r : lit) : option lit :=
  let '(l', r') := concretize_literal_pair l r in fold_binary_literals op l' r'.

(* tryFoldBinaryOp (12501) *)
Definition try_fold_binary_op (op : binop) (l r : lit) : option lit :=
  if is_integer_literal l && is_integer_literal r then int_branch op l r
  else if (is_float_literal l && is_float_literal r)
          || (is_integer_literal l && is_float_literal r) || (is_float_literal l && is_integer_literal r)
       then F.(f_bin) op l r
  else match l, r with
       | LBool a, LBool b => bool_binop op a b
       | _, _ => None
       end.

(* tryFoldUnaryOp (12280) *)
Definition try_fold_unary_op (op : unop) (l : lit) : option lit :=
  match op with
  | UNeg => if is_integer_literal l then Some (make_int_literal l (neg64 (literal_to_i64 l)))
            else if is_float_literal l then F.(f_neg) l else None
  | UBNot => if is_integer_literal l then Some (make_int_literal l (not64 (literal_to_i64 l))) else None
  | ULNot => match l with LBool b => Some (LBool (negb b)) | _ => None end
  end.

(* lowerNegatedLiteral (7322): "-" applied directly to a literal token.  U32 and bool
   are rejected there (the caller then takes the general path). *)
Definition lower_negated_literal (l : lit) : option lit :=
  match l with
  | LI32 b => Some (LI32 (to32 (- sgn b)))
  | LAI v => Some (LAI (neg64 v))
  | LF32 _ | LF16 _ | LAF _ => F.(f_neg) l
  | _ => None
  end.

(* tryFoldAs(expr, kind, width, convert=true) (12317), integer and bool sources to
   integer/bool targets; anything involving a float goes to the hook *)
Definition try_fold_as (l : lit) (t : sty) : option lit :=
  if is_float_literal l then F.(f_as) l t
  else
    let ival := match l with LBool b => if b then 1 else 0 | _ => literal_to_i64 l end in
    match t with
    | TI32 => Some (LI32 (to32 ival))
    | TU32 => Some (LU32 (to32 (u64 ival)))
    | TBool => Some (LBool (negb (ival =? 0)))
    | TF32 | TF16 => F.(f_as) l t
    end.

(* ---- concretization of a literal against a target scalar ---- *)

(* concretizeAbstractInt (6704) / computeConcreteLiteral (6069), integer value *)
Definition concretize_abstract_int (v : Z) (t : sty) : lit :=
  match t with
  | TU32 => LU32 (to32 v)
  | TI32 => LI32 (to32 v)
  | TF32 | TF16 => match F.(f_conc) (LAI v) t with Some l => l | None => LI32 (to32 v) end
  | TBool => LI32 (to32 v)
  end.

(* concretizeExpressionToScalar on a Literal (6366): abstract literals are concretized,
   a concrete I32 is re-typed to U32 / converted to F32, a concrete F32 is converted to
   I32/U32; every other literal is left alone *)
Definition concretize_expr_to_scalar (l : lit) (t : sty) : lit :=
  match l with
  | LAI v => concretize_abstract_int v t
  | LAF _ => match F.(f_conc) l t with Some l' => l' | None => l end
  | LI32 b => match t with
              | TU32 => LU32 b
              | TF32 | TF16 => match F.(f_conc) l TF32 with Some l' => l' | None => l end
              | _ => l
              end
  | LF32 _ => match t with
              | TI32 | TU32 => match F.(f_conc) l t with Some l' => l' | None => l end
              | _ => l
              end
  | _ => l
  end.

(* concretizeAbstractToDefault (6208): AbstractInt -> I32, AbstractFloat -> F32 *)
Definition concretize_default (l : lit) : lit :=
  match l with
  | LAI v => concretize_abstract_int v TI32
  | LAF _ => match F.(f_conc) l TF32 with Some l' => l' | None => l end
  | _ => l
  end.

(* concretizeAbstractToDefaultFloat (6292): both abstract kinds -> F32 *)
Definition concretize_default_float (l : lit) : lit :=
  match l with
  | LAI _ | LAF _ => match F.(f_conc) l TF32 with Some l' => l' | None => l end
  | _ => l
  end.

Definition lit_scalar (l : lit) : option sty :=
  match l with
  | LI32 _ => Some TI32 | LU32 _ => Some TU32 | LBool _ => Some TBool
  | LF32 _ => Some TF32 | LF16 _ => Some TF16 | LAI _ | LAF _ => None
  end.

(* concretizeBinaryOperands (5838) on two literal handles: exactly one abstract ->
   computeConcreteLiteral against the other operand's scalar *)
Definition concretize_binary_operands (l r : lit) : lit * lit :=
  match is_abstract l, is_abstract r with
  | true, false =>
    match lit_scalar r with
    | Some t => (match l with
                 | LAI v => concretize_abstract_int v t
                 | _ => match F.(f_conc) l (match t with TF16 => TF16 | _ => TF32 end) with Some l' => l' | None => l end
                 end, r)
    | None => (l, r)
    end
  | false, true =>
    match lit_scalar l with
    | Some t => (l, match r with
                    | LAI v => concretize_abstract_int v t
                    | _ => match F.(f_conc) r (match t with TF16 => TF16 | _ => TF32 end) with Some r' => r' | None => r end
                    end)
    | None => (l, r)
    end
  | _, _ => (l, r)
  end.

(* concretizeShiftRight (5927): an abstract-int shift amount becomes U32(uint32(val)) *)
Definition concretize_shift_right (r : lit) : lit :=
  match r with LAI v => LU32 (to32 v) | _ => r end.

(* ---- integer builtins (tryFoldScalarMath 11420) ---- *)

(* foldAbs / foldSign / foldMin / foldMax / foldClamp, integer branches *)
Definition fold_abs_int (l : lit) : lit :=
  let v := literal_to_i64 l in make_int_literal l (if v <? 0 then neg64 v else v).
Definition fold_sign_int (l : lit) : lit :=
  let v := literal_to_i64 l in make_int_literal l (if 0 <? v then 1 else if v <? 0 then -1 else 0).
Definition fold_min_int (a b : lit) : lit :=
  let va := literal_to_i64 a in let vb := literal_to_i64 b in make_int_literal a (if vb <? va then vb else va).
Definition fold_max_int (a b : lit) : lit :=
  let va := literal_to_i64 a in let vb := literal_to_i64 b in make_int_literal a (if va <? vb then vb else va).
Definition fold_clamp_int (e lo hi : lit) : lit :=
  let v := literal_to_i64 e in let low := literal_to_i64 lo in let high := literal_to_i64 hi in
  make_int_literal e (if v <? low then low else if high <? v then high else v).

(* promoteToConsensus3 (11667): with any float argument, abstract ints become abstract floats *)
Definition promote3 (a b c : lit) : lit * lit * lit :=
  let hasf := existsb (fun x => match x with LAF _ | LF32 _ | LF16 _ => true | _ => false end) [a; b; c] in
  let p x := match x with LAI v => if hasf then F.(f_ai_to_af) v else x | _ => x end in
  (p a, p b, p c).

(* foldIntBitOp (11894): only I32/U32 (and 64-bit, not modelled); an abstract int is not folded *)
Definition fold_int_bit_op (fn32 : Z -> Z) (l : lit) : option lit :=
  match l with
  | LI32 b => Some (LI32 (to32 (fn32 b)))
  | LU32 b => Some (LU32 (to32 (fn32 b)))
  | _ => None
  end.

(* foldFirstTrailingBit (11923) / foldFirstLeadingBit (11975) *)
Definition fold_first_trailing_bit (l : lit) : option lit :=
  match l with
  | LI32 b => Some (LI32 (if b =? 0 then ALL_ONES else to32 (trailing_zeros32 b)))
  | LU32 b => Some (LU32 (if b =? 0 then ALL_ONES else to32 (trailing_zeros32 b)))
  | _ => None
  end.
Definition fold_first_leading_bit (l : lit) : option lit :=
  match l with
  | LI32 b => let u := if sgn b <? 0 then not32 b else b in
              Some (LI32 (if u =? 0 then ALL_ONES else to32 (31 - leading_zeros32 u)))
  | LU32 b => Some (LU32 (if b =? 0 then ALL_ONES else to32 (31 - leading_zeros32 b)))
  | _ => None
  end.

Definition all_int (ls : list lit) := forallb is_integer_literal ls.
Definition all_float (ls : list lit) := forallb is_float_literal ls.

(* tryFoldScalarMath on already-extracted literals *)
Definition try_fold_scalar_math (f : mathfn) (args : list lit) : option lit :=
  match f, args with
  | MClamp, [e; lo; hi] =>
    let '(e', lo', hi') := promote3 e lo hi in
    if all_int [e'; lo'; hi'] then Some (fold_clamp_int e' lo' hi')
    else if all_float [e'; lo'; hi'] then F.(f_math) MClamp [e'; lo'; hi'] else None
  | MMin, [a; b] =>
    if all_int [a; b] then Some (fold_min_int a b)
    else if all_float [a; b] then F.(f_math) MMin [a; b] else None
  | MMax, [a; b] =>
    if all_int [a; b] then Some (fold_max_int a b)
    else if all_float [a; b] then F.(f_math) MMax [a; b] else None
  | MAbs, a :: _ =>
    if is_integer_literal a then Some (fold_abs_int a)
    else if is_float_literal a then F.(f_math) MAbs [a] else None
  | MSign, a :: _ =>
    if is_integer_literal a then Some (fold_sign_int a)
    else if is_float_literal a then F.(f_math) MSign [a] else None
  | MCountTrailingZeros, a :: _ => fold_int_bit_op trailing_zeros32 a
  | MCountLeadingZeros, a :: _ => fold_int_bit_op leading_zeros32 a
  | MCountOneBits, a :: _ => fold_int_bit_op ones_count32 a
  | MReverseBits, a :: _ => fold_int_bit_op reverse32 a
  | MFirstTrailingBit, a :: _ => fold_first_trailing_bit a
  | MFirstLeadingBit, a :: _ => fold_first_leading_bit a
  | MExtractBits, _ | MInsertBits, _ => None          (* not in the switch: default -> not folded *)
  | MFloat _, _ => if all_float args then F.(f_math) f args else None
  | _, _ => None
  end.

Definition is_float_only (f : mathfn) : bool := match f with MFloat _ => true | _ => false end.

(* concretizeMathArgsWithHint (6234) on literal arguments *)
Definition concretize_math_args (f : mathfn) (args : list lit) : list lit :=
  match find (fun a => negb (is_abstract a)) args with
  | Some c => match lit_scalar c with
              | Some t => map (fun a => concretize_expr_to_scalar a t) args
              | None => args
              end
  | None =>
    if existsb (fun a => match a with LAF _ => true | _ => false end) args || is_float_only f
    then map concretize_default_float args
    else map concretize_default args
  end.

(* ---- expression trees as the WGSL source writes them ---- *)
Inductive cexpr :=
| CLit (l : lit)                                (* a literal token: never negative *)
| CUn (op : unop) (a : cexpr)
| CBin (op : binop) (a b : cexpr)
| CAs (t : sty) (a : cexpr)                     (* i32(e) u32(e) bool(e) f32(e) f16(e) *)
| CMath1 (f : mathfn) (a : cexpr)
| CMath2 (f : mathfn) (a b : cexpr)
| CMath3 (f : mathfn) (a b c : cexpr)
| CSelect (fv tv c : cexpr).

Definition is_shift (op : binop) := match op with BShl | BShr => true | _ => false end.
Definition is_logical (op : binop) := match op with BLAnd | BLOr => true | _ => false end.

(* lowerBinary (5275) after both operands were lowered to literals *)
Definition lower_binary_general (op : binop) (l r : lit) : option lit :=
  let '(l', r') := if is_shift op then (l, concretize_shift_right r) else concretize_binary_operands l r in
  try_fold_binary_op op l' r'.

(* lowerLogicalShortCircuit (5360) with a literal left operand: folds only when it short-circuits *)
Definition lower_logical (op : binop) (l : lit) : option lit :=
  match op, l with
  | BLAnd, LBool false => Some l
  | BLOr, LBool true => Some l
  | _, _ => None
  end.

(* lowerExpression restricted to constant trees *)
Fixpoint fold_expr (e : cexpr) : option lit :=
  match e with
  | CLit l => Some l
  | CUn op a =>
    let general := match fold_expr a with Some l => try_fold_unary_op op l | None => None end in
    match op, a with
    | UNeg, CLit l => match lower_negated_literal l with Some r => Some r | None => general end
    | _, _ => general
    end
  | CBin op a b =>
    let general :=
      if is_logical op then match fold_expr a with Some l => lower_logical op l | None => None end
      else match fold_expr a, fold_expr b with
           | Some l, Some r => lower_binary_general op l r
           | _, _ => None
           end in
    match a, b with
    | CLit l, CLit r => match try_fold_ast_binary op l r with Some v => Some v | None => general end
    | _, _ => general
    end
  | CAs t a => match fold_expr a with Some l => try_fold_as l t | None => None end
  | CMath1 f a =>
    match fold_expr a with
    | Some x => try_fold_scalar_math f (concretize_math_args f [x])
    | None => None
    end
  | CMath2 f a b =>
    match fold_expr a, fold_expr b with
    | Some x, Some y => try_fold_scalar_math f (concretize_math_args f [x; y])
    | _, _ => None
    end
  | CMath3 f a b c =>
    match fold_expr a, fold_expr b, fold_expr c with
    | Some x, Some y, Some z => try_fold_scalar_math f (concretize_math_args f [x; y; z])
    | _, _, _ => None
    end
  | CSelect fv tv c =>
    (* lowerSelectCall (12741) then constFoldSelect (8668) *)
    match fold_expr fv, fold_expr tv, fold_expr c with
    | Some x, Some y, Some (LBool cb) =>
      let '(x', y') := concretize_binary_operands x y in
      Some (if cb then concretize_default y' else concretize_default x')
    | _, _, _ => None
    end
  end.

(* the syntactic positions a folded value is observed at *)
(* `p[k] = e;` with p an array of t: concretizeStoreValue *)
Definition fold_store (t : sty) (e : cexpr) : option lit :=
  option_map (fun l => concretize_expr_to_scalar l t) (fold_expr e).
(* `let x = e;` : concretizeAbstractToDefault *)
Definition fold_let (e : cexpr) : option lit := option_map concretize_default (fold_expr e).

(* tryFoldVectorBinaryOp / tryFoldVectorUnaryOp / tryFoldVectorMath: component-wise, all or nothing *)
Fixpoint all_some {A} (l : list (option A)) : option (list A) :=
  match l with
  | [] => Some []
  | Some x :: r => option_map (cons x) (all_some r)
  | None :: _ => None
  end.
Definition fold_vec_binary (op : binop) (ls rs : list lit) : option (list lit) :=
  if Nat.eqb (length ls) (length rs) then all_some (map (fun p => try_fold_binary_op op (fst p) (snd p)) (combine ls rs)) else None.
Definition fold_vec_unary (op : unop) (ls : list lit) : option (list lit) :=
  all_some (map (try_fold_unary_op op) ls).

End WithFloats.
