(* f32 arithmetic folded through Go float64 (compute in binary64, narrow with float32(...)):
   the classical double-rounding question.  binary64 has 53 >= 2*24+1 bits, so rounding the
   exact sum first to binary64 and then to binary32 is the same as rounding once to binary32
   (Flocq, Prop/Double_rounding.round_round_plus_FLT). *)
From Coq Require Import ZArith Bool Reals Lia Lra.
From Flocq Require Import Core BinarySingleNaN Double_rounding Plus_error.
Require Import Naga.Fold.FoldFloat.
Open Scope R_scope.

Notation fexp32 := (FLT_exp (-149) 24).
Notation fexp64 := (FLT_exp (-1074) 53).
Notation rnd32 := (round radix2 fexp32 ZnearestE).
Notation rnd64 := (round radix2 fexp64 ZnearestE).

Lemma format32_in_64 r : generic_format radix2 fexp32 r -> generic_format radix2 fexp64 r.
Proof.
  intros H. apply generic_format_FLT. apply FLT_format_generic in H; [|reflexivity].
  destruct H as [f Hf1 Hf2 Hf3]. exists f; [assumption | | lia].
  apply Z.lt_trans with (1 := Hf2). apply (Zpower_lt radix2); lia.
Qed.

Lemma B2R32_format (x : f32) : generic_format radix2 fexp32 (B2R x).
Proof. exact (generic_format_B2R 24 128 x). Qed.

(* float64(x) is exact *)
Lemma f64_of_f32_exact (x : f32) : is_finite x = true ->
  B2R (f64_of_f32 x) = B2R x /\ is_finite (f64_of_f32 x) = true /\ Bsign (f64_of_f32 x) = Bsign x.
Proof.
  destruct x as [s|s| |s m e H]; try discriminate; intros _; [repeat split|].
  unfold f64_of_f32.
  pose proof (binary_normalize_correct 53 1024 Hprec64 Hmax64 mode_NE (cond_Zopp s (Zpos m)) e s) as C.
  cbv zeta in C.
  set (xr := F2R (Float radix2 (cond_Zopp s (Z.pos m)) e)) in *.
  assert (Hx : xr = B2R (B754_finite s m e H : f32)) by reflexivity.
  assert (Hfmt : generic_format radix2 fexp64 xr) by (rewrite Hx; apply format32_in_64, B2R32_format).
  change (SpecFloat.fexp 53 1024) with fexp64 in C. change (round_mode mode_NE) with ZnearestE in C.
  assert (Hr : rnd64 xr = xr) by (apply round_generic; [apply valid_rnd_N | exact Hfmt]).
  rewrite Hr in C.
  assert (Hlt : Rabs xr < bpow radix2 1024).
  { apply Rlt_trans with (bpow radix2 128); [rewrite Hx; apply (abs_B2R_lt_emax 24 128) | apply bpow_lt; lia]. }
  rewrite (Rlt_bool_true _ _ Hlt) in C. destruct C as [C1 [C2 C3]].
  split; [exact C1|]. split; [exact C2|]. rewrite C3. cbn [Bsign].
  destruct s; cbn [cond_Zopp] in xr.
  - rewrite Rcompare_Lt; [reflexivity|]. unfold xr. apply F2R_lt_0. reflexivity.
  - rewrite Rcompare_Gt; [reflexivity|]. unfold xr. apply F2R_gt_0. reflexivity.
Qed.

Lemma FLT32 (x : f32) : FLT_format radix2 (-149) 24 (B2R x).
Proof. apply FLT_format_generic; [reflexivity | apply B2R32_format]. Qed.

(* rounding the exact sum of two binary32 numbers to binary64 and then to binary32 = rounding once *)
Lemma double_round_plus (x y : f32) : rnd32 (rnd64 (B2R x + B2R y)) = rnd32 (B2R x + B2R y).
Proof.
  apply (round_round_plus_FLT radix2 (-149) 24 (-1074) 53 (fun z => negb (Z.even z)) (fun z => negb (Z.even z)));
    try lia; apply FLT32.
Qed.

Lemma sum_lt_129 (x y : f32) : Rabs (B2R x + B2R y) < bpow radix2 129.
Proof.
  pose proof (abs_B2R_lt_emax 24 128 x) as Hx. pose proof (abs_B2R_lt_emax 24 128 y) as Hy.
  change (bpow radix2 129) with (bpow radix2 (128 + 1)). rewrite bpow_plus_1. change (IZR radix2) with 2.
  apply Rle_lt_trans with (1 := Rabs_triang _ _). lra.
Qed.

Lemma rnd64_sum_bound (x y : f32) : Rabs (rnd64 (B2R x + B2R y)) < bpow radix2 1024.
Proof.
  apply Rle_lt_trans with (bpow radix2 129); [|apply bpow_lt; lia].
  apply abs_round_le_generic; [apply FLT_exp_valid; reflexivity | apply valid_rnd_N | | ].
  - apply generic_format_bpow. cbn. lia.
  - apply Rlt_le, sum_lt_129.
Qed.

(* sign of a rounded non-zero sum *)
Lemma rnd64_sum_sign (x y : f32) : B2R x + B2R y <> 0 ->
  rnd64 (B2R x + B2R y) <> 0 /\ Rcompare (rnd64 (B2R x + B2R y)) 0 = Rcompare (B2R x + B2R y) 0.
Proof.
  intros Hnz.
  assert (Hne : rnd64 (B2R x + B2R y) <> 0).
  { apply (round_plus_neq_0 radix2 fexp64 ZnearestE); try assumption; apply format32_in_64, B2R32_format. }
  split; [exact Hne|].
  destruct (Rtotal_order (B2R x + B2R y) 0) as [Hlt | [Heq | Hgt]]; [| contradiction |].
  - rewrite (Rcompare_Lt _ _ Hlt). apply Rcompare_Lt.
    assert (rnd64 (B2R x + B2R y) <= 0); [|lra].
    apply round_le_generic; [apply FLT_exp_valid; reflexivity | apply valid_rnd_N | apply generic_format_0 | lra].
  - rewrite (Rcompare_Gt _ _ Hgt). apply Rcompare_Gt.
    assert (0 <= rnd64 (B2R x + B2R y)); [|lra].
    apply round_ge_generic; [apply FLT_exp_valid; reflexivity | apply valid_rnd_N | apply generic_format_0 | lra].
Qed.

Section Generic.
Variables (prec emax : Z).
Context (Hp : FLX.Prec_gt_0 prec) (Hm : Prec_lt_emax prec emax).
Lemma finite_zero (f : binary_float prec emax) : is_finite f = true -> B2R f = 0 -> f = B754_zero (Bsign f).
Proof.
  destruct f as [s|s| |s m e H]; try discriminate; intros _ Hz; [reflexivity|].
  exfalso. cbn [B2R] in Hz. apply eq_0_F2R in Hz. destruct s; discriminate Hz.
Qed.
Lemma finite_nonzero (f : binary_float prec emax) : is_finite f = true -> B2R f <> 0 ->
  exists s m e H, f = B754_finite s m e H.
Proof.
  destruct f as [s|s| |s m e H]; try discriminate; intros _ Hz; [contradiction Hz; reflexivity|]. eauto.
Qed.
Lemma sign_B2R (f : binary_float prec emax) : is_finite f = true ->
  (Bsign f = true -> B2R f <= 0) /\ (Bsign f = false -> 0 <= B2R f).
Proof.
  destruct f as [s|s| |s m e H]; try discriminate; intros _; cbn [Bsign B2R]; split; intros ->; try lra.
  - apply Rlt_le. apply F2R_lt_0. reflexivity.
  - apply Rlt_le. apply F2R_gt_0. reflexivity.
Qed.
End Generic.

(* f32 addition computed in float64 and narrowed is exactly f32 addition, for all finite operands:
   same value, same zero sign, same overflow to infinity *)
Theorem f32_add_via_f64 (x y : f32) : is_finite x = true -> is_finite y = true ->
  f32_of_f64 (Bplus mode_NE (f64_of_f32 x) (f64_of_f32 y)) = Bplus mode_NE x y.
Proof.
  intros Fx Fy.
  destruct (f64_of_f32_exact x Fx) as [Rx [Fx' Sx]]. destruct (f64_of_f32_exact y Fy) as [Ry [Fy' Sy]].
  pose proof (Bplus_correct 53 1024 Hprec64 Hmax64 mode_NE _ _ Fx' Fy') as C64.
  rewrite Rx, Ry, Sx, Sy in C64.
  change (SpecFloat.fexp 53 1024) with fexp64 in C64. change (round_mode mode_NE) with ZnearestE in C64.
  rewrite (Rlt_bool_true _ _ (rnd64_sum_bound x y)) in C64. destruct C64 as [R64 [F64 S64]].
  set (s64 := Bplus mode_NE (f64_of_f32 x) (f64_of_f32 y)) in *.
  pose proof (Bplus_correct 24 128 Hprec32 Hmax32 mode_NE x y Fx Fy) as C32.
  change (SpecFloat.fexp 24 128) with fexp32 in C32. change (round_mode mode_NE) with ZnearestE in C32.
  set (d := Bplus mode_NE x y) in *.
  destruct (Req_dec (B2R x + B2R y) 0) as [Hz | Hnz].
  - (* exact zero sum: the sign of zero is decided by the same rule on both paths *)
    rewrite Hz in *. rewrite round_0 in R64, C32 by apply valid_rnd_N.
    rewrite Rcompare_Eq in S64, C32 by reflexivity.
    rewrite Rabs_R0 in C32. rewrite Rlt_bool_true in C32 by apply bpow_gt_0. destruct C32 as [R32 [F32 S32]].
    rewrite (finite_zero _ _ s64 F64 R64), S64. cbn [f32_of_f64].
    rewrite (finite_zero _ _ d F32 R32), S32. reflexivity.
  - destruct (rnd64_sum_sign x y Hnz) as [Hne Hcmp]. rewrite <- R64 in Hne, Hcmp.
    destruct (finite_nonzero _ _ s64 F64 Hne) as [s [m [e [H E]]]].
    rewrite E. cbn [f32_of_f64].
    pose proof (binary_normalize_correct 24 128 Hprec32 Hmax32 mode_NE (cond_Zopp s (Zpos m)) e s) as CN. cbv zeta in CN.
    change (SpecFloat.fexp 24 128) with fexp32 in CN. change (round_mode mode_NE) with ZnearestE in CN.
    assert (Hxr : F2R (Float radix2 (cond_Zopp s (Z.pos m)) e) = rnd64 (B2R x + B2R y)) by (rewrite <- R64, E; reflexivity).
    rewrite Hxr, double_round_plus in CN. rewrite R64 in Hcmp.
    set (r := binary_normalize 24 128 Hprec32 Hmax32 mode_NE (cond_Zopp s (Z.pos m)) e s) in *.
    destruct (Rlt_bool (Rabs (rnd32 (B2R x + B2R y))) (bpow radix2 128)).
    + destruct C32 as [R32 [F32 S32]]. destruct CN as [RN [FN SN]].
      apply B2R_Bsign_inj; try assumption; [congruence|]. rewrite SN, S32, Hcmp.
      destruct (Rcompare_spec (B2R x + B2R y) 0); try reflexivity. contradiction.
    + destruct C32 as [O32 Hss]. apply B2SF_inj. rewrite CN, O32. f_equal.
      destruct (sign_B2R _ _ x Fx) as [Xn Xp]. destruct (sign_B2R _ _ y Fy) as [Yn Yp].
      destruct (Rcompare_spec (B2R x + B2R y) 0) as [Hlt | Heq | Hgt]; [| contradiction |].
      * apply Rcompare_Lt_inv in Hcmp. rewrite (Rlt_bool_true _ _ Hcmp).
        destruct (Bsign x) eqn:Ex; [reflexivity|]. rewrite <- Hss in Yp. specialize (Xp eq_refl). specialize (Yp eq_refl). lra.
      * apply Rcompare_Gt_inv in Hcmp. rewrite Rlt_bool_false by lra.
        destruct (Bsign x) eqn:Ex; [|reflexivity]. rewrite <- Hss in Yn. specialize (Xn eq_refl). specialize (Yn eq_refl). lra.
Qed.
Print Assumptions f32_add_via_f64.

(* ---------------- subtraction: the same argument with x - y ---------------- *)
Lemma double_round_minus (x y : f32) : rnd32 (rnd64 (B2R x - B2R y)) = rnd32 (B2R x - B2R y).
Proof.
  apply (round_round_minus_FLT radix2 (-149) 24 (-1074) 53 (fun z => negb (Z.even z)) (fun z => negb (Z.even z)));
    try lia; apply FLT32.
Qed.
Lemma rnd64_diff_bound (x y : f32) : Rabs (rnd64 (B2R x - B2R y)) < bpow radix2 1024.
Proof.
  apply Rle_lt_trans with (bpow radix2 129); [|apply bpow_lt; lia].
  apply abs_round_le_generic; [apply FLT_exp_valid; reflexivity | apply valid_rnd_N | | ].
  - apply generic_format_bpow. cbn. lia.
  - pose proof (abs_B2R_lt_emax 24 128 x) as Hx. pose proof (abs_B2R_lt_emax 24 128 y) as Hy.
    change (bpow radix2 129) with (bpow radix2 (128 + 1)). rewrite bpow_plus_1. change (IZR radix2) with 2.
    unfold Rminus. apply Rle_trans with (1 := Rabs_triang _ _). rewrite Rabs_Ropp. lra.
Qed.
Lemma rnd64_diff_sign (x y : f32) : B2R x - B2R y <> 0 ->
  rnd64 (B2R x - B2R y) <> 0 /\ Rcompare (rnd64 (B2R x - B2R y)) 0 = Rcompare (B2R x - B2R y) 0.
Proof.
  intros Hnz.
  assert (Hne : rnd64 (B2R x - B2R y) <> 0).
  { unfold Rminus. apply (round_plus_neq_0 radix2 fexp64 ZnearestE); try assumption.
    - apply format32_in_64, B2R32_format.
    - apply generic_format_opp. apply format32_in_64, B2R32_format. }
  split; [exact Hne|].
  destruct (Rtotal_order (B2R x - B2R y) 0) as [Hlt | [Heq | Hgt]]; [| contradiction |].
  - rewrite (Rcompare_Lt _ _ Hlt). apply Rcompare_Lt.
    assert (rnd64 (B2R x - B2R y) <= 0); [|lra].
    apply round_le_generic; [apply FLT_exp_valid; reflexivity | apply valid_rnd_N | apply generic_format_0 | lra].
  - rewrite (Rcompare_Gt _ _ Hgt). apply Rcompare_Gt.
    assert (0 <= rnd64 (B2R x - B2R y)); [|lra].
    apply round_ge_generic; [apply FLT_exp_valid; reflexivity | apply valid_rnd_N | apply generic_format_0 | lra].
Qed.

Theorem f32_sub_via_f64 (x y : f32) : is_finite x = true -> is_finite y = true ->
  f32_of_f64 (Bminus mode_NE (f64_of_f32 x) (f64_of_f32 y)) = Bminus mode_NE x y.
Proof.
  intros Fx Fy.
  destruct (f64_of_f32_exact x Fx) as [Rx [Fx' Sx]]. destruct (f64_of_f32_exact y Fy) as [Ry [Fy' Sy]].
  pose proof (Bminus_correct 53 1024 Hprec64 Hmax64 mode_NE _ _ Fx' Fy') as C64.
  rewrite Rx, Ry, Sx, Sy in C64.
  change (SpecFloat.fexp 53 1024) with fexp64 in C64. change (round_mode mode_NE) with ZnearestE in C64.
  rewrite (Rlt_bool_true _ _ (rnd64_diff_bound x y)) in C64. destruct C64 as [R64 [F64 S64]].
  set (s64 := Bminus mode_NE (f64_of_f32 x) (f64_of_f32 y)) in *.
  pose proof (Bminus_correct 24 128 Hprec32 Hmax32 mode_NE x y Fx Fy) as C32.
  change (SpecFloat.fexp 24 128) with fexp32 in C32. change (round_mode mode_NE) with ZnearestE in C32.
  set (d := Bminus mode_NE x y) in *.
  destruct (Req_dec (B2R x - B2R y) 0) as [Hz | Hnz].
  - rewrite Hz in *. rewrite round_0 in R64, C32 by apply valid_rnd_N.
    rewrite Rcompare_Eq in S64, C32 by reflexivity.
    rewrite Rabs_R0 in C32. rewrite Rlt_bool_true in C32 by apply bpow_gt_0. destruct C32 as [R32 [F32 S32]].
    rewrite (finite_zero _ _ s64 F64 R64), S64. cbn [f32_of_f64].
    rewrite (finite_zero _ _ d F32 R32), S32. reflexivity.
  - destruct (rnd64_diff_sign x y Hnz) as [Hne Hcmp]. rewrite <- R64 in Hne, Hcmp.
    destruct (finite_nonzero _ _ s64 F64 Hne) as [s [m [e [H E]]]].
    rewrite E. cbn [f32_of_f64].
    pose proof (binary_normalize_correct 24 128 Hprec32 Hmax32 mode_NE (cond_Zopp s (Zpos m)) e s) as CN. cbv zeta in CN.
    change (SpecFloat.fexp 24 128) with fexp32 in CN. change (round_mode mode_NE) with ZnearestE in CN.
    assert (Hxr : F2R (Float radix2 (cond_Zopp s (Z.pos m)) e) = rnd64 (B2R x - B2R y)) by (rewrite <- R64, E; reflexivity).
    rewrite Hxr, double_round_minus in CN. rewrite R64 in Hcmp.
    set (r := binary_normalize 24 128 Hprec32 Hmax32 mode_NE (cond_Zopp s (Z.pos m)) e s) in *.
    destruct (Rlt_bool (Rabs (rnd32 (B2R x - B2R y))) (bpow radix2 128)).
    + destruct C32 as [R32 [F32 S32]]. destruct CN as [RN [FN SN]].
      apply B2R_Bsign_inj; try assumption; [congruence|]. rewrite SN, S32, Hcmp.
      destruct (Rcompare_spec (B2R x - B2R y) 0); try reflexivity. contradiction.
    + destruct C32 as [O32 Hss]. apply B2SF_inj. rewrite CN, O32. f_equal.
      destruct (sign_B2R _ _ x Fx) as [Xn Xp]. destruct (sign_B2R _ _ y Fy) as [Yn Yp].
      destruct (Rcompare_spec (B2R x - B2R y) 0) as [Hlt | Heq | Hgt]; [| contradiction |].
      * apply Rcompare_Lt_inv in Hcmp. rewrite (Rlt_bool_true _ _ Hcmp).
        destruct (Bsign x) eqn:Ex; [reflexivity|]. destruct (Bsign y) eqn:Ey; [|discriminate Hss].
        specialize (Xp eq_refl). specialize (Yn eq_refl). lra.
      * apply Rcompare_Gt_inv in Hcmp. rewrite Rlt_bool_false by lra.
        destruct (Bsign x) eqn:Ex; [|reflexivity]. destruct (Bsign y) eqn:Ey; [discriminate Hss|].
        specialize (Xn eq_refl). specialize (Yp eq_refl). lra.
Qed.

(* ---------------- multiplication: the binary64 product of two binary32 numbers is exact ---------------- *)
From Flocq Require Import Operations.
Lemma product_exact (x y : f32) : generic_format radix2 fexp64 (B2R x * B2R y).
Proof.
  destruct (FLT32 x) as [fx Hx1 Hx2 Hx3]. destruct (FLT32 y) as [fy Hy1 Hy2 Hy3].
  apply generic_format_FLT. exists (Fmult fx fy).
  - rewrite F2R_mult, <- Hx1, <- Hy1. reflexivity.
  - destruct fx as [nx ex], fy as [ny ey]. cbn [Fmult Fnum] in *. rewrite Z.abs_mul.
    change (radix2 ^ 24)%Z with 16777216%Z in *. change (radix2 ^ 53)%Z with 9007199254740992%Z. nia.
  - destruct fx as [nx ex], fy as [ny ey]. cbn [Fmult Fexp] in *. lia.
Qed.

Lemma finite_sign_strict (f : f32) s m e H : f = B754_finite s m e H ->
  (s = true -> B2R f < 0) /\ (s = false -> 0 < B2R f).
Proof.
  intros ->. cbn [B2R]. split; intros ->.
  - apply F2R_lt_0. reflexivity.
  - apply F2R_gt_0. reflexivity.
Qed.

Theorem f32_mul_via_f64 (x y : f32) : is_finite x = true -> is_finite y = true ->
  f32_of_f64 (Bmult mode_NE (f64_of_f32 x) (f64_of_f32 y)) = Bmult mode_NE x y.
Proof.
  intros Fx Fy.
  destruct (f64_of_f32_exact x Fx) as [Rx [Fx' Sx]]. destruct (f64_of_f32_exact y Fy) as [Ry [Fy' Sy]].
  pose proof (Bmult_correct 53 1024 Hprec64 Hmax64 mode_NE (f64_of_f32 x) (f64_of_f32 y)) as C64.
  rewrite Rx, Ry, Sx, Sy, Fx', Fy' in C64.
  change (SpecFloat.fexp 53 1024) with fexp64 in C64. change (round_mode mode_NE) with ZnearestE in C64.
  assert (Hex : rnd64 (B2R x * B2R y) = B2R x * B2R y) by (apply round_generic; [apply valid_rnd_N | apply product_exact]).
  rewrite Hex in C64.
  assert (Hb : Rabs (B2R x * B2R y) < bpow radix2 1024).
  { pose proof (abs_B2R_lt_emax 24 128 x) as Hx. pose proof (abs_B2R_lt_emax 24 128 y) as Hy.
    rewrite Rabs_mult. apply Rlt_trans with (bpow radix2 128 * bpow radix2 128).
    - pose proof (Rabs_pos (B2R x)). pose proof (Rabs_pos (B2R y)). pose proof (bpow_gt_0 radix2 128). nra.
    - rewrite <- bpow_plus. apply bpow_lt. lia. }
  rewrite (Rlt_bool_true _ _ Hb) in C64. cbn [andb] in C64. destruct C64 as [R64 [F64 S64]].
  set (s64 := Bmult mode_NE (f64_of_f32 x) (f64_of_f32 y)) in *.
  assert (N64 : is_nan s64 = false) by (destruct s64; try reflexivity; discriminate F64). specialize (S64 N64).
  pose proof (Bmult_correct 24 128 Hprec32 Hmax32 mode_NE x y) as C32. rewrite Fx, Fy in C32. cbn [andb] in C32.
  change (SpecFloat.fexp 24 128) with fexp32 in C32. change (round_mode mode_NE) with ZnearestE in C32.
  set (d := Bmult mode_NE x y) in *.
  destruct (Req_dec (B2R x * B2R y) 0) as [Hz | Hnz].
  - rewrite Hz in *. rewrite round_0 in C32 by apply valid_rnd_N.
    rewrite Rabs_R0 in C32. rewrite Rlt_bool_true in C32 by apply bpow_gt_0. destruct C32 as [R32 [F32 S32]].
    assert (N32 : is_nan d = false) by (destruct d; try reflexivity; discriminate F32). specialize (S32 N32).
    rewrite (finite_zero _ _ s64 F64 R64), S64. cbn [f32_of_f64].
    rewrite (finite_zero _ _ d F32 R32), S32. reflexivity.
  - assert (Hne : B2R s64 <> 0) by (rewrite R64; exact Hnz).
    destruct (finite_nonzero _ _ s64 F64 Hne) as [s [m [e [H E]]]].
    rewrite E. cbn [f32_of_f64].
    pose proof (binary_normalize_correct 24 128 Hprec32 Hmax32 mode_NE (cond_Zopp s (Zpos m)) e s) as CN. cbv zeta in CN.
    change (SpecFloat.fexp 24 128) with fexp32 in CN. change (round_mode mode_NE) with ZnearestE in CN.
    assert (Hxr : F2R (Float radix2 (cond_Zopp s (Z.pos m)) e) = B2R x * B2R y) by (rewrite <- R64, E; reflexivity).
    rewrite Hxr in CN.
    set (r := binary_normalize 24 128 Hprec32 Hmax32 mode_NE (cond_Zopp s (Z.pos m)) e s) in *.
    (* the sign of a non-zero product *)
    assert (Hsign : Rlt_bool (B2R x * B2R y) 0 = xorb (Bsign x) (Bsign y) /\
                    match Rcompare (B2R x * B2R y) 0 with Eq => s | Lt => true | Gt => false end = xorb (Bsign x) (Bsign y)).
    { assert (Hx0 : B2R x <> 0) by (intro Z0; apply Hnz; rewrite Z0; ring).
      assert (Hy0 : B2R y <> 0) by (intro Z0; apply Hnz; rewrite Z0; ring).
      destruct (finite_nonzero _ _ x Fx Hx0) as [sx [mx [ex [Hbx Ex]]]]. destruct (finite_nonzero _ _ y Fy Hy0) as [sy [my [ey [Hby Ey]]]].
      destruct (finite_sign_strict x sx mx ex Hbx Ex) as [Xn Xp]. destruct (finite_sign_strict y sy my ey Hby Ey) as [Yn Yp].
      rewrite Ex, Ey. cbn [Bsign]. rewrite <- Ex, <- Ey.
      destruct sx, sy; cbn [xorb];
        try specialize (Xn eq_refl); try specialize (Xp eq_refl); try specialize (Yn eq_refl); try specialize (Yp eq_refl).
      - assert (0 < B2R x * B2R y) by nra. rewrite Rlt_bool_false by lra. rewrite Rcompare_Gt by assumption. split; reflexivity.
      - assert (B2R x * B2R y < 0) by nra. rewrite Rlt_bool_true by assumption. rewrite Rcompare_Lt by assumption. split; reflexivity.
      - assert (B2R x * B2R y < 0) by nra. rewrite Rlt_bool_true by assumption. rewrite Rcompare_Lt by assumption. split; reflexivity.
      - assert (0 < B2R x * B2R y) by nra. rewrite Rlt_bool_false by lra. rewrite Rcompare_Gt by assumption. split; reflexivity. }
    destruct Hsign as [Hs1 Hs2].
    destruct (Rlt_bool (Rabs (rnd32 (B2R x * B2R y))) (bpow radix2 128)).
    + destruct C32 as [R32 [F32 S32]]. destruct CN as [RN [FN SN]].
      assert (N32 : is_nan d = false) by (destruct d; try reflexivity; discriminate F32). specialize (S32 N32).
      apply B2R_Bsign_inj; try assumption; [congruence|]. rewrite SN, S32. exact Hs2.
    + apply B2SF_inj. rewrite CN, C32, Hs1. reflexivity.
Qed.
Print Assumptions f32_mul_via_f64.

(* ---------------- at the level of the folder model ---------------- *)
Require Import Naga.Fold.FoldModel.
Definition finite_bits32 (b : Z) : Prop := is_finite (f32_of_bits b) = true.

(* folding a +, -, * of two finite f32 literals (computed in float64, narrowed by float32(...)) gives
   exactly the literal of the WGSL run-time f32 operation, for all operand bit patterns *)
Theorem fold_f32_arith_is_runtime : forall op a b, (op = BAdd \/ op = BSub \/ op = BMul) ->
  finite_bits32 a -> finite_bits32 b ->
  fbin op (LF32 a) (LF32 b) = f32_rt op a b /\ fbin_ast op (LF32 a) (LF32 b) = f32_rt op a b.
Proof.
  intros op a b Hop Ha Hb. unfold finite_bits32 in *.
  unfold fbin, fbin_ast, f32_rt, float_switch, is_float_literal, is_f16, literal_to_f64, make_float_literal, bits32_of_f64,
         add64f, sub64f, mul64f. cbn [andb orb].
  destruct Hop as [-> | [-> | ->]].
  - rewrite f32_add_via_f64 by assumption. split; reflexivity.
  - rewrite f32_sub_via_f64 by assumption. split; reflexivity.
  - rewrite f32_mul_via_f64 by assumption. split; reflexivity.
Qed.

(* an integer const-expression whose integer evaluation fails is re-evaluated in floating point:
   `const c = 7i / (1i / 2i);` is the f32 14.0 (WGSL: 1i / 2i = 0, division by zero: shader-creation error) *)
Require Import Naga.Fold.ModEvalModel Naga.Fold.WgslConst.
Lemma mod_const_float_fallback_refuted :
  let e := CBin BDiv (CLit (LI32 7)) (CBin BDiv (CLit (LI32 1)) (CLit (LI32 2))) in
  mod_const_binary None e = None /\ mod_const_float_fallback e = Some 1096810496%Z /\ wgsl_eval e = Err RDivZero.
Proof. vm_compute. repeat split; reflexivity. Qed.
