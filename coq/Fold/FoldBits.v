(* Ranges of the bit-counting builtins of Base/Bits32 and the folder's bit folds. *)
From Coq Require Import ZArith Bool List Lia.
Import ListNotations.
Require Import Naga.Base.Bits32 Naga.Fold.GoArith Naga.Fold.FoldArith Naga.Fold.FoldModel.
Open Scope Z_scope.

Lemma popcount_range n a : 0 <= popcount_nat n a <= Z.of_nat n.
Proof.
  induction n as [|n IH]; cbn [popcount_nat]; [lia|].
  destruct (Z.testbit a (Z.of_nat n)); lia.
Qed.
Lemma clz_range n a : 0 <= clz_nat n a <= Z.of_nat n.
Proof.
  induction n as [|n IH]; cbn [clz_nat]; [lia|].
  destruct (Z.testbit a (Z.of_nat n)); lia.
Qed.
Lemma ctz_range f i a : 0 <= i -> 0 <= ctz_from f i a <= Z.max 32 (i + Z.of_nat f).
Proof.
  revert i. induction f as [|f IH]; intros i Hi; cbn [ctz_from]; [lia|].
  destruct (Z.testbit a i); [lia|]. specialize (IH (i + 1) ltac:(lia)). lia.
Qed.

Lemma count_one_bits_in a : in32 (count_one_bits a).
Proof. unfold count_one_bits, in32, M32. pose proof (popcount_range 32 a). cbn in *. lia. Qed.
Lemma count_leading_zeros_range a : 0 <= count_leading_zeros a <= 32.
Proof. unfold count_leading_zeros. pose proof (clz_range 32 a). cbn in *. lia. Qed.
Lemma count_leading_zeros_in a : in32 (count_leading_zeros a).
Proof. pose proof (count_leading_zeros_range a). unfold in32, M32. lia. Qed.
Lemma count_trailing_zeros_in a : in32 (count_trailing_zeros a).
Proof. unfold count_trailing_zeros, in32, M32. pose proof (ctz_range 32 0 a ltac:(lia)). cbn in *. lia. Qed.

Lemma reverse_range n a : (n <= 32)%nat -> 0 <= reverse_nat n a <= M32 - 2 ^ (32 - Z.of_nat n).
Proof.
  induction n as [|n IH]; intros Hn.
  - cbn [reverse_nat]. change (2 ^ (32 - Z.of_nat 0)) with M32. lia.
  - cbn [reverse_nat]. specialize (IH ltac:(lia)).
    rewrite Z.shiftl_1_l.
    replace (32 - Z.of_nat n) with (Z.succ (31 - Z.of_nat n)) in IH by lia.
    rewrite Z.pow_succ_r in IH by lia.
    replace (32 - Z.of_nat (S n)) with (31 - Z.of_nat n) by lia.
    pose proof (pow2_pos (31 - Z.of_nat n) ltac:(lia)).
    destruct (Z.testbit a (Z.of_nat n)); lia.
Qed.
Lemma reverse_bits_in a : in32 (reverse_bits a).
Proof.
  unfold reverse_bits, in32. pose proof (reverse_range 32 a ltac:(lia)) as H.
  change (2 ^ (32 - Z.of_nat 32)) with 1 in H. lia.
Qed.

Section Bits.
Variable F : float_ops.
Notation tfm := (try_fold_scalar_math F).

Lemma fold_ctz_i32 a : tfm MCountTrailingZeros [LI32 a] = Some (LI32 (count_trailing_zeros a)).
Proof. unfold try_fold_scalar_math, fold_int_bit_op, to32, trailing_zeros32. rewrite wrap_id by apply count_trailing_zeros_in. reflexivity. Qed.
Lemma fold_ctz_u32 a : tfm MCountTrailingZeros [LU32 a] = Some (LU32 (count_trailing_zeros a)).
Proof. unfold try_fold_scalar_math, fold_int_bit_op, to32, trailing_zeros32. rewrite wrap_id by apply count_trailing_zeros_in. reflexivity. Qed.
Lemma fold_clz_i32 a : tfm MCountLeadingZeros [LI32 a] = Some (LI32 (count_leading_zeros a)).
Proof. unfold try_fold_scalar_math, fold_int_bit_op, to32, leading_zeros32. rewrite wrap_id by apply count_leading_zeros_in. reflexivity. Qed.
Lemma fold_clz_u32 a : tfm MCountLeadingZeros [LU32 a] = Some (LU32 (count_leading_zeros a)).
Proof. unfold try_fold_scalar_math, fold_int_bit_op, to32, leading_zeros32. rewrite wrap_id by apply count_leading_zeros_in. reflexivity. Qed.
Lemma fold_popcount_i32 a : tfm MCountOneBits [LI32 a] = Some (LI32 (count_one_bits a)).
Proof. unfold try_fold_scalar_math, fold_int_bit_op, to32, ones_count32. rewrite wrap_id by apply count_one_bits_in. reflexivity. Qed.
Lemma fold_popcount_u32 a : tfm MCountOneBits [LU32 a] = Some (LU32 (count_one_bits a)).
Proof. unfold try_fold_scalar_math, fold_int_bit_op, to32, ones_count32. rewrite wrap_id by apply count_one_bits_in. reflexivity. Qed.
Lemma fold_reverse_i32 a : tfm MReverseBits [LI32 a] = Some (LI32 (reverse_bits a)).
Proof. unfold try_fold_scalar_math, fold_int_bit_op, to32, reverse32. rewrite wrap_id by apply reverse_bits_in. reflexivity. Qed.
Lemma fold_reverse_u32 a : tfm MReverseBits [LU32 a] = Some (LU32 (reverse_bits a)).
Proof. unfold try_fold_scalar_math, fold_int_bit_op, to32, reverse32. rewrite wrap_id by apply reverse_bits_in. reflexivity. Qed.

Lemma fold_ftb_i32 a : tfm MFirstTrailingBit [LI32 a] = Some (LI32 (first_trailing_bit a)).
Proof.
  unfold try_fold_scalar_math, fold_first_trailing_bit, first_trailing_bit, to32, trailing_zeros32. destruct (a =? 0); [reflexivity|].
  rewrite wrap_id by apply count_trailing_zeros_in. reflexivity.
Qed.
Lemma fold_ftb_u32 a : tfm MFirstTrailingBit [LU32 a] = Some (LU32 (first_trailing_bit a)).
Proof.
  unfold try_fold_scalar_math, fold_first_trailing_bit, first_trailing_bit, to32, trailing_zeros32. destruct (a =? 0); [reflexivity|].
  rewrite wrap_id by apply count_trailing_zeros_in. reflexivity.
Qed.

(* a non-zero 32-bit pattern has fewer than 32 leading zeros *)
Lemma clz_nat_lt n a : (exists i, 0 <= i < Z.of_nat n /\ Z.testbit a i = true) -> clz_nat n a < Z.of_nat n.
Proof.
  induction n as [|n IH]; intros [i [Hi Hb]]; [cbn in *; lia|].
  cbn [clz_nat]. destruct (Z.testbit a (Z.of_nat n)) eqn:E; [lia|].
  assert (i <> Z.of_nat n) by (intro; subst; congruence).
  assert (Hi' : 0 <= i < Z.of_nat n) by lia.
  specialize (IH (ex_intro _ i (conj Hi' Hb))). lia.
Qed.
Lemma nonzero_has_bit a : in32 a -> a <> 0 -> exists i, 0 <= i < 32 /\ Z.testbit a i = true.
Proof.
  intros Ha Hz. exists (Z.log2 a). unfold in32, M32 in Ha. assert (0 < a) by lia. split.
  - split; [apply Z.log2_nonneg|]. apply Z.log2_lt_pow2; [lia|]. change (2 ^ 32) with 4294967296. lia.
  - apply Z.bit_log2. lia.
Qed.
Lemma clz_lt32 a : in32 a -> a <> 0 -> count_leading_zeros a < 32.
Proof. intros Ha Hz. unfold count_leading_zeros. apply (clz_nat_lt 32 a). apply nonzero_has_bit; assumption. Qed.

Lemma fold_flb_u32 a : in32 a -> tfm MFirstLeadingBit [LU32 a] = Some (LU32 (first_leading_bit_u32 a)).
Proof.
  intros Ha. unfold try_fold_scalar_math, fold_first_leading_bit, first_leading_bit_u32, to32, leading_zeros32.
  destruct (Z.eqb_spec a 0); [reflexivity|].
  pose proof (clz_lt32 a Ha n). pose proof (count_leading_zeros_range a).
  rewrite wrap_id by (unfold in32, M32; lia). reflexivity.
Qed.

Lemma not32_zero a : in32 a -> (not32 a =? 0) = (a =? ALL_ONES).
Proof. unfold in32, not32, ALL_ONES, M32. intros. destruct (Z.eqb_spec (4294967296 - 1 - a) 0); destruct (Z.eqb_spec a (4294967296 - 1)); lia. Qed.

Lemma fold_flb_i32 a : in32 a -> tfm MFirstLeadingBit [LI32 a] = Some (LI32 (first_leading_bit_i32 a)).
Proof.
  intros Ha. unfold try_fold_scalar_math, fold_first_leading_bit, first_leading_bit_i32, to32, leading_zeros32.
  assert (Hneg : a = ALL_ONES -> sgn a <? 0 = true) by (intros ->; reflexivity).
  assert (Hzero : a = 0 -> sgn a <? 0 = false) by (intros ->; reflexivity).
  destruct (sgn a <? 0) eqn:Es.
  - rewrite (not32_zero a Ha). destruct (Z.eqb_spec a 0) as [E0|E0]; [specialize (Hzero E0); discriminate|].
    cbn [orb]. destruct (Z.eqb_spec a ALL_ONES) as [E1|E1]; [reflexivity|].
    assert (Hn : in32 (not32 a)) by (apply not32_in; assumption).
    assert (Hnz : not32 a <> 0) by (unfold in32, not32, ALL_ONES, M32 in *; lia).
    pose proof (clz_lt32 _ Hn Hnz). pose proof (count_leading_zeros_range (not32 a)).
    rewrite wrap_id by (unfold in32, M32; lia). reflexivity.
  - destruct (Z.eqb_spec a 0) as [E0|E0]; [reflexivity|]. cbn [orb].
    destruct (Z.eqb_spec a ALL_ONES) as [E1|E1]; [specialize (Hneg E1); discriminate|].
    pose proof (clz_lt32 a Ha E0). pose proof (count_leading_zeros_range a).
    rewrite wrap_id by (unfold in32, M32; lia). reflexivity.
Qed.
End Bits.
