"""C16 — user identifiers never clash with target keywords, helpers or each other.

Deciding method: Coq theorems over a model of the three namers (Props/C16.v:
for ALL operation sequences, names issued in one scope are pairwise distinct,
legal, not keywords, not temporaries; unique decomposition of base_N;
namespace restores), instantiated with keyword tables regenerated from /repo
(Gen/Keywords.v) and proved to cover hand-transcribed specification word lists.
Ties: (R) the regenerated tables + obligations; (C) exact-spelling
correspondence of the extracted model with the real namers on generated
operation sequences (verif hooks VerifNamerRun); (V) whole programs: adversarial
renamings compiled by the real backends, the emitted text tokenised and
scope-scanned independently, compared with the benign baseline up to a
bijection of identifiers."""
import json
import os
import re

import c16prog as P
import ctok
import gen
import lexcorr
import nagarun
import namercorr
import ocamlbuild
import vcheck

LEVEL = "proof"
MODEL_FILES = ["Namer/Namer.v", "Namer/NamerProofs.v", "Namer/SanitizeProofs.v", "Namer/NamerInv.v",
               "Namer/SpecBase.v", "Namer/SpecHlsl.v", "Namer/SpecMsl.v", "Namer/SpecGlsl.v", "Namer/NamerInst.v"]
WANT = ["hlsl", "msl", "msl_vpt", "glsl"]

# Classes of spellings the writers generate themselves without asking the namer (stable keys for findings;
# first match wins; `zq..v` are the benign baseline names of user entities).
PATTERNS = {
    "hlsl": [
        (r"^(Construct|ZeroValue|LoadedStorageValueFrom|RayDescFrom)|^(Get|Set)Mat(Vec|Scalar)?.*On|^ret_|^Naga[A-Z]|^_?naga_|^nagaTexture|^__(get|set)_"
         r"|^Get(Committed|Candidate)Intersection$",
         "helper-function-name"),
        (r"^naga(Comparison)?SamplerHeap$", "sampler-heap-name"),
        (r"^(Vertex|Fragment|Compute)(Input|Output)_", "{Stage}{Input|Output}_{ep}"),
        (r"^(ret|arg\d+|obj|mat|vec|scalar|mat_idx|vec_idx|lhs|rhs|val|value|arg)$", "helper-local-name"),
    ],
    "msl": [
        (r"^_?naga_|^naga[A-Z]|^Naga[A-Z]|^_map_intersection_type$|^_RayQuery$|^RayIntersection$", "helper-name"),
        (r"^_tmp$", "_tmp"),
    ],
    "glsl": [
        (r"^_group_\d+_binding_\d+_(vs|fs|cs)$", "_group_N_binding_N_{stage}"),
        (r"^_immediates_binding_(vs|fs|cs)$", "_immediates_binding_{stage}"),
        (r"^gl_", "gl_-prefix"),
        (r"_block_\d+(Vertex|Fragment|Compute)$", "{T}_block_N{Stage}"),
        (r"^_?naga_|^Naga[A-Z]", "helper-name"),
        (r"^_tmp_return$", "_tmp_return"),
    ],
}


def pattern_of(spelling, backend=None):
    if re.match(r"^NagaExternalTexture(Params|TransferFn)$", spelling):
        return "special-type-name"         # IR special types the front end creates and finds again by name
    for rx, name in PATTERNS.get(backend, []):
        if re.search(rx, spelling):
            return name
    s = re.sub(r"zq[a-z]+v", "{}", spelling)
    s = re.sub(r"zq[a-z]+v", "{}", s, flags=re.I)
    return re.sub(r"\d+", "N", s)


_PLAIN = re.compile(r"^[A-Za-z_][A-Za-z0-9_]*$")


def issued_unchanged(backend, name, tables):
    """would the namer of `backend` issue the label `name` as `name` itself (first use)?  (cf. Namer.first_form:
    sanitize is the identity, the base does not end in a digit and is not a table word)"""
    if not _PLAIN.match(name) or "__" in name or name.endswith("_") or name[-1].isdigit():
        return False
    if name in tables["_set_" + backend]:
        return False
    if backend == "hlsl" and name.lower() in tables["_set_hlsl_ci"]:
        return False
    return True


def prepare_tables(tables):
    tables["_set_hlsl"] = set(tables["hlsl_keywords"])
    tables["_set_hlsl_ci"] = set(w.lower() for w in tables["hlsl_ci_keywords"])
    tables["_set_msl"] = set(tables["msl_keywords"])
    tables["_set_glsl"] = set(tables["glsl_keywords"])
    return tables


class Reporter:
    """one ctx.violation per stable key (first witness)"""
    def __init__(self, ctx):
        self.ctx = ctx
        self.seen = {}

    def report(self, key, what, files):
        if key in self.seen:
            self.seen[key] += 1
            return
        self.seen[key] = 1
        self.ctx.violation(what, files=files, key=key)


def lexeme_list(tokres):
    toks = tokres["toks"][:-1]
    return ["".join(chr(c) for c in (t[1] or [])) for t in toks], [t[5] for t in toks]


def outputs(r):
    """compile result -> {backend-key: (text, info)} or {backend-key: ('ERR', message)}"""
    out = {}
    if r is None or "crash" in r or "panic" in r:
        return None
    if "err" in r:
        return None
    for b, key in (("hlsl", "hlsl"), ("msl", "msl"), ("msl_vpt", "msl:vpt")):
        # msl:vpt = MSL with the vertex-pulling transform over every @location vertex input (only for modules that have one)
        if b in r:
            out[key] = (r[b], r.get(b + "_info"))
        elif b + "_err" in r:
            out[key] = ("ERR", r.get(b + "_err"))
    for ep, v in (r.get("glsl") or {}).items():
        if "text" in v:
            out["glsl:" + ep] = (v["text"], v.get("info"))
        else:
            out["glsl:" + ep] = ("ERR", v.get("err"))
    return out


def fresh_targets(rng, pool, used, k):
    out = []
    tries = 0
    while len(out) < k and tries < 200 and pool:
        tries += 1
        w = rng.choice(pool)
        if w in used or not P.wgsl_ident_ok(w) or P.predeclared_like(w) or w in P.EXCLUDED_TARGETS:
            continue
        used.add(w)
        out.append(w)
    return out


def make_variants(rng, canon_names, all_idents, pools, harvest, n):
    """plans over the canonical names; returns list of (kind, plan)"""
    names = sorted(canon_names)
    kinds = ["keywords", "siblings", "mixed_all", "case", "unicode", "keywords", "generated", "siblings"]
    out = []
    for v in range(n):
        r = rng.fork("v%d" % v)
        kind = kinds[v % len(kinds)]
        used = set(all_idents)
        plan = {}
        if kind == "generated":
            pool = sorted(harvest)
            if r.chance(1, 4):
                pool = [f for w in pool for f in (w, w.rstrip("_"), re.sub(r"_\d+$", "", w))]
            picks = r.shuffle(names)[:1 + r.below(2)]
            for nm, t in zip(picks, fresh_targets(r, pool, used, len(picks))):
                plan[nm] = t
        elif kind == "siblings":
            picks = r.shuffle(names)[:1 + r.below(4)]
            for nm in picks:
                other = r.choice(names)
                t = fresh_targets(r, P.sibling_forms(other), used, 1)
                if t:
                    plan[nm] = t[0]
        elif kind == "mixed_all":
            for nm in names:
                pool = r.choice([pools["kw"], pools["kw"], pools["case"], P.UNICODE_IDENTS, pools["kwsib"]])
                t = fresh_targets(r, pool, used, 1)
                if t:
                    plan[nm] = t[0]
        else:
            pool = {"keywords": pools["kw"] if r.chance(2, 3) else pools["kwsib"], "case": pools["case"], "unicode": P.UNICODE_IDENTS}[kind]
            picks = r.shuffle(names)[:1 + r.below(5)]
            for nm, t in zip(picks, fresh_targets(r, pool, used, len(picks))):
                plan[nm] = t
        if plan:
            out.append((kind, plan))
    return out


def check_text(backend_key, base, new, info, ep_names, spec, rep, files, kind, plan, stats):
    """base/new: emitted text of the benign baseline / the adversarial variant"""
    b = backend_key.split(":")[0]
    what_prefix = "%s: renaming %s " % (backend_key, json.dumps(plan, ensure_ascii=False))
    P.set_backend(b)
    bt = ctok.tokens(base)
    nt = ctok.tokens(new)
    stats["outputs_checked"] += 1
    for k, t in nt:
        if k == "bad":
            rep.report("%s:illegal-char" % b, what_prefix + "emits the character %r, which cannot occur in a token of the target language" % t, files)
            return
    fwd, conflicts = P.id_map(bt, nt)
    if fwd is None:
        stats.setdefault("shape_changes", []).append((b, dict(plan), conflicts, files, stats.get("_c")))
        return
    for i, mb, mv in P.member_diffs(bt, nt):
        rep.report("%s:undeclared-member" % b,
                   what_prefix + "accesses a member %r (token %d, baseline %r) that no struct of the output declares: "
                   "declaration and reference are spelled differently" % (mv, i, mb), files)
    # every reference must resolve (C scoping, independent scan) to the declaration it resolves to in the baseline
    diffs = P.resolution_diffs(bt, nt)
    for i, db, dn in diffs:
        name = nt[i][1]
        if dn is None and db is not None and name in plan.values():
            # the user's declaration is spelled differently (escaped) while this use keeps the raw name and now denotes
            # a builtin of the target language: the front end bound the call to a predeclared function of that name
            rep.report("frontend:predeclared-shadow",
                       what_prefix + "emits a use of %r (token %d) that no longer refers to the user's declaration (token %d, %r) "
                       "but to the builtin of that name: the WGSL front end resolved the call to the predeclared function" % (
                           name, i, db, nt[db][1]), files)
            continue
        cls = pattern_of(name, b)
        single = {k: v for k, v in plan.items() if v == name or v == bt[i][1]}
        if single and len(plan) > 1:
            files = dict(files)
            files["candidate_minimal_renaming.json"] = json.dumps(single, ensure_ascii=False)
        if db is None and bt[i][1] == name and cls == re.sub(r"\d+", "N", name):
            cls = "target-builtin-name:" + name      # a builtin of the target language that the writer emits and the table lacks
        rep.report("%s:clash:%s" % (b, cls),
                   what_prefix + "makes the identifier %r (token %d, baseline %r) resolve to %s instead of %s: "
                   "the reference no longer denotes the entity the author meant" % (
                       name, i, bt[i][1],
                       "the declaration at token %d (%r)" % (dn, nt[dn][1]) if dn is not None else "no declaration (a builtin of the target language)",
                       "the declaration at token %d (%r)" % (db, nt[db][1]) if db is not None else "no declaration (a builtin of the target language)"), files)
    stats["references_resolved"] = stats.get("references_resolved", 0) + len(nt)
    stats["identifiers_mapped"] += len(fwd)
    newids = sorted(set(fwd.values()) - set(fwd.keys()))
    for v in newids:
        why = P.reserved_reason(b, v, spec)
        if why:
            key = "%s:reserved:%s" % (b, why if why != "keyword" else "keyword:" + v)
            rep.report(key, what_prefix + "emits the identifier %r, which is not a legal non-reserved identifier of the target language (%s)" % (v, why), files)
    for vkind, name, where in P.scope_violations(nt):
        rep.report("%s:clash:%s" % (b, pattern_of(name, b)),
                   what_prefix + "emits two declarations of %r in one scope (%s, %s)" % (name, vkind, where), files)
    # entry-point name mapping
    eps = (info or {}).get("EntryPointNames") or []
    got = {a: e for a, e in eps}
    for ep in ep_names:
        if b == "glsl":
            if ep != backend_key.split(":", 1)[1]:
                continue
        if ep not in got:
            rep.report("%s:ep-missing" % b, what_prefix + "EntryPointNames has no entry for entry point %r (has %r)" % (ep, sorted(got)), files)
            continue
        if not P.has_function(nt, got[ep]):
            rep.report("%s:ep-not-a-function" % b, what_prefix + "EntryPointNames maps %r to %r, which is not a function of the output" % (ep, got[ep]), files)
        stats["entry_points_checked"] += 1


def entry_points(lex):
    eps = []
    for k, lx in enumerate(lex):
        if lx == "fn" and k + 1 < len(lex):
            j = k - 1
            while j >= 0 and lex[j] not in (";", "}"):
                if lex[j] in ("vertex", "fragment", "compute") and j >= 1 and lex[j - 1] == "@":
                    eps.append(lex[k + 1])
                    break
                j -= 1
    return eps


def whole_program(ctx, tools, spec, tables, n_corpus, n_variants, rep):
    rng = ctx.rng.fork("programs")
    allc = rng.shuffle(nagarun.corpus())
    # shaders with samplers / textures first (their outputs contain the sampler-heap and texture helper names),
    # then the rest; the quick tier takes a prefix of each group
    res_sh = [c for c in allc if re.search(r"\bsampler(_comparison)?\b|texture_", c[1])]
    res_sh.sort(key=lambda c: len(c[1]))
    res_sh = res_sh[:12]
    res_sh = rng.shuffle(res_sh)
    others = [c for c in allc if c not in res_sh]
    n_res = min(len(res_sh), max(1, n_corpus // 3)) if n_corpus < len(allc) else len(res_sh)
    corpus = res_sh[:n_res] + others[:max(0, n_corpus - n_res)] if n_corpus < len(allc) else allc
    progs = list(P.SMALL_PROGRAMS) + list(P.BUILTIN_PROGRAMS) + corpus
    toks = lexcorr.tokens_impl(tools, [s.encode("utf-8", "surrogateescape") for _, s in progs])
    kwpool = sorted(set(spec["hlsl"]) | set(spec["msl"]) | set(spec["glsl"]) | set(spec["hlsl_ci"]) |
                    set(tables["hlsl_keywords"]) | set(tables["msl_keywords"]) | set(tables["glsl_keywords"]) |
                    set(namercorr.HELPER_WORDS))
    pools = {"kw": kwpool,
             "case": sorted({v for w in kwpool for v in P.case_variants(w)}),
             "kwsib": sorted({v for w in kwpool for v in P.sibling_forms(w)})}
    stats = {"programs": 0, "programs_without_user_names": 0, "variants": 0, "frontend_rejected_variants": 0,
             "outputs_checked": 0, "identifiers_mapped": 0, "entry_points_checked": 0, "baseline_backend_errors": 0,
             "variant_kinds": {}, "renamed_identifiers": 0, "generated_names_harvested": 0,
             "generated_names_tried_module_scope": 0, "generated_names_tried_local": 0, "generated_names_no_entity": 0,
             "programs_with_sampler_or_texture": sum(1 for _n, src in progs if re.search(r"\bsampler|texture_", src))}
    # 1. canonical (benign) baselines
    canon = []
    jobs = []
    for (name, src), t in zip(progs, toks):
        if "toks" not in t:
            continue
        lex, kinds = lexeme_list(t)
        if not lex or "Error" in kinds:
            continue
        declared, frozen = P.classify(lex, kinds)
        if not declared:
            stats["programs_without_user_names"] += 1
            continue
        idents = {lx for lx, k in zip(lex, kinds) if k == "Ident"}
        cplan = P.canonical_plan(declared, idents)
        clex = P.rename(lex, kinds, frozen, cplan)
        csrc = " ".join(clex)
        canon.append({"name": name, "lex": clex, "kinds": kinds, "frozen": frozen, "names": set(cplan.values()),
                      "src": csrc, "id": len(jobs), "orig": src})
        jobs.append({"id": len(jobs), "src": csrc, "want": WANT})
    res = nagarun.parallel_batches(tools["nagadrive"], "compile", jobs, per_job_timeout=30.0, chunk=16)
    vjobs = []
    meta = {}
    for c in canon:
        o = outputs(res.get(c["id"]))
        if o is None:
            continue        # the front end rejects the baseline (not this property)
        c["out"] = o
        stats["programs"] += 1
        idents = {lx for lx, k in zip(c["lex"], c["kinds"]) if k == "Ident"}
        harvest = set()
        for bk, (text, info) in o.items():
            if text == "ERR":
                stats["baseline_backend_errors"] += 1
                continue
            tk = ctok.tokens(text)
            P.set_backend(bk.split(":")[0])
            for k, t in tk:
                if k == "id" and t not in idents:
                    harvest.add(t)
            # the baseline itself: scopes and entry points
            for vkind, nm, where in P.scope_violations(tk):
                rep.report("%s:clash:%s" % (bk.split(":")[0], pattern_of(nm, bk.split(":")[0])),
                           "%s: the output for %s declares %r twice in one scope (%s, %s)" % (bk, c["name"], nm, vkind, where),
                           {"input.wgsl": c["src"], "output.txt": text})
        # systematic: every generated (non-user) identifier of the baseline outputs that the namer would issue unchanged
        # is given to a module-scope user entity and to a function-local user entity of this program
        gen_targets = set()
        for bk, (text, info) in o.items():
            if text == "ERR":
                continue
            b0 = bk.split(":")[0]
            for t in set(ctok.identifiers(ctok.tokens(text))) - idents:
                if issued_unchanged(b0, t, tables) and P.wgsl_ident_ok(t) and not P.predeclared_like(t) and t not in P.EXCLUDED_TARGETS:
                    gen_targets.add(t)
        sc = P.decl_scopes(c["lex"], c["kinds"])
        mod_ents = [nm for nm in c["names"] if "module" in sc.get(nm, ())]
        loc_ents = [nm for nm in c["names"] if "local" in sc.get(nm, ()) and "module" not in sc.get(nm, ())]
        plans_m, unc_m = P.pack_targets(sorted(gen_targets), mod_ents)
        plans_l, unc_l = P.pack_targets(sorted(gen_targets), loc_ents)
        stats["generated_names_harvested"] += len(gen_targets)
        stats["generated_names_tried_module_scope"] += len(gen_targets) - len(unc_m)
        stats["generated_names_tried_local"] += len(gen_targets) - len(unc_l)
        stats["generated_names_no_entity"] += len(unc_m) + len(unc_l)
        systematic = [("generated_module", pl) for pl in plans_m] + [("generated_local", pl) for pl in plans_l]
        # merges: a struct member takes the spelling of a module-scope or local entity (members are a namespace of their
        # own in WGSL, so nothing changes there); every reference of the output must keep resolving as in the baseline
        members = sorted(nm for nm in c["names"] if sc.get(nm) == {"member"})
        others = sorted(nm for nm in c["names"] if "member" not in sc.get(nm, ()))
        small = c["name"].startswith("c16_")
        pairs = [(m_, o_) for m_ in members for o_ in others]
        if not small:
            pairs = rng.fork("merge/" + c["name"]).shuffle(pairs)[:4]
        for m_, o_ in pairs[:80]:
            systematic.append(("member_merge", {m_: o_}))
        stats["member_merges"] = stats.get("member_merges", 0) + len(pairs[:80])
        r = rng.fork("prog/" + c["name"])
        for kind, plan in systematic + make_variants(r, c["names"], idents, pools, harvest, n_variants):
            vlex = P.rename(c["lex"], c["kinds"], c["frozen"], plan)
            vid = len(vjobs)
            vjobs.append({"id": vid, "src": " ".join(vlex), "want": WANT})
            meta[vid] = (c, kind, plan, vlex)
    check_variants(ctx, tools, vjobs, meta, spec, rep, stats)
    classify_shape_changes(ctx, tools, stats, rep)
    return stats


def check_variants(ctx, tools, vjobs, meta, spec, rep, stats):
    vres = nagarun.parallel_batches(tools["nagadrive"], "compile", vjobs, per_job_timeout=30.0, chunk=32)
    for j in vjobs:
        c, kind, plan, vlex = meta[j["id"]]
        r = vres.get(j["id"])
        stats["variants"] += 1
        stats["variant_kinds"][kind] = stats["variant_kinds"].get(kind, 0) + 1
        stats["renamed_identifiers"] += len(plan)
        files = {"baseline.wgsl": c["src"], "renamed.wgsl": j["src"], "renaming.json": json.dumps(plan, ensure_ascii=False, indent=1)}
        if r is not None and ("crash" in r or "panic" in r):
            rep.report("crash:" + kind, "renaming %s of %s crashes the compiler: %s" % (plan, c["name"], (r.get("crash") or r.get("panic"))), files)
            continue
        o = outputs(r)
        if o is None:
            stats["frontend_rejected_variants"] += 1
            continue
        eps = entry_points(vlex)
        canon_eps = entry_points(c["lex"])
        epmap = dict(zip(canon_eps, eps))
        for bk, (btext, binfo) in c["out"].items():
            if btext == "ERR":
                continue
            vk = bk
            if bk.startswith("glsl:"):
                vk = "glsl:" + epmap.get(bk[5:], bk[5:])
            if vk not in o and bk.split(":")[0] not in j["want"]:
                continue
            if vk not in o:
                rep.report("%s:output-missing" % bk.split(":")[0], "%s: no output for the renamed program (%s)" % (bk, plan), files)
                continue
            vtext, vinfo = o[vk]
            f2 = dict(files)
            f2["baseline_output.txt"] = btext
            f2["renamed_output.txt"] = vtext if vtext != "ERR" else "ERROR: %s" % vinfo
            if vtext == "ERR":
                rep.report("%s:rejected:%s" % (bk.split(":")[0], re.sub(r"\d+", "N", str(vinfo))[:60]),
                           "%s: the backend accepts the baseline but rejects the renamed program %s: %s" % (bk, plan, vinfo), f2)
                continue
            stats["_c"] = c
            check_text(vk, btext, vtext, vinfo, eps, spec, rep, f2, kind, plan, stats)
            stats.pop("_c", None)
            if len(ctx.cov["samples"]) < 6 and kind not in ("unicode", "probe") and bk == "hlsl" and \
                    kind not in [x.get("variant") for x in ctx.cov["samples"] if isinstance(x, dict)]:
                ctx.sample({"program": c["name"], "variant": kind, "renaming": plan})


def classify_shape_changes(ctx, tools, stats, rep):
    """A renaming changed the emitted code beyond identifier spellings.  Decide whether the WGSL front end is
    the cause: a user function / type whose name the lowerer resolves to a predeclared function or type first
    (WGSL: a module-scope declaration shadows the predeclared name).  Each target name is tried alone in the
    call position and in the type position of the probe program."""
    changes = stats.pop("shape_changes", [])
    if not changes:
        return
    words = sorted({t for _b, plan, _w, _f, _c in changes for t in plan.values()})
    t = lexcorr.tokens_impl(tools, [PROBE_TEMPLATE.encode()])[0]
    lex, kinds = lexeme_list(t)
    declared, frozen = P.classify(lex, kinds)
    jobs = [{"id": "base", "src": PROBE_TEMPLATE, "want": ["hlsl"]}]
    for w in words:
        for slot in ("zqfv", "zqsv"):
            jobs.append({"id": "%s/%s" % (slot, w), "src": " ".join(P.rename(lex, kinds, frozen, {slot: w})), "want": ["hlsl"]})
    res = nagarun.parallel_batches(tools["nagadrive"], "compile", jobs, per_job_timeout=20.0, chunk=64)
    base = ctok.tokens((res.get("base") or {}).get("hlsl", ""))
    frontend = {}
    for w in words:
        for slot in ("zqfv", "zqsv"):
            r = res.get("%s/%s" % (slot, w)) or {}
            if "hlsl" not in r:
                if "err" in r:
                    frontend[w] = (slot, "rejected: %s" % r["err"][:120], jobs[0]["src"])
                continue
            fwd, why = P.id_map(base, ctok.tokens(r["hlsl"]))
            if fwd is None:
                src = next(j["src"] for j in jobs if j["id"] == "%s/%s" % (slot, w))
                frontend[w] = (slot, why, src)
    stats["shape_changes_total"] = len(changes)
    stats["shape_changes_frontend"] = 0
    single_cache = {}

    def culprits(b, plan, c):
        """the renamings of `plan` that alone change the shape of backend b's output for program c"""
        if c is None or len(plan) == 0:
            return []
        key = (id(c), b)
        jobs = []
        for k, v in sorted(plan.items()):
            if (key, k, v) not in single_cache:
                jobs.append({"id": "%s=%s" % (k, v), "src": " ".join(P.rename(c["lex"], c["kinds"], c["frozen"], {k: v})), "want": [b], "_kv": (k, v)})
        if jobs:
            r = nagarun.parallel_batches(tools["nagadrive"], "compile", [{x: j[x] for x in ("id", "src", "want")} for j in jobs],
                                         per_job_timeout=30.0, chunk=16)
            for j in jobs:
                o = outputs(r.get(j["id"])) or {}
                changed = False
                for bk, (btext, _i) in c["out"].items():
                    if bk.split(":")[0] != b or btext == "ERR":
                        continue
                    eps = dict(zip(entry_points(c["lex"]), entry_points(P.rename(c["lex"], c["kinds"], c["frozen"], dict([j["_kv"]])))))
                    vk = "glsl:" + eps.get(bk[5:], bk[5:]) if bk.startswith("glsl:") else bk
                    if vk in o and o[vk][0] != "ERR":
                        fwd, _w = P.id_map(ctok.tokens(btext), ctok.tokens(o[vk][0]))
                        changed = changed or fwd is None
                single_cache[(key,) + j["_kv"]] = changed
        return [v for k, v in sorted(plan.items()) if single_cache.get((key, k, v))]

    for b, plan, why, files, c in changes:
        hit = [w for w in plan.values() if w in frontend]
        if hit:
            stats["shape_changes_frontend"] += 1
            slot, fwhy, src = frontend[hit[0]]
            f2 = dict(files)
            f2["minimal.wgsl"] = src
            rep.report("frontend:predeclared-shadow",
                       "the WGSL front end resolves the user-declared %s %r to a predeclared function or type instead of the "
                       "declaration in scope (%s); the emitted code of all backends then differs from the baseline beyond a renaming "
                       "[first seen: %s, renaming %s]" % ("function" if slot == "zqfv" else "type", hit[0], fwhy, b,
                                                           json.dumps(plan, ensure_ascii=False)), f2)
        else:
            cul = culprits(b, plan, c)
            names = cul if cul else sorted(plan.values())
            rep.report("shape:%s" % ",".join(sorted({pattern_of(t, b) for t in names}))[:80],
                       "%s: renaming %s changes the emitted code beyond a renaming of identifiers (%s); renamings that alone "
                       "have this effect: %s" % (b, json.dumps(plan, ensure_ascii=False), why, cul), files)


PROBE_TEMPLATE = ("struct zqsv { zqav: f32, zqmv: i32, }\nvar<private> zqgv: f32 = 1.0;\n"
                  "fn zqfv(zqpv: f32) -> f32 { var zqlv: zqsv; zqlv.zqav = zqpv + zqgv; return zqlv.zqav; }\n"
                  "@compute @workgroup_size(1) fn zqev() { zqgv = zqfv(2.0); }\n")
PROBE_SLOTS = ["zqsv", "zqav", "zqgv", "zqfv", "zqpv", "zqlv", "zqev"]


def keyword_probe(ctx, tools, spec, rep, words_per_backend):
    """every specification word (and, for HLSL's case-insensitive ones, an upper-case variant) as the name of a
    struct, a member, a global, a function, a parameter, a local, an entry point of a fixed small program"""
    rng = ctx.rng.fork("probe")
    t = lexcorr.tokens_impl(tools, [PROBE_TEMPLATE.encode()])[0]
    lex, kinds = lexeme_list(t)
    declared, frozen = P.classify(lex, kinds)
    assert set(PROBE_SLOTS) <= declared, declared
    rc, res, se = vcheck.jsonl_tool(tools["nagadrive"], ["compile"], [{"id": 0, "src": PROBE_TEMPLATE, "want": WANT}])
    c = {"name": "probe", "lex": lex, "kinds": kinds, "frozen": frozen, "src": PROBE_TEMPLATE, "out": outputs(res[0])}
    words = {}
    for b in ("hlsl", "msl", "glsl"):
        ws = [w for w in spec[b] if P.wgsl_ident_ok(w)]
        for w in rng.shuffle(ws)[:words_per_backend]:
            words.setdefault(w, set()).add(b)
    for w in spec["hlsl_ci"]:
        for v in (w, w.upper(), w.lower()):
            words.setdefault(v, set()).add("hlsl")
    vjobs = []
    meta = {}
    for w in sorted(words):
        if not P.wgsl_ident_ok(w):
            continue
        for slot in (PROBE_SLOTS if (ctx.thorough or words_per_backend > 1000) else ["zqsv", "zqav", "zqgv", "zqfv", "zqlv"]):
            if P.predeclared_like(w) and slot in ("zqsv", "zqfv"):
                continue              # a called function / a type named like a WGSL predeclared name: predeclared_probe
            plan = {slot: w}
            vlex = P.rename(lex, kinds, frozen, plan)
            vid = len(vjobs)
            vjobs.append({"id": vid, "src": " ".join(vlex), "want": sorted(words[w])})
            meta[vid] = (c, "probe", plan, vlex)
    stats = {"variants": 0, "frontend_rejected_variants": 0, "outputs_checked": 0, "identifiers_mapped": 0,
             "entry_points_checked": 0, "variant_kinds": {}, "renamed_identifiers": 0}
    check_variants(ctx, tools, vjobs, meta, spec, rep, stats)
    classify_shape_changes(ctx, tools, stats, rep)
    return {"keyword_probe_words": len(words), "keyword_probe_jobs": len(vjobs), "keyword_probe_outputs": stats["outputs_checked"],
            "keyword_probe_frontend_rejected": stats["frontend_rejected_variants"]}


def replay_witnesses(ctx, tools, rep):
    """the `_refuted` theorem witnesses replayed on naga as whole programs"""
    out = {}
    # c16_msl_keyword_free_refuted: three entities named M_PI
    src = ("const M_PI: f32 = 3.0;\nfn f(M_PI: f32) -> f32 { return M_PI * 2.0; }\n"
           "fn g() -> f32 { var M_PI: f32 = 1.0; return M_PI; }\n"
           "@fragment fn fs() -> @location(0) vec4<f32> { return vec4<f32>(f(1.0) + g() + M_PI); }\n")
    rc, res, se = vcheck.jsonl_tool(tools["nagadrive"], ["compile"], [{"id": 0, "src": src, "want": ["msl"]}])
    text = (res[0] if res else {}).get("msl", "")
    ids = set(ctok.identifiers(ctok.tokens(text)))
    out["msl_M_PI_2_emitted"] = "M_PI_2" in ids
    if "M_PI_2" in ids:
        rep.report("msl:reserved:table-word:M_PI_N",
                   "msl: the third entity named M_PI is spelled M_PI_2, a word of naga's own MSL reserved-word table "
                   "(msl/internal/codegen/keywords.go); theorem c16_msl_keyword_free_refuted replayed",
                   {"input.wgsl": src, "output.txt": text})
    return out


def run(ctx):
    import time
    T = {}
    t0 = time.time()
    tools = vcheck.build_harness(["nagadrive", "goextract", "namerdrive"])
    T["go_build"] = round(time.time() - t0, 1); t0 = time.time()
    for attempt in range(3):
        ctx.cov["obligations"] = 0
        ctx.cov["discharged"] = 0
        ok, failed, log = vcheck.proof_step(
            ctx, "Props/C16.v", MODEL_FILES,
            gen_writer=lambda: gen.regenerate(tools, ["keywords"]), extra_obligation_files=["Namer/NamerInst.v"])
        # a scratch file of a concurrently running bin/coqgoal (coq/build_goal_*.v) can appear in _CoqProject and
        # vanish before make reads it: that is not a failure of this development, run make again
        if ok or "build_goal_" not in log:
            break
        time.sleep(2)
    T["coq"] = round(time.time() - t0, 1); t0 = time.time()
    ctx.cov["trusted_base"] += [
        "translator: harness/cmd/goextract (go/ast map literals, const blocks, function source) + lib/c16gen.py -> coq/Gen/Keywords.v",
        "my transcriptions of external specifications: coq/Namer/SpecHlsl.v (HLSL keywords / reserved words), SpecMsl.v (C++14 [lex.key], Metal qualifiers), SpecGlsl.v (GLSL 4.60 3.6/3.7)",
        "extraction: ExtrOcamlBasic only; generic JSON driver ocaml/common/driver.ml; OCaml 4.13.1",
        "correspondence harness: harness/cmd/namerdrive + verif hooks {hlsl,msl,glsl}/internal/codegen/verif_hooks_c16.go (VerifNamerRun), lib/namercorr.py",
        "whole-program reader: lib/ctok.py (tokenizer for the emitted C-like text), lib/c16prog.py (declaration/scope scan, WGSL renamer)",
        "modelled: the namers (sanitize/call/reserve/namespace, newNamer) of the three text backends; NOT modelled: registerNames and the writers "
        "(which entity gets which issued name, names emitted without asking the namer) — covered only by the whole-program search",
    ]
    ctx.assumptions = [
        "labels are valid UTF-8 (Go's range yields U+FFFD for invalid bytes; not modelled)",
        "the per-base counters are unbounded in the model (Go: int / uint32; wrap-around after 2^32 calls of one base is not modelled)",
        "hlsl namer.reservedPrefixes is empty (checked on every run through the hook)",
    ]
    broken = None
    if not ok:
        broken = "Coq development no longer checks: %s" % (failed or log[-800:])
        ctx.cov["coq_log_tail"] = log[-1500:]
    rep = Reporter(ctx)
    tables = namercorr.load_tables()
    prepare_tables(tables)
    spec = P.prepare_spec(P.load_spec(vcheck.COQ))
    ncmp = 0
    if ok:
        exe = ocamlbuild.build("namer")
        jobs = namercorr.gen_sequences(ctx.rng.fork("ops"), ctx.scale(1200, 60000), tables)
        ncmp, mism, cstats = namercorr.compare(tools, exe, jobs)
        ctx.cov["namer_correspondence"] = dict(cstats, compared=ncmp, mismatches=len(mism))
        ctx.cov["traces_validated_against_impl"] = ncmp
        if mism:
            broken = "namer correspondence (model vs VerifNamerRun) fails on %d sequences, first: %s" % (len(mism), mism[0]["what"])
            ctx.cov["first_mismatch"] = {"what": mism[0]["what"], "job": mism[0]["job"]}
    T["namer_correspondence"] = round(time.time() - t0, 1); t0 = time.time()
    # the search on the implementation (always run)
    before = len(ctx.violations)
    wstats = whole_program(ctx, tools, spec, tables, ctx.scale(12, 172), ctx.scale(5, 40), rep)
    T["whole_program"] = round(time.time() - t0, 1); t0 = time.time()
    pstats = keyword_probe(ctx, tools, spec, rep, ctx.scale(12, 10000))
    T["keyword_probe"] = round(time.time() - t0, 1); t0 = time.time()
    rstats = replay_witnesses(ctx, tools, rep)
    ctx.cov["stage_seconds"] = T
    ctx.cov["whole_program"] = wstats
    ctx.cov["keyword_probe"] = pstats
    ctx.cov["refuted_witness_replays"] = rstats
    ctx.cov["finding_keys_seen"] = rep.seen
    ctx.cov["evaluations"] = ncmp + wstats["outputs_checked"] + pstats["keyword_probe_outputs"]
    ctx.cov["distinct_nontrivial"] = ctx.cov.get("namer_correspondence", {}).get("distinct_sequences", 0) + wstats["variants"] - wstats["frontend_rejected_variants"]
    ctx.cov["out_of_fragment"] = wstats["frontend_rejected_variants"] + pstats["keyword_probe_frontend_rejected"]
    ctx.cov["rule"] = ("namer op sequences: distinct by content, every one contains calls with adversarial labels (keywords of the tables, helper/"
                       "temporary spellings, case variants, trailing digits/underscores, non-ASCII, separators); whole programs: corpus + hand-written "
                       "programs x adversarial injective renaming (keywords / generated names harvested from the baseline output / sibling forms / "
                       "case variants / Unicode), non-trivial = at least one identifier renamed and the front end accepts the program")
    if broken and len(ctx.violations) == before:
        found = search_for_tie_break(ctx, tools, spec, rep, broken)
        if not found:
            ctx.violation(broken + "\n(no program with a clashing or reserved identifier was found by the search)",
                          found_input=False, broken=broken, files={"detail.txt": json.dumps(ctx.cov.get("first_mismatch"), default=str)[:4000]})
    elif broken:
        ctx.cov["broken_tie"] = broken


def search_for_tie_break(ctx, tools, spec, rep, broken):
    """a Gen obligation failed: look for the specification words that are no longer escaped, exhaustively"""
    before = len(ctx.violations)
    keyword_probe(ctx, tools, spec, rep, 100000)
    return len(ctx.violations) > before
