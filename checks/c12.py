"""C12 — output depends only on (source, options): deterministic, history- and race-free.

Deciding method: Coq theorems over ALL histories / schedules / enumeration orders
(Props/C12.v: reset_canonical, history_independent, module_frame,
schedule_independent, sorted_iteration_deterministic, fold_comm_idem_perm_invariant)
whose hypotheses are tied to /repo on every run by
  R  tables regenerated with go/ast+go/types (harness/cmd/stateextract -> Gen/BackendState.v,
     Gen/MapWalks.v) and the vm_compute obligations of State/GenObligations.v, and
  C  monitors on the real implementation (harness/cmd/histdrive): histories on one reused
     spirv.Backend, permutations of the five back ends on one module, deep digest of the
     module before/after every call, fresh-process reruns, concurrent runs under -race;
     on modules WITH override declarations additionally histories of the operations that take pipeline
     constants (msl/glsl Compile with Options.PipelineConstants, ir.CloneModuleForOverrides + ir.ProcessOverrides
     followed by every back end) with module / Options / constants-map digests around every call.
Partial: the hypotheses are not proved of Go code; map-iteration randomness and data races
are run-time behaviour that only the monitors observe."""
import json
import os
import re
import time

import c12ovr
import gen
import nagarun
import vcheck

LEVEL = "proof"
TARGETS = ["spv", "spvd", "hlsl", "msl", "glsl", "dxil"]
NODXIL = ["spv", "spvd", "hlsl", "msl", "glsl"]
MODEL_FILES = ["State/Reset.v", "State/History.v", "State/Schedule.v", "State/MapOrder.v", "State/Tie.v",
               "State/GenObligations.v", "State/Instance.v", "State/CloneFrame.v", "State/CloneObligations.v"]
STRESS_DIR = os.path.join(vcheck.VERIF, "state", "c12_stress")
# (target, program) pairs whose output is known / was observed on this run to vary from call to call: every other monitor
# presupposes determinism, so its alarms on such a pair are consequences and are reported under the same key
UNSTABLE = set()


def nondet(ctx, t, name, what, files=None):
    """If (t, name) is an unstable pair report `what` under its nondeterminism key and return True."""
    if (t, name) in UNSTABLE:
        ctx.violation("%s (consequence of the non-deterministic %s output for %s)" % (what, t, name), files=files,
                      key="nondeterministic:%s:%s" % (t, name))
        return True
    return False


# ------------------------------------------------------------------ programs

def programs():
    progs = list(nagarun.corpus())
    for f in sorted(os.listdir(STRESS_DIR)):
        if f.endswith(".wgsl"):
            with open(os.path.join(STRESS_DIR, f), encoding="utf-8") as fh:
                progs.append(("stress/" + f, fh.read()))
    return progs


# ------------------------------------------------------------------ R: diagnostics from the regenerated tables

def parse_report(txt):
    out = {}
    for m in re.finditer(r'=\s*\(\s*"([^"]+)"\s*,(.*?)\)\s*:\s*string \* list string', txt, re.S):
        body = m.group(2)
        out[m.group(1)] = [s.replace('""', '"') for s in re.findall(r'"((?:[^"]|"")*)"', body)]
    return out


def r_diagnostics(ctx):
    """Names what breaks an obligation (evaluated by Coq on the regenerated tables)."""
    rc, so, se = vcheck.coqc_file(os.path.join(vcheck.COQ, "Cases", "C12Report.v"), cwd=os.path.join(vcheck.BUILD))
    for ext in (".vo", ".vok", ".vos", ".glob"):
        try:
            os.remove(os.path.join(vcheck.COQ, "Cases", "C12Report" + ext))
        except FileNotFoundError:
            pass
    if rc != 0:
        return None, (so + se)[-1500:]
    return parse_report(so + se), ""


def report_r(ctx, rep):
    """One violation per responsible field / site; keys listed in known_findings.jsonl print KNOWN-FINDING."""
    n = 0
    raw = {}
    try:
        with open(os.path.join(vcheck.BUILD, "c12_state.json")) as f:
            raw = json.load(f)
    except Exception:
        pass
    walks = {}
    for w in raw.get("mapwalks") or []:
        walks["%s:%s:%s#%d" % (w["file"], w["func"], " ".join(w["expr"].split()), w["ord"])] = w
    for T in ("Backend", "ModuleBuilder"):
        for f in rep.get("unreset:" + T, []):
            n += ctx.violation(
                "field %s.%s of spirv/internal/codegen is neither re-initialised by Reset / the prologue of Compile nor on the reviewed "
                "list state/immutable_fields.txt: whatever a compilation leaves in it is seen by the next one on a reused Backend "
                "(obligation all_mutable_fields_reset_%s is false, so reset_canonical / history_independent no longer apply)" % (T, f, T.lower()),
                found_input=False, key="unreset-field:spirv.%s.%s" % (T, f),
                broken="State/GenObligations.v all_mutable_fields_reset_%s" % T.lower(), files={"field.txt": "%s.%s\n" % (T, f)})
        for f in rep.get("cfgwrite:" + T, []):
            who = sorted({w[1] for fw in raw.get("fieldwrites") or [] if fw["name"] == T for w in fw["writes"] if w[0] == f})
            n += ctx.violation(
                "configuration field %s.%s (not re-initialised by Reset) is written during compilation by %s: a reused Backend carries the "
                "change into later compilations (obligation config_fields_not_written_%s; hypothesis body_frames_config of "
                "c12_spirv_backend_history_independent_partial; refuted model: c12_spirv_reuse_refuted)" % (T, f, ", ".join(who) or "?", T.lower()),
                found_input=False, key="config-field-written:spirv.%s.%s" % (T, f),
                broken="State/GenObligations.v config_fields_not_written_%s" % T.lower(), files={"field.txt": "%s.%s written by %s\n" % (T, f, who)})
    for g in rep.get("global", []):
        n += ctx.violation("package-level variable %s is written after initialisation: state shared by all compilations and goroutines "
                           "(obligation no_written_package_globals)" % g, found_input=False, key="written-global:" + g,
                           broken="State/GenObligations.v no_written_package_globals", files={"global.txt": g + "\n"})
    for s in rep.get("irwrite", []):
        det = [x for x in raw.get("irwrites") or [] if "%s:%s" % (x["file"], x["func"]) == s]
        n += ctx.violation("back-end function %s writes into ir-typed storage reached through a pointer/slice/map (%s): it may be the caller's module "
                           "(obligation backend_ir_writes_reviewed; hypothesis read_only of c12_module_frame / c12_schedule_independent)"
                           % (s, "; ".join("%s line %d" % (x["target"], x["line"]) for x in det[:4])),
                           found_input=False, key="ir-write-site:" + s, broken="State/GenObligations.v backend_ir_writes_reviewed",
                           files={"site.json": json.dumps(det, indent=1)})
    for s in rep.get("mapwalk", []):
        w = walks.get(s, {})
        n += ctx.violation("map walk %s (line %s) is neither order-insensitive accumulation nor collect-then-sort and is not reviewed: %s "
                           "(obligation class_c_sites_reviewed)" % (s, w.get("line"), w.get("why")),
                           found_input=False, key="mapwalk:" + s, broken="State/GenObligations.v class_c_sites_reviewed",
                           files={"site.json": json.dumps(w, indent=1)})
    for tag, fn, op in (("msl", "msl applyPipelineConstants", "msl+pc"), ("ir", "ir.CloneModuleForOverrides", "po")):
        for region in rep.get("cloneshare:" + tag, []):
            n += ctx.violation(
                "%s does not re-allocate the region %s of the module although the override-resolution pass that follows writes it "
                "(state/clone_writes.txt): the caller's module is written by an operation that takes pipeline constants "
                "(obligation clone_covers_writes_%s; hypothesis of c12_clone_frame)" % (fn, region, tag),
                found_input=False, key="clone-shares-written:%s:%s" % (op, region),
                broken="State/CloneObligations.v clone_covers_writes_%s" % tag, files={"region.txt": "%s: %s\n" % (fn, region)})
    fs = rep.get("first_stmt", [""])
    if fs and fs[0] != "b.Reset()":
        n += ctx.violation("Backend.Compile no longer begins with b.Reset() (first statement: %r): compile = body . reset does not hold" % fs[0],
                           found_input=False, key="compile-without-reset", broken="State/GenObligations.v compile_begins_with_reset")
    return n


# ------------------------------------------------------------------ C: monitors

def run1(tool, mode, job, timeout=300, env=None):
    rc, so, se = vcheck.run_tool(tool, [mode], inp=json.dumps(job) + "\n", timeout=timeout, env=env)
    res = None
    for line in so.splitlines():
        try:
            res = json.loads(line)
        except Exception:
            pass
    return rc, res, se


def ddmin(seq, keep_last, fails):
    """Shortest subsequence (last element kept) that still fails: remove chunks, then single steps."""
    cur = list(seq)
    n = 2
    while len(cur) > 1 + (1 if keep_last else 0):
        body = cur[:-1] if keep_last else cur
        tail = cur[-1:] if keep_last else []
        chunk = max(1, len(body) // n)
        reduced = False
        for i in range(0, len(body), chunk):
            cand = body[:i] + body[i + chunk:] + tail
            if cand and fails(cand):
                cur = cand
                n = max(n - 1, 2)
                reduced = True
                break
        if not reduced:
            if chunk == 1:
                break
            n = min(len(body), n * 2)
    return cur


def monitor_histories(ctx, tool, progs, n_hist, max_len, stats):
    rng = ctx.rng.fork("hist")
    jobs = []
    meta = {}
    for h in range(n_hist):
        k = 2 + rng.below(4)
        idx = [rng.below(len(progs)) for _ in range(k)]
        ln = 2 + rng.below(max_len - 1)
        seq = []
        for _ in range(ln):
            r = rng.below(10)
            seq.append(-1 if r == 0 else rng.below(k))
        if rng.chance(1, 3):                       # compile the same program twice in a row
            seq.append(seq[-1] if seq[-1] >= 0 else 0)
        jobs.append({"id": h, "data": {"programs": [progs[i][1] for i in idx], "seq": seq, "debug": h % 2 == 1}})
        meta[h] = (idx, seq)
    # systematic part: every program X as a possible poisoner: X, three fixed probe programs, X again
    probes = [rng.below(len(progs)) for _ in range(3)]
    for x in range(len(progs)):
        idx = [x] + probes
        seq = [0, 1, 2, 3, 0]
        jobs.append({"id": n_hist + x, "data": {"programs": [progs[i][1] for i in idx], "seq": seq, "debug": x % 2 == 1}})
        meta[n_hist + x] = (idx, seq)
    n_hist = len(jobs)
    res = nagarun.parallel_batches(tool, "history", jobs, per_job_timeout=60.0, chunk=6)
    distinct = set()
    for h in range(n_hist):
        r = res.get(h) or {}
        idx, seq = meta[h]
        names = [progs[i][0] for i in idx]
        if "crash" in r or "panic" in r:
            ctx.violation("history of Compile calls on one spirv.Backend crashed the process: %s" % (r.get("crash") or r.get("panic")),
                          files={"job.json": json.dumps(jobs[h]), "mode.txt": "history"}, key="history-crash:" + ",".join(names))
            continue
        steps = [s for s in r.get("steps") or [] if s.get("op") == "compile"]
        stats["history_compiles"] += len(steps)
        if len({s["prog"] for s in steps}) >= 2:
            distinct.add((tuple(names[p] if p >= 0 else "Reset" for p in seq), h % 2))
        if len(ctx.cov["samples"]) < 2 and steps:
            ctx.sample({"kind": "history on one reused spirv.Backend", "debug": h % 2 == 1,
                        "ops": [("Compile " + names[p]) if p >= 0 else "Reset" for p in seq],
                        "outputs_equal_fresh_backend": not r.get("bad")})
        for b in r.get("bad") or []:
            if b["kind"] == "module-mutated":
                ctx.violation("spirv.Backend.Compile altered the module it was given (%s): %s" % (names[b["prog"]], b["paths"][:4]),
                              files={"job.json": json.dumps(jobs[h]), "mode.txt": "history"}, key="module-mutated:spv")
                continue
            if b.get("explained_by_version"):
                stats["version_leak_hits"] += 1
                first14 = None
                ctx.violation(
                    "reused spirv.Backend: Compile(%s) returns different bytes than a fresh Backend (version word %#x vs %#x, first differing word %d); "
                    "the difference is exactly reproduced by a fresh Backend configured with Options.Version = %#x, i.e. an earlier compilation "
                    "raised b.options.Version and Reset did not restore it.  History: %s"
                    % (names[b["prog"]], b.get("version_reused", 0), b.get("version_fresh", 0), b.get("first_diff_word", -1), b.get("leaked_version", 0),
                       [names[p] if p >= 0 else "Reset" for p in seq[:b["step"] + 1]]),
                    files={"job.json": json.dumps(jobs[h]), "mode.txt": "history"}, key="spirv-reuse:options.Version-leak")
                continue
            if nondet(ctx, "spvd" if h % 2 == 1 else "spv", names[b["prog"]], "reused spirv.Backend: output differs from a fresh Backend"):
                continue
            # unexplained: shrink the history to the shortest one that still differs unexplained at its last step
            upto = seq[:b["step"] + 1]

            def fails(cand, h=h):
                j = {"id": 0, "data": {"programs": jobs[h]["data"]["programs"], "seq": cand, "debug": jobs[h]["data"]["debug"]}}
                rc, rr, se = run1(tool, "history", j)
                if not rr:
                    return False
                last = len(cand) - 1
                return any(x["step"] == last and x["kind"] == "output-differs" and not x.get("explained_by_version") for x in rr.get("bad") or [])
            stats["unexplained_history_failures"] = stats.get("unexplained_history_failures", 0) + 1
            if stats["unexplained_history_failures"] > 3:      # shrink and report the first few; the rest is counted
                continue
            small = ddmin(upto, True, fails) if fails(upto) else upto
            sn = [names[p] if p >= 0 else "Reset" for p in small]
            used = sorted({p for p in small if p >= 0})
            ctx.violation("reused spirv.Backend: the last Compile of the history %s returns different bytes than a fresh Backend on a fresh module "
                          "(first differing word %d)" % (sn, b.get("first_diff_word", -1)),
                          files={"job.json": json.dumps({"id": 0, "data": {"programs": jobs[h]["data"]["programs"], "seq": small,
                                                                            "debug": jobs[h]["data"]["debug"]}}),
                                 "mode.txt": "history", "history.txt": "\n".join(sn) + "\n",
                                 **{"prog%d.wgsl" % p: jobs[h]["data"]["programs"][p] for p in used}},
                          key="spirv-reuse:output-differs:%s" % "->".join(sn[-2:]))
    stats["histories"] += n_hist
    stats["histories_nontrivial"] += len(distinct)


def monitor_perms(ctx, tool, progs, per_prog, all5_for, stats):
    rng = ctx.rng.fork("perm")
    jobs = []
    import itertools
    jid = 0
    for pi, (name, src) in enumerate(progs):
        for k in range(per_prog):
            order = rng.shuffle(TARGETS if (k + pi) % 2 == 0 else NODXIL)
            jobs.append({"id": jid, "src": src, "data": {"order": order, "heal": True}, "_p": pi})
            jid += 1
    for pi in all5_for:
        for order in itertools.permutations(["spv", "hlsl", "msl", "glsl"]):
            jobs.append({"id": jid, "src": progs[pi][1], "data": {"order": list(order), "heal": True}, "_p": pi})
            jid += 1
    send = [{k: v for k, v in j.items() if k != "_p"} for j in jobs]
    res = nagarun.parallel_batches(tool, "perm", send, per_job_timeout=90.0, chunk=8)
    mutated_by = {}
    nontrivial = set()
    for j in jobs:
        r = res.get(j["id"]) or {}
        name = progs[j["_p"]][0]
        order = j["data"]["order"]
        if "crash" in r or "panic" in r:
            ctx.violation("running back ends %s on one module of %s crashed: %s" % (order, name, r.get("crash") or r.get("panic")),
                          files={"job.json": json.dumps(send[j["id"]]), "mode.txt": "perm", "program.wgsl": j["src"]}, key="perm-crash:" + name)
            continue
        if r.get("lower_unstable"):
            ctx.violation("lowering %s twice gave different modules: %s" % (name, r["lower_unstable"][:4]),
                          files={"program.wgsl": j["src"]}, key="nondeterministic:lowering:" + name)
            continue
        steps = r.get("steps") or []
        stats["perm_calls"] += len(steps)
        if sum(1 for s in steps if "ERR" not in s["out"] and "PANIC" not in s["out"]) >= 2:
            nontrivial.add((name, tuple(order)))
        if len([s for s in ctx.cov["samples"] if s.get("kind", "").startswith("permutation")]) < 1 and steps:
            ctx.sample({"kind": "permutation of back ends on one module", "program": name, "order": order,
                        "each_output_equals_fresh_module_output": not [b for b in r.get("bad") or [] if b["kind"] == "output-differs"],
                        "module_unchanged_by": [s["target"] for i, s in enumerate(steps) if not [b for b in r.get("bad") or [] if b["kind"] == "module-mutated" and b["step"] == i]]})
        for b in r.get("bad") or []:
            t = b["target"]
            if b["kind"] == "module-mutated":
                mutated_by.setdefault(t, set()).add(name)
                ctx.violation(
                    "%s.Compile altered the caller's module (%s): %s; outputs that change when the altered module is compiled afterwards: %s"
                    % (t, name, b["paths"][:5], b.get("outputs_changed_afterwards")),
                    files={"job.json": json.dumps({"id": 0, "src": j["src"], "data": {"order": [t] + [x for x in TARGETS if x != t], "heal": False}}),
                           "mode.txt": "perm", "program.wgsl": j["src"], "diff.txt": "\n".join(b["paths"]) + "\n"},
                    key="module-mutated:%s" % ("dxil" if t == "dxil" else t))
            elif b["kind"] == "output-differs" and b.get("module_intact_before", True):
                if nondet(ctx, t, name, "back end %s after %s on one module: output differs from the fresh-module output" % (t, order[:b["step"]])):
                    continue
                prefix = order[:b["step"] + 1]

                def fails(cand, src=j["src"], t=t):
                    rc, rr, se = run1(tool, "perm", {"id": 0, "src": src, "data": {"order": cand, "heal": True}})
                    last = len(cand) - 1
                    return bool(rr) and any(x["step"] == last and x["kind"] == "output-differs" for x in rr.get("bad") or [])
                stats["order_dependent_outputs"] = stats.get("order_dependent_outputs", 0) + 1
                if stats["order_dependent_outputs"] > 3:
                    continue
                small = ddmin(prefix, True, fails) if fails(prefix) else prefix
                ctx.violation("back end %s gives different output for %s when %s ran before it on the same (unaltered) module"
                              % (t, name, small[:-1]),
                              files={"job.json": json.dumps({"id": 0, "src": j["src"], "data": {"order": small, "heal": True}}),
                                     "mode.txt": "perm", "program.wgsl": j["src"]},
                              key="backend-order:%s-after-%s" % (t, "+".join(small[:-1])))
    stats["perms"] += len(jobs)
    stats["perms_nontrivial"] += len(nontrivial)
    return mutated_by


def monitor_reruns(ctx, tool, progs, processes, repeat, stats):
    """(iii) the same compilations in `processes` fresh processes (fresh hash seeds), each repeating `repeat` times in process."""
    # the few stress shaders aim at order-dependent code paths whose effect shows only in some enumeration orders: more repetitions
    jobs = [{"id": i, "src": s, "data": {"targets": TARGETS + ["warn"], "repeat": max(repeat, 12) if n.startswith("stress/") else repeat}}
            for i, (n, s) in enumerate(progs)]
    runs = []
    for p in range(processes):
        # every worker of parallel_batches is a new OS process
        runs.append(nagarun.parallel_batches(tool, "outputs", jobs, per_job_timeout=120.0, chunk=12 + p))
    mutated = {}
    ok_units = 0
    for i, (name, src) in enumerate(progs):
        rs = [r.get(i) or {} for r in runs]
        if any("crash" in r or "panic" in r for r in rs):
            bad = [r for r in rs if "crash" in r or "panic" in r][0]
            ctx.violation("compiling %s crashed the process: %s" % (name, bad.get("crash") or bad.get("panic")),
                          files={"program.wgsl": src}, key="crash:" + name)
            continue
        if any("frontend" in r for r in rs):
            if len({r.get("frontend") for r in rs}) > 1:
                ctx.violation("front end accepts %s in one process and rejects it in another" % name, files={"program.wgsl": src},
                              key="nondeterministic:frontend:" + name)
            continue
        for r in rs:
            for t in r.get("unstable") or []:
                UNSTABLE.add((t, name))
                key = "nondeterministic:lower-warnings-order" if t == "warn" else "nondeterministic:%s:%s" % (t, name)
                ctx.violation(("the warnings returned by wgsl.LowerWithWarnings for %s come in a different order from call to call (same process)" % name)
                              if t == "warn" else
                              "back end %s produced different output for %s on repeated compilation in one process (map iteration order)" % (t, name),
                              files={"program.wgsl": src, "job.json": json.dumps({"id": 0, "src": src, "data": {"targets": [t], "repeat": 50}}),
                                     "mode.txt": "outputs"}, key=key)
            for t in r.get("options_mutated") or []:
                ctx.violation("%s.Compile altered the Options value it was given (maps/pointers inside Options are shared with the caller)" % t,
                              files={"program.wgsl": src}, key="options-mutated:" + t)
            if r.get("lower_unstable"):
                ctx.violation("lowering %s twice in one process gave different modules: %s" % (name, r["lower_unstable"][:4]),
                              files={"program.wgsl": src}, key="nondeterministic:lowering:" + name)
            for t in r.get("mutated") or []:
                mutated.setdefault(t, set()).add(name)
                ctx.violation("%s.Compile altered the caller's module (%s): %s" % (t, name, (r.get("mutated_paths") or {}).get(t, [])[:5]),
                              files={"program.wgsl": src, "job.json": json.dumps({"id": 0, "src": src, "data": {"order": [t] + [x for x in TARGETS if x != t], "heal": False}}),
                                     "mode.txt": "perm"}, key="module-mutated:" + t)
        mods = {r.get("module") for r in rs}
        if len(mods) > 1:
            ctx.violation("the lowered module of %s differs between processes" % name, files={"program.wgsl": src},
                          key="nondeterministic:lowering:" + name)
        for t in TARGETS + ["warn"]:
            outs = {(r.get("outs") or {}).get(t) for r in rs}
            stats["rerun_units"] += 1
            if len(outs) > 1:
                UNSTABLE.add((t, name))
                key = "nondeterministic:lower-warnings-order" if t == "warn" else "nondeterministic:%s:%s" % (t, name)
                ctx.violation("%s of %s differs between fresh processes (digests %s)" % (t, name, sorted(map(str, outs))),
                              files={"program.wgsl": src, "job.json": json.dumps({"id": 0, "src": src, "data": {"targets": [t], "repeat": 50}}),
                                     "mode.txt": "outputs"}, key=key)
            else:
                o = next(iter(outs))
                if o and "ERR" not in o and "PANIC" not in o:
                    ok_units += 1
    stats["rerun_ok_units"] += ok_units
    stats["processes"] = processes
    return mutated



# ------------------------------------------------------------------ (v) operations that take pipeline constants

def pconst_programs(ctx, progs):
    """programs with override declarations: corpus + state/c12_stress + generated"""
    out = [(n, s) for n, s in progs if c12ovr.overrides_of(s)]
    rng = ctx.rng.fork("ovrgen")
    for i in range(ctx.scale(16, 300)):
        out.append(c12ovr.gen_program(rng.fork("p%d" % i), i))
    return out


def pconst_fails(tool, src, label, repeat=2):
    """predicate for ddmin: the LAST operation of the candidate history gives an output that differs from its
    fresh-module output although the module was intact before it"""
    def fails(cand):
        rc, rr, se = run1(tool, "pconst", {"id": 0, "src": src, "data": {"ops": cand, "repeat": repeat, "heal": True}})
        last = len(cand) - 1
        return bool(rr) and any(x.get("step") == last and x["kind"] == "output-differs" and x["label"] == label and x.get("module_intact_before", True)
                                for x in rr.get("bad") or [])
    return fails


def monitor_pconst(ctx, tool, oprogs, n_random, max_len, stats):
    rng = ctx.rng.fork("pconst")
    jobs, meta, systematic = [], {}, set()
    for pi, (name, src) in enumerate(oprogs):
        ovs = c12ovr.overrides_of(src)
        hs = [c12ovr.systematic_history(ovs)]
        for k in range(n_random):
            hs.append(c12ovr.random_history(ovs, rng, 4 + rng.below(max_len - 3)))
        for hi, ops in enumerate(hs):
            jid = len(jobs)
            if hi == 0:
                systematic.add(jid)
            # every reference is computed again after the history, so one run up front suffices for the random histories
            jobs.append({"id": jid, "src": src, "data": {"ops": ops, "repeat": 2 if hi == 0 else 1, "heal": True}})
            meta[jid] = (name, src, ops)
    # two sets of fresh processes (fresh hash seeds): (d) across processes as well as in process
    runs = [nagarun.parallel_batches(tool, "pconst", jobs, workers=vcheck.NCPU, per_job_timeout=90.0, chunk=3)]
    runs.append(nagarun.parallel_batches(tool, "pconst", [j for j in jobs if j["id"] in systematic], workers=vcheck.NCPU, per_job_timeout=90.0, chunk=2))
    labels_ok = {}
    nontrivial = set()
    for jid, (name, src, ops) in meta.items():
        rs = [r.get(jid) or {} for r in runs]
        jobfile = json.dumps({"id": 0, "src": src, "data": jobs[jid]["data"]})
        if any("crash" in r or "panic" in r for r in rs):
            b = [r for r in rs if "crash" in r or "panic" in r][0]
            ctx.violation("a history of pipeline-constant operations on one module of %s crashed the process: %s" % (name, b.get("crash") or str(b.get("panic"))[:300]),
                          files={"job.json": jobfile, "mode.txt": "pconst", "program.wgsl": src}, key="pconst-crash:" + name)
            continue
        if any("frontend" in r for r in rs):
            stats["pconst_rejected_programs"] = stats.get("pconst_rejected_programs", 0) + 1
            continue
        if any(r.get("lower_unstable") for r in rs):
            ctx.violation("lowering %s twice gave different modules" % name, files={"program.wgsl": src}, key="nondeterministic:lowering:" + name)
            continue
        r = rs[0]
        steps = r.get("steps") or []
        stats["pconst_histories"] += 1
        stats["pconst_calls"] += len(steps)
        good = [s for s in steps if "ERR" not in s["out"] and "PANIC" not in s["out"]]
        for s_ in good:
            labels_ok[s_["label"]] = labels_ok.get(s_["label"], 0) + 1
        if len({s_["label"] for s_ in good if "+pc" in s_["label"] or s_["label"].startswith("po")}) >= 2:
            nontrivial.add((name, jid))
        if len([x for x in ctx.cov["samples"] if x.get("kind", "").startswith("pipeline-constant")]) < 1 and steps:
            ctx.sample({"kind": "pipeline-constant history on one module", "program": name, "ops": [c12ovr.op_text(o) for o in ops[:8]],
                        "each_output_equals_fresh_module_output": not [b for b in r.get("bad") or [] if b["kind"] == "output-differs"],
                        "module_mutated_by": sorted({b["label"] for b in r.get("bad") or [] if b["kind"] == "module-mutated"})})
        # (d) across processes
        o0 = [(s_["label"], s_.get("pc"), s_["out"]) for s_ in steps]
        o1 = [(s_["label"], s_.get("pc"), s_["out"]) for s_ in rs[1].get("steps") or []]
        if o1 and o0 != o1 and len(o0) == len(o1):
            for a, b in zip(o0, o1):
                if a != b:
                    UNSTABLE.add((a[0], name))
                    ctx.violation("operation %s with constants %s on %s gives different output in different processes" % (a[0], a[1], name),
                                  files={"job.json": jobfile, "mode.txt": "pconst", "program.wgsl": src}, key="nondeterministic:%s:%s" % (a[0], name))
        seen_here = set()
        for b in (r.get("bad") or []) + [x for x in rs[1].get("bad") or [] if x["kind"] in ("unstable", "process-state")]:
            lab = b.get("label", "?")
            op = ops[b["step"]] if "step" in b and b["step"] < len(ops) else None
            optxt = c12ovr.op_text(op) if op else lab
            if b["kind"] == "unstable":
                UNSTABLE.add((lab, name))
                ctx.violation("operation %s on a freshly lowered module of %s gives different output from call to call in one process" % (b.get("op"), name),
                              files={"job.json": jobfile, "mode.txt": "pconst", "program.wgsl": src}, key="nondeterministic:%s:%s" % (lab, name))
            elif b["kind"] == "process-state":
                ctx.violation("operation %s on a freshly lowered module of %s gives another output after the history than before it: the process keeps state "
                              "between compilations (package-level variable / cache) that a fresh module and fresh options do not reset" % (b.get("op"), name),
                              files={"job.json": jobfile, "mode.txt": "pconst", "program.wgsl": src}, key="process-state:%s" % lab)
            elif b["kind"] == "module-mutated":
                # one report per (operation, place written); plain back ends keep the key of monitor (ii)
                for cls in b.get("classes") or ["?"]:
                    key = "module-mutated:%s" % lab if "+" not in lab and not lab.startswith(("po", "clone")) else "module-mutated:%s:%s" % (lab, cls)
                    if (key, jid) in seen_here:
                        continue
                    seen_here.add((key, jid))
                    stats["pconst_module_mutations"][key] = stats["pconst_module_mutations"].get(key, 0) + 1
                    one = [op] if op else ops[:b.get("step", 0) + 1]
                    ctx.violation(
                        "%s altered the caller's module (%s; written: %s): %s; plain back ends whose output changes when the altered module "
                        "is compiled afterwards: %s" % (optxt, name, cls, ((b.get("class_paths") or {}).get(cls) or b.get("paths") or [])[:4], b.get("outputs_changed_afterwards")),
                        files={"job.json": json.dumps({"id": 0, "src": src, "data": {"ops": one + [c12ovr.op_plain(t) for t in c12ovr.BACKENDS],
                                                                                      "repeat": 2, "heal": False}}),
                               "mode.txt": "pconst", "program.wgsl": src, "diff.txt": "\n".join(b.get("paths") or []) + "\n"}, key=key)
            elif b["kind"] in ("options-mutated", "constants-mutated"):
                ctx.violation("%s altered the %s it was given (%s)" % (optxt, "Options value (PipelineConstants map included)" if b["kind"] == "options-mutated"
                                                                     else "constants map", name),
                              files={"job.json": jobfile, "mode.txt": "pconst", "program.wgsl": src}, key="%s:%s" % (b["kind"], lab))
            elif b["kind"] == "processed-module-mutated":
                ctx.violation("back end %s altered the (override-processed) module it was given (%s)" % (lab, name),
                              files={"job.json": jobfile, "mode.txt": "pconst", "program.wgsl": src}, key="module-mutated:" + lab)
            elif b["kind"] == "panic":
                ctx.violation("ir.CloneModuleForOverrides panicked on %s" % name, files={"program.wgsl": src}, key="pconst-crash:clone")
            elif b["kind"] == "output-differs":
                if not b.get("module_intact_before", True):
                    continue            # consequence of a module mutation reported above (the module is replaced after one)
                if nondet(ctx, lab, name, "%s after earlier operations on one module: output differs from the fresh-module output" % optxt):
                    continue
                stats["pconst_history_dependent"] = stats.get("pconst_history_dependent", 0) + 1
                if stats["pconst_history_dependent"] > 4:
                    continue
                prefix = ops[:b["step"] + 1]
                fails = pconst_fails(tool, src, lab)
                small = ddmin(prefix, True, fails) if fails(prefix) else prefix
                before = [c12ovr.op_label(o) for o in small[:-1]]
                ctx.violation("%s gives different output for %s when %s ran before it on the same (unaltered) module%s"
                              % (c12ovr.op_text(small[-1]), name, [c12ovr.op_text(o) for o in small[:-1]],
                                 "; processed clone differs at %s" % b["sites"][:4] if b.get("sites") else ""),
                              files={"job.json": json.dumps({"id": 0, "src": src, "data": {"ops": small, "repeat": 2, "heal": True}}),
                                     "mode.txt": "pconst", "program.wgsl": src},
                              key="pconst-order:%s-after-%s" % (lab, "+".join(sorted(set(before))) or "-"))
    stats["pconst_programs"] = len(oprogs)
    stats["pconst_nontrivial"] = len(nontrivial)
    stats["pconst_ok_calls_by_operation"] = dict(sorted(labels_ok.items()))


RACE_HDR = re.compile(r"^(Write|Read|Previous write|Previous read|Atomic write|Previous atomic write|Atomic read|Previous atomic read) at 0x[0-9a-f]+ by (?:main )?goroutine", re.M)
BACKEND_FRAME = re.compile(r"github\.com/gogpu/naga(?:/(dxil|hlsl|msl|glsl|spirv|wgsl|ir))?(?:/[\w/]+)?\.(\(?\*?\w+\)?\.?\w*)\(\)")


def parse_races(stderr):
    """[(key, text)]: key = race:writer=<public entry package(s) of the writing stack(s)>."""
    out = []
    for block in stderr.split("=================="):
        if "WARNING: DATA RACE" not in block:
            continue
        parts = re.split(r"\n(?=(?:Write|Read|Previous write|Previous read|Atomic write|Previous atomic write|Atomic read|Previous atomic read) at )", block)
        writers = set()
        readers = set()
        for part in parts:
            m = re.match(r"\s*(Previous )?(atomic |Atomic )?(write|Write|read|Read)", part)
            if not m:
                continue
            is_write = m.group(3).lower() == "write"
            stack = part.split("\n\n")[0]
            entry = "?"
            # outermost naga frame of this stack = the public API the goroutine called
            for fm in re.finditer(r"^\s+github\.com/gogpu/naga(?:/([a-z]+))?[\w/]*\.", stack, re.M):
                entry = fm.group(1) or "naga"
            (writers if is_write else readers).add(entry)
        key = "race:writer=" + "+".join(sorted(writers) or ["?"])
        out.append((key, block.strip()[:6000], sorted(readers)))
    return out


def monitor_concurrent(ctx, racetool, progs, mutated_dxil, rounds, n, stats):
    env = {"GORACE": "halt_on_error=0 exitcode=66 history_size=3"}
    srcs = [s for _, s in progs]
    names = [nm for nm, _ in progs]
    configs = [("separate", TARGETS), ("shared", NODXIL), ("shared", TARGETS)]
    for mode, targets in configs:
        job = {"id": 0, "data": {"programs": srcs, "mode": mode, "targets": targets, "n": n, "rounds": rounds}}
        t0 = time.time()
        try:
            rc, res, se = run1(racetool, "concurrent", job, timeout=1500, env=env)
        except Exception as e:  # timeout
            ctx.violation("concurrent run (%s, %s) did not finish: %s" % (mode, targets, e), found_input=False, key="concurrent-timeout:" + mode)
            continue
        tag = "%s/%s" % (mode, "all" if "dxil" in targets else "no-dxil")
        stats["concurrent"][tag] = {"units": (res or {}).get("units", 0), "goroutines": n if mode == "separate" else len(targets),
                                    "rounds": rounds, "races": se.count("WARNING: DATA RACE"), "wall_s": round(time.time() - t0, 1)}
        stats["concurrent_units"] += (res or {}).get("units", 0)
        if res is None or (rc not in (0, 66)):
            ctx.violation("concurrent compilation (%s, targets %s) crashed (exit %s): %s" % (mode, targets, rc, se[-1500:]),
                          files={"job.json": json.dumps(job), "mode.txt": "concurrent", "stderr.txt": se[-20000:]},
                          key="concurrent-crash:%s" % tag)
            continue
        if len([s for s in ctx.cov["samples"] if s.get("kind", "").startswith("concurrent")]) < 1:
            ctx.sample({"kind": "concurrent schedule", "mode": mode, "targets": targets, "goroutines": stats["concurrent"][tag]["goroutines"],
                        "programs": len(srcs), "outputs_equal_sequential": not res.get("bad"), "race_reports": stats["concurrent"][tag]["races"]})
        seen = set()
        for key, text, readers in parse_races(se):
            if key in seen:
                continue
            seen.add(key)
            ctx.violation("data race under `go build -race` while compiling concurrently (%s; readers: %s):\n%s" % (tag, readers, text[:1200]),
                          files={"job.json": json.dumps(job), "mode.txt": "concurrent", "race.txt": text}, key=key)
        for b in res.get("bad") or []:
            pname = names[b["prog"]] if "prog" in b else "?"
            if mode == "shared" and "dxil" in targets and pname in mutated_dxil:
                # consequence of the module being altered by dxil.Compile while shared (sequential monitors attribute it)
                ctx.violation("shared module of %s: %s while dxil.Compile runs concurrently on it" % (pname, b["kind"]),
                              files={"job.json": json.dumps(job), "mode.txt": "concurrent"}, key="module-mutated:dxil")
                continue
            if b["kind"] != "module-mutated" and nondet(ctx, b.get("target"), pname, "concurrent compilation (%s): output differs from the same work run alone" % tag):
                continue
            if b["kind"] == "module-mutated":
                ctx.violation("a module shared by concurrently running back ends %s was altered (%s): %s" % (targets, pname, b.get("paths", [])[:4]),
                              files={"job.json": json.dumps({"id": 0, "data": dict(job["data"], programs=[srcs[b["prog"]]])}), "mode.txt": "concurrent",
                                     "program.wgsl": srcs[b["prog"]]}, key="concurrent-module-mutated:%s:%s" % (tag, pname))
            else:
                ctx.violation("%s output for %s differs when compiled concurrently (%s) from the same work run alone"
                              % (b.get("target"), pname, tag),
                              files={"job.json": json.dumps({"id": 0, "data": dict(job["data"], programs=[srcs[b["prog"]]])}), "mode.txt": "concurrent",
                                     "program.wgsl": srcs[b["prog"]]}, key="concurrent-output-differs:%s:%s" % (tag, b.get("target")))


# ------------------------------------------------------------------ replay

def replay(ctx, tools, racetool):
    d = ctx.replay
    try:
        with open(os.path.join(d, "job.json")) as f:
            job = json.load(f)
        with open(os.path.join(d, "mode.txt")) as f:
            mode = f.read().strip()
    except FileNotFoundError:
        print("replay: %s has no job.json/mode.txt (a violation of a regenerated obligation has no runnable input; see broken.txt)" % d)
        return
    tool = racetool if mode == "concurrent" else tools["histdrive"]
    env = {"GORACE": "halt_on_error=0 exitcode=66"} if mode == "concurrent" else None
    rc, res, se = run1(tool, mode, job, timeout=1500, env=env)
    print("replay %s: exit %s" % (mode, rc))
    print(json.dumps(res, indent=1)[:6000])
    if "DATA RACE" in se:
        print(se[:6000])
    failing = bool(res) and (res.get("bad") or res.get("unstable") or res.get("mutated") or res.get("lower_unstable")) or "DATA RACE" in se
    if mode == "pconst" and res:
        # module mutations that are recorded findings occur in almost every history of a program with nested blocks:
        # the replay fails only on something else
        known = {k.get("match") for k in ctx._known if k.get("status") == "open"}
        other = []
        for b in res.get("bad") or []:
            if b["kind"] == "module-mutated":
                keys = ["module-mutated:%s:%s" % (b.get("label"), c) for c in b.get("classes") or ["?"]]
                if all(k in known for k in keys):
                    continue
            elif b["kind"] == "output-differs" and not b.get("module_intact_before", True):
                continue
            other.append(b)
        failing = bool(other)
        print("replay pconst: %d entries besides recorded module mutations" % len(other))
    if failing:
        ctx.violation("replayed input still fails", files={"result.json": json.dumps(res, indent=1)}, key="replay")


# ------------------------------------------------------------------ main

def dedup_violations(ctx, per_class=4):
    """Report each key once and at most `per_class` keys of one class (text before the last ':'), so that one defect
    does not produce hundreds of replays; the rest is counted in coverage.suppressed_repeats."""
    orig = ctx.violation
    seen = {}
    classes = {}
    sup = ctx.cov.setdefault("suppressed_repeats", {})

    def v(what, files=None, found_input=True, key=None, broken=None):
        if key is not None:
            if key in seen:
                sup[key] = sup.get(key, 0) + 1
                return False
            cls = key.rsplit(":", 1)[0] if ":" in key else key
            known = any(k.get("status") == "open" and k.get("match") == key for k in ctx._known)
            if not known:
                if classes.get(cls, 0) >= per_class:
                    sup[cls + ":*"] = sup.get(cls + ":*", 0) + 1
                    return False
                classes[cls] = classes.get(cls, 0) + 1
            seen[key] = 1
        return orig(what, files=files, found_input=found_input, key=key, broken=broken)
    ctx.violation = v


def run(ctx):
    dedup_violations(ctx)
    UNSTABLE.clear()
    for k in ctx._known:
        m = re.match(r"nondeterministic:(spv|spvd|hlsl|msl|glsl|dxil):(.+)$", k.get("match", ""))
        if m and k.get("status") == "open":
            UNSTABLE.add((m.group(1), m.group(2)))
    phase = {}
    t_ = [time.time()]

    def lap(name):
        phase[name] = round(time.time() - t_[0], 1)
        t_[0] = time.time()
    ctx.cov["phase_wall_s"] = phase
    tools = vcheck.build_harness(["goextract", "stateextract", "histdrive"])
    lap("go build")
    racetool = vcheck.build_harness(["histdrive"], race=True)["histdrive"]
    lap("go build -race")
    if getattr(ctx, "replay", None):
        replay(ctx, tools, racetool)
        ctx.cov.update({"obligations": 1, "discharged": 1, "checker_cmd": "replay only", "evaluations": 1, "distinct_nontrivial": 2})
        return
    gen_error = []

    def writer():
        try:
            return gen.regenerate(tools, ["c12state"])
        except Exception as e:  # anchors moved, allowlist malformed, extractor failure
            gen_error.append(str(e))
            return []
    extra = ["State/GenObligations.v", "State/Instance.v", "State/Reset.v", "State/History.v", "State/Schedule.v", "State/MapOrder.v",
             "State/CloneFrame.v", "State/CloneObligations.v"]
    for attempt in range(4):
        ok, failed, log = vcheck.proof_step(ctx, "Props/C12.v", MODEL_FILES, gen_writer=writer, extra_obligation_files=extra)
        # several people share coq/: a temporary .v of somebody else that vanished between coq_makefile and make
        # ("No rule to make target 'x.v'") is not a fact about this property: rebuild
        foreign = re.findall(r"No rule to make target '([^']+)'", log or "")
        if ok or not foreign or any(f.startswith(("State/", "Props/C12", "Gen/BackendState", "Gen/MapWalks", "Gen/CloneRegions")) for f in foreign):
            break
        time.sleep(3)
        ctx.cov["obligations"] = 0
        ctx.cov["discharged"] = 0
        ctx.violations[:] = [v for v in ctx.violations if "forbidden construct" not in v[1]]
    lap("regenerate + coq")
    ctx.cov["trusted_base"] += [
        "translator: harness/cmd/stateextract (go/ast + go/types from source, offline) + lib/c12gen.py -> coq/Gen/BackendState.v, Gen/MapWalks.v; "
        "its syntactic notions: field re-initialisation (assign/clear/truncate/delegate, unconditional, in Reset or the prologue of Compile), "
        "map-walk classes a/b/c, read-only function approximation, writes to ir-typed shared storage, written package-level variables; aliasing is not tracked",
        "reviewed allowlists state/immutable_fields.txt, state/mapwalk_allowlist.txt, state/irwrite_allowlist.txt, state/global_allowlist.txt (human justification per entry)",
        "state/clone_writes.txt: the regions of the module written by override resolution after cloning (msl applyPipelineConstants, ir.ProcessOverrides) are a "
        "REVIEWED list; only the regions the clone functions re-allocate are regenerated (lib/c12gen.py clone_regions from goextract assigns: make / append(T(nil),..) / &localCopy)",
        "monitors: harness/cmd/histdrive (reflection deep digest of *ir.Module incl. unexported fields; sha256 of outputs), Go race detector (go build -race), Go runtime map-order randomisation as the source of enumeration orders",
        "interleaving model of State/Schedule.v = sequential consistency, which Go guarantees only for data-race-free executions (observed by the race detector, not proved)",
    ]
    ctx.assumptions = [
        "the clone model of State/CloneFrame.v treats a storage region (backing array, map, pointee) as atomic and named by its path with indices erased; "
        "aliasing between differently named regions is not modelled",
        "PARTIAL: theorems are conditional on hypotheses tied to the Go code by regenerated syntactic obligations and by run-time monitors; they are not proved of the Go code",
        "the compile body of spirv.Backend is abstract (any function that leaves configuration fields alone); scratch storage listed in state/immutable_fields.txt is unobservable",
        "a sort comparator used after collecting map keys is a total order that is antisymmetric on the collected elements (reviewed, not extracted)",
        "Go's randomised map iteration and data races are run-time behaviour: covered by 5 fresh processes x in-process repetitions and the race detector on the corpus, not by proof",
    ]
    broken = None
    if gen_error:
        broken = "regeneration of Gen/BackendState.v / Gen/MapWalks.v failed: %s" % gen_error[0][:600]
    elif not ok:
        broken = "Coq development no longer checks: %s" % (failed or log[-600:])
    # R diagnostics: name what is responsible (also reports recorded exceptions as KNOWN-FINDING)
    r_named = 0
    rep = None
    if not gen_error:
        rep, err = r_diagnostics(ctx)
        if rep is None:
            broken = broken or ("table diagnostics (Cases/C12Report.v) do not compile: %s" % err[-400:])
        else:
            r_named = report_r(ctx, rep)
            ctx.cov["r_tables"] = {k: v for k, v in rep.items()}
    try:
        with open(os.path.join(vcheck.BUILD, "c12_state.json")) as f:
            raw = json.load(f)
        import collections
        ctx.cov["map_walk_sites"] = dict(collections.Counter(w["class"] for w in raw["mapwalks"]))
        ctx.cov["package_level_vars_scanned"] = len(raw["globals"])
        ctx.cov["packages_scanned"] = len(raw["packages"])
        # allowlist entries that no longer name an existing site (harmless, but a reviewer should prune them)
        import c12gen
        sites = {c12gen.site_key(w) for w in raw["mapwalks"]}
        irs = {"%s:%s" % (x["file"], x["func"]) for x in raw.get("irwrites") or []}
        ctx.cov["stale_allowlist_entries"] = (
            [e[0] for e in c12gen.read_allowlist("mapwalk_allowlist.txt") if e[0] not in sites] +
            [e[0] for e in c12gen.read_allowlist("irwrite_allowlist.txt") if e[0] not in irs])
    except Exception:
        pass

    lap("R diagnostics")
    # C monitors (always run: they are also the search for a failing input when a tie is broken)
    boost = 3 if (broken or r_named) else 1
    progs = programs()
    stats = {"histories": 0, "histories_nontrivial": 0, "history_compiles": 0, "version_leak_hits": 0, "perms": 0, "perms_nontrivial": 0,
             "perm_calls": 0, "rerun_units": 0, "rerun_ok_units": 0, "concurrent_units": 0, "concurrent": {},
             "pconst_histories": 0, "pconst_calls": 0, "pconst_module_mutations": {}}
    nviol0 = len(ctx.violations)
    mut1 = monitor_reruns(ctx, tools["histdrive"], progs, processes=5, repeat=ctx.scale(2, 25) * boost, stats=stats)
    lap("reruns")
    monitor_histories(ctx, tools["histdrive"], progs, ctx.scale(60, 2000) * boost, ctx.scale(6, 12), stats)
    lap("histories")
    rng = ctx.rng.fork("all5")
    all5 = [rng.below(len(progs)) for _ in range(ctx.scale(4, 40))]
    mut2 = monitor_perms(ctx, tools["histdrive"], progs, ctx.scale(1, 8) * boost, all5, stats)
    mutated_dxil = set(mut1.get("dxil", set())) | set(mut2.get("dxil", set()))
    lap("permutations")
    oprogs = pconst_programs(ctx, progs)
    monitor_pconst(ctx, tools["histdrive"], oprogs, ctx.scale(3, 12) * boost, ctx.scale(12, 30), stats)
    lap("pipeline constants")
    monitor_concurrent(ctx, racetool, progs, mutated_dxil, rounds=ctx.scale(1, 8), n=16, stats=stats)
    lap("concurrent -race")
    ctx.cov["monitors"] = stats
    ctx.cov["programs"] = len(progs)
    ctx.cov["evaluations"] = (stats["history_compiles"] * 2 + stats["perm_calls"] * 2 + stats["rerun_units"] * 5 + stats["concurrent_units"] * 2 +
                              stats["pconst_calls"] * 2)
    ctx.cov["distinct_nontrivial"] = stats["histories_nontrivial"] + stats["perms_nontrivial"] + stats["rerun_ok_units"] + stats.get("pconst_nontrivial", 0)
    ctx.cov["traces_validated_against_impl"] = stats["histories"] + stats["perms"] + len(stats["concurrent"]) + stats["pconst_histories"]
    ctx.cov["rule"] = ("cases: (i) random histories of Compile/Reset on one reused spirv.Backend over corpus+stress programs (distinct by program sequence and "
                       "debug flag; non-trivial = at least two different programs compiled), random permutations of {spv,spvd,hlsl,msl,glsl,dxil} and all 24 orders "
                       "of {spv,hlsl,msl,glsl} on one module (non-trivial = at least two back ends succeeded), (iii) program x target compiled in 5 fresh processes "
                       "x in-process repetitions (non-trivial = the target produced output, not an error), (iv) concurrent units = program x target per round, "
                       "(v) on programs with override declarations (corpus, state/c12_stress/ovr_*, generated by lib/c12ovr.py): one systematic and several random "
                       "histories of {msl/glsl Compile with PipelineConstants (maps by name, by id, partial, empty, unmatched, NaN), "
                       "CloneModuleForOverrides+ProcessOverrides followed by back ends, plain back ends} on one module, run in two sets of fresh processes "
                       "(non-trivial = at least two different constant-taking operations produced output). "
                       "evaluations = back-end invocations whose output was compared")
    if broken and len(ctx.violations) == nviol0 and not r_named:
        ctx.violation(broken + "\n(no failing history / permutation / schedule was found by the monitors)", found_input=False, broken=broken)
    elif broken:
        ctx.cov["broken_tie"] = broken
