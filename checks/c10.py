"""C10 — no input makes the compiler panic, crash, hang or exhaust memory.

Deciding method (partial, see manifest): Coq theorems over the complete lexer
model (Props/C10.v: every scanner step consumes input, tokenisation never runs
out of fuel |s|, at most |s| tokens) tied to /repo by regenerated tables and by
model/implementation token correspondence on hostile inputs (a panic or error
of the real lexer disagrees with a total model); for the ~100 kLOC that are not
modelled (parser, lowering, validation, back ends, Go runtime) an isolated
worker search: every public stage on mutated, nested, huge and random inputs
under a memory and time limit."""
import re

import gen
import lexcorr
import nagarun
import ocamlbuild
import vcheck
import wgsltext as W

LEVEL = "proof"
OUT_BUDGET = 8 << 20


def out_sizes(r):
    """bytes produced per back end in a sizes_only result"""
    def size(v):
        if isinstance(v, str):
            return len(v)
        if isinstance(v, dict):
            if set(v.keys()) == {"len"}:
                return v["len"]
            return sum(size(e) for k, e in v.items() if k != "info")
        return 0
    return {k: size(r.get(k)) // (2 if k in ("spv", "dxil") else 1) for k in ("spv", "hlsl", "msl", "glsl", "dxil")}
WANT = ["validate", "spv", "hlsl", "msl", "glsl", "dxil"]


def crash_key(r):
    """Stable signature of a crash: kind + innermost naga frame (function name),
    so that one defect = one key whatever input triggers it."""
    if "crash" in r:
        m = r.get("frames") or nagarun.naga_frames(r.get("stderr", ""))
        return "%s:%s" % ("cpu" if r["crash"] == "timeout" else r["crash"], m[0] if m else "?")
    msg = r.get("panic", "")
    st = r.get("stack", "")
    frames = re.findall(r"github\.com/gogpu/naga/([\w/\.\(\)\*]+)\(", st)
    frames = [f for f in frames if "verifharness" not in f]
    msg = re.sub(r"\d+", "N", msg)[:60]
    return "panic:%s:%s" % (frames[0] if frames else "?", msg)


def run(ctx):
    tools = vcheck.build_harness(["nagadrive", "goextract"])
    ok, failed, log = vcheck.proof_step(
        ctx, "Props/C10.v", ["Lex/LexModel.v", "Lex/LexInst.v", "Lex/LexProofs.v", "Lex/LexFinal.v",
                             "Parse/Ast.v", "Parse/TkFacts.v", "Parse/ParserModel.v", "Parse/ParserProofs.v"],
        gen_writer=lambda: gen.regenerate(tools, ["lex"]), extra_obligation_files=["Lex/LexInst.v"])
    ctx.cov["trusted_base"] += [
        "parser theorems (c10_parse_*) are about coq/Parse/ParserModel.v, a transliteration of parser.go whose agreement with the "
        "implementation is checked by the parser correspondence leg of checks/c19.py (lib/parsecorr.py) on every C19 run",
        "translator: harness/cmd/goextract + gen.py -> coq/Gen/LexTables.v",
        "extraction: ExtrOcamlBasic only; OCaml 4.13.1; ocaml/lex/driver.ml",
        "worker harness: harness/cmd/nagadrive under RLIMIT_AS and a wall-clock limit (lib/nagarun.py)",
        "modelled and proved: the lexer only.  NOT modelled (search only): parser, lowering, validator, the five back ends, "
        "Go stack growth / allocator / GC behaviour",
    ]
    ctx.assumptions = ["time and memory limits of the worker: %d bytes address space, 20 s per input" % nagarun.MEM_LIMIT]
    broken = None
    if not ok:
        broken = "Coq development no longer checks: %s" % (failed or log[-600:])
    rng = ctx.rng.fork("c10")
    corpus = nagarun.corpus()
    # ---- hostile inputs
    inputs = []   # (tag, bytes)
    deep = W.deep_inputs((100, 1000, 4000) if ctx.thorough else (100, 1000))
    # large-but-valid programs and call cycles run one per process as well (generous budget, not the output budget)
    nold = len(deep)
    deep = deep + W.big_valid_inputs() + W.recursive_inputs()
    for k, (name, src) in enumerate(deep):
        inputs.append((("deep:" if k < nold else "big:") + name, src.encode()))
    toks = lexcorr.tokens_impl(tools, [c[1].encode("utf-8", "surrogateescape") for c in corpus])
    lexed = []
    for (name, src), t in zip(corpus, toks):
        if "toks" in t:
            lexed.append((name, ["".join(chr(c) for c in (x[1] or [])) for x in t["toks"][:-1]], [x[5] for x in t["toks"][:-1]]))
    n_mut = ctx.scale(500, 40000)
    for i in range(n_mut):
        name, lex, kinds = lexed[rng.below(len(lexed))]
        if i % 3 == 0:
            m = W.mutate_tokens(lex, rng)
            tag = "tokmut:"
        else:
            m = W.mutate_gentle(lex, kinds, rng)
            tag = "gentle:"
        inputs.append((tag + name, " ".join(m).encode("utf-8", "surrogateescape")[:65536]))
    for i in range(ctx.scale(120, 10000)):
        name, src = corpus[rng.below(len(corpus))]
        b = bytearray(src.encode("utf-8", "surrogateescape"))
        for _ in range(1 + rng.below(4)):
            k = rng.below(3)
            p = rng.below(max(1, len(b)))
            if k == 0 and b:
                b[p] = rng.below(256)
            elif k == 1 and b:
                del b[p:p + 1 + rng.below(20)]
            else:
                b[p:p] = W.random_bytes(rng, 1 + rng.below(8))
        inputs.append(("bytemut:" + name, bytes(b[:65536])))
    for i in range(ctx.scale(120, 10000)):
        inputs.append(("soup", W.token_soup(rng, 5 + rng.below(80)).encode("utf-8")))
    for i in range(ctx.scale(100, 5000)):
        inputs.append(("bytes", W.random_bytes(rng, 1 + rng.below(200))))
    for b in W.eof_edge_inputs():
        inputs.append(("eof", b))
    for b in W.const_expr_inputs(rng.fork("constexpr"), ctx.scale(300, 20000)):
        inputs.append(("constexpr", b))
    for b in W.const_expr_systematic():
        inputs.append(("constexpr_sys", b))
    for b in W.builtin_arity_inputs():
        inputs.append(("builtin_arity", b))
    for b in W.void_call_inputs():
        inputs.append(("void_call", b))
    for b in W.single_token_edits_systematic(full=ctx.thorough):
        inputs.append(("tokedit_sys", b))
    hist = {}
    for t, _ in inputs:
        k = t.split(":")[0]
        hist[k] = hist.get(k, 0) + 1
    # ---- lexer correspondence on the same hostile inputs (tie for the theorems)
    ncmp = 0
    if ok:
        exe = ocamlbuild.build("lex")
        small = [b for _, b in inputs if len(b) <= 20000]
        ncmp, mism = lexcorr.compare(tools, exe, small)
        ctx.cov["lexer_correspondence"] = {"compared": ncmp, "mismatches": len(mism)}
        if mism:
            m0 = mism[0]
            ctx.violation("lexer: %s" % m0["what"], files={"input.bin": m0["src"]},
                          key="lexer:" + re.sub(r"\d+", "N", m0["what"])[:60],
                          broken="correspondence lexer model vs implementation")
    # ---- worker search over the whole pipeline
    jobs = [{"id": i, "hex": b.hex(), "want": WANT, "opts": {"sizes_only": True}} if b
            else {"id": i, "src": "", "want": WANT, "opts": {"sizes_only": True}}
            for i, (t, b) in enumerate(inputs)]
    # deep inputs: one process each (a slow one must not take a batch down), generous CPU budget:
    # output size is legitimately quadratic in nesting depth (indentation)
    ndeep = len(deep)
    res = nagarun.parallel_batches(tools["nagadrive"], "compile", jobs[:ndeep], per_job_timeout=(600.0 if ctx.thorough else 60.0),
                                   chunk=1, workers=vcheck.NCPU)
    res.update(nagarun.parallel_batches(tools["nagadrive"], "compile", jobs[ndeep:], per_job_timeout=20.0, chunk=32,
                                        workers=vcheck.NCPU))
    stages = {}
    nslow = 0
    worst_cpu = 0
    worst_out = 0
    ncrash = 0
    seen_keys = set()
    for i, (tag, b) in enumerate(inputs):
        r = res.get(i, {"crash": "noresult"})
        if "crash" in r or "panic" in r:
            ncrash += 1
            key = crash_key(r)
            if tag.startswith("big:") and r.get("crash") in ("timeout", "out_of_memory"):
                # a hand-made family that exhausts time or memory: where the interrupt lands varies from run to run,
                # the family does not (deep:swizzle_chain100 -> resource:deep:swizzle_chain)
                key = "resource:deep:" + re.sub(r"\d+$", "", tag[4:])
            if key in seen_keys:
                continue          # one report per defect signature (smallest/first input)
            seen_keys.add(key)
            ctx.violation("%s on input %s (%d bytes): %s" % ("process died" if "crash" in r else "panic", tag, len(b),
                                                              (r.get("panic") or r.get("crash"))),
                          files={"input.wgsl": b, "detail.txt": (r.get("stack") or r.get("stderr") or "")[:6000]},
                          key=key)
        else:
            st = r.get("stage", "compiled")
            stages[st] = stages.get(st, 0) + 1
            # resources, measured inside the worker.  Output volume is the load-independent signal: a source of
            # n <= 64 KiB that is not one of the deliberately deep ones (whose output is legitimately quadratic in
            # the nesting depth: indentation) may produce max(8 MiB, 1024 n) bytes over all six outputs.
            worst_cpu = max(worst_cpu, r.get("cpu_ms", 0))
            sizes = out_sizes(r)
            total = sum(sizes.values())
            worst_out = max(worst_out, total)
            if i >= ndeep and total > max(OUT_BUDGET, 1024 * len(b)):
                nslow += 1
                stage = max(sizes, key=lambda k: sizes[k])
                fr = nagarun.where_is_it(tools["nagadrive"], "compile", jobs[i], prefix=stage + "/")
                key = "blowup:%s" % (fr[0] if fr else stage + "/?")
                if key in seen_keys:
                    continue
                seen_keys.add(key)
                ctx.violation("%d-byte input %s makes the %s back end produce %d bytes (%.1f s CPU, peak RSS of the worker %d MiB)"
                              % (len(b), tag, stage, sizes[stage], r.get("cpu_ms", 0) / 1000.0, r.get("maxrss_kib", 0) // 1024),
                              files={"input.wgsl": b, "detail.txt": "interrupted in: " + " <- ".join(fr[:8])}, key=key)
    ctx.cov["worker_search"] = {"inputs": len(inputs), "input_kinds": hist, "outcome_by_stage": stages,
                                "crashing_inputs": ncrash, "over_output_budget": nslow, "worst_cpu_ms": worst_cpu,
                                "worst_output_bytes": worst_out, "output_budget": "max(8 MiB, 1024 n)", "stages": ["tokenize", "parse", "lower"] + WANT}
    ctx.cov["traces_validated_against_impl"] = ncmp
    ctx.cov["evaluations"] = len(inputs) + ncmp
    ctx.cov["distinct_nontrivial"] = len({b for _, b in inputs})
    ctx.cov["rule"] = ("inputs: deep/long constructs, token-level and byte-level mutations of corpus shaders, token soup, random bytes "
                       "(all <= 64 KiB); distinct by bytes; every input goes through tokenize, parse, lower, validate and the five back ends")
    for t, b in inputs[:3] + inputs[ndeep:ndeep + 2]:
        ctx.sample({"kind": t, "head": b[:80].decode("utf-8", "replace")})
    if broken and not ctx.violations:
        ctx.violation(broken, found_input=False, broken=broken)
