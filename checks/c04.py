"""C04 -- MSL output computes what the WGSL program means (and, with C15, never relies on undefined behaviour).

Deciding method
  proof   Coq: strict executable semantics of the emitted MSL subset (coq/Msl/Sem.v, Ops.v) and, for every
          (IR operator / math builtin / conversion, scalar kind), a lemma for ALL 32-bit operands that the template
          naga emits -- helper functions naga_div/mod/neg/abs/... evaluated from their bodies -- yields the WGSL value
          (Base/Bits32, Base/F32) and never undefined behaviour (coq/Msl/CatalogueProofs.v, Props/C04.v).
  tie R   probe: one micro-program per (operator, kind, shape) is compiled on every run, the emitted expression and
          helper bodies are read back and written to coq/Gen/MslOpTable.v; obligation gen_table_in_catalogue.
  tie V   differential execution of whole programs (hand-written corpus + repository shaders + typed random programs of
          lib/wgslgen.py prepared by lib/mslgen.py, disagreements shrunk and keyed by construct) x msl.Options sets:
          `irrun` on the IR dump vs `mslrun` on the parsed MSL text, same inputs, final storage buffers compared;
          C++ struct layout (Metal size/alignment table) compared with IR offsets/spans/strides;
          bounds-check policies exercised with hostile indices against the policy written out in WGSL.
  search  the same differential run on the probe programs over the boundary pool finds the concrete
          (operator, operands) when a tie breaks.
"""
import json
import os
import re

import gen
import mslcorr
import mslgen
import mslprobe
import mslprogs
import mslread
import cfskel

SHAPES = None          # cfskel.Shapes: recogniser of the control-flow encodings (coq/Target/Shapes.v) over every text read
import nagarun
import ocamlbuild
import vcheck

LEVEL = "proof"
M32 = 1 << 32
FUEL = 30000          # statement/expression steps per run (thorough: x4)

MODEL_FILES = cfskel.TARGET_FILES + ["Msl/Syntax.v", "Msl/Ops.v", "Msl/Sem.v", "Msl/Run.v", "Msl/Layout.v", "Msl/Decode.v",
               "Msl/Catalogue.v", "Msl/CatalogueProofs.v", "Msl/FloatConv.v", "Msl/FloatConvProofs.v", "Msl/VectorProofs.v",
               "Msl/VectorProofs2.v", "Msl/IrMeaning.v", "Msl/Agreement.v", "Msl/CatalogueTie.v"]


# ------------------------------------------------------------------ helpers

def f32_val(bits):
    import struct
    return struct.unpack("<f", struct.pack("<I", bits & 0xFFFFFFFF))[0]


def is_nan(bits):
    return (bits & 0x7F800000) == 0x7F800000 and (bits & 0x007FFFFF) != 0


def classify_probe_input(key, vals):
    """stable sub-key of a probe disagreement: the class of the operand that triggers it"""
    op = key.split("@")[0]
    flat = []

    def fl(v):
        if isinstance(v, dict):
            for k, x in v.items():
                if k in ("i", "u", "f"):
                    flat.append((k, x))
                else:
                    fl(x)
        elif isinstance(v, list):
            for x in v:
                fl(x)
    fl(vals)
    if op.startswith("conv_f32_"):
        hi = 2147483648.0 if op.endswith("i32") else 4294967296.0
        if any(k == "f" and is_nan(b) for k, b in flat):
            return "nan"
        if any(k == "f" and f32_val(b) >= hi for k, b in flat):
            return "saturate_high"
        return "in_range"
    if op == "round_f32":
        if any(k == "f" and not is_nan(b) and abs(f32_val(b)) < 8388608.0 and abs(f32_val(b)) % 1.0 == 0.5 for k, b in flat):
            return "tie"
        return "other"
    if op == "firstleadingbit_u32":
        return "all_ones" if any(b == 0xFFFFFFFF for k, b in flat) else "other"
    if op in ("dot_i32",):
        return "signed_overflow"
    if op == "sign_f32":
        return "nan" if any(k == "f" and is_nan(b) for k, b in flat) else "other"
    return "any"


class Runner:
    """Collects irrun / mslrun requests, runs them in a few processes, hands results back by ticket."""
    def __init__(self, irrun, mslrun, workers):
        self.irrun, self.mslrun, self.workers = irrun, mslrun, workers
        self.ir_reqs, self.msl_reqs = [], []
        self.ir_res, self.msl_res = [], []

    def ir(self, req):
        self.ir_reqs.append(req)
        return len(self.ir_reqs) - 1

    def msl(self, req):
        self.msl_reqs.append(req)
        return len(self.msl_reqs) - 1

    def run(self):
        self.ir_res = mslcorr.run_models_parallel(self.irrun, self.ir_reqs, self.workers)
        self.msl_res = mslcorr.run_models_parallel(self.mslrun, self.msl_reqs, self.workers)


def compare_buffers(plan, a, b, handles=None):
    """first difference between the IR run's storage globals and the MSL run's buffers, or None"""
    for h in (handles if handles is not None else plan.storage_handles()):
        x = mslcorr.canon(a["globals"][h])
        y = mslcorr.canon(b["buffers"].get(str(plan.slot[h])))
        d = mslcorr.first_diff(x, y)
        if d:
            return "global %s (%s): %s" % (h, plan.ir["GlobalVariables"][h]["Name"], d)
    return None


def has_workgroup(plan):
    return any(sp == "SpaceWorkGroup" and h in plan.used for h, sp, b, ty in plan.globals)


# ------------------------------------------------------------------ the pieces

MUST_I = [0, 0xFFFFFFFF, 0x80000000, 0x7FFFFFFF, 1, 31, 32, 33]
MUST_F = [0x3F000000, 0x4F000000, 0x4F800000, 0x7F800000, 0xBF000000, 0x40200000, 0xCF000001, 0x00000001, 0x7FC00000]
MUST_PAIRS = [(0, 0), (2, 3), (1, 1), (3, 0), (4, 1), (0, 4), (1, 4), (5, 6), (7, 2), (6, 6)]      # indices into MUST_*


def probe_inputs(op, n, rng, count):
    """operand values for a probe program: designated boundary operands first (0, -1, INT_MIN, INT_MAX, 31/32/33, 0.5,
    2^31, 2^32, inf, NaN, subnormal; INT_MIN with -1, x with 0, ...), then draws from the boundary pool; for vectors
    different values go to different lanes"""
    I = mslcorr.I32_POOL
    F = list(mslcorr.F32_POOL)
    MF = list(MUST_F)
    if op["key"].startswith(("sign_f32", "conv_f32_")):
        # WGSL leaves sign(NaN) and i32(NaN)/u32(NaN) open (DialectChoices.md)
        F = [b for b in F if not is_nan(b)]
        MF = [b for b in MF if not is_nan(b)]
    arity = len(op["kinds"])
    out = []
    for c in range(count):
        vals = []
        for i, k in enumerate(op["kinds"]):
            shape = 1 if i in op["scalar_ops"] else n

            def one(lane):
                must = None
                if arity == 1 and c + lane < (len(MF) if k == "f32" else len(MUST_I)):
                    must = c + lane
                elif arity >= 2 and c < len(MUST_PAIRS) and i < 2:
                    must = MUST_PAIRS[(c + lane) % len(MUST_PAIRS)][i]
                if k == "f32":
                    return {"f": MF[must % len(MF)] if must is not None else rng.choice(F)}
                if k == "bool":
                    return {"u": (c + lane + i) % 2 if c < 4 else rng.below(2)}
                bits = MUST_I[must % len(MUST_I)] if must is not None else (rng.choice(I) if rng.chance(5, 6) else rng.below(M32))
                if op["key"].startswith(("extractbits", "insertbits")) and i >= (1 if op["key"].startswith("extract") else 2):
                    bits = rng.choice([0, 1, 5, 31, 32, 33, 16, 0xFFFFFFFF, 27])
                return {"u" if k == "u32" else "i": bits}
            vals.append(one(0) if shape == 1 else {"vec": [one(l) for l in range(shape)]})
        out.append(vals)
    return out


def run_probes(ctx, tools, enums, runner, probes, per_probe):
    """compile the probe programs, queue irrun/mslrun on boundary operands.  Returns the list of cases."""
    progs = [(k, mslprobe.program(op, n)) for k, op, n in probes]
    res = mslcorr.compile_programs(tools, progs, ["default"])
    cases = []
    rng = ctx.rng.fork("probe-inputs")
    for k, op, n in probes:
        r = res.get(k) or {}
        m = r.get("msl", {}).get("default", {})
        if "ir" not in r or "text" not in m:
            cases.append({"key": k, "op": op, "skip": "does not compile: %s" % (r.get("err") or m)})
            continue
        try:
            ast = mslread.parse(m["text"])
        except mslread.OutOfFragment as e:
            cases.append({"key": k, "op": op, "skip": "reader: %s" % e})
            continue
        plan = mslcorr.Plan(enums, r["ir"], 0)
        if plan.why:
            cases.append({"key": k, "op": op, "skip": plan.why})
            continue
        epn = mslcorr.entry_names(m["info"]).get("main", "main")
        amodel = mslcorr.ast_for_model(ast)
        for vals in probe_inputs(op, n, rng.fork(k), per_probe):
            rshape = 1 if op["key"].startswith(mslprobe.REDUCING) else n
            rk = "u" if op["res"] in ("bool", "u32") else ("f" if op["res"] == "f32" else "i")
            rz = {rk: 0} if rshape == 1 else {"vec": [{rk: 0}] * rshape}
            inp = {"globals": [{"st": vals + [rz]}], "rt_len": 1, "k": 0}
            cases.append({"key": k, "op": op, "plan": plan, "vals": vals,
                          "ir": runner.ir(plan.ir_request(inp, 5000)),
                          "msl": runner.msl(plan.msl_request(amodel, epn, inp, 5000)), "text": m["text"]})
    return cases, dict(progs)


def judge_probes(ctx, runner, cases, srcs):
    n_eval = 0
    distinct = set()
    bad_ops = {}
    for c in cases:
        if "skip" in c:
            ctx.violation("probe program %s: %s" % (c["key"], c["skip"]), files={"probe.wgsl": srcs.get(c["key"], "")},
                          found_input=False, key="probe-skip:" + c["key"], broken="probe (regenerated operator table)")
            continue
        a = runner.ir_res[c["ir"]]
        b = runner.msl_res[c["msl"]]
        n_eval += 1
        distinct.add((c["key"], json.dumps(c["vals"], sort_keys=True)))
        if not a.get("ok"):
            # the reference defines every operator of the probe list on every operand: anything else is a broken tie
            key = "probe-reference:%s" % c["key"].split("@")[0]
            if key not in bad_ops:
                bad_ops[key] = True
                ctx.violation("probe %s: the IR reference interpreter does not evaluate the probe program: %s" % (c["key"], a.get("msg")),
                              files={"probe.wgsl": srcs.get(c["key"], "")}, found_input=False, key=key, broken="reference semantics on a probe")
            continue
        what = None
        if not b.get("ok"):
            what = "MSL execution fails: %s" % b.get("msg")
        else:
            d = compare_buffers(c["plan"], a, b)
            if d:
                what = "results differ: %s" % d
        if what:
            sub = classify_probe_input(c["key"], c["vals"])
            key = "op:%s:%s" % (c["key"].split("@")[0], sub)
            if key in bad_ops:
                continue
            bad_ops[key] = True
            ctx.violation("operator %s (shape %s) on operands %s: %s\n(WGSL meaning by irrun vs emitted MSL by mslrun)"
                          % (c["key"].split("@")[0], c["key"].split("@")[1], json.dumps(c["vals"]), what),
                          files={"probe.wgsl": srcs.get(c["key"], ""), "emitted.msl": c["text"], "operands.json": json.dumps(c["vals"])},
                          key=key)
    return n_eval, len(distinct)


def queue_program(ctx, enums, runner, name, r, setnames, mode, rt, n_inputs, tag, slot_maps=None, hostile_ref=None, fuel=None):
    """queue the runs of one compiled program (all compute entry points) under the given option sets.
    hostile_ref: {setname: (plan of the reference IR, policy)}: the IR side is taken from a reference program."""
    out = []
    ir = r["ir"]
    FUEL = fuel or ctx.scale(30000, 120000)
    for epi, ep in enumerate(ir["EntryPoints"]):
        base_plan = mslcorr.Plan(enums, ir, epi)
        if base_plan.why:
            out.append({"name": name, "ep": ep["Name"], "oof": base_plan.why, "tag": tag, "benign": True})
            continue
        rng = ctx.rng.fork("inputs/%s/%s" % (name, ep["Name"]))
        modes = mode if isinstance(mode, (list, tuple)) else [mode]
        rts = rt if isinstance(rt, (list, tuple)) else [rt]
        inputs = [base_plan.make_input(rng.fork(str(i)), mode=modes[i % len(modes)], rt_len=rts[i % len(rts)], k=i % 3) for i in range(n_inputs)]
        ir_tickets = None
        if hostile_ref is None:
            ir_tickets = [runner.ir(base_plan.ir_request(inp, FUEL)) for inp in inputs]
        for sn in setnames:
            m = r["msl"].get(sn, {})
            if "text" not in m:
                out.append({"name": name, "ep": ep["Name"], "set": sn, "mslerr": m.get("err") or m.get("panic") or str(m), "tag": tag})
                continue
            try:
                ast = mslread.parse(m["text"])
            except mslread.OutOfFragment as e:
                out.append({"name": name, "ep": ep["Name"], "set": sn, "oof": "reader: %s" % e, "tag": tag, "text": m["text"]})
                continue
            if SHAPES is not None:
                SHAPES.add("%s:%s:%s" % (name, ep["Name"], sn), ast, {"output.metal": m["text"], "case.txt": "%s entry %s option set %s" % (name, ep["Name"], sn)})
            epn = mslcorr.entry_names(m["info"]).get(ep["Name"], ep["Name"])
            epf = [f for f in ast["funcs"] if f["name"] == epn]
            if not epf:
                why = [u for u in ast["unparsed"] if u["name"] == epn]
                out.append({"name": name, "ep": ep["Name"], "set": sn, "tag": tag, "text": m["text"],
                            "oof": "entry point outside the reader's fragment: %s" % (why or "not found")})
                continue
            plan = base_plan
            if slot_maps and sn in slot_maps:
                sm = dict(slot_maps[sn])
                k = 0
                for h, sp, b, ty in base_plan.globals:      # unmapped buffers: [[user(fakeN)]] parameters in handle order
                    if sp in ("SpaceStorage", "SpaceUniform") and b and h in base_plan.used and h not in sm:
                        sm[h] = 1000 + k
                        k += 1
                plan = mslcorr.Plan(enums, ir, epi, slot_map=sm)
            amodel = mslcorr.ast_for_model(ast)
            lay_ticket = runner.msl({"mode": "layout", "ast": amodel})
            if hostile_ref is not None:
                ref_plan = hostile_ref[sn]
                irt = [runner.ir(ref_plan.ir_request(inp, FUEL)) for inp in inputs]
            else:
                irt = ir_tickets
            for inp, it in zip(inputs, irt):
                out.append({"name": name, "ep": ep["Name"], "set": sn, "plan": plan, "inp": inp, "ir": it, "tag": tag,
                            "msl": runner.msl(plan.msl_request(amodel, epn, inp, FUEL)), "text": m["text"],
                            "ast": ast, "epf": epf[0], "lay": lay_ticket, "unparsed": ast["unparsed"]})
    return out


def judge_programs(ctx, runner, cases, srcs, stats):
    seen_layout = set()
    reported = set()

    def report(what, files, key):
        if key not in reported:
            reported.add(key)
            ctx.violation(what, files=files, key=key)
    for c in cases:
        name = c["name"]
        if "oof" in c:
            stats["out_of_fragment"] += 1
            stats["oof_reasons"][c["oof"][:60]] = stats["oof_reasons"].get(c["oof"][:60], 0) + 1
            if c.get("tag") == "prog" and not c.get("benign"):
                # the hand-written corpus is inside the fragment on the pinned tree: leaving it is a broken tie
                report("program %s (entry point %s, options %s) was written to be inside the validated fragment, but the emitted MSL can "
                       "no longer be read: %s" % (name, c.get("ep"), c.get("set"), c["oof"]),
                       {"input.wgsl": srcs.get(name, ""), "emitted.msl": c.get("text", "")}, "left-fragment:%s" % name)
            continue
        if "mslerr" in c:
            # C08's business (valid program rejected by the backend); not a meaning question -- except for the
            # hand-written corpus, which every option set accepts on the pinned tree
            stats["msl_rejects"] += 1
            if c.get("tag") == "prog":
                report("program %s (entry point %s): msl.Compile with options %s fails: %s" % (name, c.get("ep"), c.get("set"), c["mslerr"]),
                       {"input.wgsl": srcs.get(name, "")}, "msl-rejects:%s" % name)
            continue
        plan = c["plan"]
        lk = (name, c["ep"], c["set"])
        if lk not in seen_layout:
            seen_layout.add(lk)
            lay = runner.msl_res[c["lay"]]
            if lay.get("ok"):
                bad, nchk = mslcorr.check_layout(plan.T, plan.ir, c["ast"], lay, plan, c["epf"])
                stats["layout_members_checked"] += nchk
                if bad:
                    report("C++ layout of the emitted MSL structs differs from the IR layout in %s (%s, options %s):\n%s"
                           % (name, c["ep"], c["set"], "\n".join(bad[:8])),
                           {"input.wgsl": srcs.get(name, ""), "emitted.msl": c["text"]},
                           "layout:%s:%s" % (name, bad[0].split(":")[0]))
        a = runner.ir_res[c["ir"]]
        b = runner.msl_res[c["msl"]]
        stats["runs"] += 1
        if not a.get("ok"):
            stats["ir_undefined"] += 1          # input on which the reference does not define a result / not modelled
            stats["ir_fail_reasons"][str(a.get("msg"))[:60]] = stats["ir_fail_reasons"].get(str(a.get("msg"))[:60], 0) + 1
            continue
        ill = mslgen.illformed_dc(c["text"]) if c.get("tag") in ("prog", "corpus") else None
        if ill:
            stats["disagreements"] += 1
            report("program %s (entry point %s, options %s): the emitted MSL does not compile: %s\n... %s ..."
                   % (name, c["ep"], c["set"], mslgen.ILLFORMED_DC, ill[0]),
                   {"input.wgsl": srcs.get(name, ""), "emitted.msl": c["text"]},
                   "%s:%s:%s" % (c["tag"], name, mslprogs.P.get(name, {}).get("finding") or "illformed-dc"))
            continue
        if not b.get("ok"):
            msg = str(b.get("msg"))
            if b.get("kind") == "outoffuel" or msg.startswith("not modelled") or b.get("kind") in ("decode", "crash"):
                stats["out_of_fragment"] += 1
                stats["oof_reasons"][msg[:60]] = stats["oof_reasons"].get(msg[:60], 0) + 1
                if c.get("tag") == "prog":
                    report("program %s (entry point %s, options %s) was written to be inside the validated fragment, but the MSL "
                           "interpreter cannot follow the emitted code: %s %s" % (name, c["ep"], c["set"], b.get("kind"), msg),
                           {"input.wgsl": srcs.get(name, ""), "emitted.msl": c["text"]}, "left-fragment:%s" % name)
                continue
            if c["set"] == "v31_nozero" and has_workgroup(plan):
                stats["intentional_meaning_change"] += 1      # workgroup memory deliberately left uninitialised
                continue
            report("program %s (entry point %s, options %s): the emitted MSL fails with \"%s\" where WGSL defines the result\ninput: k=%s"
                   % (name, c["ep"], c["set"], msg, c["inp"]["k"]),
                   {"input.wgsl": srcs.get(name, ""), "emitted.msl": c["text"], "input.json": json.dumps(c["inp"])},
                   "%s:%s:%s" % (c["tag"], name, msg.split(":")[0] if not msg.startswith("UB") else msg[:40]))
            stats["disagreements"] += 1
            continue
        if c["set"] == "v31_nozero" and has_workgroup(plan):
            stats["intentional_meaning_change"] += 1
            continue
        d = compare_buffers(plan, a, b)
        stats["compared"] += 1
        stats["distinct"].add((name, c["ep"], c["set"], json.dumps(c["inp"]["globals"], sort_keys=True)[:4000]))
        if d:
            stats["disagreements"] += 1
            report("program %s (entry point %s, options %s): final buffer contents differ between the IR semantics and the emitted MSL\n%s"
                   % (name, c["ep"], c["set"], d),
                   {"input.wgsl": srcs.get(name, ""), "emitted.msl": c["text"], "input.json": json.dumps(c["inp"])},
                   "%s:%s:%s" % (c["tag"], name, mslprogs.P.get(name, {}).get("finding") or policy_class(c["set"])))
        elif len(ctx.cov["samples"]) < 5 and stats["compared"] % 37 == 1:
            ctx.sample({"program": name, "entry": c["ep"], "options": c["set"], "agree_on_buffers": [plan.ir["GlobalVariables"][h]["Name"] for h in plan.storage_handles()]})


def policy_class(setname):
    """the part of the option set a known disagreement is keyed by: the buffer bounds-check policy"""
    o = mslcorr.OPTSETS.get(setname, {})
    return "buffer=%s" % o.get("buffer", "rzsw")


def missing_entries():
    """names of regenerated table entries that are not in the catalogue (when the obligation fails)"""
    path = os.path.join(vcheck.BUILD, "c04_missing.v")
    with open(path, "w") as f:
        f.write("From Coq Require Import List String.\nRequire Import Naga.Msl.Syntax Naga.Msl.Catalogue Naga.Gen.MslOpTable.\n"
                "Eval vm_compute in (map (fun e => (e_key e, e_n e)) (filter (fun e => negb (in_catalogue e)) table),\n"
                "                    map (fun e => (e_key e, e_n e)) (filter (fun c => negb (existsb (key_eqb c) table)) catalogue)).\n")
    rc, so, se = vcheck.coqc_file(path, timeout=600)
    return re.findall(r'\("([a-z0-9_]+)",\s*(\d+)\)', so + se)


MAX_REPORTS = 30


def cap_violations(ctx):
    """a systematic break (e.g. every buffer bound to the wrong slot) would print hundreds of lines: keep the first
    MAX_REPORTS, say how many more there were"""
    orig = ctx.violation
    state = {"n": 0, "dropped": 0}

    def limited(what, files=None, found_input=True, key=None, broken=None):
        for k in ctx._known:
            if k.get("status") == "open" and key is not None and k.get("match") == key:
                return orig(what, files=files, found_input=found_input, key=key, broken=broken)
        if state["n"] >= MAX_REPORTS:
            state["dropped"] += 1
            ctx.cov["violations_not_printed"] = state["dropped"]
            return False
        state["n"] += 1
        return orig(what, files=files, found_input=found_input, key=key, broken=broken)
    ctx.violation = limited


def run(ctx):
    import time
    T = {}
    t_last = [time.time()]

    def lap(name):
        T[name] = round(time.time() - t_last[0], 1)
        t_last[0] = time.time()
    cap_violations(ctx)
    tools = vcheck.build_harness(["msldrive", "goextract"])
    lap("build_harness")
    global SHAPES
    SHAPES = cfskel.Shapes(cfskel.build_exe(), "msl")
    SHAPES.ctx = ctx
    broken = None
    gen_error = None

    def gw():
        return gen.regenerate(tools, ["msloptable"])
    try:
        ok, failed, log = vcheck.proof_step(ctx, "Props/C04.v", MODEL_FILES, gen_writer=gw,
                                            extra_obligation_files=["Msl/CatalogueTie.v", "Msl/CatalogueProofs.v", "Msl/FloatConv.v", "Msl/FloatConvProofs.v",
                                                                    "Msl/VectorProofs.v", "Msl/VectorProofs2.v", "Msl/IrMeaning.v", "Msl/Agreement.v", "Msl/Run.v", "Msl/Layout.v", "Msl/Decode.v"])
    except gen.GenError as e:
        ok, failed, log = False, ["Gen/MslOpTable.v"], str(e)
        gen_error = str(e)
        ctx.cov["obligations"] = max(ctx.cov.get("obligations", 0), 1)
        ctx.cov["checker_cmd"] = "gen.py msloptable (probe) failed before coqc"
    ctx.cov["trusted_base"] += [
        "reader: lib/mslread.py (tokenizer + recursive-descent parser of the MSL subset naga emits; strict, out-of-subset items are never guessed)",
        "dialect: coq/Msl/Ops.v, Sem.v, Layout.v = my transcription of MSL 3.1 / C++14 operator, conversion, intrinsic and layout rules (choices in coq/Msl/DialectChoices.md)",
        "probe: lib/mslprobe.py + harness/cmd/msldrive (micro-programs, template abstraction) -> coq/Gen/MslOpTable.v",
        "reference semantics of the IR: coq/IR/Sem.v (irrun), shared with C01/C03/C05/C13/C15",
        "extraction: ExtrOcamlBasic only, generic JSON driver ocaml/common/driver.ml; OCaml 4.13.1",
        "differential harness: lib/mslcorr.py (input generation from IR types, slot/size computation, comparison)",
    ]
    ctx.assumptions = [
        "single invocation per run (workgroup_size irrelevant; barriers are no-ops; atomics sequential)",
        "float results are compared bit-exactly with correctly rounded add/sub/mul/div/sqrt/fma on both sides; transcendental functions, fmod and image/sampler operations are outside the modelled fragment (counted out_of_fragment)",
        "WGSL leaves NaN inputs of sign() and of float->int conversion open; those inputs are excluded (DialectChoices.md)",
        "statement-level preservation is validated per program and input by differential execution, not proved",
    ]
    if not ok:
        broken = "Coq development / regenerated table no longer checks: %s" % (gen_error or failed or log[-600:])
        if not gen_error and any("CatalogueTie" in f or "C04" in f for f in failed):
            try:
                miss = missing_entries()
                ctx.cov["table_entries_not_in_catalogue"] = ["%s@%s" % m for m in miss][:40]
                broken = "gen_table_in_catalogue fails: naga now emits a template/helper body that has no proved catalogue entry for %s" % (
                    ", ".join("%s@%s" % m for m in miss[:12]) or failed)
            except Exception as e:
                ctx.cov["missing_entries_error"] = str(e)[:300]

    lap("coq_proof_step")
    # the two interpreters are extracted and compiled side by side, while naga compiles the programs
    from concurrent.futures import ThreadPoolExecutor
    pool = ThreadPoolExecutor(2)
    fut_ir = pool.submit(ocamlbuild.build, "irrun")
    fut_msl = pool.submit(ocamlbuild.build, "mslrun")
    enums = mslcorr.Enums(tools)
    workers = max(2, min(12, (vcheck.NCPU * 3) // 4))
    runner = Runner(None, None, workers)

    # ---- probes on the boundary pool (search for the failing operator when a tie breaks; re-derives the refuted entries)
    all_probes = [p for p in mslprobe.all_probes() if not p[0].startswith(("land_", "lor_"))]
    if ctx.thorough:
        probes = all_probes
    else:
        # all scalar entries, the reductions, and a seed-rotated quarter of the vector entries
        import hashlib
        pick = lambda k: (hashlib.sha256(k.encode()).digest()[0] + ctx.seed) % 4 == 0
        probes = [p for p in all_probes if p[2] == 1 or (p[0].startswith(mslprobe.REDUCING) and p[2] == 2) or (p[2] > 1 and pick(p[0]))]
    probe_cases, probe_srcs = run_probes(ctx, tools, enums, runner, probes, ctx.scale(9, 120))

    # ---- whole programs
    setnames_all = list(mslcorr.OPTSETS)
    progs = [(n, d["src"]) for n, d in mslprogs.P.items()]
    srcs = dict(progs)
    res = mslcorr.compile_programs(tools, progs, setnames_all)
    prog_cases = []
    stats = {"runs": 0, "compared": 0, "disagreements": 0, "out_of_fragment": 0, "ir_undefined": 0, "msl_rejects": 0,
             "intentional_meaning_change": 0, "layout_members_checked": 0, "distinct": set(), "oof_reasons": {}, "ir_fail_reasons": {}}
    nprog = 0
    extra_jobs = []
    for i, (name, src) in enumerate(progs):
        r = res.get(name) or {}
        if "ir" not in r:
            ctx.violation("validation program %s is not accepted by naga: %s" % (name, r.get("err") or r.get("panic")),
                          files={"input.wgsl": src}, found_input=False, key="corpus-reject:" + name, broken="validation corpus")
            continue
        nprog += 1
        d = mslprogs.P[name]
        if ctx.thorough:
            sets = setnames_all
        else:
            others = [s for s in setnames_all if s != "default"]
            sets = ["default", others[(i + ctx.seed) % len(others)]]
        prog_cases += queue_program(ctx, enums, runner, name, r, sets, d["mode"], d["rt"], ctx.scale(2, 16), "prog")
        # per-entry-point resource maps / FakeMissingBindings
        o1, sl1 = mslcorr.binding_optset(r["ir"], enums, "epmap")
        o2, sl2 = mslcorr.binding_optset(r["ir"], enums, "fake", fake=True)
        extra_jobs.append((name, src, [o1, o2], {"epmap": sl1, "fake": sl2}))
    jobs2 = [{"id": n, "src": s, "want": ["ir"], "data": {"optsets": o}} for n, s, o, sl in extra_jobs if (ctx.thorough or hash_pick(n))]
    res2 = nagarun.parallel_batches(tools["msldrive"], "compile", jobs2, per_job_timeout=30.0, chunk=16)
    for n, s, o, sl in extra_jobs:
        r = res2.get(n)
        if r and "ir" in r:
            d = mslprogs.P[n]
            prog_cases += queue_program(ctx, enums, runner, n, r, ["epmap", "fake"], d["mode"], d["rt"], ctx.scale(1, 4), "prog", slot_maps=sl)

    # ---- repository shaders (compute entry points inside the fragment)
    corp = nagarun.corpus()
    if not ctx.thorough:
        corp = [c for c in corp if c[0] in QUICK_CORPUS]
    cres = mslcorr.compile_programs(tools, corp, ["default", "v12_restrict"] if ctx.thorough else ["default"])
    ncorp = 0
    for name, src in corp:
        r = cres.get(name) or {}
        srcs[name] = src
        if "ir" not in r or "msl" not in r:
            continue
        ncorp += 1
        prog_cases += queue_program(ctx, enums, runner, name, r, ["default", "v12_restrict"] if ctx.thorough else ["default"],
                                    "small", 4, ctx.scale(1, 6), "corpus", fuel=ctx.scale(8000, 40000))

    # ---- bounds-check policies with hostile indices (C15): the policy written out in WGSL is the reference
    pol_cases = queue_policies(ctx, tools, enums, runner, srcs)

    # ---- generated programs (lib/wgslgen.py through lib/mslgen.py)
    gen_cases, gen_asts = queue_generated(ctx, tools, enums, runner, srcs)

    lap("compile_and_queue")
    runner.irrun, runner.mslrun = fut_ir.result(), fut_msl.result()
    pool.shutdown()
    lap("extract_tools_wait")
    runner.run()
    lap("interpreters")

    n_eval, n_distinct = judge_probes(ctx, runner, probe_cases, probe_srcs)
    judge_programs(ctx, runner, prog_cases, srcs, stats)
    pstats = {"runs": 0, "compared": 0, "disagreements": 0, "out_of_fragment": 0, "ir_undefined": 0, "msl_rejects": 0,
              "intentional_meaning_change": 0, "layout_members_checked": 0, "distinct": set(), "oof_reasons": {}, "ir_fail_reasons": {}}
    judge_policies(ctx, runner, pol_cases, srcs, pstats)
    lap("judge")
    gstats = judge_generated(ctx, tools, enums, runner, gen_cases, gen_asts, srcs)
    lap("judge_generated")

    ctx.cov["probe"] = {"probe_programs": len(probes), "of_total": len(all_probes), "operand_tuples_compared": n_eval,
                        "table_entries": len(all_probes)}
    ctx.cov["whole_programs"] = {"written_programs": nprog, "repository_shaders": ncorp,
                                 "option_sets": setnames_all + ["epmap", "fake"],
                                 "runs": stats["runs"], "compared": stats["compared"], "disagreements": stats["disagreements"],
                                 "out_of_fragment": stats["out_of_fragment"], "inputs_undefined_in_reference": stats["ir_undefined"],
                                 "backend_rejections": stats["msl_rejects"], "intentional_meaning_change": stats["intentional_meaning_change"],
                                 "layout_members_checked": stats["layout_members_checked"],
                                 "out_of_fragment_reasons": dict(sorted(stats["oof_reasons"].items(), key=lambda x: -x[1])[:12]),
                                 "reference_fail_reasons": dict(sorted(stats["ir_fail_reasons"].items(), key=lambda x: -x[1])[:8])}
    ctx.cov["bounds_policies"] = {"runs": pstats["runs"], "compared": pstats["compared"], "disagreements": pstats["disagreements"],
                                  "programs": len(mslprogs.POLICY), "out_of_fragment": pstats["out_of_fragment"],
                                  "inputs_undefined_in_reference": pstats["ir_undefined"]}
    ctx.cov["generated_programs"] = {k: v for k, v in gstats.items() if k != "distinct"}
    if SHAPES is not None:
        SHAPES.run()
        ctx.cov["control_flow_shapes"] = SHAPES.evidence()
    ctx.cov["phase_seconds"] = T
    ctx.cov["programs"] = nprog + ncorp + len(mslprogs.POLICY) + gstats["programs"]
    ctx.cov["disagreements_checked"] = stats["disagreements"] + pstats["disagreements"] + gstats["disagreements"]
    ctx.cov["evaluations"] = n_eval + stats["runs"] + pstats["runs"] + gstats["runs"]
    ctx.cov["distinct_nontrivial"] = n_distinct + len(stats["distinct"]) + len(pstats["distinct"]) + len(gstats["distinct"])
    ctx.cov["traces_validated_against_impl"] = stats["compared"] + pstats["compared"] + n_eval + gstats["agree"]
    ctx.cov["rule"] = ("probe: (operator, kind, shape) x operand tuples from the 32-bit boundary pool, distinct by (probe, operands); "
                       "programs: (program, entry point, option set, generated buffer contents), distinct by those, non-trivial = both "
                       "interpreters ran to completion and final storage buffers were compared; policies: the same with hostile indices; "
                       "generated: (wgslgen program, option set, generated buffer contents) counted the same way")
    if not ctx.cov["samples"]:
        ctx.sample({"probe": probes[0][0], "program": mslprobe.program(probes[0][1], probes[0][2])[:300]})
    if broken and not ctx.violations and not ctx.known_hits:
        ctx.violation(broken + "\n(no operand tuple or program on which the emitted MSL differs from the WGSL meaning was found by the search)",
                      found_input=False, broken=broken, files={"log.txt": (gen_error or log)[-6000:]})
    elif broken and not ctx.violations:
        # only known findings were hit by the search: the broken tie itself is still new
        ctx.violation(broken, found_input=False, broken=broken, files={"log.txt": (gen_error or log)[-6000:]})
    elif broken:
        ctx.cov["broken_tie"] = broken


# ------------------------------------------------------------------ generated programs

def queue_generated(ctx, tools, enums, runner, srcs):
    """N typed random programs (lib/wgslgen.py, kept clear of the recorded findings by lib/mslgen.py), compiled under
    the default option set and one other (quick; rotating with program index and seed) or all of them (thorough),
    queued exactly like the hand-written programs: irrun on the IR vs mslrun on the parsed MSL, generated inputs."""
    n = ctx.scale(GEN_QUICK, GEN_THOROUGH)
    progs = mslgen.gen_programs(ctx.rng.fork("generated"), n)
    setnames_all = list(mslcorr.OPTSETS)
    others = [s for s in setnames_all if s != "default"]
    sets_of = {}
    jobs = []
    for k, (name, ast, src) in enumerate(progs):
        sets_of[name] = setnames_all if ctx.thorough else ["default", others[(k + ctx.seed) % len(others)]]
        srcs[name] = src
        jobs.append({"id": name, "src": src, "want": ["ir"], "data": {"optsets": [mslcorr.OPTSETS[o] for o in sets_of[name]]}})
    res = nagarun.parallel_batches(tools["msldrive"], "compile", jobs, per_job_timeout=30.0, chunk=16)
    cases = []
    for name, ast, src in progs:
        r = res.get(name) or {}
        if "ir" not in r:
            cases.append({"name": name, "rejected": str(r.get("err") or r.get("panic") or r.get("crash") or r)[:200], "tag": "gen"})
            continue
        # float inputs of generated programs are finite and exact (mode "finite": integers still come from the boundary
        # pool): WGSL lets an implementation assume NaNs and infinities are absent at run time, so a program whose
        # control flow or stored value depends on a NaN input (sign(NaN), x != NaN) has no single right answer; the
        # special values are exercised operator by operator in the probe table instead
        cases += queue_program(ctx, enums, runner, name, r, sets_of[name], ["finite", "small", "finite", "finite"], [3, 1, 4, 2],
                               ctx.scale(3, 4), "gen")
    return cases, {name: ast for name, ast, src in progs}


GEN_QUICK = 320
GEN_THOROUGH = 700


def judge_generated(ctx, tools, enums, runner, cases, asts, srcs):
    """agreement statistics; every disagreeing program is shrunk (lib/shrink.py) to a minimal program with the same
    class of disagreement and reported under the key gen:<class>:<construct signature of the shrunk program>."""
    import time
    st = {"programs": len(asts), "rejected_by_naga": 0, "rejected_by_msl_backend": 0, "runs": 0, "agree": 0, "disagreements": 0,
          "out_of_fragment": 0, "inputs_undefined_in_reference": 0, "intentional_meaning_change": 0, "layout_members_checked": 0,
          "programs_inside_fragment": 0, "out_of_fragment_reasons": {}, "reference_fail_reasons": {}, "distinct": set(),
          "disagreeing_programs": 0, "shrunk": 0, "not_shrunk_budget": 0}
    inside = set()
    seen_layout = set()
    bad = {}              # program -> first disagreeing case (class, detail, case)
    reported = set()

    def oof(why):
        st["out_of_fragment"] += 1
        st["out_of_fragment_reasons"][why[:70]] = st["out_of_fragment_reasons"].get(why[:70], 0) + 1
    for c in cases:
        name = c["name"]
        if "rejected" in c:
            st["rejected_by_naga"] += 1       # acceptance of valid programs is C08's property
            continue
        if "mslerr" in c:
            st["rejected_by_msl_backend"] += 1
            continue
        if "oof" in c:
            oof(c["oof"])
            continue
        plan = c["plan"]
        lk = (name, c["set"])
        if lk not in seen_layout:
            seen_layout.add(lk)
            lay = runner.msl_res[c["lay"]]
            if lay.get("ok"):
                lbad, nchk = mslcorr.check_layout(plan.T, plan.ir, c["ast"], lay, plan, c["epf"])
                st["layout_members_checked"] += nchk
                if lbad:
                    first = re.sub(r"\d+", "N", lbad[0].split(":", 1)[-1]).strip()
                    key = "gen:layout:" + first[:60]
                    if key not in reported:
                        reported.add(key)
                        ctx.violation("C++ layout of the emitted MSL structs differs from the IR layout in a generated program (options %s):\n%s"
                                      % (c["set"], "\n".join(lbad[:8])), files={"input.wgsl": srcs[name], "emitted.msl": c["text"]}, key=key)
        a = runner.ir_res[c["ir"]]
        b = runner.msl_res[c["msl"]]
        st["runs"] += 1
        cls, detail = mslgen.classify(plan, c["set"], a, b, has_workgroup(plan), not c["unparsed"], mslgen.illformed_dc(c["text"]))
        if cls == "undefined":
            st["inputs_undefined_in_reference"] += 1
            st["reference_fail_reasons"][detail[:60]] = st["reference_fail_reasons"].get(detail[:60], 0) + 1
        elif cls == "intentional":
            st["intentional_meaning_change"] += 1
        elif cls.startswith("oof"):
            oof(detail)
        elif cls == "agree":
            st["agree"] += 1
            inside.add(name)
            st["distinct"].add((name, c["set"], json.dumps(c["inp"]["globals"], sort_keys=True)[:4000]))
            if st["agree"] == 1:
                ctx.sample({"generated_program": srcs[name][:400], "options": c["set"], "agree_on_buffers":
                            [plan.ir["GlobalVariables"][h]["Name"] for h in plan.storage_handles()]})
        else:
            st["disagreements"] += 1
            inside.add(name)
            bad.setdefault(name, (cls, detail, c))
    st["programs_inside_fragment"] = len(inside)
    st["disagreeing_programs"] = len(bad)
    if bad:
        single = mslgen.Single(tools, enums, runner.irrun, runner.mslrun, ctx.scale(30000, 120000))
        deadline = time.time() + ctx.scale(120, 1200)
        for name, (cls, detail, c) in sorted(bad.items(), key=lambda x: len(srcs[x[0]])):
            plan = c["plan"]
            files = {"original.wgsl": srcs[name], "emitted.msl": c["text"], "input.json": json.dumps(c["inp"])}
            if time.time() < deadline:
                small, info = mslgen.shrink_case(single, asts[name], c["set"], mslgen.input_by_name(plan, c["inp"]), c["inp"]["k"],
                                                 c["inp"]["rt_len"], cls, budget=ctx.scale(300, 800), deadline=deadline + 30)
                st["shrunk"] += 1
                key = mslgen.key_of(cls, small)
                files.update({"input.wgsl": info.get("src", ""), "emitted.msl": info.get("msl", c["text"]), "original_emitted.msl": c["text"],
                              "input.json": json.dumps(info.get("input", c["inp"]))})
                detail = info.get("detail") or detail
            else:
                # out of shrinking time: one shared key per class (a signature of the whole program would change from
                # seed to seed); by then the run has already reported the shrunk ones
                st["not_shrunk_budget"] += 1
                key = "gen:%s:unshrunk" % cls
                files["input.wgsl"] = srcs[name]
            files["key.txt"] = key
            if key in reported:
                continue
            reported.add(key)
            what = ("final buffer contents differ between the IR semantics and the emitted MSL" if cls == "differ" else
                    "the emitted MSL fails (%s) where WGSL defines the result" % cls)
            ctx.violation("generated program (options %s): %s\n%s\n(input.wgsl is the shrunk program, original.wgsl the generated one)"
                          % (c["set"], what, detail), files=files, key=key)
    st["out_of_fragment_reasons"] = dict(sorted(st["out_of_fragment_reasons"].items(), key=lambda x: -x[1])[:12])
    return st


# repository shaders with compute entry points inside the fragment that run quickly (quick tier; thorough runs all)
QUICK_CORPUS = {"6220-break-from-loop.wgsl", "7048-multiple-dynamic-1.wgsl", "arrays.wgsl", "atomics.wgsl", "bitcast.wgsl",
                "break-if.wgsl", "collatz.wgsl", "compute-store-struct-compound-rmw.wgsl", "control_flow.wgsl", "globals.wgsl",
                "pointer-function-arg.wgsl", "pointers.wgsl", "select.wgsl", "struct-layout.wgsl", "switch_advanced.wgsl",
                "loops_advanced.wgsl", "hlsl_mat_cx3.wgsl", "structs.wgsl"}


def hash_pick(name):
    import hashlib
    return hashlib.sha256(name.encode()).digest()[0] % 3 == 0


# ------------------------------------------------------------------ bounds-check policies

HOSTILE = [0, 1, 2, 3, 4, 5, 7, 0x7FFFFFFF, 0x80000000, 0xFFFFFFFF, 0xFFFFFFFE, 100]


def queue_policies(ctx, tools, enums, runner, srcs):
    """For every policy program: compile the plain ("hostile") text under each checked option set; compile the
    restrict / rzsw spellings (reference) without caring about their MSL; run reference IR vs hostile MSL."""
    jobs = []
    for name, d in mslprogs.POLICY.items():
        for variant in ("hostile", "restrict", "rzsw"):
            srcs["%s/%s" % (name, variant)] = mslprogs.expand(d["src"], variant)
            jobs.append(("%s/%s" % (name, variant), srcs["%s/%s" % (name, variant)]))
    sets = [s for s in mslcorr.CHECKED if s != "v31_nozero"]
    res = mslcorr.compile_programs(tools, jobs, sets)
    cases = []
    for name, d in mslprogs.POLICY.items():
        rh = res.get(name + "/hostile") or {}
        rr = res.get(name + "/restrict") or {}
        rz = res.get(name + "/rzsw") or {}
        if "ir" not in rh or "ir" not in rr or "ir" not in rz:
            ctx.violation("policy program %s is not accepted by naga: %s" % (name, [x.get("err") for x in (rh, rr, rz)]),
                          files={"input.wgsl": srcs[name + "/hostile"]}, found_input=False, key="corpus-reject:" + name,
                          broken="validation corpus")
            continue
        plan_h = mslcorr.Plan(enums, rh["ir"], 0)
        plan_r = mslcorr.Plan(enums, rr["ir"], 0)
        plan_z = mslcorr.Plan(enums, rz["ir"], 0)
        if plan_h.why or plan_r.why or plan_z.why:
            continue
        rng = ctx.rng.fork("policy/" + name)
        inputs = []
        for i in range(ctx.scale(4, 60)):
            inp = plan_h.make_input(rng.fork(str(i)), mode="finite", rt_len=d["rt"], k=0)
            # the uniform `ix` holds the hostile indices
            for h, sp, b, ty in plan_h.globals:
                if plan_h.ir["GlobalVariables"][h]["Name"] == "ix":
                    kind = plan_h.T.scalar_kind(plan_h.T.inner(ty)["Scalar"])
                    inp["globals"][h] = {"vec": [{kind: rng.choice(HOSTILE) if rng.chance(2, 3) else rng.below(6)} for _ in range(4)]}
            inputs.append(inp)
        for sn in sets:
            idx_pol, buf_pol = mslcorr.CHECKED[sn]
            pol = buf_pol if d["kind"] == "buffer" else idx_pol
            ref_plan = plan_r if pol == "restrict" else plan_z
            m = rh["msl"].get(sn, {})
            if "text" not in m:
                continue
            try:
                ast = mslread.parse(m["text"])
            except mslread.OutOfFragment:
                continue
            epn = mslcorr.entry_names(m["info"]).get("main", "main")
            if not [f for f in ast["funcs"] if f["name"] == epn]:
                cases.append({"name": name, "set": sn, "oof": "entry point outside the reader's fragment"})
                continue
            amodel = mslcorr.ast_for_model(ast)
            for inp in inputs:
                cases.append({"name": name, "set": sn, "policy": pol, "plan": plan_h, "ref": ref_plan, "inp": inp,
                              "ir": runner.ir(ref_plan.ir_request(inp, FUEL)),
                              "msl": runner.msl(plan_h.msl_request(amodel, epn, inp, FUEL)), "text": m["text"]})
    return cases


def judge_policies(ctx, runner, cases, srcs, stats):
    reported = set()
    for c in cases:
        if "oof" in c:
            stats["out_of_fragment"] += 1
            continue
        a = runner.ir_res[c["ir"]]
        b = runner.msl_res[c["msl"]]
        stats["runs"] += 1
        name = c["name"]
        if not a.get("ok"):
            stats["ir_undefined"] += 1
            continue
        files = {"input.wgsl": srcs[name + "/hostile"], "reference_%s.wgsl" % c["policy"]: srcs["%s/%s" % (name, c["policy"])],
                 "emitted.msl": c["text"], "input.json": json.dumps(c["inp"])}
        if not b.get("ok"):
            msg = str(b.get("msg"))
            if msg.startswith("not modelled") or b.get("kind") in ("outoffuel", "decode"):
                stats["out_of_fragment"] += 1
                continue
            stats["disagreements"] += 1
            key = "policy:%s:%s:%s" % (c["policy"], name, "ub" if msg.startswith("UB") else "fail")
            if key not in reported:
                reported.add(key)
                ctx.violation("bounds-check policy %s (options %s), program %s: with hostile indices the emitted MSL runs into \"%s\"\nindices: %s"
                              % (c["policy"], c["set"], name, msg, index_vec(c)), files=files, key=key)
            continue
        stats["compared"] += 1
        stats["distinct"].add((name, c["set"], json.dumps(c["inp"]["globals"], sort_keys=True)[:3000]))
        d = compare_buffers(c["plan"], a, b)
        if d:
            stats["disagreements"] += 1
            key = "policy:%s:%s:value" % (c["policy"], name)
            if key not in reported:
                reported.add(key)
                ctx.violation("bounds-check policy %s (options %s), program %s: result differs from the policy value\n%s\nindices: %s"
                              % (c["policy"], c["set"], name, d, index_vec(c)), files=files, key=key)


def index_vec(c):
    for h, sp, b, ty in c["plan"].globals:
        if c["plan"].ir["GlobalVariables"][h]["Name"] == "ix":
            return json.dumps(c["inp"]["globals"][h])
    return "?"
