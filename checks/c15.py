"""C15 — generated code has no reachable undefined behaviour on hostile data.

Deciding method: Coq lemmas for ALL 32-bit operands/indices (Props/C15.v: guard
forms incl. the MSL runtime-array guard for all sizes/offsets/strides; the walk
that decides which workgroup variables are zero-initialised; SPIR-V wrapped
div/mod/neg/abs total and exact; shifts and float->int refuted), the
hardened-operator templates tied to today's naga by the regenerated probe table
(Gen/SpvOpTable.v, obligation gen_table_in_catalogue), plus, per program, the
TRAPPING interpreters of the emitted code on hostile operands and indices: an
execution that reaches an undefined operation, an access outside the indexed
object / bound buffer or a read of memory that was never written is a failed
execution ("UB: ...").

Legs (each executes the code naga emitted):
  SPIR-V  hardened operators; zero initialisation of workgroup variables of every type class x every place the
          variable can be referenced from (lib/c15progs.py: entry point, helper, helper of helper, if / switch /
          loop body / continuing / for-update / break-if ...), workgroup memory starting UNDEFINED; index policies
  HLSL    hardened operators, zero initialisation (same program family) through hlslrun (lib/c03diff.py)
  MSL     every bounds-check policy (Index / Buffer x Restrict / ReadZeroSkipWrite) x every kind of indexable object
          with hostile indices against the policy written out in WGSL, buffers given by their byte size;
          hardened operators incl. shifts and float->int; zero initialisation (lib/c15msl.py, mslrun)
  GLSL    hardened operators and zero initialisation through glslrun (lib/c15glsl.py); GLSL has no index policy"""
import json
import time
from concurrent.futures import ThreadPoolExecutor

import c15msl
import c15progs
import c15spv
import gen
import nagarun
import ocamlbuild
import spvcheck
import vcheck

LEVEL = "proof"

HOSTILE_I = [0, 1, 0xFFFFFFFF, 0x80000000, 0x7FFFFFFF, 2, 0xFFFFFFFE, 31, 32, 33]

# operator programs: every hardened operator on operands read from a buffer
OPS_SRC = """
@group(0) @binding(0) var<storage, read_write> o: array<i32, 6>;
@group(0) @binding(1) var<storage, read> a: array<i32, 2>;
@group(0) @binding(2) var<storage, read_write> ou: array<u32, 2>;
@group(0) @binding(3) var<storage, read> au: array<u32, 2>;
@compute @workgroup_size(1)
fn main() {
  o[0] = a[0] / a[1];
  o[1] = a[0] % a[1];
  o[2] = -a[0];
  o[3] = abs(a[0]);
  ou[0] = au[0] / au[1];
  ou[1] = au[0] % au[1];
  let v = vec2<i32>(a[0], a[1]) / vec2<i32>(a[1], a[0]);
  o[4] = v.x; o[5] = v.y;
}
"""

WG_SRC = """
var<workgroup> w: array<u32, 4>;
var<workgroup> ws: i32;
@group(0) @binding(0) var<storage, read_write> o: array<u32, 3>;
@compute @workgroup_size(1)
fn main(@builtin(local_invocation_id) lid: vec3<u32>) {
  o[0] = w[0] + w[3];
  o[1] = u32(ws);
  w[1] = 7u;
  o[2] = w[1];
}
"""

# probes of recorded findings (uninitialised private / function variables in SPIR-V)
PROBES = [
    ("spv:private-var-not-zeroed",
     "var<private> p: u32;\n@group(0) @binding(0) var<storage, read_write> o: array<u32>;\n@compute @workgroup_size(1) fn main() { o[0] = p; }\n"),
    ("spv:function-var-not-zeroed",
     "@group(0) @binding(0) var<storage, read_write> o: array<u32>;\n@compute @workgroup_size(1) fn main() { var x: u32; o[0] = x; }\n"),
    ("spv:shift-amount-unmasked",
     "@group(0) @binding(0) var<storage, read_write> o: array<u32>;\n@compute @workgroup_size(1) fn main() { o[1] = o[0] << o[2]; }\n"),
    ("spv:float-to-int-unclamped",
     "@group(0) @binding(0) var<storage, read_write> o: array<u32>;\n@compute @workgroup_size(1) fn main() { o[1] = u32(bitcast<f32>(o[0])); }\n"),
]

# dynamic indexing with hostile indices under the SPIR-V Index bounds-check policies
INDEX_SRC = """
@group(0) @binding(0) var<storage, read_write> o: array<u32>;
@group(0) @binding(1) var<storage, read_write> d: array<u32, 4>;
@group(0) @binding(2) var<storage, read> ix: array<u32, 2>;
@compute @workgroup_size(1)
fn main() {
  o[0] = d[ix[0]];
  d[ix[1]] = 99u;
  o[1] = o[ix[0]];
}
"""


def arr_u(vals):
    return {"arr": [{"u": v} for v in vals]}


def arr_i(vals):
    return {"arr": [{"i": v} for v in vals]}


def spv_words_opts(tools, src, opts):
    r = nagarun.run_batch(tools["spvdrive"], "compile", [{"id": 0, "src": src, "opts": opts}])[0]
    return r


def ops_inputs():
    inputs = []
    for x in HOSTILE_I:
        for y in HOSTILE_I:
            inputs.append({"buffers": {"0:0": arr_i([0] * 6), "0:1": arr_i([x, y]), "0:2": arr_u([0, 0]), "0:3": arr_u([x, y])}})
    return inputs


# ------------------------------------------------------------------ SPIR-V leg (worker thread: compile + run; judged in the main thread)

def spirv_work(tools, exe_ir, exe_spv, workers):
    T = {}
    t0 = time.time()
    zi = c15progs.zero_init_programs() + c15progs.multi_entry_programs()
    progs = [("ops", OPS_SRC), ("wg", WG_SRC)] + [("probe%d" % i, src) for i, (_k, src) in enumerate(PROBES)] + [(n, s) for n, s, _m in zi]
    comp = spvcheck.compile_many(tools, progs)
    T["compile"] = round(time.time() - t0, 1)
    t0 = time.time()
    probe_ins = [{"buffers": {"0:0": arr_u([v, 0, w])}} for v, w in ((1, 40), (0x7FC00000, 32), (0xFF800000, 33), (0x4F800000, 31))]
    zi_in = [{"buffers": {"0:0": arr_u([5] * 8)}}]
    items = [("ops", ops_inputs()), ("wg", [{"buffers": {"0:0": arr_u([5, 5, 5])}}])]
    items += [("probe%d" % i, probe_ins) for i in range(len(PROBES))]
    items += [(n, zi_in) for n, _s, _m in zi]
    runnable = []
    for name, ins in items:
        c = comp.get(name)
        if c is not None and "spv" in c and "ir" in c and not ("err" in c or "crash" in c or "panic" in c):
            runnable.append((name, ins, c))
    ep_of = {n: m.get("ep") for n, _s, m in zi}
    res = c15spv.run_items(exe_ir, exe_spv, [(c, ins, ep_of.get(n_)) for n_, ins, c in runnable], workers=workers)
    results = {name: (ins, r) for (name, ins, _c), r in zip(runnable, res)}
    T["run"] = round(time.time() - t0, 1)
    # index policies
    t0 = time.time()
    pol = {}
    for p, name in ((1, "restrict"), (2, "rzsw")):
        c = spv_words_opts(tools, INDEX_SRC, {"bounds_index": p})
        if "words" not in c:
            pol[name] = {"rejected": c}
            continue
        jobs, exp = [], []
        d0 = [10, 20, 30, 40]
        o0 = [1, 2, 3]
        for i0 in [0, 3, 4, 5, 0x7FFFFFFF, 0x80000000, 0xFFFFFFFF]:
            for i1 in [1, 4, 0xFFFFFFFF]:
                jobs.append({"words": c["words"], "ep": "main", "fuel": 20000, "builtins": {},
                             "buffers": {"0:0": arr_u(o0), "0:1": arr_u(d0), "0:2": arr_u([i0, i1])}})
                d = list(d0)
                o = list(o0)
                if name == "restrict":
                    o[0] = d[min(i0, 3)]
                    d[min(i1, 3)] = 99
                    o[1] = o[min(i0, 2)]
                else:
                    o[0] = d[i0] if i0 < 4 else 0
                    if i1 < 4:
                        d[i1] = 99
                    o[1] = o[i0] if i0 < 3 else 0
                exp.append({"0:0": arr_u(o), "0:1": arr_u(d)})
        pol[name] = {"jobs": jobs, "exp": exp, "outs": c15spv.run_parallel(exe_spv, jobs, workers, chunk=11)}
    T["index_policies"] = round(time.time() - t0, 1)
    return {"comp": comp, "results": results, "zi": zi, "pol": pol, "T": T}


def spirv_judge(ctx, W):
    comp, results = W["comp"], W["results"]
    nrun = 0
    nub = 0

    def rejected(name):
        c = comp.get(name) or {}
        return {k: v for k, v in c.items() if k in ("err", "stage", "crash", "panic", "spv_err")}
    # ---- 1. hardened operators on hostile operands, default options
    if "ops" not in results:
        ctx.violation("operator program rejected: %s" % rejected("ops"), files={"input.wgsl": OPS_SRC}, key="c15:ops-rejected")
    else:
        ins, rs = results["ops"]
        for inp, (cls, detail, _a, _b) in zip(ins, rs or []):
            nrun += 1
            if cls != "agree":
                nub += 1
                ctx.violation("hardened operators on operands %s: %s %s" % (json.dumps(inp["buffers"]["0:1"]), cls, detail),
                              files={"input.wgsl": OPS_SRC, "inputs.json": json.dumps(inp)}, key="spv:ops:%s:%s" % (cls, detail[:60]))
                break
    # ---- 2. workgroup memory reads as zero (zero-init polyfill): the original program ...
    if "wg" not in results:
        ctx.violation("workgroup program rejected: %s" % rejected("wg"), files={"input.wgsl": WG_SRC}, key="c15:wg-rejected")
    else:
        for cls, detail, _a, _b in results["wg"][1] or []:
            nrun += 1
            if cls != "agree":
                ctx.violation("workgroup variable read before any write: %s %s" % (cls, detail),
                              files={"input.wgsl": WG_SRC}, key="spv:workgroup-zero-init:%s" % cls)
    # ---- ... and the family: type class x place the variable is referenced from
    zstats = {"programs": 0, "agree": 0, "not_zero": 0, "out_of_fragment": 0, "sites": len(c15progs.SITES), "type_classes": sorted(set(c15progs.WG_CLASS.values()))}
    seen = set()
    for name, src, meta in W["zi"]:
        if name not in results or results[name][1] is None:
            ctx.violation("zero-initialisation program %s rejected / cannot be run: %s" % (name, rejected(name)), files={"input.wgsl": src},
                          found_input=False, key="c15:zi-rejected:%s" % meta["site"], broken="C15 zero-initialisation corpus")
            continue
        zstats["programs"] += 1
        for cls, detail, _a, b in results[name][1]:
            nrun += 1
            if cls == "agree":
                zstats["agree"] += 1
            elif cls in ("spv_ub", "differ", "spv_fail"):
                zstats["not_zero"] += 1
                nub += 1
                key = "spv:workgroup-zero-init:%s:%s" % (meta["site"], "uninitialised-read" if "undefined value" in detail else cls)
                if key not in seen:
                    seen.add(key)
                    ctx.violation("SPIR-V: workgroup variable(s) of type %s referenced from `%s` only: the first read does not yield zero "
                                  "(workgroup memory starts undefined): %s %s" % ("/".join(meta["types"]), meta["site"], cls, detail),
                                  files={"input.wgsl": src}, key=key)
            else:
                zstats["out_of_fragment"] += 1
    # ---- 3. probes of recorded findings
    for i, (key, src) in enumerate(PROBES):
        if "probe%d" % i not in results:
            continue
        ins, rs = results["probe%d" % i]
        for inp, (cls, detail, _a, _b) in zip(ins, rs or []):
            nrun += 1
            if cls in ("spv_ub", "differ", "spv_fail"):
                nub += 1
                ctx.violation("SPIR-V: %s on %s: %s" % (cls, json.dumps(inp["buffers"]["0:0"]), detail),
                              files={"input.wgsl": src, "inputs.json": json.dumps(inp)}, key=key)
                break
    # ---- 4. hostile indices under the Index bounds-check policies (expected values by the policy)
    pol_stats = {}
    for name, P in W["pol"].items():
        if "rejected" in P:
            ctx.violation("index program rejected under bounds_index=%s: %s" % (name, P["rejected"]), files={"input.wgsl": INDEX_SRC},
                          key="spv:index-policy-rejected:%d" % (1 if name == "restrict" else 2))
            continue
        bad = 0
        for j, e, out in zip(P["jobs"], P["exp"], P["outs"]):
            nrun += 1
            if not out.get("ok"):
                bad += 1
                ctx.violation("bounds policy %s: execution of the emitted SPIR-V fails on hostile index %s: %s %s"
                              % (name, json.dumps(j["buffers"]["0:2"]), out.get("kind"), out.get("msg")),
                              files={"input.wgsl": INDEX_SRC, "inputs.json": json.dumps(j["buffers"])},
                              key="spv:index-policy:%s:%s" % (name, "oob-access" if "out of bounds" in (out.get("msg") or "") else (out.get("kind") or "fail")))
                break
            got = {k: out["buffers"].get(k) for k in e}
            if got != e:
                bad += 1
                ctx.violation("bounds policy %s: wrong policy value on index %s: got %s expected %s"
                              % (name, json.dumps(j["buffers"]["0:2"]), json.dumps(got), json.dumps(e)),
                              files={"input.wgsl": INDEX_SRC, "inputs.json": json.dumps(j["buffers"])},
                              key="spv:index-policy:%s:wrong-value" % name)
                break
        pol_stats[name] = {"runs": len(P["jobs"]), "bad": bad}
    ctx.cov["spirv_hostile"] = {"runs": nrun, "undefined_or_wrong": nub, "index_policies": pol_stats, "workgroup_zero_init": zstats,
                                "seconds": W["T"]}
    return nrun


# ------------------------------------------------------------------ HLSL leg

def hlsl_work(tools, exe_ir, hlslrun, rng, n_ops, quick):
    import c03diff as D
    D.reset_enums()
    t0 = time.time()
    hstats, hrecs = D.validate(tools, exe_ir, hlslrun, [("c15_ops", OPS_SRC), ("c15_wg", WG_SRC)], ["default51", "sm60"], n_ops, rng)
    t1 = time.time()
    zi = c15progs.zero_init_programs(groups=c15progs.WG_GROUPS_TEXT) + c15progs.private_function_programs()
    zstats, zrecs = D.validate(tools, exe_ir, hlslrun, [(n, s) for n, s, _m in zi], ["default51"], 1, rng.fork("zi"), want_validate=False)
    t2 = time.time()
    # index leg: the objects RestrictIndexing governs (function / private / workgroup arrays, vectors, matrices, by-value
    # objects): HLSL of the plain program against the IR meaning of the Restrict policy written out in WGSL, hostile indices
    ixp = [(n, mac, m) for n, mac, m in c15progs.index_programs() if m["kind"] == "index" and not m.get("atomic")]
    if quick:
        ixp = [p for p in ixp if p[2].get("family") == "derived-index" or p[0] in HLSL_INDEX_SAMPLE]
    tuples = {}
    for n, _mac, m in ixp:
        L = m["len"]
        hv = [0, L[0] - 1, L[0], L[0] + 1, 0x7FFFFFFF, 0x80000000, 0x80000001, 0xFFFFFFFD, 0xFFFFFFFE, 0xFFFFFFFF, 5, 6, 7]
        tl = [(hv[k], hv[(k + 4) % len(hv)], (k % L[1]) if len(L) > 1 else 0, ((k + 1) % L[1]) if len(L) > 1 else 0) for k in range(len(hv))]
        if len(L) > 1:
            tl += [(k % L[0], (k + 1) % L[0], hv[k], hv[(k + 4) % len(hv)]) for k in range(len(hv))]
        tuples[n] = (tl, m["signed"])

    def fix_input(name, prog, inp, k):
        tl, signed = tuples[name]
        tup = tl[k % len(tl)]
        for gi, g in enumerate(prog.ir["GlobalVariables"]):
            if g["Name"] == "ix":
                v = (arr_i if signed else arr_u)(list(tup))
                inp["ir_globals"][gi] = v
                for gj, reg, th, _ro in inp["storage"]:
                    if gj == gi:
                        inp["buffers"][reg], _m = prog.types.to_bytes(th, v)
    n_ix = max(len(t[0]) for t in tuples.values()) if tuples else 0
    istats, irecs = D.validate(tools, exe_ir, hlslrun, [(n, c15progs.expand(mac, "hostile")) for n, mac, _m in ixp], ["default51"],
                               n_ix, rng.fork("ix"), want_validate=False,
                               ref_sources={n: c15progs.expand(mac, "restrict") for n, mac, _m in ixp}, fix_input=fix_input)
    return {"ops": (hstats, hrecs), "zi": (zstats, zrecs), "meta": {n: (s, m) for n, s, m in zi},
            "ix": (istats, irecs), "ix_src": {n: c15progs.expand(mac, "hostile") for n, mac, _m in ixp},
            "T": {"operators": round(t1 - t0, 1), "zero_init": round(t2 - t1, 1), "index": round(time.time() - t2, 1)}}


HLSL_INDEX_SAMPLE = ("ix_function_array_u32", "ix_private_array_vec3f", "ix_workgroup_array_s12", "ix_function_vec3_u32", "ix_function_mat4x2",
                     "ix_function_array_of_arrays", "ix_function_array_vector_signed", "ix_pointer_param_function", "ix_value_array_let",
                     "ix_value_matrix_let")


def hlsl_judge(ctx, W):
    keep = ("runs", "agree", "mismatch", "hlsl_ub", "out_of_fragment", "ir_undefined", "fuel", "not_compiled")
    hstats, hrecs = W["ops"]
    out = {k: hstats[k] for k in keep if k in hstats}
    for rec in hrecs:
        if rec["verdict"] in ("mismatch", "hlsl_ub"):
            ctx.violation("HLSL: %s on hostile operands (program %s, options %s): %s" % (rec["verdict"], rec.get("program"), rec.get("optname"), rec.get("detail")),
                          files={"input.wgsl": OPS_SRC, "record.json": json.dumps({k: v for k, v in rec.items() if k not in ("hlsl",)}, default=str)[:20000]},
                          key="hlsl:%s:%s" % (rec["verdict"], str(rec.get("detail"))[:60]))
            break
    zstats, zrecs = W["zi"]
    out["zero_init"] = {k: zstats[k] for k in keep if k in zstats}
    out["zero_init"]["out_of_fragment_reasons"] = zstats.get("out_of_fragment_reasons")
    seen = set()
    for rec in zrecs:
        if rec["verdict"] in ("mismatch", "hlsl_ub"):
            src, meta = W["meta"].get(rec.get("program"), ("", {"site": "?", "types": [], "space": "?"}))
            key = "hlsl:zero-init:%s:%s:%s" % (meta["space"], meta["site"], rec["verdict"])
            if key in seen:
                continue
            seen.add(key)
            ctx.violation("HLSL: %s variable(s) of type %s referenced from `%s`: the first read does not yield zero: %s %s"
                          % (meta["space"], "/".join(meta["types"]), meta["site"], rec["verdict"], rec.get("detail")),
                          files={"input.wgsl": src, "record.json": json.dumps({k: v for k, v in rec.items() if k not in ("hlsl",)}, default=str)[:20000]},
                          key=key)
    istats, irecs = W.get("ix", ({}, []))
    out["index"] = {k: istats[k] for k in keep if k in istats}
    out["index"]["programs"] = istats.get("programs")
    out["index"]["out_of_fragment_reasons"] = istats.get("out_of_fragment_reasons")
    seen = set()
    for rec in irecs:
        if rec["verdict"] in ("mismatch", "hlsl_ub", "reference_rejected"):
            name = rec.get("program")
            fam = "derived-index" if "derived" in str(name) else name
            key = "hlsl:index:restrict:%s:%s" % (fam if rec["verdict"] != "hlsl_ub" else str(name), rec["verdict"])
            if key in seen:
                continue
            seen.add(key)
            ctx.violation("HLSL, RestrictIndexing (default options), program %s: %s on hostile indices - the emitted HLSL does not confine the "
                          "access to the object as the Restrict policy (index clamped to the last element) prescribes: %s"
                          % (name, rec["verdict"], rec.get("detail")),
                          files={"input.wgsl": W.get("ix_src", {}).get(name, rec.get("src", "")),
                                 "record.json": json.dumps({k: v for k, v in rec.items() if k not in ("hlsl",)}, default=str)[:20000],
                                 "emitted.hlsl": str(rec.get("hlsl", ""))},
                          key=key)
    out["seconds"] = W["T"]
    return out, hstats["runs"] + zstats["runs"] + istats.get("runs", 0)


# ------------------------------------------------------------------ MSL leg

def msl_ops_programs():
    progs = [("divmod", OPS_SRC, {})] + [(n, s, {}) for n, s in c15progs.OPS_EXT.items()]
    return [("ops_" + n, s, m) for n, s, m in progs]


def msl_ops_inputs(plan, name):
    """operands (x, y) in a[0..1] / au[0..1]; float conversions take float bit patterns"""
    pairs = []
    if name in ("ops_f2i", "ops_f2u"):
        F = c15progs.HOSTILE_F
        pairs = [(F[k], F[(k + 3) % len(F)]) for k in range(len(F))]
    else:
        pairs = [(x, y) for x in HOSTILE_I for y in HOSTILE_I]
    out = []
    for x, y in pairs:
        gl = []
        for h, sp, b, ty in plan.globals:
            nm = plan.ir["GlobalVariables"][h]["Name"]
            n = plan.T.inner(ty)["Size"]["Constant"]
            gl.append({"o": arr_i([0] * n), "a": arr_i([x, y]), "ou": arr_u([0] * n), "au": arr_u([x, y])}[nm])
        out.append({"globals": gl, "rt_len": 1, "k": 0, "operands": [x, y]})
    return out


def msl_work(ctx_like, tools, exe_ir, mslrun, workers, quick):
    import mslcorr
    T = {}
    t0 = time.time()
    enums = mslcorr.Enums(tools)
    batch = c15msl.Batch(exe_ir, mslrun, workers)
    idx = c15msl.queue_index(ctx_like, tools, enums, batch, quick)
    T["index_queue"] = round(time.time() - t0, 1)
    t0 = time.time()
    ops = c15msl.queue_plain(ctx_like, tools, enums, batch, msl_ops_programs(), ["default"], msl_ops_inputs, "operators")
    zi_progs = c15progs.zero_init_programs(groups=c15progs.WG_GROUPS_TEXT) + c15progs.private_function_programs()

    def zi_inputs(plan, name):
        return [{"globals": [arr_u([5] * 8) if sp == "SpaceStorage" else None for h, sp, b, ty in plan.globals], "rt_len": 1, "k": 0}]
    zi = c15msl.queue_plain(ctx_like, tools, enums, batch, zi_progs, ["default"], zi_inputs, "zero-init")
    T["plain_queue"] = round(time.time() - t0, 1)
    t0 = time.time()
    batch.run()
    T["interpreters"] = round(time.time() - t0, 1)
    T["ir_runs"], T["msl_runs"] = len(batch.ir_reqs), len(batch.msl_reqs)
    batch.ir_reqs, batch.msl_reqs, batch._ir_memo = [], [], {}      # (only the results travel back to the parent process)
    return {"batch": batch, "idx": idx, "ops": ops, "zi": zi, "T": T}


def msl_judge(ctx, W):
    batch = W["batch"]
    ist = c15msl.judge_index(ctx, batch, W["idx"])

    def f_class(bits, hi):
        import struct
        if (bits & 0x7F800000) == 0x7F800000 and (bits & 0x007FFFFF):
            return "nan"
        v = struct.unpack("<f", struct.pack("<I", bits))[0]
        return "saturate-high" if v >= hi else ("saturate-low" if v < (-hi if hi == 2147483648.0 else 0.0) else "in-range")

    def ops_key(c, kind, detail):
        if kind == "value":
            # "buffer o: ... .arr[2].i: x vs y": the output element, and for the conversions the class of the operand feeding it
            elem = detail.split(" MSL ")[-1].split(":")[0].strip()
            if c["name"] in ("ops_f2i", "ops_f2u"):
                ops = c["inp"].get("operands", [0, 0])
                src = ops[1] if elem.startswith(".arr[2]") else ops[0]
                return "msl:ops:%s:%s" % (c["name"][4:], f_class(src, 2147483648.0 if c["name"] == "ops_f2i" else 4294967296.0))
            return "msl:ops:%s:%s%s" % (c["name"][4:], detail.split(":")[0].replace("buffer ", ""), elem)
        return "msl:ops:%s:ub:%s" % (c["name"][4:], detail[:40])

    def nan_operand(c):
        # WGSL leaves the value of a float->int conversion of NaN open (an indeterminate value, not undefined behaviour)
        return c["name"] in ("ops_f2i", "ops_f2u") and any((b & 0x7F800000) == 0x7F800000 and (b & 0x007FFFFF) for b in c["inp"].get("operands", []))
    ost = c15msl.judge_plain(ctx, batch, W["ops"], ops_key, lambda c: "operands %s" % [hex(v) for v in c["inp"].get("operands", [])],
                             value_open=nan_operand)
    zst = c15msl.judge_plain(ctx, batch, W["zi"],
                             lambda c, kind, d: "msl:zero-init:%s:%s:%s" % (c["meta"]["space"], c["meta"]["site"], kind),
                             lambda c: "%s variable(s) of type %s referenced from `%s`: the first read does not yield zero"
                             % (c["meta"]["space"], "/".join(c["meta"]["types"]), c["meta"]["site"]))
    out = {"hostile_indices": ist, "operators": ost, "zero_init": zst, "seconds": W["T"],
           "policies": "Index and Buffer x {Restrict, ReadZeroSkipWrite} (option sets default, v12_restrict, v23_mixed, v30_mixed2 of lib/mslcorr.py); "
                       "Unchecked promises nothing and is not run; Image / BindingArray policies: textures are outside the MSL interpreter's fragment"}
    return out, ist["runs"] + ost["runs"] + zst["runs"], ist["distinct"] + ost["agree"] + zst["agree"]


MAX_REPORTS = 30


def cap_violations(ctx):
    """a systematic break (e.g. every Restrict clamp off by one) fails dozens of programs: print the first MAX_REPORTS
    distinct sites, count the rest (known findings are never cut off)"""
    orig = ctx.violation
    state = {"n": 0, "dropped": 0}

    def limited(what, files=None, found_input=True, key=None, broken=None):
        for k in ctx._known:
            if k.get("status") == "open" and key is not None and k.get("match") == key:
                return orig(what, files=files, found_input=found_input, key=key, broken=broken)
        if state["n"] >= MAX_REPORTS:
            state["dropped"] += 1
            ctx.cov["violations_not_printed"] = state["dropped"]
            return False
        state["n"] += 1
        return orig(what, files=files, found_input=found_input, key=key, broken=broken)
    ctx.violation = limited


def _leg(fn, args):
    try:
        return True, fn(*args)
    except Exception as e:
        import traceback
        return False, "%s: %s\n%s" % (type(e).__name__, e, traceback.format_exc()[-1500:])


class CtxLike:
    """what the worker threads may use of ctx (forked in the main thread: no shared mutable state)"""
    def __init__(self, ctx, tag):
        self.seed = ctx.seed
        self.rng = ctx.rng.fork(tag)
        self.thorough = ctx.thorough


def run(ctx):
    T = {}
    t_last = [time.time()]

    def lap(name):
        T[name] = round(time.time() - t_last[0], 1)
        t_last[0] = time.time()
    cap_violations(ctx)
    tools = vcheck.build_harness(["nagadrive", "goextract", "spvdrive", "hlsldrive", "msldrive", "glsldrive"])
    lap("build_harness")
    ok, failed, log = vcheck.proof_step(
        ctx, "Props/C15.v", ["Guards/Guards.v", "Spv/Ops.v", "Spv/Catalogue.v", "Spv/CatalogueProofs.v"],
        gen_writer=lambda: gen.regenerate(tools, ["irenums", "spvoptable"]),
        extra_obligation_files=["Spv/OpTableCheck.v"])
    lap("coq_proof_step")
    ctx.cov["trusted_base"] += [
        "Flocq / Reals axioms where Print Assumptions lists them (float templates share definitions with the integer ones)",
        "probe (lib/spvcheck.py: micro-programs per operator, template abstraction) + gen.py -> coq/Gen/SpvOpTable.v",
        "extraction ExtrOcamlBasic only; tools irrun (IR/Sem.v), spvrun (Spv/Sem.v), hlslrun (Hlsl/Sem.v), mslrun (Msl/Sem.v), glslrun (Glsl/Sem.v): "
        "undefined operations, out-of-object accesses and reads of never-written memory are failed executions",
        "SPIR-V operation semantics transcribed from the SPIR-V 1.6 / GLSL.std.450 specifications (Spv/Ops.v); MSL / HLSL / GLSL dialect "
        "semantics and readers of C04 / C03 / C05 (lib/mslread.py, lib/hlslread.py, lib/glslread.py)",
        "the policy written out in WGSL (lib/c15progs.py expand()) as the reference of the MSL index leg; buffers of runtime-sized arrays "
        "modelled as values with exactly the elements whose bytes lie inside the given byte size (lib/c15msl.py)",
    ]
    ctx.assumptions = [
        "single invocation per run (local_invocation_id = 0: the invocation that runs the zero-initialisation); barriers are no-ops",
        "a storage binding holds at least one element of its runtime-sized array (WebGPU minimum binding size; theorem "
        "c15_msl_runtime_array_guard_needs_min_binding_size shows the MSL guard needs it)",
        "statement-level absence of undefined behaviour is validated per program and input by the trapping interpreters, not proved",
    ]
    broken = None
    if not ok:
        broken = "Coq development no longer checks: %s" % (failed or log[-600:])
    with ThreadPoolExecutor(5) as ex:       # (one lock and one build directory per tool)
        exes = list(ex.map(ocamlbuild.build, ["irrun", "spvrun", "hlslrun", "mslrun", "glslrun"]))
    exe_ir, exe_spv, exe_hlsl, exe_msl, exe_glsl = exes
    lap("extract_tools")
    quick = not ctx.thorough
    workers = max(2, min(6, vcheck.NCPU // 3))
    legs = {}
    errors = {}
    hl_rng = ctx.rng.fork("hlsl")
    msl_ctx = CtxLike(ctx, "msl")
    glsl_ctx = CtxLike(ctx, "glsl")
    # one PROCESS per leg: the legs are dominated by Python work (JSON of IR dumps and ASTs, the text readers), threads would
    # serialise on the interpreter lock
    import multiprocessing
    jobs = [("spirv", spirv_work, (tools, exe_ir, exe_spv, workers)),
            ("hlsl", hlsl_work, (tools, exe_ir, exe_hlsl, hl_rng, ctx.scale(24, 120), quick)),
            ("msl", msl_work, (msl_ctx, tools, exe_ir, exe_msl, workers, quick)),
            ("glsl", glsl_work, (glsl_ctx, tools, exe_ir, exe_glsl, workers, quick))]
    from concurrent.futures import ProcessPoolExecutor
    with ProcessPoolExecutor(len(jobs), mp_context=multiprocessing.get_context("fork")) as ex:
        fs = [(name, ex.submit(_leg, fn, args)) for name, fn, args in jobs]
        for name, f in fs:
            try:
                okk, val = f.result()
            except Exception as e:          # the leg's process died
                okk, val = False, "%s: %s" % (type(e).__name__, e)
            if okk:
                legs[name] = val
            else:
                errors[name] = val
    lap("legs_compile_and_run")
    nrun = 0
    ndistinct = 0
    if "spirv" in legs:
        n = spirv_judge(ctx, legs["spirv"])
        nrun += n
        ndistinct += n
    else:
        ctx.violation("SPIR-V leg could not run: %s" % errors.get("spirv"), found_input=False, broken="SPIR-V leg", key="c15:leg:spirv")
    text = {}
    if "hlsl" in legs:
        text["hlsl"], n = hlsl_judge(ctx, legs["hlsl"])
        nrun += n
        ndistinct += n
    else:
        text["hlsl"] = "not available: %s" % errors.get("hlsl")
        ctx.violation("HLSL leg could not run: %s" % errors.get("hlsl"), found_input=False, broken="HLSL leg", key="c15:leg:hlsl")
    if "msl" in legs:
        text["msl"], n, d = msl_judge(ctx, legs["msl"])
        nrun += n
        ndistinct += d
    else:
        text["msl"] = "not available: %s" % errors.get("msl")
        ctx.violation("MSL leg could not run: %s" % errors.get("msl"), found_input=False, broken="MSL leg", key="c15:leg:msl")
    if "glsl" in legs:
        text["glsl"], n = glsl_judge(ctx, legs["glsl"])
        nrun += n
        ndistinct += n
    else:
        text["glsl"] = "not available: %s" % errors.get("glsl")
        ctx.violation("GLSL leg could not run: %s" % errors.get("glsl"), found_input=False, broken="GLSL leg", key="c15:leg:glsl")
    lap("judge")
    ctx.cov["text_backends_hostile"] = text
    ctx.cov["phase_seconds"] = T
    ctx.cov["evaluations"] = nrun
    ctx.cov["distinct_nontrivial"] = ndistinct
    ctx.cov["traces_validated_against_impl"] = nrun
    ctx.cov["rule"] = ("hostile operand pairs (0, 1, -1, INT_MIN, INT_MAX, 31/32/33, ...)^2 for every hardened operator, float bit patterns "
                       "(NaN, +-inf, +-2^31, 2^32, largest below, huge) for float->int; zero initialisation: (type class of the workgroup / "
                       "private / function variable) x (place it is referenced from: entry point, helper, helper of helper, block, if, else, "
                       "switch arm, loop body, continuing, for-update, break-if, nested), first access is a read, memory starts undefined; "
                       "hostile indices: for every kind of indexable object x MSL policy the values 0, len-1, len, len+1 .. len+4, 2^31-1, 2^31, "
                       "2^32-2, 2^32-1 (loads and stores, inner and outer level), runtime-sized arrays on buffers of 1 and 3 whole elements and "
                       "two ragged byte sizes; SPIR-V index policies as before; each run executes the code naga emitted in a trapping interpreter; "
                       "distinct = distinct (program, options, indices / operands, buffer size)")
    ctx.sample({"program": "ops", "operands": [0x80000000, 0xFFFFFFFF]})
    ctx.sample({"program": "index", "policy": "rzsw", "index": 0xFFFFFFFF})
    ctx.sample({"program": "ix_rt_member_vec3f", "policy": "buffer/rzsw", "buffer_bytes": 64, "elements": 3, "indices": [3, 0x7FFFFFFF]})
    ctx.sample({"program": "zi_helper_in_for_update_g0", "site": "helper_in_for_update", "types": c15progs.WG_GROUPS[0]})
    if broken and not ctx.violations:
        ctx.violation(broken, found_input=False, broken=broken)


# ------------------------------------------------------------------ GLSL leg (lib/c15glsl.py)

def glsl_work(ctx_like, tools, exe_ir, exe_glsl, workers, quick):
    import c15glsl
    return c15glsl.work(ctx_like, tools, exe_ir, exe_glsl, workers, quick, OPS_SRC)


def glsl_judge(ctx, W):
    import c15glsl
    return c15glsl.judge(ctx, W)
