"""C15 — generated code has no reachable undefined behaviour on hostile data.

Deciding method: Coq lemmas for ALL 32-bit operands/indices (Props/C15.v: guard
forms; SPIR-V wrapped div/mod/neg/abs total and exact; shifts and float->int
refuted), the hardened-operator templates tied to today's naga by the
regenerated probe table (Gen/SpvOpTable.v, obligation gen_table_in_catalogue),
plus, per program, the TRAPPING interpreters of the emitted code on hostile
operands and indices: an execution that reaches an undefined operation is a
failed execution ("UB: ...").  The text back ends contribute through their own
catalogues (Props/C03-C05) and trapping interpreters when available."""
import importlib
import json

import gen
import nagarun
import ocamlbuild
import spvcheck
import vcheck

LEVEL = "proof"

HOSTILE_I = [0, 1, 0xFFFFFFFF, 0x80000000, 0x7FFFFFFF, 2, 0xFFFFFFFE, 31, 32, 33]

# operator programs: every hardened operator on operands read from a buffer
OPS_SRC = """
@group(0) @binding(0) var<storage, read_write> o: array<i32, 6>;
@group(0) @binding(1) var<storage, read> a: array<i32, 2>;
@group(0) @binding(2) var<storage, read_write> ou: array<u32, 2>;
@group(0) @binding(3) var<storage, read> au: array<u32, 2>;
@compute @workgroup_size(1)
fn main() {
  o[0] = a[0] / a[1];
  o[1] = a[0] % a[1];
  o[2] = -a[0];
  o[3] = abs(a[0]);
  ou[0] = au[0] / au[1];
  ou[1] = au[0] % au[1];
  let v = vec2<i32>(a[0], a[1]) / vec2<i32>(a[1], a[0]);
  o[4] = v.x; o[5] = v.y;
}
"""

WG_SRC = """
var<workgroup> w: array<u32, 4>;
var<workgroup> ws: i32;
@group(0) @binding(0) var<storage, read_write> o: array<u32, 3>;
@compute @workgroup_size(1)
fn main(@builtin(local_invocation_id) lid: vec3<u32>) {
  o[0] = w[0] + w[3];
  o[1] = u32(ws);
  w[1] = 7u;
  o[2] = w[1];
}
"""

# probes of recorded findings (uninitialised private / function variables in SPIR-V)
PROBES = [
    ("spv:private-var-not-zeroed",
     "var<private> p: u32;\n@group(0) @binding(0) var<storage, read_write> o: array<u32>;\n@compute @workgroup_size(1) fn main() { o[0] = p; }\n"),
    ("spv:function-var-not-zeroed",
     "@group(0) @binding(0) var<storage, read_write> o: array<u32>;\n@compute @workgroup_size(1) fn main() { var x: u32; o[0] = x; }\n"),
    ("spv:shift-amount-unmasked",
     "@group(0) @binding(0) var<storage, read_write> o: array<u32>;\n@compute @workgroup_size(1) fn main() { o[1] = o[0] << o[2]; }\n"),
    ("spv:float-to-int-unclamped",
     "@group(0) @binding(0) var<storage, read_write> o: array<u32>;\n@compute @workgroup_size(1) fn main() { o[1] = u32(bitcast<f32>(o[0])); }\n"),
]

# dynamic indexing with hostile indices under the SPIR-V Index bounds-check policies
INDEX_SRC = """
@group(0) @binding(0) var<storage, read_write> o: array<u32>;
@group(0) @binding(1) var<storage, read_write> d: array<u32, 4>;
@group(0) @binding(2) var<storage, read> ix: array<u32, 2>;
@compute @workgroup_size(1)
fn main() {
  o[0] = d[ix[0]];
  d[ix[1]] = 99u;
  o[1] = o[ix[0]];
}
"""


def arr_u(vals):
    return {"arr": [{"u": v} for v in vals]}


def arr_i(vals):
    return {"arr": [{"i": v} for v in vals]}


def spv_words_opts(tools, src, opts):
    r = nagarun.run_batch(tools["spvdrive"], "compile", [{"id": 0, "src": src, "opts": opts}])[0]
    return r


def run(ctx):
    tools = vcheck.build_harness(["nagadrive", "goextract", "spvdrive"])
    ok, failed, log = vcheck.proof_step(
        ctx, "Props/C15.v", ["Guards/Guards.v", "Spv/Ops.v", "Spv/Catalogue.v", "Spv/CatalogueProofs.v"],
        gen_writer=lambda: gen.regenerate(tools, ["irenums", "spvoptable"]),
        extra_obligation_files=["Spv/OpTableCheck.v"])
    ctx.cov["trusted_base"] += [
        "Flocq / Reals axioms where Print Assumptions lists them (float templates share definitions with the integer ones)",
        "probe (lib/spvcheck.py: micro-programs per operator, template abstraction) + gen.py -> coq/Gen/SpvOpTable.v",
        "extraction ExtrOcamlBasic only; tools irrun (IR/Sem.v) and spvrun (Spv/Sem.v: undefined operations are failed executions)",
        "SPIR-V operation semantics transcribed from the SPIR-V 1.6 / GLSL.std.450 specifications (Spv/Ops.v)",
    ]
    broken = None
    if not ok:
        broken = "Coq development no longer checks: %s" % (failed or log[-600:])
    exe_ir = ocamlbuild.build("irrun")
    exe_spv = ocamlbuild.build("spvrun")
    nrun = 0
    nub = 0
    # ---- 1. hardened operators on hostile operands, default options
    inputs = []
    for x in HOSTILE_I:
        for y in HOSTILE_I:
            inputs.append({"buffers": {"0:0": arr_i([0] * 6), "0:1": arr_i([x, y]), "0:2": arr_u([0, 0]), "0:3": arr_u([x, y])}})
    r = spvcheck.run_pair(tools, exe_ir, exe_spv, OPS_SRC, inputs)
    if not r["compiled"]:
        ctx.violation("operator program rejected: %s" % r["comp"], files={"input.wgsl": OPS_SRC}, key="c15:ops-rejected")
    else:
        for inp, (cls, detail, ir_res, spv_res) in zip(inputs, r["results"]):
            nrun += 1
            if cls != "agree":
                nub += 1
                ctx.violation("hardened operators on operands %s: %s %s" % (json.dumps(inp["buffers"]["0:1"]), cls, detail),
                              files={"input.wgsl": OPS_SRC, "inputs.json": json.dumps(inp)}, key="spv:ops:%s:%s" % (cls, detail[:60]))
                break
    # ---- 2. workgroup memory reads as zero (zero-init polyfill)
    r = spvcheck.run_pair(tools, exe_ir, exe_spv, WG_SRC, [{"buffers": {"0:0": arr_u([5, 5, 5])}}])
    if r["compiled"]:
        for cls, detail, ir_res, spv_res in r["results"]:
            nrun += 1
            if cls != "agree":
                ctx.violation("workgroup variable read before any write: %s %s" % (cls, detail),
                              files={"input.wgsl": WG_SRC}, key="spv:workgroup-zero-init:%s" % cls)
    else:
        ctx.violation("workgroup program rejected: %s" % r["comp"], files={"input.wgsl": WG_SRC}, key="c15:wg-rejected")
    # ---- 3. probes of recorded findings
    for key, src in PROBES:
        ins = [{"buffers": {"0:0": arr_u([v, 0, w])}} for v, w in ((1, 40), (0x7FC00000, 32), (0xFF800000, 33), (0x4F800000, 31))]
        r = spvcheck.run_pair(tools, exe_ir, exe_spv, src, ins)
        if not r["compiled"]:
            continue
        for inp, (cls, detail, ir_res, spv_res) in zip(ins, r["results"]):
            nrun += 1
            if cls in ("spv_ub", "differ", "spv_fail"):
                nub += 1
                ctx.violation("SPIR-V: %s on %s: %s" % (cls, json.dumps(inp["buffers"]["0:0"]), detail),
                              files={"input.wgsl": src, "inputs.json": json.dumps(inp)}, key=key)
                break
    # ---- 4. hostile indices under the Index bounds-check policies (expected values by the policy)
    pol_stats = {}
    for pol, name in ((1, "restrict"), (2, "rzsw")):
        comp = spv_words_opts(tools, INDEX_SRC, {"bounds_index": pol})
        if "words" not in comp:
            ctx.violation("index program rejected under bounds_index=%d: %s" % (pol, comp), files={"input.wgsl": INDEX_SRC},
                          key="spv:index-policy-rejected:%d" % pol)
            continue
        jobs = []
        exp = []
        d0 = [10, 20, 30, 40]
        o0 = [1, 2, 3]
        for i0 in [0, 3, 4, 5, 0x7FFFFFFF, 0x80000000, 0xFFFFFFFF]:
            for i1 in [1, 4, 0xFFFFFFFF]:
                jobs.append({"words": comp["words"], "ep": "main", "fuel": 20000, "builtins": {},
                             "buffers": {"0:0": arr_u(o0), "0:1": arr_u(d0), "0:2": arr_u([i0, i1])}})
                d = list(d0)
                o = list(o0)
                if name == "restrict":
                    o[0] = d[min(i0, 3)]
                    d[min(i1, 3)] = 99
                    o[1] = o[min(i0, 2)]
                else:
                    o[0] = d[i0] if i0 < 4 else 0
                    if i1 < 4:
                        d[i1] = 99
                    o[1] = o[i0] if i0 < 3 else 0
                exp.append({"0:0": arr_u(o), "0:1": arr_u(d)})
        outs = spvcheck.run_chunks(exe_spv, jobs)
        bad = 0
        for j, e, out in zip(jobs, exp, outs):
            nrun += 1
            if not out.get("ok"):
                bad += 1
                ctx.violation("bounds policy %s: execution of the emitted SPIR-V fails on hostile index %s: %s %s"
                              % (name, json.dumps(j["buffers"]["0:2"]), out.get("kind"), out.get("msg")),
                              files={"input.wgsl": INDEX_SRC, "inputs.json": json.dumps(j["buffers"])},
                              key="spv:index-policy:%s:%s" % (name, "oob-access" if "out of bounds" in (out.get("msg") or "") else (out.get("kind") or "fail")))
                break
            got = {k: out["buffers"].get(k) for k in e}
            if got != e:
                bad += 1
                ctx.violation("bounds policy %s: wrong policy value on index %s: got %s expected %s"
                              % (name, json.dumps(j["buffers"]["0:2"]), json.dumps(got), json.dumps(e)),
                              files={"input.wgsl": INDEX_SRC, "inputs.json": json.dumps(j["buffers"])},
                              key="spv:index-policy:%s:wrong-value" % name)
                break
        pol_stats[name] = {"runs": len(jobs), "bad": bad}
    ctx.cov["spirv_hostile"] = {"runs": nrun, "undefined_or_wrong": nub, "index_policies": pol_stats}
    # ---- 5. HLSL: the hardened-operator program through the trapping HLSL interpreter (coq/Hlsl/Sem.v: integer
    #         division by zero, INT_MIN/-1, out-of-range float->int are failed executions) on boundary operands,
    #         under the protective option sets; harness of C03 (lib/c03diff.py)
    text = {}
    try:
        import c03diff as D
        htools = vcheck.build_harness(["hlsldrive"])
        tools.update(htools)
        hlslrun = ocamlbuild.build("hlslrun")
        D.reset_enums()
        hstats, hrecs = D.validate(tools, exe_ir, hlslrun, [("c15_ops", OPS_SRC), ("c15_wg", WG_SRC)],
                                   ["default51", "sm60"], ctx.scale(24, 120), ctx.rng.fork("hlsl"))
        text["hlsl"] = {k: hstats[k] for k in ("runs", "agree", "mismatch", "hlsl_ub", "out_of_fragment", "ir_undefined", "fuel")}
        for rec in hrecs:
            if rec["verdict"] in ("mismatch", "hlsl_ub"):
                ctx.violation("HLSL: %s on hostile operands (program %s, options %s): %s" % (rec["verdict"], rec.get("program"), rec.get("optname"), rec.get("detail")),
                              files={"input.wgsl": OPS_SRC, "record.json": json.dumps({k: v for k, v in rec.items() if k not in ("hlsl",)}, default=str)[:20000]},
                              key="hlsl:%s:%s" % (rec["verdict"], str(rec.get("detail"))[:60]))
                break
        nrun += hstats["runs"]
    except (ModuleNotFoundError, KeyError) as e:
        text["hlsl"] = "not available: %s" % e
    text["msl"] = "see C04 (coq/Msl, trapping interpreter mslrun): run by check C04"
    text["glsl"] = "see C05 (coq/Glsl, trapping interpreter glslrun): GLSL emits no guards for / % << int(f); the property restricts GLSL to its index policy"
    ctx.cov["text_backends_hostile"] = text
    ctx.cov["evaluations"] = nrun
    ctx.cov["distinct_nontrivial"] = nrun
    ctx.cov["traces_validated_against_impl"] = nrun
    ctx.cov["rule"] = ("hostile operand pairs (0, 1, -1, INT_MIN, INT_MAX, 31/32/33, ...)^2 for every hardened operator; "
                       "workgroup reads before writes; hostile indices (len, len+1, 2^31-1, 2^31, 2^32-1) under each SPIR-V index policy; "
                       "each run executes the code naga emitted in the trapping interpreter")
    ctx.sample({"program": "ops", "operands": [0x80000000, 0xFFFFFFFF]})
    ctx.sample({"program": "index", "policy": "rzsw", "index": 0xFFFFFFFF})
    if broken and not ctx.violations:
        ctx.violation(broken, found_input=False, broken=broken)
