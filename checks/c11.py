"""C11 — diagnosed classes of invalid programs are always rejected, at the right place.

Deciding method
  * Coq theorems (Props/C11.v) over models of the LEAF decision procedures transliterated from
    wgsl/internal/lower/lower.go: swizzle validation = WGSL's vector-access rule for every name and
    width; one delimiter more or less can never be balanced and matching fails at or after the edit
    (whatever the grammar, as long as delimiters come in pairs); @group/@binding pairing, array
    element count, @workgroup_size, constant division: equal to the rule.
  * Tie R: switch tables and the Go text of every transliterated piece regenerated from /repo
    (Gen/DiagTables.v) and compared by coqc with the model / the reviewed text (Diag/DiagInst.v).
  * Tie C: the extracted models against naga on finite domains (all swizzle names up to a length
    over 14 letters x widths x access contexts; size / attribute / division grids).
  * The property's quantifier (valid program, rule, site): enumeration ON THE IMPLEMENTATION (not a
    theorem: no model of the whole lowerer exists) of every rule-breaking edit at every site kind
    of two hand-written template programs plus seeded sites of the repository's shaders; expected:
    rejected by Parse / LowerWithSource / Compile, no output, position inside the source and inside
    the enclosing module-scope declaration (semantic) or at the predicted token / inside the window
    proved for delimiter edits (syntax)."""
import hashlib
import json
import random

import c11gen as G
import gen
import nagarun
import ocamlbuild
import vcheck

LEVEL = "proof"

MODEL_FILES = ["Diag/SwizzleModel.v", "Diag/BalanceModel.v", "Diag/LeafModel.v", "Diag/SwizzleProofs.v",
               "Diag/BalanceProofs.v", "Diag/LeafProofs.v", "Diag/Reviewed.v", "Diag/DiagInst.v",
               "Parse/Ast.v", "Parse/TkFacts.v", "Parse/ParserModel.v", "Parse/ParserProofs.v", "Parse/ParserPrint.v", "Parse/ParserDiag.v"]

TOKCODE = {"(": 1, ")": 2, "[": 3, "]": 4, "{": 5, "}": 6}


def fp(lexemes, pos):
    """the fingerprint harness/cmd/c11drive computes from the real lexer's tokens"""
    return hashlib.sha1("".join("%s\0%d:%d\1" % (lx, p[0], p[1]) for lx, p in zip(lexemes, pos)).encode("utf-8", "surrogateescape")).hexdigest()


class Case:
    """one edited program and what is expected of naga"""
    __slots__ = ("origin", "rule", "variant", "site", "toks", "src", "pos", "expect", "edit_range", "id", "res", "cls", "detail")

    def __init__(self, origin, rule, variant, site, toks, src, pos, expect, edit_range=None):
        self.origin, self.rule, self.variant, self.site = origin, rule, variant, site
        self.toks, self.src, self.pos, self.expect, self.edit_range = toks, src, pos, expect, edit_range
        self.res = None
        self.cls = None
        self.detail = ""


# ---------------------------------------------------------------------------------- building cases

def template_cases(rng, n_layouts, extra_fraction=1.0):
    """layout 0 (deterministic) for every case; each further seeded layout for a seeded
    fraction of the cases (all of them when extra_fraction = 1)"""
    bases = []
    cases = []
    for tname in sorted(G.TEMPLATES):
        tmpl = G.TEMPLATES[tname]
        btoks, _ = G.fill(tmpl)
        src, pos = G.render(btoks)
        bases.append(Case(tname, "base", "", "", btoks, src, pos, ("accept",)))
        for lay in range(n_layouts):
            lr = None if lay == 0 else random.Random(rng.fork("%s/layout%d" % (tname, lay)).next())
            for rule, variant, site, k, sn in G.semantic_cases(tname):
                if lr is not None and lr.random() >= extra_fraction:
                    continue
                toks, er = G.fill(tmpl, k, sn)
                src, pos = G.render(toks, lr)
                cases.append(Case(tname, rule, variant, site, toks, src, pos, ("semantic",), er))
            ordn = {}
            for rule, variant, site, ed, exp in G.syntax_cases(btoks):
                n = ordn.get((rule, variant, site), 0)
                ordn[(rule, variant, site)] = n + 1
                if lr is not None and lr.random() >= extra_fraction:
                    continue
                src, pos = G.render(ed, lr)
                cases.append(Case(tname, rule, variant, "%s#%d" % (site, n), ed, src, pos, exp))
    return bases, cases


def corpus_cases(ctx, tools, n_programs, per_kind):
    """token-level edits of the repository's own shaders (those naga accepts, ASCII tokens)"""
    rng = ctx.rng.fork("corpus")
    progs = rng.shuffle(nagarun.corpus())
    jobs = [{"id": i, "src": s} for i, (n, s) in enumerate(progs)]
    lexed = nagarun.parallel_batches(tools["c11drive"], "lex", jobs, chunk=60)
    bases = []
    cases = []
    for i, (name, s) in enumerate(progs):
        if len(bases) >= n_programs:
            break
        r = lexed.get(i) or {}
        tl = r.get("toks")
        if not tl or tl[-1][1] != "EOF":
            continue
        lex = [t[0] for t in tl[:-1]]
        kinds = [t[1] for t in tl[:-1]]
        if not lex or any(ord(ch) > 126 for lx in lex for ch in lx) or "Error" in kinds or not G.balanced(lex):
            continue
        src, pos = G.render(lex)
        bases.append(Case(name, "base", "", "", lex, src, pos, ("accept",)))
        pr = rng.fork(name)
        by = {}
        for rule, variant, site, ed, exp in G.syntax_cases(lex):
            by.setdefault((rule, variant, site), []).append((ed, exp))
        for (rule, variant, site), lst in sorted(by.items()):
            for ed, exp in pr.fork(rule + variant + site).shuffle(lst)[:per_kind]:
                src, pos = G.render(ed)
                cases.append(Case(name, rule, variant, site, ed, src, pos, exp))
        by = {}
        for k, kind in G.ident_use_sites(lex, kinds):
            by.setdefault(kind, []).append(k)
        rule_of = {"value_name": "undeclared_identifier", "callee_name": "undeclared_function", "array_size_name": "undeclared_identifier",
                   "type_name": "undeclared_type", "member_name": "unknown_member"}
        for kind, ks in sorted(by.items()):
            for k in pr.fork("id" + kind).shuffle(ks)[:per_kind]:
                ed = lex[:k] + ["nosuch_name_q7"] + lex[k + 1:]
                src, pos = G.render(ed)
                cases.append(Case(name, rule_of[kind], "name_replaced", kind, ed, src, pos, ("semantic",), (k, k + 1)))
        calls = G.user_call_sites(lex)
        for k, j, nargs in pr.fork("calls").shuffle(calls)[:per_kind]:
            ed = lex[:j] + ([",", "0"] if nargs else ["0"]) + lex[j:]
            src, pos = G.render(ed)
            cases.append(Case(name, "arg_count", "one_more", "user_call", ed, src, pos, ("semantic",), (k, j + 2)))
    return bases, cases


# ---------------------------------------------------------------------------------- judging

def line_lengths(src):
    # the text after the last newline is a line of its own (length 0 here): the EOF token sits there
    return [len(l) for l in src.split("\n")]


def classify(case, model_pos):
    """violation class of a case, or None when naga behaved as the property demands.
    model_pos: verdicts of the extracted position predicates for this case (or None)."""
    r = case.res
    if r is None or "crash" in r:
        return "crash", (r or {}).get("crash", "no result")
    if "panic" in r:
        return "panic", r["panic"][:200]
    if r.get("lex_fp") != fp(case.toks, case.pos):
        return "harness-token-mismatch", "the rendered text does not lex to the intended tokens"
    stage = r.get("stage")
    if not stage and not r.get("compile_rejected"):
        return "accepted", "compiled: %d bytes of SPIR-V" % r.get("compile_bytes", 0)
    if not stage and (r.get("outputs") or {}).get("spv"):
        # Parse, LowerWithSource, Validate and GenerateSPIRV all succeed and emit code; only the one-call
        # naga.Compile objects later (e.g. while resolving overrides): the program IS compiled to output
        return "accepted", "step-by-step API compiled it (%d bytes of SPIR-V); naga.Compile rejects it only later: %s" % (
            r["outputs"]["spv"], (r.get("compile_err") or "")[:120])
    if r.get("compile_bytes", 0) > 0 and r.get("compile_rejected"):
        return "output-despite-error", ""
    if bool(stage) != bool(r.get("compile_rejected")):
        return "apis-disagree", "stepwise stage=%r, Compile rejected=%r" % (stage, r.get("compile_rejected"))
    p = r.get("pos")
    if p is None or r.get("compile_pos") != p:
        return "no-position", "stage %s: %s" % (stage, (r.get("err") or "")[:160])
    if model_pos is None or not model_pos.get("in_source"):
        return "position-outside-source", "%s: %s" % (p, (r.get("err") or "")[:160])
    if case.expect[0] == "semantic":
        if model_pos.get("in_span") is not True:
            return "position-outside-declaration", "%s: %s" % (p, (r.get("err") or "")[:160])
        return None, ""
    # syntax
    if stage != "parse":
        return "not-a-syntax-error", "stage %s: %s" % (stage, (r.get("err") or "")[:160])
    allpos = case.pos + [tuple(r.get("eof_pos") or (0, 0))]
    try:
        idx = allpos.index(tuple(p))
    except ValueError:
        return "position-not-a-token", "%s" % (p,)
    e = case.expect
    if e[0] == "exact" and idx != e[1]:
        return "wrong-token", "reported token %d (%s), first offending token is %d (%s)" % (
            idx, (case.toks + ["<EOF>"])[idx], e[1], (case.toks + ["<EOF>"])[e[1]])
    if e[0] == "atleast" and idx < e[1]:
        return "wrong-token", "reported token %d before the gap %d" % (idx, e[1])
    if e[0] == "window" and not (e[1] <= idx <= e[2]):
        return "outside-window", "reported token %d, proved window [%d, %d]" % (idx, e[1], e[2])
    return None, ""


def span_of(case):
    """(sl, sc, el, ec) of the module-scope declaration enclosing the edit"""
    spans = G.decl_spans(case.toks)
    a, b = case.edit_range
    d = G.enclosing_decl(spans, a, max(a, b - 1))
    if d is None:
        return None
    s, e = d
    return [case.pos[s][0], case.pos[s][1], case.pos[e][0], case.pos[e][1] + len(case.toks[e])]


def run_cases(ctx, tools, exe, cases, want_text=False):
    for i, c in enumerate(cases):
        c.id = i
    jobs = [{"id": c.id, "src": c.src, "want": ["text"] if want_text else []} for c in cases]
    res = nagarun.parallel_batches(tools["c11drive"], "diag", jobs, chunk=300, per_job_timeout=10.0)
    # extracted position predicates on every reported position; extracted balance model on syntax cases
    mjobs = []
    midx = []
    for c in cases:
        c.res = res.get(c.id)
        r = c.res or {}
        if r.get("pos"):
            j = {"op": "pos", "lines": line_lengths(c.src), "line": r["pos"][0], "col": r["pos"][1]}
            if c.expect[0] == "semantic":
                sp = span_of(c)
                if sp:
                    j["span"] = sp
            mjobs.append(j)
            midx.append(c.id)
    mres = vcheck.run_model(exe, mjobs) if (exe and mjobs) else []
    mp = dict(zip(midx, mres))
    for c in cases:
        c.cls, c.detail = classify(c, mp.get(c.id))
    return cases


def check_predictions_with_model(ctx, exe, bases, cases):
    """the Python generator's `balanced` / `first_bad` (used to build windows) against the extracted
    Coq definitions, on every base program and every delimiter edit"""
    jobs = []
    exp = []
    for b in bases:
        jobs.append({"op": "balance", "toks": [TOKCODE.get(t, 0) for t in b.toks]})
        exp.append((True, -1, b.origin))
    for c in cases:
        if c.rule == "unbalanced_delimiter":
            jobs.append({"op": "balance", "toks": [TOKCODE.get(t, 0) for t in c.toks]})
            exp.append((False, c.expect[2], "%s %s %s" % (c.origin, c.variant, c.site)))
    out = vcheck.run_model(exe, jobs)
    bad = []
    for (eb, ef, what), r in zip(exp, out):
        if r.get("balanced") != eb or r.get("first_bad") != ef:
            bad.append("%s: generator says balanced=%s first_bad=%s, Coq model says %s" % (what, eb, ef, r))
    return len(jobs), bad


# ---------------------------------------------------------------------------------- leaf correspondence (tie C)

LETTERS = "xyzwrgbastpquv"


def swizzle_domain(ctx):
    rng = ctx.rng.fork("swizzle")
    names = []
    maxlen = ctx.scale(3, 4)
    def rec(prefix, n):
        if n == 0:
            names.append(prefix)
            return
        for ch in LETTERS:
            rec(prefix + ch, n - 1)
    for n in range(1, maxlen + 1):
        rec("", n)
    if maxlen < 4:
        for _ in range(ctx.scale(600, 0)):
            names.append("".join(rng.choice(LETTERS) for _ in range(4)))
        # every 4-letter name over the two legal alphabets (the accepting region and its border)
        for alpha in ("xyzw", "rgba"):
            for a in alpha:
                for b in alpha:
                    for c in alpha:
                        for d in alpha:
                            names.append(a + b + c + d)
    for _ in range(ctx.scale(100, 3000)):
        names.append("".join(rng.choice(LETTERS) for _ in range(5 + rng.below(2))))
    return sorted(set(names))


SWZ_CONTEXTS = {
    "param_value": "fn f(p: vec%d<f32>) { _ = p.%s; }\n",
    "var_reference": "fn f() { var v: vec%d<f32>; _ = v.%s; }\n",
    "let_value_int": "fn f() { let v = vec%d<i32>(1); _ = v.%s; }\n",
}


def leaf_correspondence(ctx, tools, exe):
    """run the extracted models and naga on the same finite domains; returns (n compared, broken-tie messages)"""
    broken = []
    stats = {}
    found = {}   # key -> [what, src, count]

    def leaf_violation(key, what, src):
        if key in found:
            found[key][2] += 1
        else:
            found[key] = [what, src, 1]
    # ---- swizzle
    names = swizzle_domain(ctx)
    short = [n for n in names if len(n) <= 2]
    rs = ctx.rng.fork("swzctx")
    jobs = []
    meta = []
    for cname, tmpl in sorted(SWZ_CONTEXTS.items()):
        # the whole domain through one access path; the other paths share swizzleIndex/swizzlePattern:
        # all names up to two letters plus a seeded sample of the rest (all names up to three letters in the thorough tier)
        if cname == "param_value":
            dom = names
        elif ctx.thorough:
            dom = [n for n in names if len(n) <= 3]
        else:
            dom = short + rs.fork(cname).shuffle([n for n in names if len(n) > 2])[:120]
        for w in (2, 3, 4):
            for nm in dom:
                meta.append((cname, w, nm))
                jobs.append({"id": len(jobs), "src": tmpl % (w, nm)})
    for nm in [n for n in names if len(n) == 1]:
        for w in (2, 3, 4):
            meta.append(("store_target", w, nm))
            jobs.append({"id": len(jobs), "src": "fn f() { var v: vec%d<f32>; v.%s = 1.0; }\n" % (w, nm)})
    res = nagarun.parallel_batches(tools["c11drive"], "diag", jobs, chunk=1500, per_job_timeout=5.0)
    mres = vcheck.run_model(exe, [{"op": "swizzle", "name": [ord(ch) for ch in nm], "w": w} for (_c, w, nm) in meta])
    nacc = 0
    swz_bad = {}
    for (cname, w, nm), j, m in zip(meta, jobs, mres):
        r = res.get(j["id"]) or {}
        impl_ok = bool((not r.get("stage")) and not r.get("compile_rejected") and "crash" not in r and "panic" not in r and r.get("ntok"))
        model_ok = m.get("model") is not None
        spec_ok = m.get("spec") is not None
        nacc += 1 if model_ok else 0
        if m.get("model") != m.get("spec"):
            broken.append("extracted swizzle_model and swizzle_spec differ on %r width %d (contradicts c11_swizzle_model_eq_spec)" % (nm, w))
        if impl_ok != model_ok:
            if impl_ok and not spec_ok:
                swz_bad.setdefault(cname, []).append((len(nm), nm, w, j["src"]))
            else:
                broken.append("swizzle: naga rejects `.%s` on vec%d (%s) that the model accepts: %s" % (nm, w, cname, (r.get("err") or "")[:120]))
    for cname, lst in sorted(swz_bad.items()):
        _l, nm, w, src = sorted(lst)[0]   # the shortest wrongly accepted name of this access path
        found["leaf:swizzle:%s:vec%d.%s" % (cname, w, nm)] = [
            "invalid vector access `.%s` on a vec%d is compiled (context %s); the swizzle model (= the WGSL rule, c11_swizzle_model_eq_spec) "
            "predicts rejection; %d (name, width) pairs of this context are wrongly accepted, e.g. %s" % (
                nm, w, cname, len(lst), " ".join("vec%d.%s" % (x[2], x[1]) for x in sorted(lst)[:12])), src, 1]
    stats["swizzle"] = {"compared": len(jobs), "names": len(names), "accepted_by_model": nacc, "contexts": sorted(SWZ_CONTEXTS) + ["store_target"]}
    # ---- array size, constant division, pairing, workgroup size
    jobs = []
    mjobs = []
    meta = []
    def add(kind, desc, src, mjob):
        meta.append((kind, desc))
        jobs.append({"id": len(jobs), "src": src})
        mjobs.append(mjob)
    vals = list(range(-6, 7)) + [-2147483647, 2147483647, 65536, -65536, 100, -100]
    for v in vals:
        lit = str(v) if v >= 0 else "-" + str(-v)
        add("array_size", lit, "var<private> a: array<f32, %s>;\n" % lit, {"op": "array_size", "v": v})
        add("array_size", lit + " (workgroup)", "var<workgroup> a: array<u32, %s>;\n" % lit, {"op": "array_size", "v": v})
        add("array_size", lit + " (local)", "fn f() { var a: array<i32, %s>; }\n" % lit, {"op": "array_size", "v": v})
        if v >= 0:
            add("array_size", lit + "u", "var<private> a: array<f32, %su>;\n" % lit, {"op": "array_size", "v": v})
    for l in list(range(-9, 10)) + [2147483647, -2147483647]:
        for r in range(-3, 4):
            for div in (True, False):
                op = "/" if div else "%"
                ls = str(l) if l >= 0 else "(-%d)" % -l
                rs = str(r) if r >= 0 else "(-%d)" % -r
                add("const_div", "%s %s %s" % (ls, op, rs), "const c = %s %s %s;\n" % (ls, op, rs), {"op": "div", "div": div, "l": l, "r": r})
                if l >= 0 and r >= 0:
                    add("const_div", "%su %s %su" % (ls, op, rs), "const c = %su %s %su;\n" % (ls, op, rs), {"op": "div", "div": div, "l": l, "r": r})
                if abs(l) < 100:
                    add("const_div", "%si %s %si" % (ls, op, rs), "const c: i32 = %s %s %s;\n" % (ls.replace(")", "i)") if l < 0 else ls + "i", op, rs.replace(")", "i)") if r < 0 else rs + "i"),
                        {"op": "div", "div": div, "l": l, "r": r})
    RES = {"uniform": "var<uniform> u: vec4<f32>;", "storage": "var<storage, read_write> u: array<f32>;",
           "texture": "var u: texture_2d<f32>;", "sampler": "var u: sampler;"}
    ATTRS = {"@group(0)": ("group", [1]), "@group(GIDX)": ("group", [0]), "@binding(1)": ("binding", [1]), "@binding(GIDX)": ("binding", [0]),
             "@group(0u)": ("group", [1])}
    combos = [[]] + [[a] for a in ATTRS] + [[a, b] for a in ATTRS for b in ATTRS if ATTRS[a][0] != ATTRS[b][0]]
    for kind, decl in sorted(RES.items()):
        for combo in combos:
            src = "const GIDX = 2;\n%s %s\n" % (" ".join(combo), decl)
            add("pairing", "%s %s" % (" ".join(combo) or "(no attribute)", kind), src,
                {"op": "pairing", "attrs": [[ATTRS[a][0], ATTRS[a][1]] for a in combo]})
    WG = [(["compute"], "@compute fn main() { }"), (["compute", "workgroup_size"], "@compute @workgroup_size(1) fn main() { }"),
          (["workgroup_size", "compute"], "@workgroup_size(2, 2) @compute fn main() { }"),
          (["fragment"], "@fragment fn main() -> @location(0) vec4<f32> { return vec4<f32>(1.0); }"),
          (["vertex"], "@vertex fn main() -> @builtin(position) vec4<f32> { return vec4<f32>(1.0); }"),
          ([], "fn main() { }"), (["must_use"], "@must_use fn main() -> i32 { return 1; }"),
          (["compute", "must_use"], "@compute @must_use fn main() { }")]
    for names_, src in WG:
        add("workgroup_size", " ".join("@" + n for n in names_) or "(none)", src + "\n", {"op": "wg", "names": names_})
    res = nagarun.parallel_batches(tools["c11drive"], "diag", jobs, chunk=400, per_job_timeout=5.0)
    mres = vcheck.run_model(exe, mjobs)
    cnt = {}
    for (kind, desc), j, mj, m in zip(meta, jobs, mjobs, mres):
        r = res.get(j["id"]) or {}
        cnt[kind] = cnt.get(kind, 0) + 1
        impl_rejects_at_lower = r.get("stage") in ("parse", "lower")
        impl_accepts = bool((not r.get("stage")) and not r.get("compile_rejected") and "crash" not in r and "panic" not in r and r.get("ntok"))
        if kind == "array_size":
            model_err = m["model"]["verdict"] == "error"
            spec_err = m["spec"]["verdict"] == "error"
        elif kind == "const_div":
            model_err = m["model_error"]
            spec_err = mj["r"] == 0
        elif kind == "pairing":
            model_err, spec_err = m["model_error"], m["spec_error"]
        else:
            model_err = spec_err = m["model_error"]
        if model_err != impl_rejects_at_lower:
            broken.append("%s model and naga disagree on `%s`: model %s, naga stage=%r %s" % (
                kind, desc, "error" if model_err else "no error", r.get("stage"), (r.get("err") or "")[:100]))
        if spec_err and impl_accepts:
            cls = {"array_size": "negative" if mj.get("v", 0) < 0 else "zero", "pairing": "non-literal-argument",
                   "const_div": "const-decl", "workgroup_size": "missing"}[kind]
            leaf_violation("leaf:%s:%s" % (kind, cls), "%s: `%s` breaks the rule and is compiled although the transliterated model (proved equal to the rule) predicts an error" % (
                kind, desc), j["src"])
    stats["grids"] = cnt
    for key, (what, src, n) in sorted(found.items()):
        DUMP.append({"property": "C11", "status": "open", "match": key, "what": what})
        ctx.violation(what + (" (and %d more grid points of the same kind)" % (n - 1) if n > 1 else ""), files={"input.wgsl": src}, key=key)
    return stats, broken, len(jobs) + stats["swizzle"]["compared"]


# ---------------------------------------------------------------------------------- reporting

def site_kind(site):
    return site.split("#")[0]


def known_failing(ctx, rule):
    """failing-site list recorded in known_findings.jsonl for this rule (for a readable diff)"""
    for k in getattr(ctx, "_known", []):
        if k.get("status") == "open" and k.get("rule") == rule and isinstance(k.get("failing"), list):
            return set(k["failing"])
    return None


DUMP = []   # candidate known-finding records of this run (written when C11_DUMP_FINDINGS is set)


def report(ctx, scope, cases):
    """Template scope: ONE key per rule naming exactly the set of failing (edit variant, site, class)
    triples, so any site that starts (or stops) failing changes the key.  Corpus scope (seeded
    instances): one key per (rule, edit, site kind, class)."""
    matrix = ctx.cov.setdefault("rule_x_sitekind", {})
    by_rule = {}
    for c in cases:
        by_rule.setdefault(c.rule, []).append(c)
        m = matrix.setdefault(c.rule, {}).setdefault(site_kind(c.site), [0, 0])
        m[0] += 1
        if c.cls:
            m[1] += 1
    for rule, cs in sorted(by_rule.items()):
        bad = [c for c in cs if c.cls]
        if not bad:
            continue
        if scope == "template":
            ident = lambda c: "%s@%s/%s" % (c.variant, c.origin, c.site)
            sites_all = set(ident(c) for c in cs)
            failing = sorted(set("%s:%s" % (ident(c), c.cls) for c in bad))
            h = hashlib.sha1("\n".join(failing).encode()).hexdigest()[:12]
            nf = len(set(ident(c) for c in bad))
            key = "sites:%s:%dof%d:%s" % (rule, nf, len(sites_all), h)
            known = known_failing(ctx, rule)
            new = [f for f in failing if known is not None and f not in known]
            gone = sorted(known - set(failing)) if known is not None else []
            pool = [c for c in bad if ("%s:%s" % (ident(c), c.cls)) in new] or bad
            first = sorted(pool, key=lambda c: (len(c.src), c.origin, c.site))[0]
            per_variant = {}
            for c in bad:
                per_variant.setdefault(c.variant, set()).add("%s/%s" % (c.origin, site_kind(c.site)))
            summary = "; ".join("%s at %d site(s)" % (v, len(ss)) for v, ss in sorted(per_variant.items()))
            what = "rule %s is not diagnosed as the property demands at %d of %d (edit, site) pairs [%s]" % (
                rule, nf, len(sites_all), ", ".join(sorted(set(c.cls for c in bad))))
            if known is not None:
                what += "\nDIFFERENT from the recorded known finding for this rule: %d newly failing: %s; %d no longer failing: %s" % (
                    len(new), " ".join(new)[:700], len(gone), " ".join(gone)[:300])
            what += "\nshown input: %s site %s, edit %s: %s %s\nby edit: %s" % (first.origin, first.site, first.variant, first.cls, first.detail, summary[:1200])
            DUMP.append({"property": "C11", "status": "open", "match": key, "rule": rule, "what": what.split("\n")[0] + " -- " + summary,
                         "failing": failing})
            ctx.violation(what, files={"input.wgsl": first.src, "failing_sites.txt": "\n".join(failing) + "\n",
                                       "expectation.txt": "rule=%s variant=%s site=%s expect=%r edit_tokens=%r\nnaga: %s\n" % (
                                           rule, first.variant, first.site, first.expect, first.edit_range, json.dumps(first.res)[:1500])},
                          key=key)
        else:
            by = {}
            for c in bad:
                cls = c.cls
                if c.expect[0] != "semantic" and cls in ("accepted", "not-a-syntax-error", "no-position"):
                    # one defect, three faces: the parser let the token list through; what happens later depends on the program
                    cls = "not-diagnosed-by-parser"
                by.setdefault((c.variant, site_kind(c.site), cls), []).append(c)
            for (variant, sk, cls), lst in sorted(by.items()):
                first = sorted(lst, key=lambda c: (len(c.src), c.origin))[0]
                key = "corpus:%s/%s:%s:%s" % (rule, variant, sk, cls)
                what = "repository shader %s with edit %s/%s at a %s site: %s (%s) %s (%d such cases this run)" % (
                    first.origin, rule, variant, sk, cls, first.cls, first.detail, len(lst))
                DUMP.append({"property": "C11", "status": "open", "match": key, "what": what})
                ctx.violation(what, files={"input.wgsl": first.src,
                                           "expectation.txt": "expect=%r edit_tokens=%r\nnaga: %s\n" % (first.expect, first.edit_range, json.dumps(first.res)[:1500])},
                              key=key)


def replay(ctx, tools):
    """bin/check C11 --replay <dir>: compile <dir>/input.wgsl again; it must be rejected with a position in the text"""
    import os
    path = ctx.replay
    f = os.path.join(path, "input.wgsl") if os.path.isdir(path) else path
    with open(f, encoding="utf-8", errors="surrogateescape") as fh:
        src = fh.read()
    res = nagarun.parallel_batches(tools["c11drive"], "diag", [{"id": 0, "src": src, "want": ["text"]}])
    r = res.get(0) or {}
    lines = line_lengths(src)
    p = r.get("pos")
    inside = bool(p) and 1 <= p[0] <= len(lines) and 1 <= p[1] <= lines[p[0] - 1] + 1
    ctx.cov["replay"] = {"file": f, "stage": r.get("stage"), "err": r.get("err"), "pos": p, "compile_rejected": r.get("compile_rejected"),
                         "outputs": r.get("outputs"), "position_inside_source": inside}
    ctx.cov["evaluations"] = ctx.cov["distinct_nontrivial"] = 1
    ctx.cov["obligations"] = ctx.cov["discharged"] = 0
    ctx.cov["checker_cmd"] = "replay only (no proof step)"
    ctx.cov["rule"] = "one replayed input"
    ctx.sample(ctx.cov["replay"])
    print("replay %s: stage=%r rejected_by_Compile=%r pos=%r err=%s" % (f, r.get("stage"), r.get("compile_rejected"), p, (r.get("err") or "")[:200]))
    if not r.get("stage") or not r.get("compile_rejected") or "crash" in r or "panic" in r:
        ctx.violation("replayed input is still not rejected: %s" % json.dumps({k: r.get(k) for k in ("stage", "compile_bytes", "outputs", "crash", "panic")}),
                      files={"input.wgsl": src}, key="replay:not-rejected")
    elif not inside:
        ctx.violation("replayed input is rejected without a position inside the source: %s" % (r.get("err") or "")[:300],
                      files={"input.wgsl": src}, key="replay:position")


def run(ctx):
    import time
    T = {}
    t0 = time.time()
    def lap(name):
        nonlocal t0
        T[name] = round(time.time() - t0, 1)
        t0 = time.time()
    ctx.cov["timings_s"] = T
    tools = vcheck.build_harness(["goextract", "c11drive"])
    lap("go_build")
    if getattr(ctx, "replay", None):
        return replay(ctx, tools)
    ok, failed, log = vcheck.proof_step(
        ctx, "Props/C11.v", MODEL_FILES, gen_writer=lambda: gen.regenerate(tools, ["diag"]),
        extra_obligation_files=["Diag/DiagInst.v"])
    if not ok and "build_goal_" in log:
        # another session's bin/coqgoal scratch file raced into _CoqProject: not ours, build again
        ctx.cov["obligations"] = ctx.cov["discharged"] = 0
        ok, failed, log = vcheck.proof_step(
            ctx, "Props/C11.v", MODEL_FILES, gen_writer=lambda: gen.regenerate(tools, ["diag"]),
            extra_obligation_files=["Diag/DiagInst.v"])
    ctx.cov["trusted_base"] += [
        "translator: harness/cmd/goextract (go/ast switch tables, function-body text) + gen.py gen_diag -> coq/Gen/DiagTables.v; "
        "the reviewed Go text in coq/Diag/Reviewed.v and my transliteration of it into coq/Diag/*Model.v",
        "my transcription of the WGSL rules (vector access names, attribute pairing, positive element count, workgroup_size, division by zero) as the SPEC definitions",
        "extraction: ExtrOcamlBasic only; generic JSON driver ocaml/common/driver.ml; OCaml 4.13.1",
        "harness/cmd/c11drive (public API only: naga.Parse, LowerWithSource, Validate, Compile, GenerateSPIRV; positions read from the error text as the property's observation point says), "
        "lib/c11gen.py (edit generator; its token positions are cross-checked against the real lexer on every program, its balanced/first_bad against the Coq definitions)",
        "NOT modelled: parser.go and the lowerer as a whole; the site coverage is enumeration on the implementation",
    ]
    lap("coq")
    ctx.assumptions = ["templates and edited programs are ASCII; column = byte offset in line + 1",
                       "a program with exactly one rule broken must be rejected whatever else it contains; which rule naga names in its message is not compared"]
    broken = []
    if not ok:
        broken.append("Coq development / regenerated obligations no longer check: %s" % (failed or log[-600:]))
    exe = None
    try:
        exe = ocamlbuild.build("diag")
    except Exception as e:  # the model files themselves no longer compile
        broken.append("extraction of the leaf models failed: %s" % str(e)[-400:])
    n_eval = 0
    if exe:
        stats, br, n = leaf_correspondence(ctx, tools, exe)
        ctx.cov["leaf_correspondence"] = stats
        broken += br[:20]
        n_eval += n
    lap("extract_and_leaf_correspondence")
    # ---- site enumeration
    rng = ctx.rng.fork("sites")
    tb, tcases = template_cases(rng, ctx.scale(2, 4), ctx.scale(0.3, 1.0))
    cb, ccases = corpus_cases(ctx, tools, ctx.scale(40, 400), ctx.scale(2, 4))
    lap("generate_cases")
    bases = run_cases(ctx, tools, exe, tb + cb, want_text=True)
    lap("bases")
    good_bases = set()
    for b in bases:
        r = b.res or {}
        okb = (not r.get("stage")) and not r.get("compile_rejected") and r.get("lex_fp") == fp(b.toks, b.pos) and "crash" not in r and "panic" not in r
        if okb:
            good_bases.add(b.origin)
        elif b.origin in G.TEMPLATES:
            broken.append("template %s is not accepted by naga: %s" % (b.origin, (r.get("err") or r)))
    tcases = [c for c in tcases if c.origin in good_bases]
    ccases = [c for c in ccases if c.origin in good_bases]
    if exe:
        nb, bad = check_predictions_with_model(ctx, exe, [b for b in bases if b.origin in good_bases], tcases + ccases)
        ctx.cov["balance_predictions_checked_against_coq_model"] = nb
        broken += bad[:5]
    lap("balance_model")
    run_cases(ctx, tools, exe, tcases)
    lap("template_cases")
    run_cases(ctx, tools, exe, ccases)
    lap("corpus_cases")
    report(ctx, "template", tcases)
    report(ctx, "corpus", ccases)
    allc = tcases + ccases
    n_eval += len(allc) + len(bases)
    ctx.cov["site_enumeration"] = {
        "templates": sorted(G.TEMPLATES), "template_cases": len(tcases), "corpus_programs": len([b for b in cb if b.origin in good_bases]),
        "corpus_cases": len(ccases), "rules": sorted(set(c.rule for c in allc)),
        "site_kinds": len(set(site_kind(c.site) for c in allc)),
        "rule_variant_pairs": len(set((c.rule, c.variant) for c in allc)),
        "cases_behaving_as_demanded": len([c for c in allc if not c.cls]),
        "cases_violating": len([c for c in allc if c.cls]),
        "violation_classes": {k: len([c for c in allc if c.cls == k]) for k in sorted(set(c.cls for c in allc if c.cls))},
    }
    for c in allc:
        if not c.cls and len(ctx.cov["samples"]) < 5 and c.rule in ("missing_semicolon", "swizzle_mixed", "must_use_discarded", "arg_count", "unbalanced_delimiter"):
            if c.rule not in [s.get("rule") for s in ctx.cov["samples"]]:
                ctx.sample({"rule": c.rule, "edit": c.variant, "site": c.site, "program": c.origin,
                            "naga": {"stage": c.res.get("stage"), "pos": c.res.get("pos")}, "expected": list(c.expect)})
    import os
    if os.environ.get("C11_DUMP_FINDINGS"):
        with open(os.environ["C11_DUMP_FINDINGS"], "w") as f:
            for d in DUMP:
                f.write(json.dumps(d) + "\n")
    # parser model (coq/Parse): the witnesses of the `_refuted` theorems of Props/C11.v replayed on naga
    import parsecorr
    ctx.cov["parser_refuted_witnesses"] = parsecorr.replay_refuted(ctx, tools)
    ctx.cov["trusted_base"].append("parser theorems (c11_missing_*_partial, c11_*_refuted) are about coq/Parse/ParserModel.v, a transliteration of "
                                   "parser.go tied to the implementation by the correspondence leg of checks/c19.py (lib/parsecorr.py)")
    n_eval += len(ctx.cov["parser_refuted_witnesses"])
    # ---- ill-typed mutants that the verified WGSL type checker (coq/Wgsl/Typecheck.v, tool wgslcheck) rejects:
    # for the classes naga diagnoses naga must reject them too; all other WGSL rules are only counted
    try:
        import wgslcheck
        st = wgslcheck.mutation_leg(ctx, vcheck.build_harness(["nagadrive"]), ctx.scale(6, 60), 1)
        n_eval += st["mutants"]
    except Exception as e:
        broken.append("type-checker mutation leg (lib/wgslcheck.py) failed to run: %s" % str(e)[-300:])
    lap("wgslcheck_mutations")
    ctx.cov["evaluations"] = n_eval
    ctx.cov["distinct_nontrivial"] = len(set(hashlib.sha1(c.src.encode("utf-8", "surrogateescape")).digest() for c in allc)) + \
        (ctx.cov.get("leaf_correspondence", {}).get("swizzle", {}).get("compared", 0))
    ctx.cov["traces_validated_against_impl"] = n_eval
    ctx.cov["rule"] = ("site enumeration: one program per (template or shader, rule, edit variant, site, layout), distinct by source text, each differing from a "
                       "program naga accepts by exactly one rule-breaking edit; leaf correspondence: one program per (member name, width, context) / grid point")
    if broken:
        ctx.cov["broken_tie"] = broken[:10]
        if not ctx.violations:
            ctx.violation("a tie between the C11 models and /repo is broken:\n" + "\n".join(broken[:10]) +
                          "\n(the site enumeration found no program that naga fails to reject as demanded, beyond the known findings)",
                          found_input=False, broken="; ".join(broken[:3]), files={"broken.json": json.dumps(broken, indent=1)})
