"""C19 — meaning-neutral source edits leave the generated code unchanged.

Deciding method: Coq theorems over the lexer model (Props/C19.v: a blank is a
hard token boundary; trivia yields no token whatever follows; two layouts of
the same pieces lex identically) re-checked against tables regenerated from
/repo; tie = token-for-token correspondence of the extracted model with the
real lexer; search = metamorphic compilation of edited programs on the real
compiler (all backends)."""
import os

import gen
import lexcorr
import nagarun
import ocamlbuild
import parsecorr
import vcheck
import wgsltext as W

LEVEL = "proof"
WANT = ["spv", "hlsl", "msl", "glsl"]


def outputs_of(r):
    """Projected observables of a compile result: acceptance + output bytes/text."""
    if r is None:
        return ("noresult",)
    if "crash" in r or "panic" in r:
        return ("crash", r.get("crash") or r.get("panic"))
    if "err" in r:
        return ("rejected", r.get("stage"))
    glsl = r.get("glsl") or {}

    def h(x):
        # long outputs travel as {"sha256":..., "len":...} (harness option `digest`)
        return (x.get("sha256"), x.get("len")) if isinstance(x, dict) else x
    return ("ok", h(r.get("spv")) or ("ERR:" + str(r.get("spv_err"))),
            h(r.get("hlsl")) if "hlsl" in r else "ERR", h(r.get("msl")) if "msl" in r else "ERR",
            tuple(sorted((k, (h(v.get("text")) if "text" in v else "ERR")) for k, v in glsl.items())))


def accept_class(o):
    return o[0]


def lexeme_list(tokres):
    """implementation tokens -> (lexemes, kind names) without EOF"""
    toks = tokres["toks"][:-1]
    return ["".join(chr(c) for c in (t[1] or [])) for t in toks], [t[5] for t in toks]


def metamorphic(ctx, tools, programs, n_edits):
    """programs: list of (name, src).  For each, token-preserving re-layouts and
    syntactic neutral edits; outputs must be identical / acceptance unchanged."""
    rng = ctx.rng.fork("meta")
    srcs = [p[1].encode("utf-8", "surrogateescape") for p in programs]
    toks = lexcorr.tokens_impl(tools, srcs)
    jobs = []
    meta = {}
    jid = 0
    stats = {"relayout_hard": 0, "relayout_mixed": 0, "parens": 0, "trailing_comma": 0, "rename": 0, "crlf": 0, "rename_rev": 0}
    for (name, src), t in zip(programs, toks):
        if "toks" not in t:
            continue
        lex, kinds = lexeme_list(t)
        if not lex or "Error" in kinds:
            continue
        base_id = jid
        jobs.append({"id": jid, "src": src, "want": WANT, "opts": {"digest": True}})
        meta[jid] = (name, "base", src, None)
        jid += 1
        for e in range(n_edits):
            r = rng.fork("%s/%d" % (name, e))
            kind = ["relayout_hard", "relayout_mixed", "parens", "trailing_comma", "rename", "crlf", "rename_rev"][e % 7]
            if kind == "relayout_hard":
                new = W.relayout(lex, r, "hard")
            elif kind == "relayout_mixed":
                new = W.relayout(lex, r, "mixed")
            elif kind == "parens":
                l2, ch = W.add_parens(lex, kinds, r)
                if ch == 0:
                    continue
                new = " ".join(l2)
            elif kind == "trailing_comma":
                l2, ch = W.add_trailing_commas(lex, r)
                if ch == 0:
                    continue
                new = " ".join(l2)
            elif kind in ("rename", "rename_rev"):
                # rename_rev: deterministic renaming that reverses the alphabetical order of the renamed
                # identifiers (anything ordered by name instead of by dependency/declaration shows up)
                plan = W.rename_plan(lex, kinds, r if kind == "rename" else None)
                if not plan:
                    continue
                new = " ".join(W.apply_rename(lex, kinds, plan))
            else:
                new = src.replace("\r\n", "\n").replace("\n", "\r\n")
            stats[kind] += 1
            jobs.append({"id": jid, "src": new, "want": WANT, "opts": {"digest": True}})
            meta[jid] = (name, kind, new, base_id)
            jid += 1
    # operator chains against the grouping written out (the parser's associativity and precedence, level by level)
    stats["assoc"] = 0
    for name, chain, grouped in W.assoc_pairs():
        base_id = jid
        jobs.append({"id": jid, "src": chain, "want": WANT, "opts": {"digest": True}})
        meta[jid] = (name, "base", chain, None)
        jid += 1
        jobs.append({"id": jid, "src": grouped, "want": WANT, "opts": {"digest": True}})
        meta[jid] = (name, "assoc", grouped, base_id)
        jid += 1
        stats["assoc"] += 1
    # template-list closers (>>, >=, >>= split by the parser) x redundantly parenthesised element counts x spacing of the
    # closer x trailing comma: the systematic family of lib/c19templ.py (quick: every third pair, rotating with the seed)
    import c19templ
    stats["template_close"] = 0
    tp = c19templ.pairs()
    if not ctx.thorough:
        off = ctx.seed % 3
        tp = [p for k, p in enumerate(tp) if k % 3 == off or "parens:adjacent" in p[3] or p[3].startswith("trailing-comma-type")]
    canon_ids = {}
    for name, canon, edited, ekind in tp:
        if canon not in canon_ids:
            canon_ids[canon] = jid
            jobs.append({"id": jid, "src": canon, "want": WANT, "opts": {"digest": True}})
            meta[jid] = (name, "base", canon, None)
            jid += 1
        jobs.append({"id": jid, "src": edited, "want": WANT, "opts": {"digest": True}})
        meta[jid] = (name, "templ:" + ekind, edited, canon_ids[canon])
        jid += 1
        stats["template_close"] += 1
    # token preservation of re-layouts is decided with the implementation's own lexer
    # (its agreement with the model is checked separately)
    res = nagarun.parallel_batches(tools["nagadrive"], "compile", jobs, per_job_timeout=30.0, chunk=24)
    lay = [j for j in jobs if meta[j["id"]][1] in ("relayout_hard", "relayout_mixed", "crlf")]
    lay_toks = lexcorr.strip_tokens(tools, [j["src"].encode("utf-8", "surrogateescape") for j in lay])
    base_toks = {}
    for j in jobs:
        if meta[j["id"]][1] == "base":
            base_toks[j["id"]] = None
    bt = lexcorr.strip_tokens(tools, [meta[b][2].encode("utf-8", "surrogateescape") for b in sorted(base_toks)])
    for b, t in zip(sorted(base_toks), bt):
        base_toks[b] = t
    same_tokens = {}
    for j, t in zip(lay, lay_toks):
        same_tokens[j["id"]] = (t is not None and t == base_toks[meta[j["id"]][3]])
    compared = 0
    skipped = 0
    for j in jobs:
        name, kind, src, base_id = meta[j["id"]]
        if kind == "base":
            continue
        if kind in ("relayout_mixed", "crlf") and not same_tokens.get(j["id"], False):
            # an edit that changes the token stream is not meaning-neutral by construction
            # (e.g. an empty gap fused two tokens); hard re-layouts must preserve it (theorem)
            skipped += 1
            continue
        a = outputs_of(res.get(base_id))
        b = outputs_of(res.get(j["id"]))
        compared += 1
        if kind == "relayout_hard" and not same_tokens.get(j["id"], False):
            ctx.violation("re-layout with a blank in every gap changed the token stream of %s "
                          "(contradicts c19_respacing_invariance on the implementation)" % name,
                          files={"before.wgsl": meta[base_id][2], "after.wgsl": src}, key="relayout-tokens:" + name)
            continue
        if kind in ("rename", "rename_rev"):
            # names differ: compare acceptance and non-debug SPIR-V only
            # (a back-end error message may quote a user name: only the fact that SPIR-V generation failed is compared)
            def spv_obs(o):
                x = o[1] if len(o) > 1 else None
                return "ERR" if isinstance(x, str) and x.startswith("ERR:") else x
            a2 = (a[0], spv_obs(a))
            b2 = (b[0], spv_obs(b))
            ok = a2 == b2
        else:
            ok = a == b
        if not ok:
            what = "edit '%s' of %s changed %s" % (kind, name, "acceptance (%s -> %s)" % (a[0], b[0]) if a[0] != b[0] else "generated code")
            det = ""
            if a[0] == "ok" and b[0] == "rejected":
                det = "\nerror after edit: %s" % (res[j["id"]].get("err"),)
            ctx.violation(what + det, files={"before.wgsl": meta[base_id][2], "after.wgsl": src},
                          key="%s:%s" % (kind, classify(res.get(j["id"]), name)))
        elif len(ctx.cov["samples"]) < 4 and kind != "crlf":
            ctx.sample({"edit": kind, "program": name, "after_head": src[:160]})
    return compared, skipped, stats


def classify(r, name):
    """Stable key for a known finding: the diagnostic class, not the program."""
    if r and "err" in r:
        e = r["err"]
        # strip positions and quoted names
        import re
        e = re.sub(r"\d+", "N", e)
        return e[:80]
    return name


def lexer_inputs(ctx, tools, n_soup, n_bytes, n_layout):
    rng = ctx.rng.fork("lexinputs")
    srcs = []
    tags = []
    for name, src in nagarun.corpus():
        srcs.append(src.encode("utf-8", "surrogateescape"))
        tags.append("corpus")
    for i in range(n_soup):
        srcs.append(W.token_soup(rng, 1 + rng.below(40)).encode("utf-8"))
        tags.append("soup")
    for i in range(n_bytes):
        srcs.append(W.random_bytes(rng, 1 + rng.below(60)))
        tags.append("bytes")
    # re-layouts of corpus token sequences with comments/blank variants
    corp = nagarun.corpus()
    toks = lexcorr.tokens_impl(tools, [c[1].encode("utf-8", "surrogateescape") for c in corp[:n_layout]])
    for (name, src), t in zip(corp, toks):
        if "toks" in t:
            lex, _ = lexeme_list(t)
            srcs.append(W.relayout(lex, rng, "mixed").encode("utf-8", "surrogateescape"))
            tags.append("layout")
    for b in W.eof_edge_inputs():
        srcs.append(b)
        tags.append("eof")
    # hand-picked boundary cases
    for s in ["", "\n", "//", "// x", "/*", "/* /* */", "1.", "1.x", "1..2", "0x", "a/**/b", "a//\rb\nc", "x/ /**/y", "1/**/.0",
              ">>=", "> >=", "a>>=b", "1.e+", "1e+x", "é", "éé=1", "/*\r\n*/x", "\t\r\n", "a\rb", "1lf", "1li", "0xlf", "1.5lfx"]:
        srcs.append(s.encode("utf-8"))
        tags.append("edge")
    return srcs, tags


def run(ctx):
    tools = vcheck.build_harness()
    ok, failed, log = vcheck.proof_step(
        ctx, "Props/C19.v", ["Lex/LexModel.v", "Lex/LexInst.v", "Lex/LexProofs.v", "Lex/LexSplit.v", "Lex/LexTrivia.v", "Lex/LexFinal.v",
                             "Parse/Ast.v", "Parse/ParserModel.v", "Parse/TkFacts.v", "Parse/ParserProofs.v", "Parse/ParserPrint.v", "Parse/ParserTypes.v", "Parse/ParseInst.v"],
        gen_writer=lambda: gen.regenerate(tools, ["lex", "parse"]), extra_obligation_files=["Lex/LexInst.v", "Parse/ParseInst.v"])
    ctx.cov["trusted_base"] += [
        "translator: harness/cmd/goextract (go/ast) + gen.py -> coq/Gen/LexTables.v (token kinds, keyword map, unicode.Letter ranges)",
        "extraction: ExtrOcamlBasic only (bool, option, unit, prod, list, sumbool, sumor -> OCaml types); no Extract Constant; Z/positive/nat kept as Coq datatypes; OCaml 4.13.1",
        "correspondence harness: harness/cmd/nagadrive tokens (Go utf8 decoding of the source into runes), ocaml/lex/driver.ml, lib/lexcorr.py",
        "modelled: wgsl/internal/parser/lexer.go and parser.go in full (coq/Lex, coq/Parse); NOT modelled: lowering and back ends (covered here only by the metamorphic search on the implementation)",
        "parser correspondence harness: harness/cmd/parsedrive (public API + hooks VerifTokenize/VerifInner, reflection dump), extracted tool parsemodel (coq/Extract/ParseExtract.v), lib/parsecorr.py; switch tables of parser.go regenerated into coq/Gen/ParseTables.v (lib/parsegen.py)",
    ]
    ctx.assumptions = ["WGSL blankspace/line-break sets beyond space, tab, CR, LF are outside the theorems (the lexer treats only these four as blank)"]
    broken = None
    if not ok:
        broken = "Coq development no longer checks: %s" % (failed or log[-600:])
    exe = None
    ncmp = 0
    if ok:
        exe = ocamlbuild.build("lex")
        srcs, tags = lexer_inputs(ctx, tools, ctx.scale(1500, 40000), ctx.scale(500, 10000), ctx.scale(60, 292))
        ncmp, mism = lexcorr.compare(tools, exe, srcs)
        hist = {}
        for t in tags:
            hist[t] = hist.get(t, 0) + 1
        ctx.cov["lexer_correspondence"] = {"compared": ncmp, "mismatches": len(mism), "input_kinds": hist,
                                           "distinct_sources": len(set(srcs))}
        ctx.cov["traces_validated_against_impl"] = ncmp
        if mism:
            broken = "lexer correspondence (model vs wgsl lexer) fails on %d inputs, first: %s" % (len(mism), mism[0]["what"])
            ctx.cov["first_mismatch"] = {"what": mism[0]["what"], "src": repr(mism[0]["src"][:200])}
    # parser: the extracted model of parser.go (coq/Parse) against the real parser on the real lexer's tokens
    if ok:
        pexe = ocamlbuild.build("parsemodel")
        pst = parsecorr.run_leg(ctx, tools, pexe)
        ctx.cov["parser_correspondence"] = pst
        ctx.cov["traces_validated_against_impl"] = ncmp + pst["compared"]
    # metamorphic search on the implementation (always run; it is also what finds the failing input
    # when a tie is broken)
    progs = nagarun.corpus()
    rng = ctx.rng.fork("progs")
    progs = rng.shuffle(progs)[:ctx.scale(70, 292)]
    # generated programs, declarations in reverse order (entry point first: forward references everywhere)
    import wgslgen
    for i in range(ctx.scale(25, 300)):
        prog, _src = wgslgen.generate(rng.fork("gen%d" % i))
        progs.append(("gen%d" % i, wgslgen.render(prog, reverse=(i % 2 == 0))))
    compared, skipped, stats = metamorphic(ctx, tools, progs, ctx.scale(7, 28))
    ctx.cov["metamorphic"] = {"programs": len(progs), "edited_variants_compared": compared,
                              "skipped_token_changing_layouts": skipped, "edits": stats}
    ctx.cov["evaluations"] = ncmp + compared
    ctx.cov["distinct_nontrivial"] = compared + (ctx.cov.get("lexer_correspondence", {}).get("distinct_sources", 0))
    ctx.cov["rule"] = ("lexer inputs: corpus shaders, token soup, random bytes, re-layouts, edge cases (distinct by bytes); "
                       "metamorphic: corpus program x edit (re-layout hard/mixed, parentheses, trailing commas, renaming, CRLF); "
                       "non-trivial = edit actually changed the text")
    if broken and not ctx.violations:
        ctx.violation(broken + "\n(no edited program with changed output was found by the metamorphic search)",
                      found_input=False, broken=broken,
                      files={"mismatch.txt": repr(ctx.cov.get("first_mismatch"))})
    elif broken:
        ctx.cov["broken_tie"] = broken
