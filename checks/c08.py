"""C08 — valid programs are accepted by every stage and every backend.

Deciding method: Coq theorems (Props/C08.v) over a faithful Gallina
transliteration of ir/validate.go (Valid/ValidatorModel.v) and independent
specifications of WGSL's placement rules for break/continue/return
(Valid/CfLegal.v) and of the per-entry-point resource-binding rule
(Valid/BindingRule.v over the call-graph reachability of Valid/Reach.v):
soundness for all statement trees / modules; completeness is REFUTED for the
pinned tree by concrete witnesses, and proved under the exact side conditions
that make it true (the validator's verdict is characterised exactly).

Ties, checked on every run:
 (validator) the extracted model is run on the reflection dump of every module
   naga lowers here (corpus, feature matrix, generated control-flow and binding
   programs, legal and illegal) and must produce the same list of (rule class,
   function, statement index, expression handle) as naga.Validate;
 (pipeline) every program of a valid-program source (the repository's corpus,
   the hand-written feature matrix, generated programs that the extracted
   specifications judge legal) must be accepted by Parse, LowerWithSource,
   Validate, Compile and by every backend option set able to express it.
Search: the rejected program is the failing input; it is shrunk by deleting
statements / declarations while the same rejection reproduces and the
specifications still judge it legal."""
import os
import re

import c08lib as L
import c08matrix
import gen
import nagarun
import ocamlbuild
import vcheck
import wgslcheck
import wgslgen

LEVEL = "proof"

CF_EXPLAIN = {
    "VBreakOutsideLoop": ("breaks_in_loop", "break-in-switch-outside-loop"),
    "VBreakInContinuing": ("continuing_flat", "jump-nested-inside-continuing-block"),
    "VContinueInContinuing": ("continuing_flat", "jump-nested-inside-continuing-block"),
    "VKillInContinuing": ("continuing_flat", "discard-inside-continuing-block"),
}


TYPE_NAME_DECL = re.compile(r"\b(var|let|const|fn|struct|override)\s+(i32|u32|f32|f16|bool|vec[234]|mat[234]x[234]|array|atomic|ptr|sampler)\b")
# transliterations of ir/validate.go the extracted tool evaluates: (name, field of its output)
VARIANTS = (("pinned", "errors"), ("fixed", "errors_fixed"), ("fixed2", "errors_fixed2"))
VARIANT_TEXT = {
    "pinned": "pinned (Valid/ValidatorModel.v: completeness refuted, validator_*_complete_partial apply)",
    "fixed": "fixed (Valid/ValidatorModelFixed.v kc=false = checks/c08_proposed_fixes/validate.diff: fixed_validator_*_complete apply)",
    "fixed2": "fixed2 (Valid/ValidatorModelFixed.v kc=true = checks/c08_proposed_fixes/validate_suitesafe.diff: "
              "fixed2_validator_cf_complete_partial (no discard in continuing) and fixed2_validator_bindings_complete apply)",
}
SHRINK_BUDGET = 700      # shrinker: acceptdrive+model evaluations per violation


class Prog:
    def __init__(self, name, src, kind, cfg=None, meta=None):
        self.name, self.src, self.kind = name, src, kind
        self.cfg = cfg or {"targets": None, "pipeline_constants": None}
        self.meta = meta or {}


def corpus_programs():
    out = []
    d = os.path.join(vcheck.REPO, "snapshot", "testdata", "in")
    for name, src in nagarun.corpus():
        tp = os.path.join(d, name[:-5] + ".toml")
        toml = None
        if os.path.exists(tp):
            with open(tp, errors="replace") as f:
                toml = f.read()
        out.append(Prog("corpus/" + name, src, "corpus", L.corpus_config(toml)))
    return out


def collect_programs(ctx):
    rng = ctx.rng.fork("programs")
    progs = corpus_programs()
    for name, src in sorted(c08matrix.MATRIX.items()):
        progs.append(Prog("matrix/" + name, src, "matrix"))
    frac = float(os.environ.get("VERIF_C08_FRACTION", "1") or "1")     # smoke-testing the thorough tier

    def scale(q, t):
        return max(1, int(ctx.scale(q, t) * frac))
    ncf = scale(120, 2000)
    for i in range(ncf):
        mode = ["restricted", "legal", "restricted", "any", "legal"][i % 5]
        src, meta = L.gen_cf_program(rng.fork("cf%d" % i), mode)
        progs.append(Prog("cf-%s/%d" % (mode, i), src, "cf-" + mode, meta=meta))
    # the shared typed generator (well-typed compute programs: expressions of every core type, helper
    # functions, pointers, structs, matrices, workgroup variables, atomics on request)
    nt = scale(300, 3000)
    rev_every = 2
    for i in range(nt):
        opts = {"atomics": i % 3 == 0}
        for attempt in range(4):
            _ast, src = wgslgen.generate(rng.fork("typed%d.%d" % (i, attempt)), opts)
            if i % rev_every == 1:
                # entry point first, helpers and module-scope declarations after their uses (WGSL: order-free)
                src = wgslgen.render(_ast, reverse=True)
            # a generated name that coincides with a predeclared type name (`var i32: i32`) is legal WGSL
            # but not something naga documents; such programs are not used as evidence
            if not TYPE_NAME_DECL.search(src):
                break
        else:
            continue
        progs.append(Prog("typed/%d" % i, src, "typed", meta={"ast": _ast}))
    nb = scale(45, 800)
    for i in range(nb):
        mode = ["legal", "legal", "any"][i % 3]
        src, meta = L.gen_binding_program(rng.fork("bind%d" % i), mode)
        progs.append(Prog("bind-%s/%d" % (mode, i), src, "bind-" + mode, meta=meta))
    return progs


def sets_for(ctx, index, prog):
    if ctx.thorough or prog.kind == "matrix":
        return L.all_option_sets()
    if prog.kind == "corpus":
        return L.quick_sets(index)
    # generated programs: defaults + one rotating alternate per backend
    qs = L.quick_sets(index)
    return [s for s in qs if s["name"] in L.DEFAULT_SETS] + [s for s in qs if s["name"] not in L.DEFAULT_SETS][::2]


def run_go(tool, progs, setlists):
    jobs = []
    for i, (p, sets) in enumerate(zip(progs, setlists)):
        data = {"sets": sets}
        if p.cfg.get("pipeline_constants"):
            data["pipeline_constants"] = p.cfg["pipeline_constants"]
        # typed-generator programs: the (large) IR dump is only needed to explain a validation error
        want = ["validate", "compile", "ir_if_invalid" if p.kind == "typed" else "ir"]
        jobs.append({"id": i, "src": p.src, "want": want, "data": data})
    res = nagarun.parallel_batches(tool, "run", jobs, per_job_timeout=60.0, chunk=12)
    return [res.get(i) for i in range(len(progs))]


def slim_ir(ir):
    """The validator model needs neither the recorded expression types nor the named expressions:
    drop them from the dump (IR/Decode.v wants the fields present) -- halves the JSON to parse."""
    def slim_fn(f):
        g = dict(f)
        g["ExpressionTypes"] = []
        g["NamedExpressions"] = []
        return g
    out = dict(ir)
    out["Functions"] = [slim_fn(f) for f in ir.get("Functions") or []]
    eps = []
    for e in ir.get("EntryPoints") or []:
        e2 = dict(e)
        e2["Function"] = slim_fn(e["Function"])
        eps.append(e2)
    out["EntryPoints"] = eps
    return out


def run_model(exe, results, only=None):
    """extracted model on the IR dump of every lowered module (in parallel worker processes)"""
    from concurrent.futures import ThreadPoolExecutor
    idx = [i for i, r in enumerate(results) if r and "ir" in r and (only is None or only[i])]
    m = [None] * len(results)
    if not idx:
        return m
    workers = max(1, min(vcheck.NCPU // 2, (len(idx) + 7) // 8))
    parts = [idx[k::workers] for k in range(workers)]

    def work(part):
        return vcheck.run_model(exe, [slim_ir(results[i]["ir"]) for i in part]) if part else []
    with ThreadPoolExecutor(workers) as ex:
        for part, outs in zip(parts, ex.map(work, parts)):
            for i, o in zip(part, outs):
                m[i] = o
    return m


def spec_legal(mo):
    """the WGSL-side specifications (extracted) judge the lowered module legal"""
    return (mo is not None and mo.get("ok") and mo["binding_rule_ok"]
            and all(f["cf_legal"] for f in mo["functions"] + mo["entry_points"]))


def rejections(prog, r, mo, sets):
    """All rejections of a program that is claimed valid: list of (key, text, set-or-None)."""
    out = []
    if r is None:
        return [("harness:noresult", "no result from acceptdrive", None)]
    if "crash" in r:
        return [("crash:" + str(r["crash"]), "acceptdrive died: %s\n%s" % (r["crash"], r.get("stderr", "")[-600:]), None)]
    if "panic" in r:
        return [("panic:front:" + L.err_class(r["panic"]), "panic in the front end: " + r["panic"], None)]
    if "stage" in r:
        return [("%s:%s" % (r["stage"], L.err_class(r["err"])), "%s rejects: %s" % (r["stage"], r["err"]), None)]
    fn_flags = {f["name"]: f for f in (mo or {}).get("functions", [])}
    seen = set()
    for e in r.get("validate") or []:
        cls, fn, st, ex = L.classify_verr(e)
        if cls in CF_EXPLAIN:
            flag, label = CF_EXPLAIN[cls]
            f = fn_flags.get(fn)
            explained = f is not None and not f[flag]
            key = "validate:%s:%s" % (cls, label if explained else "unexplained")
        elif cls == "VGlobalDupBinding":
            explained = mo is not None and mo["binding_rule_ok"] and not mo["module_bindings_distinct"]
            key = "validate:%s:%s" % (cls, "pair-shared-by-variables-no-entry-point-uses-together" if explained else "unexplained")
        else:
            key = "validate:" + cls
        if key not in seen:
            seen.add(key)
            out.append((key, "Validate rejects: %s (function %r, statement %s)" % (e["Message"], fn, st), None))
    if r.get("validate_err"):
        out.append(("validate:error", "Validate returned an error: " + r["validate_err"], None))
    c = r.get("compile") or {}
    if "ok" not in c:
        msg = c.get("err") or c.get("panic") or str(c)
        # applicability of the one-call API: it cannot supply pipeline constants, so a module with an
        # override that has no default value is not expressible through it (explicit rule, this class only)
        needs_host_constant = ("override_without_default" in set(r.get("features") or [])
                               and L.err_class(msg) == "no value provided and no default initializer")
        if not (msg.startswith("validation failed") and r.get("validate")) and not needs_host_constant:
            out.append(("compile:" + ("panic:" if "panic" in c else "") + L.err_class(msg),
                        "naga.Compile (one-call API, validation enabled) rejects: " + msg, None))
    feats = set(r.get("features") or [])
    stages = {n: s for n, s in r.get("eps") or []}
    byname = {s["name"]: s for s in sets}
    for sname, eps in sorted((r.get("sets") or {}).items()):
        s = byname[sname]
        if prog.cfg["targets"] is not None and s["backend"] not in prog.cfg["targets"]:
            continue
        for ep, x in sorted(eps.items()):
            if "ok" in x:
                continue
            ok, why = L.applicable(s, feats, stages.get(ep) if ep != "*" else None, set(stages.values()))
            if not ok:
                continue
            msg = x.get("err") or x.get("panic") or str(x)
            key = "backend:%s:%s%s" % (s["backend"], "panic:" if "panic" in x else "", L.err_class(msg))
            out.append((key, "%s backend, option set %s, entry point %s: %s" % (s["backend"], sname, ep, msg), s))
    return out


def shrink_violation(tool, exe, prog, key, oset):
    """Smallest program found that still shows the rejection `key` and is still legal by the specifications."""
    sets = [oset] if oset else []

    def still(srcs):
        ps = [Prog(prog.name, s, prog.kind, prog.cfg) for s in srcs]
        rs = run_go(tool, ps, [sets] * len(ps))
        ms = run_model(exe, rs)
        out = []
        for p, r, mo in zip(ps, rs, ms):
            if r is None:
                out.append(False)
                continue
            if "ir" in r and not spec_legal(mo):
                out.append(False)
                continue
            out.append(any(k == key for k, _, _ in rejections(p, r, mo, sets)))
        return out
    try:
        if not still([prog.src])[0]:
            return prog.src
        return L.shrink(prog.src, still, max_tests=SHRINK_BUDGET)
    except Exception:
        return prog.src


def run(ctx):
    tools = vcheck.build_harness(["acceptdrive", "goextract"])
    model_files = ["Valid/ValidatorModel.v", "Valid/ValidatorModelFixed.v", "Valid/CfLegal.v", "Valid/Reach.v",
                   "Valid/BindingRule.v", "Valid/StmtInd.v", "Valid/CfProofs.v", "Valid/ReachProofs.v",
                   "Valid/BindingProofs.v", "Valid/ModuleProofs.v", "Valid/FixedProofs.v",
                   # "valid WGSL" made formal: verified type checker over the generator's ASTs
                   "Wgsl/Typecheck.v", "Wgsl/TypecheckBase.v", "Wgsl/TypecheckOps.v", "Wgsl/TypecheckBuiltins.v",
                   "Wgsl/TypecheckMem.v", "Wgsl/TypecheckUnfold.v", "Wgsl/SemUnfold.v", "Wgsl/TypecheckProofs.v",
                   "Wgsl/TypecheckProgram.v", "Wgsl/TypecheckRules.v"]
    ok, failed, log = vcheck.proof_step(ctx, "Props/C08.v", model_files,
                                        gen_writer=lambda: gen.regenerate(tools, ["irenums"]))
    ctx.cov["trusted_base"] += [
        "transliteration by hand of ir/validate.go into Valid/ValidatorModel.v, checked on every run by the validator tie (same error list on every module lowered here)",
        "decoder IR/Decode.v + Go reflection dump (harness/common/dump.go); enum numbering regenerated from /repo (Gen/IrEnums.v)",
        "extraction: ExtrOcamlBasic only; generic OCaml driver ocaml/common/driver.ml",
        "rule class of an ir.ValidationError is recovered from the fixed frame of its message (lib/c08lib.py MSG_CLASSES): the struct carries no rule identifier",
        "applicability rules of option sets (lib/c08lib.py applicable, corpus .toml targets) and the WGSL validity of the hand-written feature matrix (lib/c08matrix.py) are stated by hand",
        "modelled: ir/validate.go in full; NOT modelled: parser, lowerer, backends (covered by the pipeline tie on the implementation only)",
        "valid WGSL for the typed generator = accepted by Wgsl/Typecheck.wgsl_check (extracted tool wgslcheck, run on every generated AST; "
        "sound w.r.t. Wgsl/Sem.v: Props/C08.v wgsl_typecheck_sound); trusted: my reading of the WGSL typing rules in Wgsl/Typecheck.v, "
        "lib/wgslgen.py render (AST -> text), coq/Wgsl/Decode.v; the checker is conservative (matrix constructors from scalars, "
        "continuing blocks using body-scope names, forward calls in module order are rejected)",
    ]
    ctx.assumptions = [
        "WGSL placement rules as formalised in Valid/CfLegal.v (discard is unrestricted by continuing blocks, as in the current WGSL specification)",
        "static use = global-variable expressions in the arena of a function reachable through call statements (Valid/Reach.v)",
    ]
    broken = None
    if not ok:
        broken = "Coq development for C08 no longer checks: %s" % (failed or log[-600:])
    exe = ocamlbuild.build("valid")
    tool = tools["acceptdrive"]

    replay = getattr(ctx, "replay", None)
    if replay:
        # re-run one recorded program (shrunk form first) through every stage and every option set
        progs = []
        for fn in ("shrunk.wgsl", "program.wgsl"):
            fp = os.path.join(replay, fn)
            if os.path.exists(fp):
                with open(fp, errors="replace") as f:
                    progs.append(Prog("replay/" + fn, f.read(), "matrix"))
    else:
        progs = collect_programs(ctx)
        # every program of the typed generator must be valid WGSL by the verified checker (not only "by construction")
        try:
            wgslcheck.accept_leg(ctx, [(p.name, p.meta["ast"], p.src) for p in progs if p.kind == "typed" and "ast" in p.meta])
        except Exception as e:  # the checker no longer extracts / builds
            broken = broken or "extracted type checker (wgslcheck) unavailable: %s" % str(e)[-400:]
    setlists = [sets_for(ctx, i, p) for i, p in enumerate(progs)]
    results = run_go(tool, progs, setlists)
    # typed-generator programs are large and contain no unusual control flow: the model is run on them
    # only when naga.Validate complained (to explain the complaint); all others go through the model
    need = [r is not None and "ir" in r for r in results]
    models = run_model(exe, results, only=need)

    stats = {"programs": len(progs), "by_kind": {}, "lowered": 0, "validator_tie_compared": 0, "validator_tie_mismatches": 0,
             "go_validation_errors_compared": 0, "claimed_valid": 0, "backend_runs": 0,
             "rejections_known": 0, "spec_illegal_generated": 0, "exactness_checked_functions": 0}
    seen_src = set()
    nontrivial = 0
    tie_broken = None
    reported = set()
    variant_mismatch = {v: 0 for v, _ in VARIANTS}
    first_mismatch = {}
    for i, (p, r, mo, sets) in enumerate(zip(progs, results, models, setlists)):
        stats["by_kind"][p.kind] = stats["by_kind"].get(p.kind, 0) + 1
        if p.src not in seen_src:
            seen_src.add(p.src)
            nontrivial += 1
        lowered = r is not None and "eps" in r
        if lowered:
            stats["lowered"] += 1
        if lowered and need[i]:
            if mo is None or not mo.get("ok"):
                tie_broken = tie_broken or "IR dump of %s does not decode: %s" % (p.name, (mo or {}).get("err"))
                continue
            # ---- validator tie: same error list, in order, against both transliterations ----
            g = [L.classify_verr(e) for e in r.get("validate") or []]
            stats["validator_tie_compared"] += 1
            stats["go_validation_errors_compared"] += len(g)
            for variant, field in VARIANTS:
                m = [L.model_verr(e) for e in mo[field]]
                if g != m:
                    variant_mismatch[variant] += 1
                    if variant not in first_mismatch:
                        first_mismatch[variant] = {"program": p.name, "naga": g[:6], "model": m[:6]}
            # the exact characterisation theorem, observed on the extracted definitions
            for f in mo["functions"]:
                stats["exactness_checked_functions"] += 1
                lhs = not f["cf_model_errors"]
                rhs = f["cf_legal"] and f["breaks_in_loop"] and f["continuing_flat"]
                if lhs != rhs:
                    tie_broken = tie_broken or "extracted definitions contradict validator_cf_exact on %s/%s" % (p.name, f["name"])
        for sname, eps in ((r or {}).get("sets") or {}).items():
            stats["backend_runs"] += len(eps)
        # ---- pipeline tie ----
        by_construction = p.kind in ("corpus", "matrix", "typed", "cf-legal", "cf-restricted", "bind-legal")
        legal = spec_legal(mo) if (lowered and need[i]) else by_construction
        if lowered and need[i] and by_construction and not legal:
            stats["spec_illegal_generated"] += 1
            ctx.violation("a program that is legal by construction (%s) is judged illegal by the extracted WGSL "
                          "specifications (cf_legal / binding_rule_ok): generator or specification is wrong" % p.name,
                          files={"program.wgsl": p.src}, found_input=False, key="spec-vs-generator:" + p.kind,
                          broken="Valid/CfLegal.v / Valid/BindingRule.v vs lib/c08lib.py generators")
            continue
        if not (by_construction or legal):
            continue
        stats["claimed_valid"] += 1
        rej = rejections(p, r, mo, sets)
        for key, text, oset in rej:
            if key in reported:
                continue
            reported.add(key)
            known = any(k.get("status") == "open" and k.get("match") == key for k in ctx._known)
            if known:
                stats["rejections_known"] += 1
                ctx.violation(text, key=key)
                continue
            small = shrink_violation(tool, exe, p, key, oset)
            ctx.violation("valid program %s is rejected [key %s]\n%s\nshrunk program (%d lines):\n%s"
                          % (p.name, key, text, len(small.strip().split("\n")), small[:1500]),
                          files={"program.wgsl": p.src, "shrunk.wgsl": small,
                                 "option_set.json": repr(oset)}, key=key)
        if len(ctx.cov["samples"]) < 5 and p.kind != "corpus" and i % 37 == 0:
            ctx.sample({"program": p.name, "kind": p.kind, "head": p.src[:300],
                        "naga_validate": [L.classify_verr(e) for e in (r or {}).get("validate") or []][:3],
                        "spec_legal": legal})
    # which transliteration of ir/validate.go does /repo match?  (the pinned one, or the one repaired as
    # proposed; modules on which the two agree do not discriminate)
    matched = [v for v, _ in VARIANTS if variant_mismatch[v] == 0]
    if matched:
        variant = VARIANT_TEXT[matched[0]]         # several match only if no module of the run discriminates
    else:
        variant = "none"
        stats["validator_tie_mismatches"] = min(variant_mismatch.values())
        fm = first_mismatch["pinned"]
        tie_broken = tie_broken or ("naga.Validate matches none of the transliterations of ir/validate.go (%s): on %s naga "
                                    "reports %s, the pinned model %s"
                                    % (", ".join("%s: %d mismatches" % kv for kv in sorted(variant_mismatch.items())),
                                       fm["program"], fm["naga"][:3], fm["model"][:3]))
        ctx.cov["first_tie_mismatch"] = first_mismatch
    ctx.cov["validator_variant_matched"] = variant
    stats["validator_variant_mismatches"] = variant_mismatch
    ctx.cov["pipeline"] = stats
    import resource
    ru = [resource.getrusage(w) for w in (resource.RUSAGE_SELF, resource.RUSAGE_CHILDREN)]
    ctx.cov["cpu_s"] = round(sum(x.ru_utime + x.ru_stime for x in ru), 1)    # wall time depends on machine load
    ctx.cov["evaluations"] = stats["programs"] + stats["backend_runs"]
    ctx.cov["distinct_nontrivial"] = nontrivial
    ctx.cov["traces_validated_against_impl"] = stats["validator_tie_compared"]
    ctx.cov["rule"] = ("programs: the repository's 172 corpus shaders, %d hand-written feature-matrix programs, programs of the shared typed "
                       "generator lib/wgslgen.py (well typed by construction), generated control-flow "
                       "programs (statement grammar if/switch/loop+continuing/for/while/block with break/continue/return/discard at "
                       "every position; modes restricted/legal/any) and generated binding programs (resource variables, acyclic helper "
                       "calls, several entry points; modes legal/any); each run through Parse, LowerWithSource, Validate, Compile and "
                       "the option sets of the tier; distinct = distinct source text (every program has at least one entry point and "
                       "is therefore non-trivial)" % len(c08matrix.MATRIX))
    if tie_broken and not broken:
        broken = tie_broken
    if broken:
        ctx.cov["broken_tie"] = broken
        if not [v for v in ctx.violations if v[2]]:
            ctx.violation(broken + "\n(no valid program that naga rejects was found by the pipeline search)",
                          found_input=False, broken=broken, key="tie-broken",
                          files={"mismatch.txt": repr(ctx.cov.get("first_tie_mismatch"))})
