"""C14 - pipeline-overridable constants behave as substituted WGSL constants.

Deciding method: Coq theorems (Props/C14.v) over a specification of override
substitution (coq/Overrides/Spec.v: WGSL override-expression semantics on Base/Bits32 +
Flocq binary32, WebGPU/WebIDL conversion of supplied values) and a transliteration of
naga's resolution code (coq/Overrides/Model.v: lowering of override initialisers,
ir.ProcessOverrides, the MSL PipelineConstants pass, clone/write ownership).
Ties, re-established on every run:
  R  the operator tables of EvalBinaryFloat / EvalUnaryFloat / makeOverrideLiteral / the MSL
     evalBinaryOp, the fields CloneModuleForOverrides copies and the locations
     ProcessOverrides writes are regenerated from the Go source (Gen/OverrideOps.v) and the
     obligations that the model assumes exactly those are re-proved by coqc;
  C  the extracted model is run on generated programs x value maps and must agree exactly
     with harness/cmd/ovrdrive (real lowering, CloneModuleForOverrides + ProcessOverrides,
     glsl/msl PipelineConstants, reflection dump of the caller's module before/after); the
     model's Go float->int conversions are compared with the running toolchain.
Search = the same runs compared with the extracted SPEC: a disagreement on a concrete
program is a finding, keyed by the blamed operator/type class (lib/ovrgen.py).
FORM family (lib/ovrforms.py): one tiny program per (IR expression / statement form, operand
position), an override referenced before and after the form so that the arena rebuild of both
override passes shifts every handle.  Reference = the SUBSTITUTED program (each override
replaced by a `const` of the value the spec gives it).  Compared: handle-free canonical
function bodies of ProcessOverrides(clone) vs the lowered reference (ovrdrive canon.go, by
reflection over every handle field), the text of every back end on the resolved module vs on
the reference, SPIR-V summaries, and the text of msl/glsl Compile(PipelineConstants) vs the
reference; findings are keyed by the IR field / form and operand that differs."""
import json

import gen
import nagarun
import ocamlbuild
import ovrforms as F
import ovrgen as G
import vcheck

LEVEL = "proof"

MODEL_FILES = ["Overrides/F64.v", "Overrides/Spec.v", "Overrides/Model.v", "Overrides/FloatProofs.v",
               "Overrides/FloatProofs32.v", "Overrides/FloatLink.v", "Overrides/Proofs.v", "Overrides/FloatDiv.v",
               "Overrides/DivProofs.v", "Overrides/GenOblig.v"]


# ------------------------------------------------------------------ helpers

def enc_decl(d):
    return {"name": d["name"], "id": d["id"], "ty": d["ty"], "init": d["init"]}


def supplied_value(prog, d):
    """(found, bits) with naga's / the spec's lookup order: decimal id, then name."""
    m = {}
    for k, b in prog["vmap"]:
        if k not in m:
            m[k] = b
    if d["id"] is not None and str(d["id"]) in m:
        return True, m[str(d["id"])]
    if d["name"] in m:
        return True, m[d["name"]]
    return False, None


def value_class(t, bits):
    v = G.f64frombits(bits)
    if v != v:
        return "nan"
    if v in (float("inf"), float("-inf")):
        return "inf"
    if t == G.BOOL:
        return "bool-not-0-or-1" if v not in (0.0, 1.0) else "bool-0-or-1"
    if t == G.F32:
        if abs(v) >= 3.4028235677973366e38:
            return "f32-out-of-range"
        return "f32-exact" if G.f64bits(G.struct.unpack("<f", G.struct.pack("<f", v))[0]) == G.f64bits(v) or v == 0 else "f32-inexact"
    lo, hi = (-(1 << 31), (1 << 31) - 1) if t == G.I32 else (0, (1 << 32) - 1)
    tv = int(v)
    if tv < lo or tv > hi:
        return "out-of-range"
    return "fractional" if v != tv else "in-range"


def init_drop_reason(e):
    if e is None:
        return "no-init"
    k = e[0]
    if k == 0:
        return "float-suffix" if e[1][0] == 2 and e[1][2] == 1 else None
    if k == 2:
        return "const-ref"
    if k == 3:
        return init_drop_reason(e[2])
    if k == 4:
        return init_drop_reason(e[2]) or init_drop_reason(e[3])
    return None


def node_class(e, decls):
    """stable description of the top node of an expression: (operand type, operator)"""
    k = e[0]
    if k == 0:
        l = e[1]
        if l[0] == 1:
            return "int-literal" + ("-above-2^24" if l[1] > (1 << 24) else "")
        if l[0] == 2:
            return "float-literal"
        return "bool-literal"
    if k == 1:
        return "ref:" + G.TYNAME[decls[e[1]]["real_ty"]]
    if k == 2:
        return "const-ref"
    if k == 3:
        t = G.raw_tyname(e[2], decls)
        if t.startswith("abstract") and e[1] != G.NEG:
            t = G.TYNAME[G.infer_ty(e[2], decls)]
        return "%s:%s" % (t, "unary" + G.UOPS[e[1]])
    t = G.raw_tyname(e, decls, operand=True)
    if t.startswith("abstract") and e[1] not in (G.ADD, G.SUB, G.MUL, G.DIV):
        t = G.TYNAME[G.operand_ty(e, decls)]      # an unimplemented operator fails whatever the literals' kinds
    return "%s:%s" % (t, G.BOPS[e[1]])


def eval_key(cls, site):
    """finding key of a blamed initialiser class (override defaults and derived globals share the evaluator)"""
    return (site + "-" + cls) if cls.startswith("init-dropped:") else "override-eval:" + cls


def strip_type(cls):
    """operator class without the operand type (function-level and MSL keys)"""
    parts = cls.split(":")
    if parts[0] in ("bool", "i32", "u32", "f32", "abstract-int", "abstract-float") and len(parts) > 1:
        return ":".join(parts[1:])
    return cls


class Case:
    def __init__(self, cid, prog):
        self.id = cid
        self.prog = prog
        self.go = None
        self.model = None

    def files(self):
        p = self.prog
        cj = {"decls": [enc_decl(d) for d in p["decls"]], "consts": p["vmap"],
              "globals": [{"ty": g["ty"], "init": g["init"]} for g in p["globals"]], "wg": p["wg"], "lets": p["lets"]}
        out = {"program.wgsl": p["src"],
               "pipeline_constants.json": json.dumps([[k, str(b), repr(G.f64frombits(b))] for k, b in p["vmap"]], indent=1)}
        if p.get("kind") == "form":
            f = p["form"]
            cj["form"] = {"name": f["name"], "form": f["form"], "operands": f["operands"], "overrides": f["overrides"], "vals": p["vals"]}
            out["substituted.wgsl"] = p["subst"]
        out["case.json"] = json.dumps(cj)
        return out


def model_job(case):
    p = case.prog
    named = {}
    if case.go and "lowered" in case.go:
        for n in case.go["lowered"]["named"]:
            if n["fn"] == "main":
                named[n["name"]] = n["tree"]
    return {"decls": [enc_decl(d) for d in p["decls"]], "consts": p["vmap"],
            "globals": [{"ty": g["ty"], "init": g["init"]} for g in p["globals"]],
            "wg": p["wg"],
            "fn": [{"ty": l["ty"], "e": l["e"], "tree": G.ftree(named.get(l["name"]))} for l in p["lets"]]}


# ------------------------------------------------------------------ the check

class NeedQuery(Exception):
    pass


class Checker:
    """check_case is run once per case; model queries needed to blame a disagreement on
    an operator are collected (NeedQuery), answered in one batch, and the case re-run."""

    def __init__(self, ctx, tools, exe):
        self.cache = {}
        self.reported = set()
        self.pending = []
        self.buf = []
        self.ctx = ctx
        self.tools = tools
        self.exe = exe
        self.stats = {"cases": 0, "lower_rejected": 0, "tie_compared": 0, "spec_compared": 0, "spec_agree": 0,
                      "spec_skipped_type": 0, "spec_skipped_unsupported": 0, "findings": {}, "tie_breaks": 0,
                      "po_errors": 0, "orig_mutated": 0, "fn_lets": 0, "fn_residual": 0, "globals": 0, "wg": 0,
                      "msl_consts_compared": 0, "glsl_consts_compared": 0, "blame_queries": 0}
        self.opcov = set()
        self.distinct = set()
        self.tie_broken = []
        self.fstats = {"programs": 0, "reference_values_checked": 0, "po_ir_compared": 0, "po_ir_equal": 0, "po_ir_equal_up_to_emits": 0,
                       "po_ir_differs": {}, "text_compared": {}, "text_equal": {}, "backend_rejects_reference_too": {},
                       "differences_explained_by_ir_difference": 0, "differences_explained_by_truncated_emit": 0,
                       "spv_compared": 0, "spv_equal": 0, "spv_equal_up_to_null_override_constants": 0, "findings": {}}
        self.fforms = set()

    # -- reporting
    def tie_break(self, case, what, detail):
        self.stats["tie_breaks"] += 1
        self.tie_broken.append(what)
        files = case.files()
        files["detail.txt"] = detail
        self.buf.append(dict(what="model/implementation correspondence broken (%s): the Coq model of the override "
                             "resolution no longer describes /repo on this input\n%s" % (what, detail[:600]),
                             files=files, key="tie:" + what,
                             broken="correspondence Model.v <-> ir/process_overrides.go, lower.go, msl pipeline_constants.go (%s)" % what))

    def finding(self, case, key, what):
        self.stats["findings"][key] = self.stats["findings"].get(key, 0) + 1
        self.buf.append(dict(what="%s\n--- program ---\n%s--- pipeline constants ---\n%s" % (
            what, case.prog["src"], [(k, G.f64frombits(b)) for k, b in case.prog["vmap"]]),
            files=case.files(), key=key))

    # -- model queries for blame
    def query(self, jobs):
        keys = [json.dumps(j, sort_keys=True) for j in jobs]
        missing = [(k, j) for k, j in zip(keys, jobs) if k not in self.cache]
        if missing:
            self.pending += missing
            raise NeedQuery()
        return [self.cache[k] for k in keys]

    def run_all(self, cases):
        todo = list(cases)
        for _round in range(6):
            again = []
            for c in todo:
                import copy
                snap = copy.deepcopy(self.stats)
                snap_cov, snap_tb = set(self.opcov), list(self.tie_broken)
                self.buf = []
                self.case_distinct = None
                try:
                    self.check_case(c)
                except NeedQuery:
                    self.stats, self.opcov, self.tie_broken = snap, snap_cov, snap_tb
                    again.append(c)
                    continue
                if self.case_distinct:
                    self.distinct.add(hash(self.case_distinct))
                for v in self.buf:
                    # one report per class (the first case that shows it); the counts are in the evidence
                    if v["key"] in self.reported:
                        continue
                    self.reported.add(v["key"])
                    self.ctx.violation(v["what"], files=v["files"], key=v["key"], broken=v.get("broken"))
            if not again:
                break

            uniq = {}
            for k, j in self.pending:
                uniq.setdefault(k, j)
            self.pending = []
            ks = list(uniq)
            outs = vcheck.run_model(self.exe, [uniq[k] for k in ks])
            self.stats["blame_queries"] += len(ks)
            for k, o in zip(ks, outs):
                self.cache[k] = o
            todo = again

    def blame_expr(self, case, prefix_decls, e, t, which="model_po", as_global=False):
        """Key of the first sub-expression (post-order) of e on which model and spec differ
        when it is the initialiser of a fresh override of its own type appended to
        prefix_decls.  For the ProcessOverrides path the failing operator is then tried in
        isolation on the exactly converted values of its operands: if it is right there,
        the cause is the unconverted float64 intermediate it was fed."""
        p = case.prog
        decls = p["decls"]
        subs = G.subexprs(e)
        jobs = []
        for s in subs:
            ts = G.infer_ty(s, decls)
            rt = G.raw_ty(s, decls)
            if (rt == "aint" and t in (G.I32, G.U32, G.F32)) or (rt == "afloat" and t == G.F32):
                ts = t                                     # a purely abstract sub-expression is converted to the target type
            if as_global:
                # a derived global initialiser reads the CONVERTED literals of the overrides
                jobs.append({"decls": [enc_decl(d) for d in prefix_decls], "consts": p["vmap"],
                             "globals": [{"ty": ts, "init": s}]})
            else:
                jobs.append({"decls": [enc_decl(d) for d in prefix_decls] + [{"name": "q_", "id": None, "ty": ts, "init": s}],
                             "consts": p["vmap"]})
        outs = self.query(jobs)
        n = len(prefix_decls)
        vals = {}
        for s, o in zip(subs, outs):
            if as_global:
                g0 = o["globals"][0]
                if g0 is None:
                    continue
                sv = g0["spec"]
                dropped = g0["lowered"] is None
                mv = g0["model"]
            else:
                se = o["spec_each"]
                if len(se) <= n:
                    continue                               # an earlier override already fails in the spec
                sv = se[n]
                dropped = o["lowered"][n]["init"] is None
                if which == "model_po":
                    mv = o["model_po"][n] if o["model_po"] is not None else None
                else:
                    mv = msl_value(o["model_msl"][n], sv[1][0]) if sv[0] == "ok" else None
            cls = node_class(s, decls)
            if sv[0] == "err":
                if sv[1] in ("type", "unsupported"):
                    return None
                if sv[1] == "diag":
                    return cls + ":error-required"
                continue
            vals[id(s)] = sv[1]
            if dropped:
                return "init-dropped:" + (init_drop_reason(s) or "other")
            if mv is None or G.norm_lit(mv) != G.norm_lit(sv[1]):
                if which != "model_po" or s[0] not in (3, 4):
                    return cls if not (which != "model_po" and s[0] == 1) else "ref-to-unresolved"
                if cls.startswith("abstract"):
                    return cls
                # the operator in isolation
                kids = [s[2]] if s[0] == 3 else [s[2], s[3]]
                if any(id(k) not in vals for k in kids):
                    return cls
                opt = G.infer_ty(s[2], decls) if not (s[0] == 4 and s[1] in (G.SHL, G.SHR)) else None
                if s[0] == 4:
                    ta, tb = G.infer_ty(s[2], decls), G.infer_ty(s[3], decls)
                    unified = G.operand_ty(s, decls)
                    a = G.retag(vals[id(s[2])], unified)
                    b = G.retag(vals[id(s[3])], G.U32 if s[1] in (G.SHL, G.SHR) else unified)
                    if a is None or b is None:
                        return cls
                    r = self.query([{"decls": [], "consts": [], "optest": [[0, s[1], a, b]]}])[0]["optest"][0]
                else:
                    r = self.query([{"decls": [], "consts": [], "optest": [[1, s[1], vals[id(s[2])]]]}])[0]["optest"][0]
                if r is None:
                    return cls
                if r["spec"][0] == "ok" and G.norm_lit(r["spec"][1]) == G.norm_lit(r["model"]):
                    return "%s:unconverted-intermediate" % cls.split(":")[0]
                if cls.split(":")[0] in ("i32", "u32") and cls.split(":")[1] in ("+", "-", "*", "unary-"):
                    return cls + ":overflow"
                return cls
        return "composition"

    def unconverted_cause(self, case, i_decls, e):
        """does the disagreement disappear when the supplied values of the referenced
        overrides are replaced by their converted (typed) values?  -> the type name"""
        p = case.prog
        refs = set()

        def walk(x):
            if x[0] == 1:
                refs.add(x[1])
            elif x[0] == 3:
                walk(x[2])
            elif x[0] == 4:
                walk(x[2]); walk(x[3])
        walk(e)
        for j in sorted(refs):
            d = p["decls"][j]
            found, bits = supplied_value(p, d)
            if not found:
                continue
            c = value_class(d["real_ty"], bits)
            if c in ("fractional", "f32-inexact", "bool-not-0-or-1"):
                return "%s:%s" % (G.TYNAME[d["real_ty"]], c)
        return None

    # -- one case
    def check_case(self, case):
        ctx = self.ctx
        p, go, mo = case.prog, case.go, case.model
        st = self.stats
        st["cases"] += 1
        if go is None or "crash" in go or "panic" in go:
            self.finding(case, "crash:" + str((go or {}).get("crash") or (go or {}).get("panic"))[:60],
                         "ovrdrive crashed / panicked outside the guarded paths: %s" % (go,))
            return
        if "err" in go:
            st["lower_rejected"] += 1
            case.rejected = go.get("err")
            return
        if mo is None or "error" in mo:
            self.tie_break(case, "model-decode", "the extracted model could not decode the case: %s" % (mo,))
            return
        decls = p["decls"]
        low = go["lowered"]
        # ---------------- tie 1: lowering of overrides
        if [o["name"] for o in low["overrides"]] != [d["name"] for d in decls]:
            self.tie_break(case, "override-order", "lowered overrides %s vs declared %s" % (
                [o["name"] for o in low["overrides"]], [d["name"] for d in decls]))
            return
        for i, (o, m) in enumerate(zip(low["overrides"], mo["lowered"])):
            want = (G.TYNAME[m["ty"]], G.norm_tree(m["init"]), decls[i]["id"])
            got = (o["ty"], G.norm_tree(G.gtree(o["init"])), o["id"])
            if want != got:
                self.tie_break(case, "lowering", "override %s lowered to %s, model says %s" % (o["name"], got, want))
                return
        st["tie_compared"] += 1
        # ---------------- tie 2: ProcessOverrides on the clone
        po = go.get("po", {})
        if "panic" in po:
            self.finding(case, "po-panic:" + po["panic"][:50], "ir.ProcessOverrides panicked: %s" % po["panic"])
            return
        impl_err = "err" in po
        if impl_err != (mo["model_po"] is None):
            self.tie_break(case, "po-error", "ProcessOverrides error=%s (%s), model error=%s" % (impl_err, po.get("err"), mo["model_po"] is None))
            return
        impl_vals = None
        if not impl_err:
            impl_vals = [G.lit_of_tree(x["val"]) if x else None for x in po["resolved"]]
            mvals = [G.norm_lit(x) for x in mo["model_po"]]
            if impl_vals != mvals:
                self.tie_break(case, "po-values", "ProcessOverrides resolved %s, model %s" % (impl_vals, mvals))
                return
            # globals
            pog = {g["name"]: g for g in po["globals"]}
            lg = {g["name"]: g for g in low["globals"]}
            for gl, mg in zip(p["globals"], mo["globals"]):
                st["globals"] += 1
                gotl = G.norm_tree(G.gtree(lg[gl["name"]]["init"]))
                if gotl != G.norm_tree(mg["lowered"]):
                    self.tie_break(case, "global-lowering", "global %s initialiser lowered to %s, model %s" % (gl["name"], gotl, mg["lowered"]))
                    return
                gotv = G.lit_of_tree(pog[gl["name"]]["init"])
                if gotv != G.norm_lit(mg["model"]):
                    self.tie_break(case, "global-values", "global %s initialiser after ProcessOverrides %s, model %s" % (gl["name"], gotv, mg["model"]))
                    return
            # workgroup sizes
            if p["wg"]:
                st["wg"] += 1
                for which in (low["workgroups"], po["workgroups"]):
                    got = which[0]["wg"][:len(p["wg"])]
                    want = [w["model"] for w in mo["wg"]]
                    if got != want:
                        self.tie_break(case, "workgroup-size", "workgroup size %s, model %s" % (got, want))
                        return
            # function-level folding
            named = {n["name"]: n["tree"] for n in po["named"] if n["fn"] == "main"}
            for l, mf in zip(p["lets"], mo["fn"]):
                st["fn_lets"] += 1
                got = G.norm_tree(G.ftree(named.get(l["name"])))
                if got != G.norm_tree(mf["model"]):
                    self.tie_break(case, "fn-fold", "let %s after ProcessOverrides is %s, model %s" % (l["name"], got, mf["model"]))
                    return
        else:
            st["po_errors"] += 1
        # original module untouched?  model: only the leaked location classes can change
        sc = low.get("stmt_classes", {})
        present = {"nested-block": sc.get("nested", 0) > 0, "call-arguments": sc.get("call_args", 0) > 0,
                   "statement-pointer": sc.get("ptr", 0) > 0, "expression-pointer": sc.get("expr_ptr", 0) > 0}
        for path in ("po", "glsl", "msl"):
            r = go.get(path, {})
            if r.get("orig_unchanged") is False:
                st["orig_mutated"] += 1
                cls = orig_class(r.get("orig_diff", ""))
                if cls is None or not present.get(cls) or (path != "msl" and cls not in mo["leaked"]):
                    self.tie_break(case, "orig-mutated-unexpected", "%s changed the caller's module at %s although the program has "
                                   "no statement of a class the ownership model lists as shared" % (path, r.get("orig_diff")))
                    return
                self.finding(case, "orig-mutated:%s:%s" % ("msl" if path == "msl" else "process", cls),
                             "resolution through %s altered the caller's original module (first difference: %s)" % (path, r.get("orig_diff")))
        # ---------------- tie 3: glsl PipelineConstants = clone + ProcessOverrides + glsl
        gl = go.get("glsl", {})
        if p["vmap"] and decls:
            if "panic" in gl:
                self.finding(case, "glsl-panic:" + gl["panic"][:50], "glsl.Compile with PipelineConstants panicked: %s" % gl["panic"])
            elif ("err" in gl) != impl_err and not (("err" in gl) and not impl_err and "glsl_err" in po.get("backends", {})):
                self.tie_break(case, "glsl-error", "glsl PipelineConstants error=%s, ProcessOverrides error=%s" % (gl.get("err"), po.get("err")))
                return
            elif "text" in gl:
                if po.get("backends", {}).get("glsl") != gl["text"]:
                    self.tie_break(case, "glsl-text", "glsl.Compile(PipelineConstants) differs from glsl.Compile(ProcessOverrides(clone))")
                    return
                consts = {m.group(2): (m.group(1), m.group(3)) for m in G.GLSL_CONST.finditer(gl["text"])}
                for d, mv in zip(decls, mo["model_po"]):
                    if d["name"] in consts:
                        got = G.parse_rhs(consts[d["name"]][1], mv[0])
                        st["glsl_consts_compared"] += 1
                        if got != G.norm_lit(mv):
                            self.tie_break(case, "glsl-constant", "glsl emitted `%s = %s`, model literal %s" % (d["name"], consts[d["name"]][1], mv))
                            return
        # ---------------- tie 4: msl PipelineConstants phase 1
        ms = go.get("msl", {})
        msl_vals = None
        if "panic" in ms:
            self.finding(case, "msl-panic:" + ms["panic"][:50], "msl.Compile with PipelineConstants panicked: %s" % ms["panic"])
        elif "text" in ms:
            consts = {}
            for m in G.MSL_CONST.finditer(ms["text"]):
                consts.setdefault(m.group(2), (m.group(1), m.group(3)))
            msl_vals = []
            for d, mv in zip(decls, mo["model_msl"]):
                rhs = consts.get(d["name"], (None, None))[1]
                msl_vals.append(rhs)
                if p["vmap"] and mv is not None and rhs is not None:
                    got = G.parse_rhs(rhs, mv[0])
                    st["msl_consts_compared"] += 1
                    lit_kind_ok = True
                    if mv[0] in (G.I32, G.U32):
                        lit_kind_ok = ("." not in rhs and "e" not in rhs.lower()) and (rhs.endswith("u") == (mv[0] == G.U32))
                    if got != G.norm_lit(mv) or not lit_kind_ok:
                        self.tie_break(case, "msl-constant", "msl emitted `%s = %s`, model literal %s" % (d["name"], rhs, mv))
                        return
        # ================ spec vs implementation
        self.spec_compare(case, impl_vals, impl_err, msl_vals)
        if p.get("kind") == "form":
            self.form_compare(case, impl_err)

    def spec_compare(self, case, impl_vals, impl_err, msl_vals):
        p, go, mo = case.prog, case.go, case.model
        st = self.stats
        decls = p["decls"]
        se = mo["spec_each"]
        st["spec_compared"] += 1
        self.case_distinct = json.dumps([[enc_decl(d) for d in decls], p["vmap"]], sort_keys=True)
        all_ok = True
        for i, d in enumerate(decls):
            if i >= len(se):
                all_ok = False
                break
            s = se[i]
            t = d["real_ty"]
            found, bits = supplied_value(p, d)
            if d["init"] is not None:
                for sub in G.subexprs(d["init"]):
                    if sub[0] in (3, 4):
                        self.opcov.add(node_class(sub, decls))
            if s[0] == "err":
                all_ok = False
                e = s[1]
                if e == "type":
                    st["spec_skipped_type"] += 1
                    self.tie_break(case, "generator-ill-typed", "the generator produced an ill-typed initialiser for %s" % d["name"])
                elif e == "unsupported":
                    st["spec_skipped_unsupported"] += 1
                elif impl_err:
                    st["spec_agree"] += 1
                else:
                    if e == "missing":
                        self.finding(case, "override-missing-not-reported", "override %s has no value and no default but ProcessOverrides succeeded" % d["name"])
                    elif e == "conv":
                        self.finding(case, "override-value:%s:%s" % (G.TYNAME[t], value_class(t, bits)),
                                     "supplied value %r is not convertible to %s (WebIDL conversion fails) but ProcessOverrides "
                                     "resolved override %s to %s" % (G.f64frombits(bits), G.TYNAME[t], d["name"], impl_vals[i]))
                    else:
                        cls = self.blame_expr(case, decls[:i], d["init"], t) if d["init"] is not None else "no-init"
                        if cls is not None:
                            self.finding(case, eval_key(cls, "override"), "WGSL requires a pipeline-creation error for the default of %s "
                                         "but ProcessOverrides resolved it to %s" % (d["name"], impl_vals[i]))
                break
            if impl_err:
                # is a later override in error per the spec?  then the error is expected
                later_err = any(x[0] == "err" and x[1] in ("missing", "conv", "diag") for x in se[i:])
                if later_err:
                    st["spec_agree"] += 1
                elif not any(x[0] == "err" for x in se[i:]) and len(se) == len(decls):
                    # the spec gives every override a value; find the override the model fails on
                    k = next((j for j, m in enumerate(mo["lowered"]) if m["init"] is None and not supplied_value(p, decls[j])[0]), None)
                    reason = init_drop_reason(decls[k]["init"]) if k is not None else "unknown"
                    self.finding(case, "override-init-dropped:%s" % reason,
                                 "every override has a value per WGSL (override %s: default initialiser) but ProcessOverrides "
                                 "reports an error: %s" % (decls[k]["name"] if k is not None else "?", go["po"].get("err")))
                all_ok = False
                break
            if G.norm_lit(s[1]) != impl_vals[i]:
                all_ok = False
                if s[1][0] != impl_vals[i][0]:
                    key = ("override-type-infer:%s" % ("bool-literal" if d["init"][0] == 0 else "expression")) if d["ty"] is None else "override-type"
                elif found:
                    key = "override-value:%s:%s" % (G.TYNAME[t], value_class(t, bits))
                else:
                    cls = self.blame_expr(case, decls[:i], d["init"], t)
                    if cls is None:
                        break
                    key = eval_key(cls, "override")
                self.finding(case, key, "override %s: WGSL value %s, ProcessOverrides resolved %s" % (d["name"], lit_str(s[1]), lit_str(impl_vals[i])))
                break
        if all_ok and not impl_err:
            st["spec_agree"] += 1
            self.sample(case)
            # derived places, only meaningful when every override agrees
            pog = {g["name"]: g for g in go["po"]["globals"]}
            for gl, mg in zip(p["globals"], mo["globals"]):
                for sub in G.subexprs(gl["init"]):
                    if sub[0] in (3, 4):
                        self.opcov.add(node_class(sub, decls))
                sp = mg["spec"]
                got = G.lit_of_tree(pog[gl["name"]]["init"])
                if sp[0] == "err":
                    if sp[1] == "diag":
                        cls = self.blame_expr(case, decls, gl["init"], gl["ty"], as_global=True)
                        if cls:
                            self.finding(case, eval_key(cls, "global"), "WGSL requires a pipeline-creation error for the initialiser of %s, "
                                         "ProcessOverrides made it %s" % (gl["name"], lit_str(got)))
                    continue
                if got != G.norm_lit(sp[1]):
                    if mg["lowered"] is None:
                        key = "global-init-dropped:%s" % (init_drop_reason(gl["init"]) or "other")
                    else:
                        cls = self.blame_expr(case, decls, gl["init"], gl["ty"], as_global=True)
                        if cls is None:
                            continue
                        key = eval_key(cls, "global")
                    self.finding(case, key, "global %s: WGSL initial value %s, after ProcessOverrides %s" % (gl["name"], lit_str(sp[1]), lit_str(got)))
            if p["wg"]:
                got = go["po"]["workgroups"][0]["wg"]
                for k, (w, mw) in enumerate(zip(p["wg"], mo["wg"])):
                    sp = mw["spec"]
                    if sp[0] == "ok" and sp[1][1] != got[k]:
                        self.finding(case, "override-wgsize:%s" % ("override-ignored" if G.refs_override(w) else "other"),
                                     "@workgroup_size argument %d: WGSL value %d, module has %d" % (k, sp[1][1], got[k]))
                        break
            named = {n["name"]: n["tree"] for n in go["po"]["named"] if n["fn"] == "main"}
            for l, mf in zip(p["lets"], mo["fn"]):
                if l["e"][0] in (3, 4):
                    self.opcov.add("fn:" + node_class(l["e"], decls))
                sp = mf["spec"]
                tr = named.get(l["name"])
                got = G.lit_of_tree(tr)
                if tr is None or tr.get("k") != "lit":
                    st["fn_residual"] += 1
                    continue
                if sp is None or (sp[0] == "err" and sp[1] in ("type", "unsupported")):
                    continue
                cls = node_class(l["e"], decls)
                if sp[0] == "err":
                    self.finding(case, "override-fn-eval:%s:error-required" % strip_type(cls), "let %s: WGSL requires an error (%s), ProcessOverrides folded it to %s" % (l["name"], sp[1], lit_str(got)))
                    break
                if got != G.norm_lit(sp[1]):
                    key = "override-fn-eval:" + strip_type(cls)
                    if cls.split(":")[0] in ("i32", "u32") and cls.split(":")[1] in ("+", "-", "*", "unary-"):
                        key += ":overflow"
                    self.finding(case, key, "let %s = %s: WGSL value %s, ProcessOverrides folded it to %s" % (
                        l["name"], G.expr_text(l["e"], decls, p["consts"]), lit_str(sp[1]), lit_str(got)))
                    break
            # the other back ends must accept the resolved module
            be = go["po"].get("backends", {})
            for b in ("glsl", "msl", "hlsl", "spv"):
                if p.get("kind") == "form":
                    break                                  # compared with the back end's verdict on the reference (form_compare)
                if b + "_err" in be:
                    self.finding(case, "po-backend-error:%s:%s" % (b, err_class(be[b + "_err"])),
                                 "%s rejects the module ProcessOverrides produced: %s" % (b, be[b + "_err"]))
            if "backend_panic" in be:
                self.finding(case, "po-backend-panic:" + be["backend_panic"][:40], "a back end panicked on the resolved module: %s" % be["backend_panic"])
        # ---------------- MSL PipelineConstants path against the spec
        ms = go.get("msl", {})
        if msl_vals is None:
            return
        for i, d in enumerate(decls):
            if i >= len(se):
                break
            s = se[i]
            t = d["real_ty"]
            found, bits = supplied_value(p, d)
            if s[0] == "err":
                if s[1] == "missing":
                    self.finding(case, "msl-override-missing-not-reported", "override %s has no value and no default; msl.Compile emitted `%s` without an error" % (d["name"], msl_vals[i]))
                elif s[1] == "conv":
                    self.finding(case, "msl-override-value:%s:%s" % (G.TYNAME[t], value_class(t, bits)),
                                 "supplied value %r is not convertible to %s; msl.Compile emitted `%s` without an error" % (G.f64frombits(bits), G.TYNAME[t], msl_vals[i]))
                elif s[1] == "diag":
                    self.finding(case, "msl-override-eval:error-required", "WGSL requires a pipeline-creation error for %s; msl emitted `%s`" % (d["name"], msl_vals[i]))
                break
            if msl_vals[i] is None or d["ty"] is None:
                continue
            got = G.parse_rhs(msl_vals[i], s[1][0])
            if got is None:
                continue                                   # an expression: left to the Metal compiler
            if got == "zero":
                got = [s[1][0], 0]
            if got != G.norm_lit(s[1]):
                if not p["vmap"]:
                    key = "msl-override-default:" + msl_default_class(d["init"])
                elif found:
                    key = "msl-override-value:%s:%s" % (G.TYNAME[t], value_class(t, bits))
                else:
                    cls = self.blame_expr(case, decls[:i], d["init"], t, which="model_msl")
                    if cls is None:
                        break
                    key = "msl-override-eval:" + strip_type(cls)
                self.finding(case, key, "override %s: WGSL value %s, msl.Compile(PipelineConstants) emitted `%s`" % (d["name"], lit_str(s[1]), msl_vals[i]))
                break


    # -- the form family: every override path against the substituted program
    def form_finding(self, case, key, what):
        self.fstats["findings"][key] = self.fstats["findings"].get(key, 0) + 1
        self.finding(case, key, what + "\n--- substituted reference ---\n" + case.prog["subst"])

    def form_compare(self, case, impl_err):
        p, go, mo = case.prog, case.go, case.model
        f = p["form"]
        st = self.fstats
        st["programs"] += 1
        self.fforms.add(f["form"])
        name = f["form"]
        sub = go.get("subst")
        if sub is None or "err" in sub:
            self.tie_break(case, "form-reference-rejected", "the substituted program of form %s is rejected although the program with overrides "
                           "is accepted: %s" % (f["name"], (sub or {}).get("err")))
            return
        # the values substituted by the generator are the values the SPEC gives the overrides
        se = mo["spec_each"]
        for i, d in enumerate(p["decls"]):
            want = form_literal(d["real_ty"], p["vals"][d["name"]])
            if i >= len(se) or se[i][0] != "ok" or G.norm_lit(se[i][1]) != want:
                self.tie_break(case, "form-reference-value", "override %s: the reference program substitutes %s, the specification says %s" % (
                    d["name"], want, se[i] if i < len(se) else None))
                return
        st["reference_values_checked"] += len(p["decls"])
        po = go.get("po", {})
        if impl_err or "panic" in po:
            self.form_finding(case, "form:po-error:" + name, "ProcessOverrides fails on form %s although every override has a value: %s" % (
                f["name"], po.get("err") or po.get("panic")))
            return
        ovr = f["overrides"]
        sb, pb = sub.get("backends", {}), po.get("backends", {})
        cv = sub.get("canon_vs_po")
        ir_differs, emit_differs = False, False
        if cv is None:
            self.tie_break(case, "form-no-canon", "ovrdrive returned no canonical comparison for form %s" % f["name"])
            return
        st["po_ir_compared"] += 1
        if "diff_noemit" in cv:
            ir_differs = True
            path, desc = cv["diff_noemit"]
            field = short_path(path)
            st["po_ir_differs"][field] = st["po_ir_differs"].get(field, 0) + 1
            self.form_finding(case, "form:po-ir:" + field,
                              "form %s: the function bodies ProcessOverrides produced differ from the lowered substituted program at %s "
                              "(reference vs resolved): %s" % (f["name"], path, desc))
        elif "diff" in cv:
            emit_differs = True
            st["po_ir_equal_up_to_emits"] += 1
            if cv.get("unemitted", 0) > cv.get("unemitted_ref", 0):
                self.form_finding(case, "form:po-ir:last-emit-truncated",
                                  "form %s: after ProcessOverrides %d expression(s) at the end of a function's arena are covered by no Emit "
                                  "statement (remapBlockHandles leaves Range.End == len(old arena) unmapped although the arena grew): "
                                  "back ends evaluate them lazily at their use, after intervening stores; first difference at %s: %s" % (
                                      f["name"], cv["unemitted"] - cv.get("unemitted_ref", 0), cv["diff"][0], cv["diff"][1]))
            else:
                self.form_finding(case, "form:po-ir:emit:" + name, "form %s: Emit statements after ProcessOverrides differ from the "
                                  "substituted program at %s: %s" % (f["name"], cv["diff"][0], cv["diff"][1]))
        else:
            st["po_ir_equal"] += 1

        def count(d, k):
            d[k] = d.get(k, 0) + 1

        def compare_text(tag, ref, got, via_po):
            """tag: po-glsl | po-hlsl | po-msl | msl-pc | glsl-pc"""
            count(st["text_compared"], tag)
            if ref == got:
                count(st["text_equal"], tag)
                return
            a, g = F.norm_text(ref, ovr), F.norm_text(got, ovr)
            if a == g:
                count(st["text_equal"], tag)
                return
            if via_po and ir_differs:
                st["differences_explained_by_ir_difference"] += 1
                return
            if via_po and emit_differs:
                st["differences_explained_by_truncated_emit"] += 1
                self.form_finding(case, "form:po-ir:last-emit-truncated:behaviour",
                                  "form %s: %s text of the module ProcessOverrides produced differs from the text of the substituted program "
                                  "where an expression lost its Emit:\n%s" % (f["name"], tag, F.text_diff(a, g)))
                return
            lost = F.lost_tokens(a, g, f["operands"])
            pos = ",".join("operand%d(%s)" % (f["operands"].index(t), t) for t in lost) or "shape"
            self.form_finding(case, "form:%s:%s:%s" % (tag, name, pos),
                              "form %s: %s output differs from the output for the substituted program%s:\n%s" % (
                                  f["name"], tag, " (operand %s lost)" % lost if lost else "", F.text_diff(a, g)))
        for b in ("glsl", "hlsl", "msl"):
            ref_err, got_err = b + "_err" in sb, b + "_err" in pb
            if ref_err and got_err:
                count(st["backend_rejects_reference_too"], b)
                continue
            if ref_err != got_err or b not in sb or b not in pb:
                if ir_differs:
                    st["differences_explained_by_ir_difference"] += 1
                else:
                    self.form_finding(case, "form:po-%s-error:%s" % (b, name), "form %s: %s on the resolved module: %s; on the substituted program: %s" % (
                        f["name"], b, pb.get(b + "_err", "ok"), sb.get(b + "_err", "ok")))
                continue
            compare_text("po-" + b, sb[b], pb[b], True)
        # SPIR-V: id- and order-independent summary
        if "spv_err" in sb and "spv_err" in pb:
            count(st["backend_rejects_reference_too"], "spv")
        elif ("spv_err" in sb) != ("spv_err" in pb) or "spv" not in sb or "spv" not in pb:
            if ir_differs:
                st["differences_explained_by_ir_difference"] += 1
            else:
                self.form_finding(case, "form:po-spv-error:" + name, "form %s: SPIR-V on the resolved module: %s; on the substituted program: %s" % (
                    f["name"], pb.get("spv_err", "ok"), sb.get("spv_err", "ok")))
        else:
            st["spv_compared"] += 1
            x, y = F.spv_summary(sb["spv"]), F.spv_summary(pb["spv"])
            if x == y:
                st["spv_equal"] += 1
            else:
                only_ref, only_got = multiset_diff(x["constants"], y["constants"])
                # (SPIR-V constants are deduplicated: a resolved override may share its id with an equal literal)
                nulls = (x["functions"] == y["functions"] and x["modes"] == y["modes"] and only_got
                         and all(c.startswith("ConstantNull ") for c in only_got)
                         and all(c.split()[0] in ("Constant", "ConstantTrue", "ConstantFalse") for c in only_ref)
                         and set(c.split()[1] for c in only_ref) <= set(c.split()[1] for c in only_got))
                if nulls:
                    st["spv_equal_up_to_null_override_constants"] += 1
                    self.form_finding(case, "form:po-spv:override-constant-null",
                                      "form %s: in the SPIR-V generated from the module ProcessOverrides produced the resolved override(s) are "
                                      "OpConstantNull (the constants ProcessOverrides appends carry only Init, the SPIR-V back end emits "
                                      "OpConstantNull for a constant without Value): reference has %s, resolved module has %s" % (
                                          f["name"], only_ref, only_got))
                elif ir_differs:
                    st["differences_explained_by_ir_difference"] += 1
                else:
                    self.form_finding(case, "form:po-spv:" + name, "form %s: SPIR-V of the resolved module differs from the SPIR-V of the substituted "
                                      "program: constants %s vs %s; function opcode multisets equal: %s" % (
                                          f["name"], only_ref, only_got, x["functions"] == y["functions"]))
        # msl / glsl Compile(PipelineConstants) against the reference
        for b in ("msl", "glsl"):
            r = go.get(b, {})
            if "panic" in r:
                continue                                   # reported by check_case
            ref_err, got_err = b + "_err" in sb, "err" in r
            if ref_err and got_err:
                count(st["backend_rejects_reference_too"], b + "-pc")
                continue
            if ref_err != got_err or "text" not in r:
                if b == "glsl" and ir_differs:
                    st["differences_explained_by_ir_difference"] += 1
                else:
                    self.form_finding(case, "form:%s-pc-error:%s" % (b, name), "form %s: %s.Compile(PipelineConstants): %s; on the substituted program: %s" % (
                        f["name"], b, r.get("err", "ok"), sb.get(b + "_err", "ok")))
                continue
            compare_text(b + "-pc", sb[b], r["text"], b == "glsl")

    def sample(self, case):
        if len(self.ctx.cov["samples"]) < 4 and case.prog["vmap"] and len(case.prog["decls"]) > 1:
            self.ctx.sample({"program": case.prog["src"][:300], "constants": [(k, G.f64frombits(b)) for k, b in case.prog["vmap"]],
                             "resolved": [lit_str(x) for x in case.model["model_po"] or []]})


def msl_value(lit, declared):
    """value a C++ `constant <declared> x = <literal>;` has, as [declared, bits]; None if unknown"""
    if lit is None:
        return None
    t, b = lit
    if t == declared:
        return [t, b]
    if t == G.F32 and declared in (G.I32, G.U32):
        v = G.struct.unpack("<f", G.struct.pack("<I", b))[0]
        if v != v or v in (float("inf"), float("-inf")) or abs(v) >= 2.0 ** 63:
            return None
        return [declared, int(v) & 0xFFFFFFFF]
    if t in (G.I32, G.U32) and declared in (G.I32, G.U32):
        return [declared, b]
    if declared == G.BOOL:
        if t == G.F32:
            return [G.BOOL, 1 if (b & 0x7FFFFFFF) != 0 else 0]
        return [G.BOOL, 1 if b else 0]
    if declared == G.F32 and t in (G.I32, G.U32):
        v = b - (1 << 32) if (t == G.I32 and b >= (1 << 31)) else b
        return G.norm_lit([G.F32, G.f32bits_of_float(float(v))])
    return None


def form_literal(t, v):
    """[ty, bits] of a value of the form family's value maps (all exactly representable)"""
    if t == G.BOOL:
        return [G.BOOL, 1 if v else 0]
    if t == G.F32:
        return G.norm_lit([G.F32, G.f32bits_of_float(float(v))])
    return [t, int(v) & 0xFFFFFFFF]


def short_path(path):
    """last two `Type.Field` steps of a canonical-form path: names the operand that differs"""
    parts = [x for x in path.split("/") if x and not x.startswith(".functions") and not x.startswith("Function.")]
    parts = [x.replace("[len]", "") for x in parts]
    return "/".join(parts[-2:]) if parts else path


def multiset_diff(a, b):
    import collections
    ca, cb = collections.Counter(a), collections.Counter(b)
    return sorted((ca - cb).elements()), sorted((cb - ca).elements())


def lit_str(l):
    if l is None:
        return "none"
    t, b = l
    if t == G.BOOL:
        return "true" if b else "false"
    if t == G.I32:
        return "%di" % (b - (1 << 32) if b >= (1 << 31) else b)
    if t == G.U32:
        return "%du" % b
    return "%rf(0x%08x)" % (G.struct.unpack("<f", G.struct.pack("<I", b))[0], b)


def msl_default_class(e):
    if e is None:
        return "no-init"
    r = init_drop_reason(e)
    if r:
        return "init-dropped:" + r
    if e[0] == 0:
        return "int-literal-above-2^24" if e[1][0] == 1 and e[1][1] > (1 << 24) else "literal"
    return "non-literal-initialiser"


def err_class(e):
    import re
    return re.sub(r"\d+", "N", e)[:60]


def orig_class(path):
    if "StmtCall.Arguments" in path:
        return "call-arguments"
    import re
    if re.search(r"Stmt(If|Loop|Switch|Block)\.", path) or "SwitchCase.Body" in path:
        return "nested-block"
    if re.search(r"Stmt\w+\.(Value|Result|BreakIf|ArrayIndex)$", path) or "StmtReturn.Value" in path or path.endswith("AtomicExchange.Compare"):
        return "statement-pointer"
    if re.search(r"Function\.Expressions/Expression\.Kind/(ExprImage\w+\.(ArrayIndex|Offset|DepthRef|Level|Sample)|ExprImageQuery\.Query/ImageQuerySize\.Level)$", path):
        return "expression-pointer"
    return None


CONV_BITS = [0.0, -0.0, 1.0, -1.0, 0.5, -0.5, 0.99999, 1.5, 2.5, 3.7, -3.7, 7.0, 2147483647.0, 2147483648.0, -2147483648.0,
             -2147483649.0, 4294967295.0, 4294967296.0, 4294967297.5, 1e10, -1e10, 9.223372036854775e18, 9.223372036854776e18,
             -9.223372036854776e18, -9.3e18, 1.8e19, 1e300, -1e300, float("inf"), float("-inf"), float("nan"), 5e-324, 1e-310,
             16777217.0, 0.1, 3.4028234663852886e38, 3.4028235677973366e38, 3.5e38, 1e-46, 1.401298464324817e-45, 7e-46]


def goconv_tie(ctx, tools, exe, rng, n):
    bits = [G.f64bits(x) for x in CONV_BITS]
    for _ in range(n):
        k = rng.below(4)
        if k == 0:
            bits.append(rng.next())
        elif k == 1:
            bits.append(G.f64bits(float(rng.below(1 << 33)) - (1 << 32) + rng.below(8) / 8.0))
        elif k == 2:
            bits.append(G.f64bits((rng.below(1 << 62) - (1 << 61)) * 4.0 * (1 + rng.below(3))))
        else:
            bits.append(G.f64bits((rng.below(1 << 24) + rng.below(1 << 29) / float(1 << 29)) * 2.0 ** (rng.below(280) - 150)))
    rc, res, se = vcheck.jsonl_tool(tools["ovrdrive"], ["goconv"], [{"id": 0, "data": {"bits": [str(b) for b in bits]}}])
    got = res[0]["conv"]
    mo = vcheck.run_model(exe, [{"decls": [], "consts": [], "conv": bits}])[0]["conv"]
    bad = 0
    for b, g, m in zip(bits, got, mo):
        gf32 = G.norm_lit([G.F32, g["f32"]])[1]
        mf32 = G.norm_lit([G.F32, m["f32"]])[1]
        nan = G.f64frombits(b) != G.f64frombits(b)
        same = (g["i32"] == m["i32"] and g["u32"] == m["u32"] and gf32 == mf32 and g["eq1"] == m["eq1"] and g["eq0"] == m["eq0"]
                and int(g["i64not"]) == m["i64not"] and (nan or m["rt"] == b))
        if not same:
            bad += 1
            if bad == 1:
                ctx.violation("Go float64 conversion of %r (bits %d): toolchain %s, model %s" % (G.f64frombits(b), b, g, m),
                              files={"value.txt": "%d\n%r\n%s\n%s\n" % (b, G.f64frombits(b), g, m)}, key="tie:goconv",
                              broken="F64.v go_int32/go_uint32/go_int64/f32_of_f64 vs the Go toolchain")
    return len(bits), bad


def run(ctx):
    import time
    t0 = time.time()
    timing = {}

    def lap(name):
        nonlocal t0
        timing[name] = round(time.time() - t0, 1)
        t0 = time.time()
    tools = vcheck.build_harness(["goextract", "ovrdrive"])
    lap("go_build")
    ok, failed, log = vcheck.proof_step(
        ctx, "Props/C14.v", MODEL_FILES,
        gen_writer=lambda: gen.regenerate(tools, ["overrides"]), extra_obligation_files=["Overrides/GenOblig.v"])
    ctx.cov["trusted_base"] += [
        "Flocq 4 (IEEE754.BinarySingleNaN, Bits) as the definition of binary32/binary64 arithmetic; its Reals axioms are listed above where a theorem depends on them",
        "transcription of WGSL override-expression semantics and of the WebGPU/WebIDL conversion of pipeline-constant values (coq/Overrides/Spec.v header): NaN is a value (false for bool, unconvertible otherwise) although naga's doc comments say 'not set'; id-before-name is naga's documented keying",
        "Go float64 -> int32/int64/uint32 conversion outside the target range is implementation defined: F64.v models gc/amd64 and is compared with the running toolchain on every run (ovrdrive goconv)",
        "translator: harness/cmd/goextract (switchmap/assigns/funcsrc over ir/process_overrides.go, msl pipeline_constants.go) + gen.py gen_overrides -> coq/Gen/OverrideOps.v",
        "extraction: ExtrOcamlBasic only, generic JSON driver ocaml/common/driver.ml; OCaml 4.13.1",
        "harness: harness/cmd/ovrdrive (reflection dump of lowered / resolved modules, backend text), lib/ovrgen.py (generator, WGSL printer, literal parser for `const`/`constant` lines of GLSL/MSL text)",
        "not modelled: the WGSL parser/lowerer outside override initialisers (function bodies are taken as lowered by naga), the text back ends beyond the constant declarations they emit, execution of the generated code (C01/C03-05)",
    ]
    ctx.assumptions = [
        "f32 division in the specification is the correctly rounded quotient (WGSL allows 2.5 ULP)",
        "float literals in generated programs avoid binary32 rounding midpoints of their binary64 value (decimal -> f32 = decimal -> f64 -> f32)",
        "f32 `%` is outside the specification model (reported as unsupported, not compared)",
    ]
    broken = None
    if not ok:
        broken = "Coq development for C14 no longer checks (an obligation regenerated from /repo or a theorem fails): %s" % (failed or log[-800:])
    lap("coq")
    exe = ocamlbuild.build("overrides")
    lap("extract_ocaml")
    rng = ctx.rng.fork("c14")
    nconv, badconv = goconv_tie(ctx, tools, exe, rng.fork("conv"), ctx.scale(400, 20000))
    # programs
    n = ctx.scale(400, 40000)
    cases = []
    if getattr(ctx, "replay", None):
        cases.append(load_replay(ctx.replay))
    else:
        for i in range(n):
            kind = ["unit", "unit", "mixed", "values", "mixed"][i % 5]
            cases.append(Case(i, G.program(rng.fork("p%d" % i), kind)))
        for c in handmade():
            c.id = len(cases)
            cases.append(c)
        for pr in G.matrix_programs(full=ctx.thorough):
            cases.append(Case(len(cases), pr))
        for f in F.forms(full=ctx.thorough):
            for tag, vmap, vals in F.value_maps(f["overrides"]):
                if tag in f["tags"]:
                    cases.append(Case(len(cases), form_prog(f, tag, vmap, vals)))
    jobs = []
    for c in cases:
        data = {"consts": [[k, str(b)] for k, b in c.prog["vmap"]], "paths": ["po", "backends", "glsl", "msl"]}
        if c.prog.get("kind") == "form":
            data["paths"].append("canon")
            data["subst"] = c.prog["subst"]
        jobs.append({"id": c.id, "src": c.prog["src"], "data": data})
    lap("generate")
    res = nagarun.parallel_batches(tools["ovrdrive"], "resolve", jobs, per_job_timeout=20.0, chunk=64)
    lap("naga")
    for c in cases:
        c.go = res.get(c.id)
    live = [c for c in cases if c.go and "lowered" in c.go]
    outs = vcheck.run_model(exe, [model_job(c) for c in live])
    for c, o in zip(live, outs):
        c.model = o
    lap("model")
    ck = Checker(ctx, tools, exe)
    ck.run_all(cases)
    lap("compare_and_blame")
    ctx.cov["timing_s"] = timing
    st = ck.stats
    st["goconv_values"] = nconv
    st["operator_type_classes_exercised"] = sorted(ck.opcov)
    ctx.cov["overrides"] = st
    fs = ck.fstats
    fs["distinct_forms"] = len(ck.fforms)
    fs["expression_forms"] = len(F.E)
    fs["statement_forms"] = len(F.S)
    ctx.cov["form_family"] = fs
    ctx.cov["evaluations"] = st["cases"] + nconv + st["blame_queries"]
    ctx.cov["distinct_nontrivial"] = len(ck.distinct)
    ctx.cov["traces_validated_against_impl"] = st["tie_compared"]
    ctx.cov["rule"] = ("case = generated WGSL module (1-6 overrides of bool/i32/u32/f32 with optional @id, initialisers over literals/consts/"
                       "earlier overrides with every unary and binary operator; derived var<private> initialisers, @workgroup_size arguments, "
                       "function-level lets; nested-block/return/call shapes) x value map (absent, by id, by name, both, NaN, inf, huge, "
                       "fractional, negative, unknown keys); form family = one program per IR expression / statement form and operand "
                       "position with an override before, inside and after it, every override path compared with the substituted "
                       "program; distinct = distinct (declarations, map) pairs compared with the spec; "
                       "non-trivial = the module lowered and every model/implementation observable was compared")
    if st["lower_rejected"] > st["cases"] // 3 and not getattr(ctx, "replay", None):
        ctx.violation("the generator's programs are mostly rejected by naga (%d of %d): the check would be vacuous" % (st["lower_rejected"], st["cases"]),
                      found_input=False, key="tie:generator-rejected", broken="generator vs front end")
    if broken:
        if not ctx.violations:
            ctx.violation(broken + "\n(no generated program on which the implementation departs from the model or from the spec in a new way was found)",
                          found_input=False, broken=broken)
        else:
            ctx.cov["broken_tie"] = broken


def load_replay(d):
    """a Case from the files a violation wrote (bin/check C14 --replay <dir>)"""
    import os
    cj = json.load(open(os.path.join(d, "case.json")))
    src = open(os.path.join(d, "program.wgsl")).read()
    decls = []
    for x in cj["decls"]:
        dd = {"name": x["name"], "id": x["id"], "ty": x["ty"], "init": x["init"], "real_ty": x["ty"]}
        if dd["real_ty"] is None:
            dd["real_ty"] = G.infer_ty(x["init"], decls) if x["init"] is not None else G.F32
        decls.append(dd)
    globs = [{"name": "gv" + "abcd"[i], "ty": g["ty"], "init": g["init"]} for i, g in enumerate(cj["globals"])]
    shape = 1 if any(w in src for w in ("if (", "loop", "fn h", "switch")) else 0
    if "form" in cj:
        fm = cj["form"]
        return Case(0, {"kind": "form", "decls": decls, "consts": [], "globals": [], "wg": [], "lets": [], "src": src,
                        "vmap": [[k, int(b)] for k, b in cj["consts"]], "vclasses": {}, "shape": 1, "form": fm, "vals": fm["vals"],
                        "subst": open(os.path.join(d, "substituted.wgsl")).read()})
    return Case(0, {"kind": "replay", "decls": decls, "consts": [], "globals": globs, "wg": cj["wg"], "lets": cj["lets"],
                    "src": src, "vmap": [[k, int(b)] for k, b in cj["consts"]], "vclasses": {}, "shape": shape})


def form_prog(f, tag, vmap, vals):
    """a Case program of the form family (lib/ovrforms.py)"""
    return {"kind": "form", "decls": F.decls_of(f["overrides"]), "consts": [], "globals": [], "wg": [], "lets": [],
            "src": f["src_of"]("override"), "subst": f["src_of"]("const", vals), "vmap": vmap, "vclasses": {}, "shape": 1,
            "form": {"name": "%s/%s" % (f["name"], tag), "form": f["form"], "operands": f["operands"], "overrides": f["overrides"]},
            "vals": vals}


def handmade():
    """fixed cases: DESIGN section 10 example, the corpus shader's shape, boundary values."""
    out = []

    def mk(decls_src, vmap, shape=0):
        # decls_src: list of (ty|None declared, real_ty, id, init EXPR or None, text)
        decls = []
        lines = []
        for i, (dty, rty, oid, init, txt) in enumerate(decls_src):
            decls.append({"name": G.ovname(i), "id": oid, "ty": dty, "real_ty": rty, "init": init})
            for j in range(len(decls_src)):
                txt = txt.replace("ov%d" % j, G.ovname(j))
            lines.append(txt)
        src = "\n".join(lines) + "\n@group(0) @binding(0) var<storage, read_write> ob: array<i32>;\n@compute @workgroup_size(1)\nfn main() {\n" + \
              "".join("  _ = %s;\n" % G.ovname(i) for i in range(len(decls))) + "}\n"
        out.append(Case(0, {"kind": "hand", "decls": decls, "consts": [], "globals": [], "wg": [], "lets": [], "src": src,
                            "vmap": [[k, G.f64bits(v)] for k, v in vmap], "vclasses": {}, "shape": shape}))
    L = lambda v, s=0: [0, [1, v, s]]
    R = lambda i: [1, i]
    B = lambda op, a, b: [4, op, a, b]
    # DESIGN section 10: a=7; b = a % 4; c = a > 3; d = 1u << 3u
    mk([(G.I32, G.I32, 0, L(7), "@id(0) override ov0: i32 = 7;"),
        (G.I32, G.I32, None, B(G.MOD, R(0), L(4)), "override ov1: i32 = (ov0 % 4);"),
        (G.BOOL, G.BOOL, None, B(G.GT, R(0), L(3)), "override ov2: bool = (ov0 > 3);"),
        (G.U32, G.U32, None, B(G.SHL, L(1, 2), L(3, 2)), "override ov3: u32 = (1u << 3u);")], [])
    # id wins over name; derived override sees the substituted value
    mk([(G.I32, G.I32, 5, L(7), "@id(5) override ov0: i32 = 7;"),
        (G.I32, G.I32, None, B(G.ADD, R(0), L(1)), "override ov1: i32 = (ov0 + 1);")], [("5", 9.0), (G.ovname(0), 100.0)])
    # missing without default
    mk([(G.F32, G.F32, 1300, None, "@id(1300) override ov0: f32;")], [])
    mk([(G.F32, G.F32, 1300, None, "@id(1300) override ov0: f32;")], [("1300", 1.1)])
    mk([(G.F32, G.F32, 1300, None, "@id(1300) override ov0: f32;")], [("1300", float("nan"))])
    return out
