"""C13 — IR-to-IR passes preserve program behaviour.

Deciding method: Coq theorems (Props/C13.v) over Gallina models of the passes of
ir/compact.go (Passes/Compact.v) and of ir/inline.go (Passes/Inline.v) and the reference
semantics IR/Sem.v: a general renumbering lemma, CompactExpressions sound/idempotent/
well-formed, a general lemma for dropping globals (simulation up to a renaming of memory
cells), CompactUnused sound in full (functions and globals) and idempotent, CompactConstants
idempotent, structural theorems about the inliner model.  Ties, on every run:
  C  model vs Go: for every program and every modelled pass, the extracted model applied
     to the dump BEFORE the Go pass must equal the dump AFTER it (all six passes of
     ir/compact.go, on the lowered module and on the raw module the lowerer hands them;
     InlineUserFunctions with the nil policy, lib/c13inline.py);
  V  differential execution (a search, not a proof): BEFORE and AFTER run under the
     extracted reference interpreter on inputs from a boundary pool, for every pass
     including InlineUserFunctions and the DXIL pipeline (sroa, mem2reg, dce);
  idempotence (AFTER2 == AFTER structurally), naga's own validator on AFTER.
Programs: hand-written (lib/c13progs.py), corpus shaders, and a GENERATED family (lib/c13gen.py:
typed random compute programs of lib/wgslgen.py with calls in continuing blocks, multi-selector
switch clauses with calls in case bodies, small inlinable helpers; run on generated buffer contents).
"""
import json
import os

import re

import c13gen
import c13inline
import c13lib as L
import c13progs
import gen
import nagarun
import ocamlbuild
import vcheck

LEVEL = "proof"

MODEL_FILES = ["Passes/Remap.v", "Passes/Compact.v", "Passes/Show.v", "Passes/RemapProofs.v", "Passes/RenameSound.v",
               "Passes/CompactExprProofs.v", "Passes/CompactExprIdem.v", "Passes/CompactUnusedProofs.v", "Passes/Lenient.v",
               "Passes/CellRenameOps.v", "Passes/CellRenameSound.v", "Passes/CompactUnusedIdem.v", "Passes/CompactConstIdem.v",
               "Passes/CompactUnusedFull.v", "Passes/Inline.v", "Passes/InlineProofs.v", "Passes/InlineStale.v"]

LOWERED = ["compact_unused", "compact_expressions", "compact_constants", "compact_types", "reorder_types",
           "dedup_emits", "unused_pipeline", "inline", "dxil_prepare", "stage:sroa", "stage:mem2reg", "stage:dce", "dxil"]
RAW = ["raw:compact_constants", "raw:compact_expressions", "raw:compact_types", "raw:reorder_types",
       "raw:dedup_emits", "raw:lower_pipeline"]
MODELLED = set(L.MODELLED_LOWERED + L.MODELLED_RAW)
# passes after which the reference interpreter needs the "evaluate uncovered loads at use" reading
LENIENT = {"inline", "dxil_prepare", "stage:sroa", "stage:mem2reg", "stage:dce", "dxil"}
# idempotence is claimed for (and required of) the exported passes; sroa/mem2reg/dce are run once by dxil.Compile
NO_IDEMPOTENCE = {"dxil_prepare", "stage:sroa", "stage:mem2reg", "stage:dce", "dxil"}
# failure messages of the reference interpreter that mean "outside the modelled fragment"
UNMODELLED_MARKERS = ("not modelled", "unresolved override", "handle-space global", "literal kind not modelled",
                      "zero:", "abstract")
FUEL = 3000
GEN_FUEL = 6000         # generated programs nest loops


def norm(x):
    """a message / path with every number replaced (stable part of a violation key for generated programs)"""
    return re.sub(r"\d+", "N", str(x))[:90]


def compare_runs(before, after, a, b, gl):
    """a, b: results of the reference interpreter on BEFORE / AFTER (both ok), gl: the inputs by global name.
    -> None if the observable results agree, else (class of disagreement, description)"""
    ga, gb = L.named_globals(before, a), L.named_globals(after, b)
    bad = [n for n in gb if ga.get(n) != gb[n]]
    if bad:
        return "global-differs", "final contents of global '%s' differ: BEFORE %s, AFTER %s" % (
            bad[0], json.dumps(ga.get(bad[0]))[:300], json.dumps(gb[bad[0]])[:300])
    gone = [n for n in ga if n not in gb and gl.get(n) is not None and ga[n] != gl[n]]
    if gone:
        return "removed-global-written", "global '%s' no longer exists AFTER the pass although BEFORE changes its contents from %s to %s" % (
            gone[0], json.dumps(gl[gone[0]])[:300], json.dumps(ga[gone[0]])[:300])
    if a.get("ret") != b.get("ret"):
        return "ret-differs", "returned values differ: BEFORE %s, AFTER %s" % (json.dumps(a.get("ret"))[:300], json.dumps(b.get("ret"))[:300])
    return None


_T0 = [None]


def dbg(msg):
    import sys, time
    if os.environ.get('VERIF_DEBUG'):
        if _T0[0] is None:
            _T0[0] = time.time()
        import resource
        ch = resource.getrusage(resource.RUSAGE_CHILDREN)
        sys.stderr.write('[c13 %6.1fs cpu: self %.1fs children %.1fs] %s\n' % (time.time() - _T0[0], time.process_time(),
                                                                             ch.ru_utime + ch.ru_stime, msg))


def pass_model_name(p):
    return p[4:] if p.startswith("raw:") else p


def reorder_cause(after, after2):
    """The second application permuted Module.Types again although Module.TypeUseOrder did not change:
    ReorderTypes leaves TypeUseOrder in the numbering that preceded its own permutation."""
    try:
        if after2 is not None and after["Types"] != after2["Types"] and after.get("TypeUseOrder") == after2.get("TypeUseOrder") \
                and after.get("TypeUseOrder") and sorted(json.dumps(t, sort_keys=True) for t in after["Types"]) != [] \
                and len(after["Types"]) == len(after2["Types"]):
            return "stale-type-use-order"
    except Exception:
        pass
    return None


def type_chain_cause(after, after2):
    """CompactTypes marks what ANY type of the arena refers to, dead types included: a type referenced only by a type
    that this application removes (the pointee of the pointer-typed parameter of a removed function, ...) survives the
    application and is removed by the next one.  The second application only drops further types."""
    try:
        def sig(t):
            return (t["Inner"]["_t"], t.get("Name"))
        ta, tb = [sig(t) for t in after["Types"]], [sig(t) for t in after2["Types"]]
        if len(tb) < len(ta):
            it = iter(ta)
            if all(any(x == y for y in it) for x in tb):        # tb is a subsequence of ta
                return "dead-type-chain"
    except Exception:
        pass
    return None


def sroa_cause(before, after, msg):
    """sroa rewrites a whole-struct Load into ExprCompose{Components: ...} without setting Type
    (dxil/internal/passes/sroa/sroa.go decompose, step 4): the Compose then names type 0."""
    if not msg.startswith("compose:"):
        return None
    try:
        fb = [e["Function"] for e in before["EntryPoints"]] + before["Functions"]
        fa = [e["Function"] for e in after["EntryPoints"]] + after["Functions"]
        for x, y in zip(fb, fa):
            for h, (eb, ea) in enumerate(zip(x["Expressions"], y["Expressions"])):
                if eb["Kind"]["_t"] == "ExprLoad" and ea["Kind"]["_t"] == "ExprCompose" and ea["Kind"]["Type"] == 0:
                    rec = (y["ExpressionTypes"][h] or {}).get("Handle") if h < len(y["ExpressionTypes"]) else None
                    if rec not in (None, 0):
                        return "compose-type-zero"
    except Exception:
        pass
    return None


def lower_hook_in_sync():
    """The raw-lowering hook repeats the body of LowerWithWarnings up to the trailing passes:
    compare it with the current source text (so that an edit of the lowerer cannot leave the
    hook behind silently).  Returns None if in sync, else a description."""
    base = os.path.join(vcheck.REPO, "wgsl", "internal", "lower")
    try:
        src = open(os.path.join(base, "lower.go")).read().split("\n")
        hook = open(os.path.join(base, "verif_hooks_c13.go")).read().split("\n")
    except OSError as e:
        return "cannot read lowerer or hook: %s" % e
    marker = "l.module.Types = l.registry.GetTypes()"

    def body(lines, start_prefix):
        try:
            a = next(i for i, l in enumerate(lines) if l.startswith(start_prefix))
            b = next(i for i in range(a, len(lines)) if marker in lines[i])
        except StopIteration:
            return None
        return [l.replace("return nil, nil, &l.errors", "return nil, &l.errors") for l in lines[a + 1:b + 1]]
    x = body(src, "func LowerWithWarnings(")
    y = body(hook, "func VerifLowerRaw(")
    if x is None or y is None:
        return "LowerWithWarnings / VerifLowerRaw not found in the expected shape"
    if x != y:
        for i, (p, q) in enumerate(zip(x, y)):
            if p != q:
                return "first differing line %d: lowerer %r, hook %r" % (i + 1, p.strip(), q.strip())
        return "bodies differ in length (%d vs %d lines)" % (len(x), len(y))
    # and the trailing passes are the five the harness replays as raw:lower_pipeline, in this order
    tail = "\n".join(src[next(i for i, l in enumerate(src) if marker in l and i > 200):][:60])
    order = [tail.find("ir.%s(l.module)" % f) for f in ("CompactConstants", "CompactExpressions", "CompactTypes", "ReorderTypes", "DeduplicateEmits")]
    if -1 in order or order != sorted(order):
        return "the lowerer's trailing passes are no longer CompactConstants, CompactExpressions, CompactTypes, ReorderTypes, DeduplicateEmits in this order"
    return None


def run(ctx):
    import gc
    gc.disable()        # hundreds of MB of acyclic parsed dumps: generational collections only rescan them
    _viol = ctx.violation

    seen_gen_keys = set()

    def violation(what, files=None, key=None, **kw):
        files = dict(files or {})
        if key is not None:
            if key.startswith("gen:"):
                # keys of the generated family name a class of failure, not a program: report each class once
                if key in seen_gen_keys:
                    return False
                seen_gen_keys.add(key)
            files["key.txt"] = key + "\n"
        return _viol(what, files=files, key=key, **kw)
    ctx.violation = violation
    tools = vcheck.build_harness(["passdrive", "goextract"])
    ok, failed, log = vcheck.proof_step(ctx, "Props/C13.v", MODEL_FILES,
                                        gen_writer=lambda: gen.regenerate(tools, ["irenums"]))
    ctx.cov["trusted_base"] += [
        "reference semantics coq/IR/Sem.v (run_entry) and decoder coq/IR/Decode.v (shared); Flocq axioms enter through IR/Values (F32)",
        "extraction: ExtrOcamlBasic only; tool passmodel = coq/Extract/PassExtract.v + ocaml/common/driver.ml",
        "harness/cmd/passdrive (reflection dump of *ir.Module before/after each pass) and the add-only hooks "
        "dxil/verif_hooks_c13.go, wgsl/verif_hooks_c13.go, wgsl/internal/lower/verif_hooks_c13.go "
        "(the latter repeats the body of LowerWithWarnings up to the trailing passes)",
        "extraction: tool inlinemodel = coq/Extract/InlineExtract.v + ocaml/common/driver.ml",
        "modelled: ir/compact.go (all six passes), ir/inline.go with the nil policy (Passes/Inline.v); NOT modelled: the DXIL inlining policy, dxil/internal/passes/* (differential search only)",
    ]
    ctx.assumptions = [
        "theorems assume module_wf (operands precede users, statement operands in range): evaluated on every module, see coverage.hypotheses",
        "direction of the theorems: every terminating run of the source is reproduced (same result, same fuel); a dead expression that fails in the source is not evaluated after the pass",
        "compact_unused: proved in full (functions and globals removed; hypotheses module_wf, calls_in_range, gexprs_closed = no EGlobalVariable in the module-scope expression arena: all evaluated on every module, see coverage.hypotheses); the results are those of the source up to the order-preserving renaming of memory cells inside pointer values (identical when the results hold no pointers); inputs without pointers",
        "Load/ArrayLength expressions left without Emit by InlineUserFunctions are read as 'evaluated when used' (Passes/Lenient.v) for differential execution",
    ]
    broken = None
    if not ok:
        broken = "Coq development no longer checks: %s" % (failed or log[-600:])
    stale = lower_hook_in_sync()
    ctx.cov["lower_hook_in_sync"] = stale is None
    if stale:
        ctx.violation("the raw-lowering hook wgsl/internal/lower/verif_hooks_c13.go no longer repeats LowerWithWarnings: %s "
                      "(the raw:* comparisons would not see the modules the trailing passes receive in production)" % stale,
                      found_input=False, key="hook:lower-raw-stale", broken="hook VerifLowerRaw out of date")
    exe = ocamlbuild.build("passmodel")
    W = max(1, (3 * vcheck.NCPU) // 4)       # worker processes (the generated family triples the interpreter work)

    # ---- programs
    rng = ctx.rng.fork("programs")
    corpus = nagarun.corpus()
    ncorpus = ctx.scale(24, len(corpus))
    corp = rng.shuffle(list(corpus))[:ncorpus]
    only = os.environ.get("VERIF_C13_ONLY")
    if only in ("hand", "gen"):
        corp = []
    hand = [("hand/" + n, s) for n, s in c13progs.PROGRAMS] if only != "gen" else []
    # generated family (lib/c13gen.py): "general" programs for the passes of package ir and the DXIL inlining step,
    # loop-free struct-free ones for all passes including the DXIL optimisation stages
    n_general, n_loopfree = (0, 0) if only == "hand" else ctx.scale((48, 24), (400, 200))
    env_n = os.environ.get("VERIF_C13_GEN")
    if env_n:
        n_general, n_loopfree = [int(x) for x in env_n.split(",")]
    gen_cases = c13gen.generate(ctx.rng.fork("generated"), n_general, n_loopfree, inputs_per_prog=ctx.scale(2, 4))
    gen_by_name = {c["name"]: c for c in gen_cases}
    gen_tie_all = set(c["name"] for c in gen_cases[:40])
    programs = hand + corp + [(c["name"], c["src"]) for c in gen_cases]
    passes = LOWERED + RAW
    # quick tier: the single compaction passes other than CompactUnused find nothing to do on a module the lowerer has
    # just compacted; generated programs get them as part of unused_pipeline and raw:lower_pipeline only
    gen_raw = RAW if ctx.thorough else ["raw:lower_pipeline"]
    gen_low = LOWERED if ctx.thorough else [p for p in LOWERED if p not in ("compact_expressions", "compact_constants",
                                                                              "compact_types", "reorder_types", "dedup_emits")]
    gen_general = [p for p in gen_low if p not in c13gen.DXIL_STAGES] + gen_raw

    def passes_of(name):
        c = gen_by_name.get(name)
        if c is None:
            return passes
        return gen_low + gen_raw if c["family"] == "loopfree" else gen_general

    def vkey(kind, p, name, detail=None):
        """violation key: hand-written and corpus programs are named; a generated program is described by the pass and
        the class of failure (numbers removed), never by its index"""
        if name in gen_by_name:
            return "gen:%s:%s" % (kind, ":".join(x for x in (p, norm(detail) if detail is not None else None) if x))
        return ":".join(x for x in (kind, p, detail if detail is not None else name) if x)
    dbg('passdrive: %d programs' % len(programs))
    res = L.run_passdrive(tools["passdrive"], programs, passes_of, workers=W)
    dbg('passdrive done')

    stats = {p: {"same": 0, "changed": 0, "errors": 0, "idempotent": 0, "model_equal": 0, "model_out_of_fragment": 0,
                 "runs_compared": 0, "runs_equal": 0, "after_out_of_fragment": 0} for p in passes}
    model_jobs, model_meta = [], []
    hyp_jobs, hyp_meta = [], []
    usable = {}
    n_lower_fail = 0
    for name, src in programs:
        r = res.get(name)
        if r is None or "before" not in r:
            n_lower_fail += 1
            if r is not None and ("crash" in r or "panic" in r):
                ctx.violation("passdrive crashed on %s: %s" % (name, (r.get("panic") or r.get("crash"))), files={"input.wgsl": src},
                              key=vkey("crash", None, name, (r.get("panic") or r.get("crash")) if name in gen_by_name else None))
            elif name in gen_by_name:
                ctx.violation("naga rejects the valid generated program %s at stage %s: %s" % (name, (r or {}).get("stage"), (r or {}).get("err")),
                              files={"input.wgsl": src}, key=vkey("rejected", None, name, (r or {}).get("err")))
            continue
        usable[name] = r
        oof = L.out_of_model_fragment(r["before"])
        hyp_jobs.append({"pass": "hyp", "ir": L.raw(r["before"])})
        hyp_meta.append(name)
        isgen = name in gen_by_name
        for p in passes_of(name):
            pr = r["passes"].get(p) or {}
            st = stats[p]
            raw = p.startswith("raw:")
            before = pr.get("before", r.get("before_raw")) if raw else pr.get("before", r["before"])
            if "panic" in pr or "panic2" in pr:
                st["errors"] += 1
                ctx.violation("pass %s panics on %s: %s" % (p, name, pr.get("panic") or pr.get("panic2")),
                              files={"input.wgsl": src}, key=vkey("panic", p, name, (pr.get("panic") or pr.get("panic2")) if isgen else None))
                continue
            if "err" in pr or "err2" in pr:
                st["errors"] += 1
                if not raw or before is not None:
                    ctx.violation("pass %s fails on %s: %s" % (p, name, pr.get("err") or pr.get("err2")),
                                  files={"input.wgsl": src}, key=vkey("error", p, name, (pr.get("err") or pr.get("err2")) if isgen else None))
                continue
            if before is None:
                continue
            after = pr.get("after", before)
            st["same" if pr.get("same") else "changed"] += 1
            # idempotence
            if pr.get("after2_same"):
                st["idempotent"] += 1
            elif p not in NO_IDEMPOTENCE:
                cause = reorder_cause(after, pr.get("after2")) if pass_model_name(p) in ("reorder_types", "lower_pipeline", "unused_pipeline") else None
                if cause is None and pass_model_name(p) in ("compact_types", "lower_pipeline", "unused_pipeline"):
                    cause = type_chain_cause(after, pr.get("after2"))
                ctx.violation("pass %s is not idempotent on %s: applying it a second time changes the module again%s"
                              % (p, name, {"stale-type-use-order": " (Module.TypeUseOrder still holds the pre-reordering handles)",
                                           "dead-type-chain": " (a type referenced only by a type the first application removed goes in the second)"}.get(cause, "")),
                              files={"input.wgsl": src, "after.json": json.dumps(after), "after2.json": json.dumps(pr.get("after2"))},
                              key="idem:%s:%s" % (p, cause) if cause else
                              vkey("idem", p, name, (L.first_diff(after, pr.get("after2")) or ("?",))[0] if isgen else None))
            # naga's own validator
            if (not raw or p == "raw:lower_pipeline") and pr.get("validate") and not r.get("validate_before"):
                ctx.violation("module is rejected by ir.Validate after pass %s on %s: %s" % (p, name, pr["validate"][:3]),
                              files={"input.wgsl": src}, key=vkey("validate", p, name, pr["validate"][0] if isgen else None))
            # model tie
            if p in MODELLED:
                if oof:
                    st["model_out_of_fragment"] += 1
                elif isgen and pr.get("same") and not (ctx.thorough and name in gen_tie_all):
                    pass        # the tie is evaluated where the Go pass changed a generated module (thorough: and for
                                # every modelled pass on the first 40 generated programs)
                else:
                    model_jobs.append({"pass": pass_model_name(p), "ir": L.raw(before, True)})
                    model_jobs.append({"pass": "id", "ir": L.raw(after, True)})
                    model_meta.append((name, p))
    ctx.cov["programs"] = len(programs)
    ctx.cov["programs_by_kind"] = {"hand_written": len(hand), "corpus": len(corp), "generated_general": n_general,
                                   "generated_loopfree": n_loopfree, "not_lowered": n_lower_fail}
    feat = {}
    for c in gen_cases:
        for f in c13gen.features(c["prog"]):
            feat[f] = feat.get(f, 0) + 1
    ctx.cov["generated_constructs"] = dict(sorted(feat.items()))

    # ---- C tie
    tie_broken = {}
    dbg('model tie: %d jobs' % len(model_jobs))
    out = L.run_model_parallel(exe, model_jobs, workers=W, lazy=True)
    dbg('model tie done')
    for i, (name, p) in enumerate(model_meta):
        a, b = out[2 * i], out[2 * i + 1]
        if isinstance(a, L.Lazy) and isinstance(b, L.Lazy) and a.text == b.text and a.text.startswith('{"ok":true'):
            stats[p]["model_equal"] += 1       # equal output lines: equal `show` and type_use_order (nothing to parse)
            continue
        if not a.get("ok") or not b.get("ok"):
            tie_broken[(name, p)] = "model tool failed: %s / %s" % (a.get("err"), b.get("err"))
            continue
        if a["show"] == b["show"] and a.get("type_use_order") == b.get("type_use_order"):
            stats[p]["model_equal"] += 1
        else:
            d = L.first_diff(a["show"], b["show"]) or ("type_use_order", a.get("type_use_order"), b.get("type_use_order"))
            tie_broken[(name, p)] = "first difference at %s: model %s, Go %s" % (d[0], json.dumps(d[1])[:200], json.dumps(d[2])[:200])

    # ---- C tie for InlineUserFunctions (Passes/Inline.v, tool inlinemodel): model(BEFORE) == Go AFTER, Unsupported
    #      exactly where Go returns an error; counts the call sites inside the "simple" class; Passes/InlineStale.v
    dbg('inline tie')
    exe_inl = ocamlbuild.build("inlinemodel")
    inl_stats, inl_broken = c13inline.run_tie(ctx, exe_inl, usable, passes_of, vkey, W)
    for name, why in inl_broken.items():
        tie_broken[(name, "inline")] = why
    stats["inline"]["model_equal"] = inl_stats["model_equal"]
    stats["inline"]["model_out_of_fragment"] = inl_stats["model_out_of_fragment"]
    ctx.cov["inline_model"] = {k: v for k, v in inl_stats.items() if k not in ("keys", "stale")}
    ctx.cov["inline_model"]["stale_operand_modules"] = len(inl_stats["stale"])
    stale_seen = set()
    for name in sorted(inl_stats["stale"]):
        for kind in inl_stats["stale"][name]:
            if kind in stale_seen:
                continue
            stale_seen.add(kind)
            ctx.violation("pass inline leaves the operands of an inlined %s statement in the callee's numbering (program %s): "
                          "remapInlineStatementHandles does not rewrite them, so after inlining they name the caller's expressions "
                          "of the same number instead of the copies of the callee's expressions (Passes/InlineStale.v: rstmt_keeps_other / "
                          "rstmt_keeps_compare; the model reproduces Go's output, so the model tie stays quiet)" % (kind, name),
                          files={"input.wgsl": dict(programs)[name],
                                 "before.json": json.dumps((usable[name]["passes"].get("inline") or {}).get("before", usable[name]["before"])),
                                 "after.json": json.dumps((usable[name]["passes"].get("inline") or {}).get("after"))},
                          key="inline:unremapped:%s" % kind)
    dbg('inline tie done')

    # ---- hypotheses of the theorems on the modules seen
    dbg('hypotheses: %d jobs' % len(hyp_jobs))
    hyp = {"modules": 0, "module_wf": 0, "module_known": 0, "calls_in_range": 0, "calls_closed": 0, "no_global_removed": 0,
           "gexprs_closed": 0, "compact_unused_sound_applies": 0}
    for name, h in zip(hyp_meta, L.run_model_parallel(exe, hyp_jobs, workers=W)):
        if not h.get("ok"):
            continue
        hyp["modules"] += 1
        for k in ("module_wf", "module_known", "calls_in_range", "calls_closed", "no_global_removed", "gexprs_closed"):
            hyp[k] += 1 if h["hyp"].get(k) else 0
        # all three hypotheses of c13_compact_unused_sound hold on this module
        hyp["compact_unused_sound_applies"] += 1 if all(h["hyp"].get(k) for k in ("module_wf", "calls_in_range", "gexprs_closed")) else 0
        if not h["hyp"].get("calls_closed") and not L.out_of_model_fragment(usable[name]["before"]):
            tie_broken[(name, "compact_unused")] = tie_broken.get((name, "compact_unused")) or \
                "side condition calls_closed of c13_compact_unused_sound_partial is false on this module"
    ctx.cov["hypotheses"] = hyp
    dbg('hypotheses done')

    # ---- V: differential execution
    run_jobs, run_meta = [], []
    rngi = ctx.rng.fork("inputs")
    modes = ["small", "pool"] if not ctx.thorough else ["small", "pool", "small", "pool"]
    srcs = dict(programs)
    for name, r in usable.items():
        src = srcs[name]
        gcase = gen_by_name.get(name)
        for p in passes_of(name):
            pr = r["passes"].get(p) or {}
            raw = p.startswith("raw:")
            if "err" in pr or "panic" in pr or pr.get("same"):
                continue
            before = r.get("before_raw_fin") if raw else pr.get("before", r["before"])
            after = pr.get("after_fin") if raw else pr.get("after")
            if before is None or after is None:
                continue
            after_names = [g["Name"] for g in after["GlobalVariables"]]
            if len(after["EntryPoints"]) != len(before["EntryPoints"]):
                ctx.violation("pass %s changes the number of entry points of %s" % (p, name), files={"input.wgsl": src},
                              key=vkey("eps", p, name, "" if gcase else None))
                continue
            for epi, ep in enumerate(before["EntryPoints"]):
                if gcase:
                    inputs = [(i["globals"], i["args"]) for i in gcase["inputs"]]
                else:
                    inputs = []
                    for mi, mode in enumerate(modes):
                        try:
                            inputs.append(L.make_inputs(before, ep, rngi.fork("%s/%s/%d/%d" % (name, p, epi, mi)), mode))
                        except (L.Unsupported, IndexError, KeyError, TypeError):
                            continue        # ill-formed or unsupported module: nothing to run (the model tie judges it)
                fuel = GEN_FUEL if gcase else FUEL
                for gl, args in inputs:
                    len_ = p in LENIENT
                    run_jobs.append(L.run_job(before, epi, gl, args, fuel, len_))
                    run_jobs.append(L.run_job(after, epi, gl, args, fuel, len_))
                    run_meta.append((name, p, epi, ep["Name"], gl, args, after_names))
    dbg('differential runs: %d jobs' % len(run_jobs))
    rout = L.run_grouped(exe, run_jobs, workers=W)
    dbg('differential runs done')

    def judge_after(b, job_after, fuel):
        """AFTER did not produce a result although BEFORE did -> None (not comparable: outside the fragment, needs
        more fuel) or (class, message)"""
        msg = b.get("msg", "")
        if b.get("kind") == "fail" and any(m in msg for m in UNMODELLED_MARKERS):
            return None
        if b.get("kind") == "limit":
            return None
        if b.get("kind") == "outoffuel":
            # inlined bodies and wrapper loops consume more statement fuel: judge with 10x the fuel
            j = dict(job_after)
            j["fuel"] = 10 * fuel
            b2 = L.run_model_parallel(exe, [j], workers=1)[0]
            if b2.get("ok") or b2.get("kind") != "outoffuel":
                return None                               # terminated with more fuel: not compared (rare)
            return "after-no-result", "no result within 10x the fuel BEFORE needed"
        return "after-fails", msg

    diff_found = set()
    gen_diffs = []      # disagreements on generated programs, classified and reported below
    before_status = {"ok": 0, "fail": 0, "outoffuel": 0, "decode": 0}
    gen_before_status = {"ok": 0, "fail": 0, "outoffuel": 0, "decode": 0}
    for i, (name, p, epi, epname, gl, args, after_names) in enumerate(run_meta):
        a, b = rout[2 * i], rout[2 * i + 1]
        r = usable[name]
        pr = r["passes"][p]
        raw = p.startswith("raw:")
        before = r.get("before_raw_fin") if raw else pr.get("before", r["before"])
        after = pr.get("after_fin") if raw else pr.get("after")
        bs = gen_before_status if name in gen_by_name else before_status
        bs["ok" if a.get("ok") else a.get("kind", "fail")] = bs.get("ok" if a.get("ok") else a.get("kind", "fail"), 0) + 1
        if not a.get("ok"):
            continue
        st = stats[p]
        what = kind = None
        fuel = GEN_FUEL if name in gen_by_name else FUEL
        if not b.get("ok"):
            j = judge_after(b, run_jobs[2 * i + 1], fuel)
            if j is None:
                st["after_out_of_fragment"] += 1
                continue
            kind, msg = j
            what = "BEFORE terminates with a result, AFTER %s (%s)" % (b.get("kind"), msg)
            if p == "stage:sroa" and b.get("kind") == "fail" and sroa_cause(before, after, msg):
                diff_found.add((name, p))
                if ("*", p) not in diff_found:
                    diff_found.add(("*", p))
                    ctx.violation("pass stage:sroa produces an ill-typed expression on %s (and on every function with a whole-struct load of a "
                                  "decomposed local): the Load is rewritten to ExprCompose without Type, so it names type 0; the reference "
                                  "interpreter stops with '%s'" % (name, msg),
                                  files={"input.wgsl": srcs[name], "after.json": json.dumps(after)},
                                  key="diff:stage:sroa:compose-type-zero")
                st["after_out_of_fragment"] += 1
                continue
        else:
            st["runs_compared"] += 1
            d = compare_runs(before, after, a, b, gl)
            if d:
                kind, what = d
            else:
                st["runs_equal"] += 1
        if what and p == "dxil" and any((name, q) in diff_found for q in ("dxil_prepare", "stage:sroa", "stage:mem2reg", "stage:dce")):
            continue      # the end-to-end pipeline differs because one of its stages (already reported) does
        if what and (name, p) not in diff_found:
            diff_found.add((name, p))
            if name in gen_by_name:
                gen_diffs.append((name, p, epi, epname, gl, args, kind, what, before, after))
                continue
            src = srcs[name]
            ctx.violation("pass %s changes the behaviour of entry point %s of %s: %s" % (p, epname, name, what),
                          files={"input.wgsl": src, "before.json": json.dumps(before), "after.json": json.dumps(after),
                                 "inputs.json": json.dumps({"ep": epi, "globals": gl, "args": args, "fuel": FUEL})},
                          key="diff:%s:%s" % (p, name), broken=tie_broken.get((name, p)))
    ctx.cov["reference_runs_before"] = before_status
    ctx.cov["reference_runs_before_generated"] = gen_before_status

    # ---- disagreements on generated programs: attribute to a recorded finding where a recogniser applies, else
    #      shrink the program while the same pass still disagrees in the same way; key = pass + class + constructs left
    def outcome(src, p, gl, args, epi=0):
        """class of disagreement of pass p on program text src with these inputs ("agree", "same", "rejected", ...)"""
        r1 = L.run_passdrive(tools["passdrive"], [("x", src)], [p], workers=1).get("x") or {}
        pr = (r1.get("passes") or {}).get(p) or {}
        if "before" not in r1 or "err" in pr or "panic" in pr:
            return "rejected"
        if pr.get("same"):
            return "same"
        raw = p.startswith("raw:")
        before = r1.get("before_raw_fin") if raw else pr.get("before", r1["before"])
        after = pr.get("after_fin") if raw else pr.get("after")
        if before is None or after is None:
            return "rejected"
        jobs = [L.run_job(before, epi, gl, args, GEN_FUEL, p in LENIENT), L.run_job(after, epi, gl, args, GEN_FUEL, p in LENIENT)]
        a, b = L.run_model_parallel(exe, jobs, workers=1)
        if not a.get("ok"):
            return "before-" + str(a.get("kind"))
        if not b.get("ok"):
            j = judge_after(b, jobs[1], GEN_FUEL)
            return j[0] if j else "incomparable"
        d = compare_runs(before, after, a, b, gl)
        return d[0] if d else "agree"

    shrinks_left = [ctx.scale(4, 12)]
    shrunk = {}          # (program, class) -> shrunk AST
    order = {p: i for i, p in enumerate(passes)}
    n_per_pass = {}
    for g in gen_diffs:
        n_per_pass[g[1]] = n_per_pass.get(g[1], 0) + 1
    reported_pass = set()
    for (name, p, epi, epname, gl, args, kind, what, before, after) in sorted(gen_diffs, key=lambda g: (order[g[1]], g[0])):
        case = gen_by_name[name]
        if p == "stage:dce":
            cause = c13gen.dce_cause(before, after)
            if cause:
                ctx.violation("pass stage:dce changes the behaviour of generated program %s (%s): %s" % (name, cause, what),
                              files={"input.wgsl": case["src"], "before.json": json.dumps(before), "after.json": json.dumps(after),
                                     "inputs.json": json.dumps({"ep": epi, "globals": gl, "args": args, "fuel": GEN_FUEL})},
                              key="gen:diff:stage:dce:%s" % cause)
                continue
        if p == "stage:mem2reg":
            cause = c13gen.mem2reg_cause(before, after)
            if cause:
                ctx.violation("pass stage:mem2reg changes the behaviour of generated program %s (%s): %s" % (name, cause, what),
                              files={"input.wgsl": case["src"], "before.json": json.dumps(before), "after.json": json.dumps(after),
                                     "inputs.json": json.dumps({"ep": epi, "globals": gl, "args": args, "fuel": GEN_FUEL})},
                              key="gen:diff:stage:mem2reg:%s" % cause)
                continue
        if p in reported_pass:
            continue          # one report per pass: the first disagreeing program (in program order) stands for the others
        reported_pass.add(p)
        small = None
        for (n2, k2), sp in shrunk.items():
            # the same program already shrunk for an earlier pass (compact_unused -> unused_pipeline, inline -> dxil_prepare)
            if n2 == name and k2 == kind and outcome(c13gen.wgslgen.render(sp), p, gl, args, epi) == kind:
                small = sp
        note = ""
        if small is None and shrinks_left[0] > 0:
            shrinks_left[0] -= 1
            dbg("shrinking %s for %s (%s)" % (name, p, kind))
            small = c13gen.shrink_failure(case, lambda _pr, s_: outcome(s_, p, gl, args, epi), kind, c13gen.Budget(ctx.scale(160, 600)))
            shrunk[(name, kind)] = small
            dbg("shrinking done")
        elif small is None:
            small, note = case["prog"], " (not shrunk: shrinking budget of this run used up)"
        feats = c13gen.key_features(small)
        key = "gen:diff:%s:%s:%s" % (p, kind, "+".join(feats))
        ssrc = c13gen.wgslgen.render(small)
        ctx.violation("pass %s changes the behaviour of entry point %s of a generated program (%s, %d generated program(s) disagree under this "
                      "pass); shrunk to a program with %s%s: %s" % (p, epname, name, n_per_pass[p], ", ".join(feats), note, what),
                      files={"input.wgsl": ssrc, "original.wgsl": case["src"], "before.json": json.dumps(before), "after.json": json.dumps(after),
                             "inputs.json": json.dumps({"ep": epi, "globals": gl, "args": args, "fuel": GEN_FUEL})},
                      key=key, broken=tie_broken.get((name, p)))
    ctx.cov["generated_disagreements"] = len(gen_diffs)

    # ---- broken ties without a concrete behavioural difference
    for (name, p), why in sorted(tie_broken.items()):
        if (name, p) in diff_found:
            continue
        src = srcs[name]
        ctx.violation("the Gallina model of %s (%s) and the Go pass disagree on %s: %s\n"
                      "(the theorems of Props/C13.v are about the model; no input on which BEFORE and AFTER behave differently was found)"
                      % (p, "Passes/Inline.v" if p == "inline" else "Passes/Compact.v", name, why), files={"input.wgsl": src}, found_input=False,
                      key=vkey("model", p, name, "/".join(x for x in why.split(": model")[0].split(" at ")[-1].split("/") if x and not x.isdigit())
                               if name in gen_by_name else None), broken="correspondence model/implementation for %s" % p)
    if broken:
        ctx.violation(broken, found_input=False, broken=broken, key="coq")

    ctx.cov["passes"] = stats
    nmodel = sum(s["model_equal"] for s in stats.values())       # includes the inline model tie (stats["inline"])
    nruns = sum(s["runs_compared"] for s in stats.values())
    ctx.cov["evaluations"] = len(model_meta) + len(run_meta) + inl_stats["compared"]
    ctx.cov["distinct_nontrivial"] = sum(1 for (n, p) in model_meta if not usable[n]["passes"][p].get("same")) + nruns \
        + inl_stats["changed_by_go"]
    ctx.cov["traces_validated_against_impl"] = nmodel
    ctx.cov["rule"] = ("evaluation = (program, pass) model comparison or (program, pass, entry point, input) differential run; "
                       "non-trivial = the Go pass changed the module (model comparisons) / both interpreter runs terminated with a result (runs)")
    for (n, p) in model_meta[:3]:
        ctx.sample({"program": n, "pass": p, "go_changed_module": not usable[n]["passes"][p].get("same")})
